import BreezyVerif.Model.C03
import BreezyVerif.Lemmas.C33
/-
C03 — helper lemmas: association lists, the ancestry walk, the revision search.
-/
namespace BreezyVerif.C03

open BreezyVerif.C33 (PMap parentsOf parentsL bfs Reach)

/-! ### association lists -/

section Assoc
variable {α β : Type} [DecidableEq α]

theorem get_append_some {a b : List (α × β)} {k : α} {v : β} (h : get a k = some v) :
    get (a ++ b) k = some v := by
  induction a with
  | nil => simp [get] at h
  | cons x xs ih =>
    obtain ⟨k', v'⟩ := x
    simp only [List.cons_append, get] at h ⊢
    split
    · simp_all
    · simp_all

theorem get_append_none {a b : List (α × β)} {k : α} (h : get a k = none) :
    get (a ++ b) k = get b k := by
  induction a with
  | nil => rfl
  | cons x xs ih =>
    obtain ⟨k', v'⟩ := x
    simp only [List.cons_append, get] at h ⊢
    split
    · simp_all
    · simp_all

theorem get_mem {a : List (α × β)} {k : α} {v : β} (h : get a k = some v) : (k, v) ∈ a := by
  induction a with
  | nil => simp [get] at h
  | cons x xs ih =>
    obtain ⟨k', v'⟩ := x
    simp only [get] at h
    split at h
    · simp_all
    · simp [ih h]

theorem get_isSome_of_mem {a : List (α × β)} {k : α} {v : β} (h : (k, v) ∈ a) : (get a k).isSome = true := by
  induction a with
  | nil => cases h
  | cons x xs ih =>
    obtain ⟨k', v'⟩ := x
    simp only [get]
    split
    · rfl
    · rcases List.mem_cons.mp h with h | h
      · simp_all
      · exact ih h

/-- lookup in `l.filterMap (k ↦ (f k).map (k, ·))` -/
theorem get_filterMap_keyed (f : α → Option β) (l : List α) (k : α) :
    get (l.filterMap fun x => (f x).map fun v => (x, v)) k = if k ∈ l then f k else none := by
  induction l with
  | nil => simp [get]
  | cons x xs ih =>
    simp only [List.filterMap_cons]
    cases hfx : f x with
    | none =>
      simp only [Option.map_none, ih, List.mem_cons]
      by_cases hk : k = x
      · subst hk; simp [hfx]
      · simp [hk]
    | some v =>
      simp only [Option.map_some, get, ih, List.mem_cons]
      by_cases hk : x = k
      · subst hk; simp [hfx]
      · have : ¬ k = x := fun h => hk h.symm
        simp [hk, this]

end Assoc

/-! ### the revision graph -/

theorem parentsOf_graph (r : Repo) (k : Rev) :
    parentsOf (graph r) k = (get r.revs k).map (·.parents) := by
  unfold graph
  induction r.revs with
  | nil => rfl
  | cons x xs ih =>
    obtain ⟨k', v⟩ := x
    simp only [List.map_cons, parentsOf, get]
    split <;> simp_all

theorem hasRev_iff (r : Repo) (k : Rev) : hasRev r k = true ↔ ∃ rec, get r.revs k = some rec := by
  unfold hasRev
  cases get r.revs k <;> simp

/-! ### the walk -/

theorem anc_total' (g : PMap) (start : List Rev) : (bfs g start []).isSome = true := by
  obtain ⟨s, hs, _⟩ := C33.bfs_inv g start []
  simp [hs]

theorem mem_reach (g : PMap) (start : List Rev) (k : Rev) :
    k ∈ reach g start ↔ Reach g [] start k := by
  obtain ⟨s, hs, hinv⟩ := C33.bfs_inv g start []
  unfold reach
  rw [hs]
  exact (C33.inv_final hinv).2 k

theorem reach_mono {g : PMap} {s s' : List Rev} (h : ∀ k ∈ s, k ∈ s') {k : Rev}
    (hr : Reach g [] s k) : Reach g [] s' k := by
  induction hr with
  | base hk => exact Reach.base (h _ hk)
  | step _ hns hps hk ih => exact Reach.step ih hns hps hk

theorem reach_trans {g : PMap} {s : List Rev} {j k : Rev}
    (hj : Reach g [] s j) (hk : Reach g [] [j] k) : Reach g [] s k := by
  induction hk with
  | base hk => simp at hk; subst hk; exact hj
  | step _ hns hps hk ih => exact Reach.step ih hns hps hk

/-- membership in the source-present ancestry -/
theorem mem_anc (src : Repo) (rev k : Rev) :
    k ∈ anc src rev ↔ Reach (graph src) [] [rev] k ∧ hasRev src k = true := by
  unfold anc
  simp [List.mem_filter, mem_reach]

end BreezyVerif.C03

namespace BreezyVerif.C03

open BreezyVerif.C33 (PMap parentsOf parentsL bfs Reach)

theorem rev_mem_anc {src : Repo} {rev : Rev} (h : hasRev src rev = true) : rev ∈ anc src rev :=
  (mem_anc src rev rev).mpr ⟨Reach.base (by simp), h⟩

/-- a present parent of a member of the ancestry is in the ancestry -/
theorem parent_mem_anc {src : Repo} {rev m p : Rev} {rec : RevRec} (hm : m ∈ anc src rev)
    (hrec : get src.revs m = some rec) (hp : p ∈ rec.parents) (hps : hasRev src p = true) :
    p ∈ anc src rev := by
  rw [mem_anc] at hm ⊢
  refine ⟨Reach.step hm.1 (by simp) ?_ hp, hps⟩
  rw [parentsOf_graph, hrec]; rfl

theorem mem_parentsL_graph {src : Repo} {m p : Rev} :
    p ∈ parentsL (graph src) m ↔ ∃ rec, get src.revs m = some rec ∧ p ∈ rec.parents := by
  unfold parentsL
  rw [parentsOf_graph]
  cases get src.revs m <;> simp

/-! ### the revision search -/

theorem mem_missing_true (src tgt : Repo) (rev k : Rev) :
    k ∈ missing true src tgt rev ↔ k ∈ anc src rev ∧ hasRev tgt k = false := by
  simp [missing, List.mem_filter]

theorem mem_missing_false (src tgt : Repo) (rev k : Rev) :
    k ∈ missing false src tgt rev ↔
      k ∈ anc src rev ∧ ¬ Reach (graph src) [] ((anc src rev).filter (hasRev tgt)) k := by
  simp [missing, List.mem_filter, mem_reach]

theorem missing_sub_anc {fg : Bool} {src tgt : Repo} {rev k : Rev} (h : k ∈ missing fg src tgt rev) :
    k ∈ anc src rev := by
  cases fg
  · exact ((mem_missing_false ..).mp h).1
  · exact ((mem_missing_true ..).mp h).1

theorem missing_not_in_target {fg : Bool} {src tgt : Repo} {rev k : Rev} (h : k ∈ missing fg src tgt rev) :
    hasRev tgt k = false := by
  cases fg
  · have h' := (mem_missing_false ..).mp h
    cases ht : hasRev tgt k with
    | false => rfl
    | true =>
      exact absurd (Reach.base (List.mem_filter.mpr ⟨h'.1, ht⟩)) h'.2
  · exact ((mem_missing_true ..).mp h).2

theorem closed_parent {tgt src : Repo} (hc : closed tgt src = true) {k p : Rev} {rec : RevRec}
    (hrec : get src.revs k = some rec) (ht : hasRev tgt k = true) (hp : p ∈ rec.parents)
    (hps : hasRev src p = true) : hasRev tgt p = true := by
  unfold closed at hc
  have := List.all_eq_true.mp hc (k, rec) (get_mem hrec)
  simp only [Bool.or_eq_true, Bool.not_eq_true', List.all_eq_true] at this
  rcases this with h | h
  · simp [ht] at h
  · rcases h p hp with h | h
    · simp [hps] at h
    · exact h

/-- in a closed target, everything source-present behind revisions the target has is in the target -/
theorem closed_reach {tgt src : Repo} (hc : closed tgt src = true) {start : List Rev}
    (hstart : ∀ k ∈ start, hasRev tgt k = true) {k : Rev}
    (hr : Reach (graph src) [] start k) : hasRev src k = true → hasRev tgt k = true := by
  induction hr with
  | base hk => exact fun _ => hstart _ hk
  | @step j k ps _ _ hps hk ih =>
    intro hsk
    rw [parentsOf_graph] at hps
    cases hrec : get src.revs j with
    | none => simp [hrec] at hps
    | some rec =>
      simp only [hrec, Option.map_some, Option.some.injEq] at hps
      subst hps
      exact closed_parent hc hrec (ih ((hasRev_iff ..).mpr ⟨rec, hrec⟩)) hk hsk

/-- under closure the search returns exactly the source ancestry the target lacks -/
theorem mem_missing_closed {tgt src : Repo} (hc : closed tgt src = true) (fg : Bool) (rev k : Rev) :
    k ∈ missing fg src tgt rev ↔ k ∈ anc src rev ∧ hasRev tgt k = false := by
  cases fg
  · constructor
    · intro h; exact ⟨missing_sub_anc h, missing_not_in_target h⟩
    · rintro ⟨ha, ht⟩
      refine (mem_missing_false ..).mpr ⟨ha, fun hr => ?_⟩
      have := closed_reach hc (fun k hk => (List.mem_filter.mp hk).2) hr ((mem_anc ..).mp ha).2
      simp [ht] at this
  · exact mem_missing_true ..

/-- a member of the ancestry is sent or lies behind (or is) a revision the target has -/
theorem anc_cases {fg : Bool} {src tgt : Repo} {rev k : Rev} (hk : k ∈ anc src rev) :
    k ∈ missing fg src tgt rev ∨
      (fg = true ∧ hasRev tgt k = true) ∨
      (fg = false ∧ Reach (graph src) [] ((anc src rev).filter (hasRev tgt)) k) := by
  cases fg
  · by_cases hr : Reach (graph src) [] ((anc src rev).filter (hasRev tgt)) k
    · exact Or.inr (Or.inr ⟨rfl, hr⟩)
    · exact Or.inl ((mem_missing_false ..).mpr ⟨hk, hr⟩)
  · cases ht : hasRev tgt k
    · exact Or.inl ((mem_missing_true ..).mpr ⟨hk, ht⟩)
    · exact Or.inr (Or.inl ⟨rfl, rfl⟩)

/-- … and under closure (or with find_ghosts) "behind" means "in the target" -/
theorem anc_cases_closed {fg : Bool} {src tgt : Repo} (hc : fg = true ∨ closed tgt src = true)
    {rev k : Rev} (hk : k ∈ anc src rev) :
    k ∈ missing fg src tgt rev ∨ hasRev tgt k = true := by
  rcases anc_cases (fg := fg) (tgt := tgt) hk with h | ⟨_, h⟩ | ⟨hfg, h⟩
  · exact Or.inl h
  · exact Or.inr h
  · rcases hc with hc | hc
    · simp [hfg] at hc
    · exact Or.inr (closed_reach hc (fun k hk => (List.mem_filter.mp hk).2) h ((mem_anc ..).mp hk).2)

end BreezyVerif.C03

namespace BreezyVerif.C03

open BreezyVerif.C33 (PMap parentsOf parentsL bfs Reach)

/-! ### what `copy` / `fetch` produce -/

theorem copy_revs_get (x : Exclusion) (src tgt : Repo) (m : List Rev) (k : Rev) :
    get (copy x src tgt m).revs k =
      match get tgt.revs k with
      | some v => some v
      | none => if k ∈ m then get src.revs k else none := by
  unfold copy
  cases h : get tgt.revs k with
  | some v => exact get_append_some h
  | none => simp only [get_append_none h, get_filterMap_keyed]

theorem copy_invs_get (x : Exclusion) (src tgt : Repo) (m : List Rev) (k : Rev) :
    get (copy x src tgt m).invs k =
      match get tgt.invs k with
      | some v => some v
      | none => if k ∈ m then get src.invs k else none := by
  unfold copy
  cases h : get tgt.invs k with
  | some v => exact get_append_some h
  | none => simp only [get_append_none h, get_filterMap_keyed]

theorem get_filterMap_keyOf {ε κ β : Type} [DecidableEq κ] (key : ε → κ) (f : κ → Option β) (l : List ε) (k : κ) :
    get (l.filterMap fun e => (f (key e)).map fun v => (key e, v)) k =
      if k ∈ l.map key then f k else none := by
  have : (l.filterMap fun e => (f (key e)).map fun v => (key e, v)) =
      (l.map key).filterMap fun x => (f x).map fun v => (x, v) := by
    rw [List.filterMap_map]; rfl
  rw [this, get_filterMap_keyed]

theorem copy_texts_get (x : Exclusion) (src tgt : Repo) (m : List Rev) (k : TextKey) :
    get (copy x src tgt m).texts k =
      match get tgt.texts k with
      | some v => some v
      | none => if k ∈ (streamEntries x src m).map Entry.key then get src.texts k else none := by
  unfold copy
  cases h : get tgt.texts k with
  | some v => exact get_append_some h
  | none =>
    simp only [get_append_none h]
    have := get_filterMap_keyOf Entry.key (get src.texts) (streamEntries x src m) k
    by_cases hk : k ∈ (streamEntries x src m).map Entry.key
    · rw [if_pos hk] at this ⊢; exact this
    · rw [if_neg hk] at this ⊢; exact this

/-- the shape of a successful fetch -/
theorem fetch_ok {x : Exclusion} {ext fg : Bool} {src tgt t' : Repo} {rev : Rev}
    (h : fetch x ext fg src tgt rev = .ok t') :
    (hasRev src rev = true ∨ (fg = false ∧ hasRev tgt rev = true)) ∧
    streamable x src (missing fg src tgt rev) = true ∧
    t'.revs = (copy x src tgt (missing fg src tgt rev)).revs ∧
    t'.texts = (copy x src tgt (missing fg src tgt rev)).texts ∧
    ∃ extra, t'.invs = (copy x src tgt (missing fg src tgt rev)).invs ++ extra := by
  unfold fetch at h
  split at h
  · cases h
  · rename_i h1
    split at h
    · cases h
    · rename_i h2
      simp only [Except.ok.injEq] at h
      refine ⟨?_, by simpa using h2, ?_, ?_, ?_⟩
      · cases hs : hasRev src rev <;> cases hf : fg <;> cases ht : hasRev tgt rev <;> simp_all
      · subst h; cases ext <;> rfl
      · subst h; cases ext <;> rfl
      · subst h
        cases ext
        · exact ⟨[], by simp⟩
        · exact ⟨_, rfl⟩

theorem fetch_revs_get {x : Exclusion} {ext fg : Bool} {src tgt t' : Repo} {rev : Rev}
    (h : fetch x ext fg src tgt rev = .ok t') (k : Rev) :
    get t'.revs k =
      match get tgt.revs k with
      | some v => some v
      | none => if k ∈ missing fg src tgt rev then get src.revs k else none := by
  rw [(fetch_ok h).2.2.1]; exact copy_revs_get ..

theorem fetch_texts_get {x : Exclusion} {ext fg : Bool} {src tgt t' : Repo} {rev : Rev}
    (h : fetch x ext fg src tgt rev = .ok t') (k : TextKey) :
    get t'.texts k =
      match get tgt.texts k with
      | some v => some v
      | none => if k ∈ (streamEntries x src (missing fg src tgt rev)).map Entry.key then get src.texts k else none := by
  rw [(fetch_ok h).2.2.2.1]; exact copy_texts_get ..

/-- inventories: what the target had stays; an inventory of a sent revision arrives -/
theorem fetch_invs_old {x : Exclusion} {ext fg : Bool} {src tgt t' : Repo} {rev : Rev}
    (h : fetch x ext fg src tgt rev = .ok t') {k : Rev} {i : Inv} (hi : get tgt.invs k = some i) :
    get t'.invs k = some i := by
  obtain ⟨extra, he⟩ := (fetch_ok h).2.2.2.2
  rw [he]
  apply get_append_some
  rw [copy_invs_get, hi]

theorem fetch_invs_new {x : Exclusion} {ext fg : Bool} {src tgt t' : Repo} {rev : Rev}
    (h : fetch x ext fg src tgt rev = .ok t') {k : Rev} {i : Inv} (hn : get tgt.invs k = none)
    (hk : k ∈ missing fg src tgt rev) (hi : get src.invs k = some i) :
    get t'.invs k = some i := by
  obtain ⟨extra, he⟩ := (fetch_ok h).2.2.2.2
  rw [he]
  apply get_append_some
  rw [copy_invs_get, hn]
  simp [hk, hi]

theorem streamable_inv {x : Exclusion} {src : Repo} {m : List Rev} (h : streamable x src m = true)
    {k : Rev} (hk : k ∈ m) : ∃ i, get src.invs k = some i := by
  unfold streamable at h
  simp only [Bool.and_eq_true, List.all_eq_true] at h
  have := h.1 k hk
  cases hh : get src.invs k with
  | none => simp [hh] at this
  | some i => exact ⟨i, rfl⟩

theorem streamable_text {x : Exclusion} {src : Repo} {m : List Rev} (h : streamable x src m = true)
    {e : Entry} (he : e ∈ streamEntries x src m) : ∃ c, get src.texts e.key = some c := by
  unfold streamable at h
  simp only [Bool.and_eq_true, List.all_eq_true] at h
  have := h.2 e he
  cases hh : get src.texts e.key with
  | none => simp [hh] at this
  | some c => exact ⟨c, rfl⟩

end BreezyVerif.C03

namespace BreezyVerif.C03

open BreezyVerif.C33 (PMap parentsOf parentsL bfs Reach)

/-! ### the content hypotheses -/

theorem agreeOn_eq {α β : Type} [DecidableEq α] [DecidableEq β] {a b : List (α × β)}
    (h : agreeOn a b = true) {k : α} {v w : β} (hb : get b k = some w) (ha : get a k = some v) : v = w := by
  unfold agreeOn at h
  have := List.all_eq_true.mp h (k, w) (get_mem hb)
  simp only [ha, decide_eq_true_eq] at this
  exact this

theorem agree_revs {src tgt : Repo} (h : agree src tgt = true) : agreeOn src.revs tgt.revs = true := by
  unfold agree at h; simp only [Bool.and_eq_true] at h; exact h.1.1
theorem agree_invs {src tgt : Repo} (h : agree src tgt = true) : agreeOn src.invs tgt.invs = true := by
  unfold agree at h; simp only [Bool.and_eq_true] at h; exact h.1.2
theorem agree_texts {src tgt : Repo} (h : agree src tgt = true) : agreeOn src.texts tgt.texts = true := by
  unfold agree at h; simp only [Bool.and_eq_true] at h; exact h.2

theorem complete_inv {r : Repo} (h : complete r = true) {k : Rev} {rec : RevRec}
    (hk : get r.revs k = some rec) :
    ∃ inv, get r.invs k = some inv ∧ ∀ e ∈ inv, ∃ c, get r.texts e.key = some c := by
  unfold complete at h
  have := List.all_eq_true.mp h (k, rec) (get_mem hk)
  cases hi : get r.invs k with
  | none => simp [hi] at this
  | some inv =>
    simp only [hi, List.all_eq_true] at this
    refine ⟨inv, rfl, fun e he => ?_⟩
    have := this e he
    cases ht : get r.texts e.key with
    | none => simp [ht] at this
    | some c => exact ⟨c, rfl⟩

theorem noOrphan_rev {r : Repo} (h : noOrphanInv r = true) {k : Rev} {i : Inv}
    (hi : get r.invs k = some i) : hasRev r k = true := by
  unfold noOrphanInv at h
  exact List.all_eq_true.mp h (k, i) (get_mem hi)

theorem mem_invOrEmpty {r : Repo} {p : Rev} {e : Entry} (h : e ∈ invOrEmpty r p) :
    ∃ i, get r.invs p = some i ∧ e ∈ i := by
  unfold invOrEmpty at h
  cases hi : get r.invs p with
  | none => simp [hi] at h
  | some i => simp only [hi] at h; exact ⟨i, rfl, h⟩

/-- an excluded parent whose revision the source has is, under closure (or with
find_ghosts), a revision of the target -/
theorem excludedParent_in_target {x : Exclusion} {fg : Bool} {src tgt : Repo} {rev p : Rev}
    (hc : fg = true ∨ closed tgt src = true)
    (hp : p ∈ boundary src (missing fg src tgt rev)) (hps : hasRev src p = true) :
    hasRev tgt p = true := by
  unfold boundary at hp
  simp only [List.mem_filter, List.mem_flatMap, Bool.not_eq_true', decide_eq_false_iff_not] at hp
  obtain ⟨⟨m, hm, hpm⟩, hnot⟩ := hp
  obtain ⟨rec, hrec, hpr⟩ := mem_parentsL_graph.mp hpm
  have hpa : p ∈ anc src rev := parent_mem_anc (missing_sub_anc hm) hrec hpr hps
  rcases anc_cases_closed hc hpa with h | h
  · exact absurd h hnot
  · exact h

/-- the text of every entry of a sent inventory is in the target afterwards and equals the source's -/
theorem entry_text {x : Exclusion} {ext fg : Bool} {src tgt t' : Repo} {rev : Rev}
    (h : fetch x ext fg src tgt rev = .ok t')
    (hc : fg = true ∨ closed tgt src = true) (ha : agree src tgt = true) (hcomp : complete tgt = true)
    (hx : x = .revisionPresent ∨ noOrphanInv src = true)
    {k : Rev} (hk : k ∈ missing fg src tgt rev) {i : Inv} (hi : get src.invs k = some i)
    {e : Entry} (he : e ∈ i) :
    ∃ c, get t'.texts e.key = some c ∧ ∀ c', get src.texts e.key = some c' → c' = c := by
  have hget := fetch_texts_get h e.key
  by_cases hex : e ∈ excluded x src (missing fg src tgt rev)
  · -- left out of the stream: some excluded parent has this very entry
    unfold excluded at hex
    obtain ⟨p, hp, hep⟩ := List.mem_flatMap.mp hex
    obtain ⟨ip, hip, heip⟩ := mem_invOrEmpty hep
    have hpb : p ∈ boundary src (missing fg src tgt rev) ∧ hasRev src p = true := by
      cases x with
      | asFound =>
        rcases hx with hx | hx
        · cases hx
        · exact ⟨hp, noOrphan_rev hx hip⟩
      | revisionPresent =>
        simp only [excludedParents, List.mem_filter] at hp
        exact hp
    have hpt := excludedParent_in_target (x := x) hc hpb.1 hpb.2
    obtain ⟨rec, hrec⟩ := (hasRev_iff ..).mp hpt
    obtain ⟨ip', hip', htexts⟩ := complete_inv hcomp hrec
    have : ip = ip' := agreeOn_eq (agree_invs ha) hip' hip
    subst this
    obtain ⟨c, hc0⟩ := htexts e heip
    refine ⟨c, by rw [hget, hc0], fun c' hc' => agreeOn_eq (agree_texts ha) hc0 hc'⟩
  · -- in the stream
    have hse : e ∈ streamEntries x src (missing fg src tgt rev) := by
      unfold streamEntries
      simp only [List.mem_filter, List.mem_flatMap, Bool.not_eq_true', decide_eq_false_iff_not]
      refine ⟨⟨k, hk, ?_⟩, hex⟩
      unfold invOrEmpty; rw [hi]; exact he
    obtain ⟨c, hcs⟩ := streamable_text (fetch_ok h).2.1 hse
    cases ht : get tgt.texts e.key with
    | some c0 =>
      refine ⟨c0, by rw [hget, ht], fun c' hc' => agreeOn_eq (agree_texts ha) ht hc'⟩
    | none =>
      refine ⟨c, ?_, fun c' hc' => by rw [hcs] at hc'; exact (Option.some.inj hc').symm⟩
      rw [hget, ht]
      have : e.key ∈ (streamEntries x src (missing fg src tgt rev)).map Entry.key :=
        List.mem_map.mpr ⟨e, hse, rfl⟩
      simp only [this, if_true, hcs]

end BreezyVerif.C03
