import BreezyVerif.Lemmas.C30Compose
import BreezyVerif.Lemmas.C30V3
import BreezyVerif.Lemmas.C29Misc
/-! ProtocolThreeDecoder with `decoding_failed` / a raising message handler: the handler
events only grow, so a check on them is a guard in the sense of `Laws.guard` -/
namespace BreezyVerif.C30
open BreezyVerif.C29

theorem v3_proc_events (tag : V3Tag) (b : Bytes) (evs : List Ev) :
    ∃ t, (V3.proc tag b evs).events = evs ++ t := by
  induction hn : b.length using Nat.strongRecOn generalizing tag b evs with
  | _ n ih =>
    subst hn
    by_cases hlp : V3.isLP tag = true
    · cases h : extractLP b with
      | inl m => rw [V3.proc_lp_inl hlp evs h]; exact ⟨[], by simp [V3.events]⟩
      | inr pr =>
        obtain ⟨p, r⟩ := pr
        rw [V3.proc_lp_inr hlp evs h]
        obtain ⟨t, ht⟩ := ih _ (extractLP_length h) .part r (evs ++ [V3.lpEv tag p]) rfl
        exact ⟨V3.lpEv tag p :: t, by rw [ht]; simp⟩
    · cases tag with
      | headers => simp [V3.isLP] at hlp
      | bytes => simp [V3.isLP] at hlp
      | struct => simp [V3.isLP] at hlp
      | part =>
        cases b with
        | nil => rw [V3.proc_part_nil]; exact ⟨[], by simp [V3.events]⟩
        | cons k r =>
          rw [V3.proc_part_cons]
          have ihr : ∀ t e, ∃ u, (V3.proc t r e).events = e ++ u := fun t e => ih _ (by simp) t r e rfl
          split
          · exact ihr _ _
          · split
            · exact ihr _ _
            · split
              · exact ihr _ _
              · split
                · exact ⟨[.end_], rfl⟩
                · exact ⟨[], by simp [V3.events]⟩
      | oneByte =>
        cases b with
        | nil => rw [V3.proc_oneByte_nil]; exact ⟨[], by simp [V3.events]⟩
        | cons k r =>
          rw [V3.proc_oneByte_cons]
          obtain ⟨t, ht⟩ := ih _ (by simp) .part r (evs ++ [.byte k]) rfl
          exact ⟨.byte k :: t, by rw [ht]; simp⟩
      | version =>
        rw [V3.proc_version]
        split
        · split <;> exact ⟨[], by simp [V3.events]⟩
        · rename_i hl
          split
          · exact ih _ (by simp [marker3] at hl ⊢; omega) _ _ _ rfl
          · exact ⟨[], by simp [V3.events]⟩

theorem v3_feed_events (s : V3) (x : Bytes) : ∃ t, (s.feed x).events = s.events ++ t := by
  cases s with
  | run tag buf evs n => rw [V3.feed_run]; exact v3_proc_events _ _ _
  | done evs u => exact ⟨[], by simp [V3.feed, V3.events]⟩
  | failed evs e => exact ⟨[], by simp [V3.feed, V3.events]⟩

theorem v3_feed_events_fin (s : V3) (x : Bytes) (h : s.finished = true) :
    (s.feed x).events = s.events := by
  cases s <;> simp [V3.finished] at h
  rfl

theorem v3Ok_mono (okH okS : Bytes → Bool) (s : V3) (x : Bytes)
    (h : v3Ok okH okS (s.feed x) = true) : v3Ok okH okS s = true := by
  obtain ⟨t, ht⟩ := v3_feed_events s x
  simp only [v3Ok, ht, List.all_append, Bool.and_eq_true] at h
  exact h.1

theorem respRun_prefix (fx : Bool) (a t : List Ev)
    (h : (Resp.run fx {} (a ++ t)).toBool = true) : (Resp.run fx {} a).toBool = true := by
  rw [Resp.run_append] at h
  cases hr : Resp.run fx {} a with
  | ok r => rfl
  | error e => rw [hr] at h; simp [Except.toBool] at h

theorem v3cOk_mono (okH okS isSeq : Bytes → Bool) (fx : Bool) (s : V3) (x : Bytes)
    (h : v3cOk okH okS isSeq fx (s.feed x) = true) : v3cOk okH okS isSeq fx s = true := by
  simp only [v3cOk, Bool.and_eq_true] at h ⊢
  obtain ⟨⟨h1, h2⟩, h3⟩ := h
  refine ⟨⟨v3Ok_mono _ _ s x h1, v3Ok_mono _ _ s x h2⟩, ?_⟩
  obtain ⟨t, ht⟩ := v3_feed_events s x
  rw [ht] at h3
  exact respRun_prefix fx _ t h3

theorem v3gLaws (okH okS : Bytes → Bool) : Laws (v3gMachine okH okS) v3Wf :=
  v3Laws.guard _ (v3Ok_mono okH okS)
    (by intro s x h; simp only [v3Ok]; rw [show v3Machine.feed s x = s.feed x from rfl,
          v3_feed_events_fin s x h])

theorem v3cLaws (okH okS isSeq : Bytes → Bool) (fx : Bool) :
    Laws (v3cMachine okH okS isSeq fx) v3Wf :=
  v3Laws.guard _ (v3cOk_mono okH okS isSeq fx)
    (by intro s x h; simp only [v3cOk, v3Ok]; rw [show v3Machine.feed s x = s.feed x from rfl,
          v3_feed_events_fin s x h])

end BreezyVerif.C30
