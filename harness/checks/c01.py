"""C01 — a commit records exactly the selected working-tree state.

Mechanism: breezy/commit.py (Commit.commit pipeline, filter_excluded,
Commit._filter_iter_changes, the pending-merge refusal, _update_branches incl. the
master branch of a bound branch, the `except: builder.abort()` block),
breezy/bzr/vf_repository.py (VersionedFileCommitBuilder.record_iter_changes,
finish_inventory, commit, abort), breezy/bzr/workingtree_4.py (iter_changes,
unversion, update_basis_by_delta), breezy/git/commit.py (GitCommitBuilder),
breezy/git/tree.py (changes_from_git_changes, update_basis_by_delta).

Cases.  A *scenario* is a real working tree (2a dirstate tree with explicit
file ids, a heavyweight checkout bound to a master branch, or a git tree) built
by a replayable op script: 0-3 prior commits with random edits between them,
optionally a merge of a second branch (pending merge), then pending edits (add
file / mkdir / symlink, modify, chmod, rename, remove keeping or deleting the
file, delete from disk (= missing), in-place kind change, re-add under a new id,
and the "directory swap" family: a directory takes over the path of another one
and an entry of the displaced directory moves into a subdirectory of the
newcomer - the family on which the closure loop as found never terminated).  A *case* is a scenario plus `specific_files` / `exclude` (always
None and [], then subsets of <= 3 paths of the two trees, a few unknown names)
or plus a fault: an exception raised at a pipeline stage boundary - before the
first / after the last change of the stream, before / after finish_inventory,
message callback, builder.commit, pre_commit hook, update of the master branch
(bound), set_last_revision_info of the local branch, update_basis_by_delta,
post_commit hook - in plain 2a trees, bound checkouts and git trees, or at the
k-th mutating transport call of the repository / branch (lightweight checkout of
a branch behind a fault-injecting transport decorator).  Every case runs on a
fresh copy of the scenario.

T2: the Lean model (Model/C01.lean) gets the basis tree and the working tree
    (both read from the real objects in id space; git: path space), whether a
    merge is pending, and the selection and must predict: ok / error kind
    (PathsNotVersioned with the paths, InconsistentDelta, CannotCommitSelectedFileMerge,
    RootMissing), the ids that reach record_iter_changes, the complete new
    revision tree (id -> parent, name, kind, content, exec / target, read from
    the repository after re-opening), the versioned ids and the missing ids of
    the working tree afterwards (`commit` line); the same with the observed id
    list as input (`from` line, ties everything after the change stream when
    the compiled dirstate comparison selects more than InterInventoryTree
    would); the model never answers E:fuel (theorem commit_never_fuel: the
    closure loop as repaired by /repo e6ca8fc always terminates); git: the complete new tree from
    the reported change pairs (`git` line); faults: the write-group program of
    the model with the fault point, bound or not, and the number of texts the
    unfaulted commit adds must predict raised?, visible revisions, tip, tree
    basis, write group left open?, the master's revisions and tip, and the
    number of inventories and texts that became visible (`fault` line).
Oracle (independent of the model, on the real objects): O1 every id whose basis
    or working path is at or below a selected path and not below an excluded
    one has its working entry in the new tree; O2 every other id has its basis
    entry, unless it is needed to keep the tree well-formed (ancestor directory
    of a recorded entry, entry displaced from a recorded entry's path, child of
    a directory that stopped being one); O3 the new tree is well-formed; O4
    after the commit the ids recorded are unchanged against the new basis and
    every other pending change is still reported (ids of iter_changes after
    re-opening == pending before minus recorded); O5 tip = new revision, revno
    + 1, all_revision_ids = before + {new}, the new revision's parents are the
    tree's parents (pending merges included) and the tree's only parent is the
    new revision; O6 a commit that raises leaves all_revision_ids, the tip,
    the master branch, the basis, the tree's parents and the working inventory
    unchanged; O7 a selection or exclusion with a pending merge is refused.

Findings on the unchanged code, each reported with a family slug computed from
the failing case:
 revision-left-after-late-exception:pre_commit-hook | :set_last_revision_info | :master-update
     (DESIGN 7-F6) an exception raised after builder.commit() - by a pre_commit hook
     in _update_branches -> _process_pre_hooks, by the update of the master branch of a bound
     branch (NEW, bound checkouts), or by the write of branch/last-revision - makes commit() raise
     with the tip unchanged but the new revision in all_revision_ids()
 master-updated-before-late-exception:set_last_revision_info
     (NEW, bound checkouts) the local set_last_revision_info fails after the master branch already
     got the new revision as its tip: commit() raises, the local tip is unchanged, the master moved
 exception-after-tip-update:update_basis_by_delta | :post_commit-hook
     commit() raises although the branch tip already moved
 (repaired in /repo, no longer classified - a plain VIOLATION if they return:
  4a41ee3 commit(exclude=[child]) after a directory was replaced by a file and its child
  removed committed an inventory that cannot be read back - model variant `lax`, theorem
  excluded_child_corrupt_witness; the probe must now select `strict`;
  2888e6c git: a file <-> symlink change at one path was committed but dropped from the index)
 git-partial-commit-file-directory-conflict
     git: a selected path lies below a path that stays a file: GitCommitBuilder silently
     drops one of them instead of refusing
 dirstate-unselected-entry-at-vacated-path
     bzr: the compiled dirstate comparison also reports the (unselected) entry that now sits
     where a selected entry was renamed away from; its pending change is committed too
 selected-unchanged-entry-below-moved-unselected-directory
     (NEW classification; the oracle O3 of the check as found already flagged it, rarely) `mv c/a c/b` then
     commit(specific_files=['c/b/b']) with c/a/b itself untouched records nothing: the selected working path does
     not exist in the new revision (theorem selected_path_carried_witness; corpus 11)
 dirstate-unselected-entry-below-vacated-path
     (directory-swap family) ... and everything else the path-based search reaches through rename links
     (rule: dirstate_reach): the search covers everything at or below a search path in either tree, and every
     entry it finds that was itself moved adds its other path to the search paths, transitively - so also what
     lies below a directory that now sits at a vacated path, the old neighbours at the path that directory came
     from, and what lies below a directory that moved out of there.  commit(specific_files=['e/d/b']) after
     `mv e z; mv c e; mv z/d e/d/b` also commits the unselected new file e/d/new (corpus 12: a rename chain).
     The dirstate-superset tolerance of the T2 `commit` line excuses exactly the ids of dirstate_reach (and the
     displaced / vacated ids of the first family), and only when the `from` line agrees
 (C10's subject, found here and repaired by /repo e6ca8fc: InterInventoryTree._handle_precise_ids never
  terminated on the directory-swap family - closure_diverges_witness is about the loop as found; the model
  uses the repaired loop; the commit itself uses the compiled comparison; corpus 10)

Mutants tried in a scratch worktree (finding families above ignored):
 m1 filter_excluded: old path not tested for exclusion             -> oracle O2 (excluded id committed) + T2
 m2 _filter_iter_changes: missing entries skipped, not deleted      -> oracle O1/O4 + T2
 m3 Commit.commit: except block without builder.abort()            -> oracle (write group left open under the caller's lock) + T2 fault line
 m4 record_iter_changes: executable bit taken from the old side     -> oracle O1/O4
 m5 Commit.commit: deleted_paths not unversioned                    -> oracle O4 + T2
 m6 GitCommitBuilder: old path of a rename not deleted              -> oracle O1 (rename pair) + T2 git line (corpus 01)
 m7 _filter_iter_changes: changes with versioned[1] False dropped   -> oracle O1/O4
 m8 Commit.commit: pending merge + exclude no longer refused        -> oracle O7 + T2 commit line
 m9 _update_branches: local tip written before the master           -> oracle (fault at master update: tip moved) + T2 fault line
 m10 Commit.commit: only the first parent handed to the builder     -> oracle O5 (parents of a merge commit)
 m11 Commit.commit: selection widened to the parent directories     -> oracle O2 plain (ids outside dirstate_reach are never excused)
 seed-C01b specific_files=[] treated as "no filter"                 -> oracle O2 (every scenario commits with [])
 harmless: filter_excluded with one combined condition              -> clean
"""
import os
import shutil

from vlib import env

THEOREMS = [
    "commitTree_get", "commit_selected", "commit_unselected", "commit_wf", "commit_paths_agree", "commit_paths_selected",
    "commit_paths_prefix", "commit_all", "commit_only_changed", "commit_ids_justified", "commit_excluded_untouched",
    "status_after_commit", "commit_merge_refused", "commit_merge_all", "commit_full_total", "commit_never_fuel",
    "commit_wf_lax_partial", "excluded_child_corrupt_witness", "closure_insufficient_witness", "closure_diverges_witness",
    "selected_path_carried_witness",
    "git_written", "git_untouched", "git_deleted", "git_selected", "git_unselected",
    "commit_abort_noop_partial", "publish_ordered", "late_fault_leaves_revision_witness", "late_fault_master_ahead_witness",
    "late_fault_moves_tip_witness", "commit_no_fault",
]
RULE = ("scenario = (format 2a | 2a bound checkout | git, replayable op script with 0-3 commits, optional pending merge, pending "
        "edits); case = (scenario, specific_files, exclude) or (scenario, fault stage before/after | k-th mutating transport "
        "call); distinct by canonical (basis tree, working tree, selection / fault); non-trivial = at least one pending change "
        "and (a selection, an exclusion or a fault)")
ASSUMPTIONS = [
    "names from {a,b,c,d}, depth <= 3, contents from 5 values, <= 3 selected and <= 2 excluded paths (the theorems are unbounded)",
    "the compiled dirstate comparison (bzrformats) and dulwich's rename detector are exercised, not modelled: the model uses the "
    "InterInventoryTree closure (Model/C10) and, for git, takes the reported (old, new) path pairs as input",
    "faults are exceptions raised at stage boundaries or by one transport call; process crashes are the subject of C04/C27",
    "the model's change stream is InterInventoryTree's with the closure loop as repaired by /repo e6ca8fc (always terminates)",
    "pending merges: the tree-level statement only (the per-file graph of merge commits is C02's subject); conflicts left by the "
    "merge are declared resolved before committing",
]
TRUSTED = ["reading a real tree back in id / path space (iter_entries_by_dir + get_file_text + lstat)"]

NAMES = ["a", "b", "c", "d"]
CONTENTS = ["", "x", "y", "xy", "x\ny\n"]
TARGETS = ["a", "b", "../c"]
STAGES = ["collect", "finishInv", "message", "builderCommit", "preHook", "setTip", "updateBasis", "postHook"]


class Injected(Exception):
    pass


def hx(s):
    return s.encode().hex() or "-"


# --------------------------------------------------------------------------
# op scripts on real trees

class W:
    """replayable op interpreter on a real working tree"""

    def __init__(self, fmt, path=None, bound=False):
        self.fmt = fmt
        self.bound = bound
        self.idprefix = "i"
        self.nmerge = 0
        if bound:
            # heavyweight checkout: <root>/master (branch + repository, no tree) and <root>/co (bound branch, own repository)
            from breezy.controldir import ControlDir, format_registry
            self.root = path or env.fresh_dir("bd")
            master = ControlDir.create_branch_convenience(os.path.join(self.root, "master"),
                                                          format=format_registry.make_controldir("2a"), force_new_tree=False)
            self.wt = master.create_checkout(os.path.join(self.root, "co"), lightweight=False)
            self.sub = "co"
        else:
            self.wt = env.make_tree("2a" if fmt == "bzr" else "git", path)
            self.root = self.wt.basedir
            self.sub = ""
        self.base = self.wt.basedir
        self.n = 0
        if fmt == "bzr":
            self.wt.set_root_id(b"r")

    def full(self, p):
        return os.path.join(self.base, p)

    def newid(self):
        self.n += 1
        return "%s%d" % (self.idprefix, self.n)

    def sprout_other(self, k):
        """a second branch of the committed state, as an op interpreter with its own id space"""
        tmp = env.fresh_dir("mb")
        os.rmdir(tmp)
        other = self.wt.controldir.sprout(tmp).open_workingtree()
        ow = W.__new__(W)
        ow.fmt, ow.bound, ow.wt, ow.base, ow.root, ow.sub, ow.n, ow.nmerge = self.fmt, False, other, other.basedir, tmp, "", 0, 0
        ow.idprefix = "m%d_" % k
        return ow

    def gen_branchmerge(self, rng, n):
        """generate the op ("branchmerge", ops on the other branch, k): the ops are generated on a throw-away sprout"""
        self.nmerge += 1
        ow = self.sprout_other(self.nmerge)
        sub = []
        try:
            ow.gen_ops(rng, n, sub)
        finally:
            shutil.rmtree(ow.root, ignore_errors=True)
        return ("branchmerge", [list(o) for o in sub], self.nmerge)

    def add(self, p, fid):
        if self.fmt == "bzr":
            self.wt.add([p], ids=[fid.encode()])
        else:
            self.wt.add([p])

    def versioned(self):
        with self.wt.lock_read():
            return sorted(p for p in self.wt.all_versioned_paths() if p)

    def apply(self, op):
        k = op[0]
        wt = self.wt
        if k == "addfile":
            with open(self.full(op[1]), "w") as f:
                f.write(op[2])
            if op[3]:
                os.chmod(self.full(op[1]), 0o755)
            self.add(op[1], op[4])
        elif k == "mkdir":
            os.mkdir(self.full(op[1]))
            self.add(op[1], op[2])
        elif k == "symlink":
            os.symlink(op[2], self.full(op[1]))
            self.add(op[1], op[3])
        elif k == "modify":
            with open(self.full(op[1]), "w") as f:
                f.write(op[2])
        elif k == "chmod":
            os.chmod(self.full(op[1]), 0o755 if op[2] else 0o644)
        elif k == "rename":
            wt.rename_one(op[1], op[2])
        elif k == "remove":
            wt.remove([op[1]], keep_files=op[2], force=True)
        elif k == "delete":
            os.unlink(self.full(op[1]))
        elif k == "kind":
            full = self.full(op[1])
            if os.path.isdir(full) and not os.path.islink(full):
                os.rmdir(full)
            else:
                os.unlink(full)
            if op[2] == "file":
                with open(full, "w") as f:
                    f.write("k")
            elif op[2] == "symlink":
                os.symlink("a", full)
            else:
                os.mkdir(full)
        elif k == "readd":
            wt.remove([op[1]], keep_files=True, force=True)
            self.add(op[1], op[2])
        elif k == "commit":
            wt.commit("c%d" % op[1], rev_id=(b"rev%d" % op[1]) if self.fmt == "bzr" else None)
        elif k == "branchmerge":
            # commit op[1] on a sprout of the committed state, merge it: the tree gets a second parent
            ow = self.sprout_other(op[2])
            try:
                for sub in op[1]:
                    ow.apply_safe(tuple(sub))
                ow.wt.commit("m%d" % op[2], rev_id=(b"mrev%d" % op[2]) if self.fmt == "bzr" else None)
                wt.merge_from_branch(ow.wt.branch)
                if self.fmt == "bzr":
                    wt.set_conflicts([])      # declared resolved: whatever the merge left is the state to commit
            finally:
                shutil.rmtree(ow.root, ignore_errors=True)
        else:
            raise AssertionError(op)

    def apply_safe(self, op):
        """an op the tree refuses stays in the script (it may have touched the disk); refusals are C09's subject"""
        try:
            self.apply(tuple(op))
        except Exception:
            if op[0] == "commit":
                raise

    def gen_op(self, rng):
        """choose one op from the observed state; None if the draw is not applicable"""
        vp = self.versioned()
        isdir = lambda p: os.path.isdir(self.full(p)) and not os.path.islink(self.full(p))
        if self.fmt == "bzr":
            with self.wt.lock_read():
                vdirs = set(p for p, ie in self.wt.iter_entries_by_dir() if ie.kind == "directory")
        else:
            vdirs = set(vp)
        # new entries only below directories that are versioned as directories (adding below a path whose
        # versioned kind is not "directory" is C09 / C11 territory)
        dirs = [""] + [p for p in vp if isdir(p) and p in vdirs]
        kind = rng.choice(["addfile", "addfile", "mkdir", "symlink", "modify", "modify", "chmod", "rename", "rename",
                           "rename", "remove", "remove", "delete", "delete", "delete", "kind", "kind", "readd"])

        def newpath():
            d = rng.choice(dirs)
            p = (d + "/" if d else "") + rng.choice(NAMES)
            if len(p.split("/")) > 3 or os.path.lexists(self.full(p)):
                return None
            return p
        if kind in ("addfile", "mkdir", "symlink"):
            p = newpath()
            if p is None:
                return None
            if kind == "addfile":
                return ("addfile", p, rng.choice(CONTENTS), rng.random() < 0.25, self.newid())
            if kind == "mkdir":
                return ("mkdir", p, self.newid())
            return ("symlink", p, rng.choice(TARGETS), self.newid())
        if not vp:
            return None
        p = rng.choice(vp)
        full = self.full(p)
        isf = os.path.isfile(full) and not os.path.islink(full)
        if kind == "modify" and isf:
            return ("modify", p, rng.choice(CONTENTS))
        if kind == "chmod" and isf:
            return ("chmod", p, rng.random() < 0.5)
        if kind == "rename":
            q = newpath()
            if q is None or not os.path.lexists(full) or q.startswith(p + "/"):
                return None
            return ("rename", p, q)
        if kind == "remove":
            if self.fmt == "git" and isdir(p):
                return None
            return ("remove", p, rng.random() < 0.4)
        if kind == "delete" and (isf or os.path.islink(full)):
            return ("delete", p)
        if kind == "kind":
            if os.path.islink(full):
                return ("kind", p, "file")
            if isf:
                return ("kind", p, rng.choice(["symlink", "symlink", "directory"]) if self.fmt == "bzr" else "symlink")
            # (a directory that still has versioned children - e.g. missing ones - is not replaced: an entry
            # versioned below a non-directory is C09 / C11 territory, the working inventory view drops it)
            if self.fmt == "bzr" and isdir(p) and not os.listdir(full) and not any(q.startswith(p + "/") for q in vp):
                return ("kind", p, "file")
        if kind == "readd" and self.fmt == "bzr" and os.path.lexists(full) and not isdir(p):
            return ("readd", p, self.newid())
        return None

    def gen_ops(self, rng, n, script):
        done = 0
        for _ in range(4 * n):
            if done >= n:
                break
            op = self.gen_op(rng)
            if op is None:
                continue
            done += 1
            self.apply_safe(op)
            script.append(op)


def gen_swap_setup(w, rng, script):
    """two top-level directories X (with a file X/n) and Y (with a subdirectory Y/n of the same name), to be
    committed; see gen_swap_finish"""
    free = [n for n in NAMES + ["e"] if not os.path.lexists(w.full(n))]
    if len(free) < 2:
        return None
    x, y = rng.sample(free, 2)
    n = rng.choice(NAMES)
    for op in [("mkdir", x, w.newid()), ("addfile", x + "/" + n, rng.choice(CONTENTS), False, w.newid()),
               ("mkdir", y, w.newid()), ("mkdir", y + "/" + n, w.newid())]:
        w.apply_safe(op)
        script.append(op)
    return x, y, n


def gen_swap_finish(w, rng, script, setup):
    """Y takes over the path of X and the file X/n moves into the (unchanged) directory Y/n, which now sits at
    X/n - the family of `closure_diverges_witness`: the InterInventoryTree closure keeps finding the moved file
    at the subdirectory's new path and the subdirectory as the moved file's new parent"""
    x, y, n = setup
    vp = set(w.versioned())
    if not all(p in vp and os.path.lexists(w.full(p)) for p in (x, x + "/" + n, y, y + "/" + n)):
        return False
    if not os.path.isdir(w.full(y + "/" + n)) or os.path.islink(w.full(y + "/" + n)):
        return False
    free = [z for z in NAMES + ["e", "z"] if not os.path.lexists(w.full(z))]
    inner = [z for z in NAMES if not os.path.lexists(w.full(y + "/" + n + "/" + z))]
    if not free or not inner:
        return False
    z = rng.choice(free)
    for op in [("rename", x, z), ("rename", y, x), ("rename", z + "/" + n, x + "/" + n + "/" + rng.choice(inner))]:
        w.apply_safe(op)
        script.append(op)
    return True


def build_script(fmt, rng, pick, bound=False, merge=None):
    """generate a scenario adaptively; returns (W, script)"""
    w = W(fmt, bound=bound)
    script = []
    ncommits = rng.choice([0, 1, 1, 2, 3])
    if merge is None:
        merge = fmt == "bzr" and not bound and rng.random() < 0.15
    if merge:
        ncommits = max(ncommits, 1)
    swap = None
    for c in range(ncommits):
        w.gen_ops(rng, rng.randrange(2, pick(7, 10)), script)
        if c == ncommits - 1 and fmt == "bzr" and not merge and rng.random() < 0.2:
            swap = gen_swap_setup(w, rng, script)
        op = ("commit", c + 1)
        w.apply(op)
        script.append(op)
    if merge:
        op = w.gen_branchmerge(rng, rng.randrange(2, 6))
        w.apply_safe(op)
        script.append(op)
    w.gen_ops(rng, rng.randrange(3, pick(11, 14)) if swap is None else rng.randrange(0, 4), script)
    if swap is not None:
        gen_swap_finish(w, rng, script, swap)
    if ncommits and rng.random() < 0.6:
        # make sure renames of committed entries are common (git: rename pairs of the detector)
        with w.wt.lock_read():
            bt = w.wt.basis_tree()
            with bt.lock_read():
                committed = [p for p, ie in bt.iter_entries_by_dir() if p and ie.kind != "directory"]
        cands = [p for p in committed if p in w.versioned() and os.path.lexists(w.full(p))]
        free = [n for n in NAMES + ["e"] if not os.path.lexists(w.full(n))]
        if cands and free:
            op = ("rename", rng.choice(cands), rng.choice(free))
            w.apply_safe(op)
            script.append(op)
    return w, script


def replay_script(fmt, script, path=None, bound=False):
    w = W(fmt, path, bound=bound)
    for op in script:
        w.apply_safe(tuple(op))
    return w


# --------------------------------------------------------------------------
# reading trees back (id space for bzr, path space for git)

def snap_rev(tree):
    out = {}
    with tree.lock_read():
        for path, ie in tree.iter_entries_by_dir():
            k = ie.kind
            c, x = "", False
            if k == "file":
                c = tree.get_file_text(path).decode()
                x = bool(ie.executable)
            elif k == "symlink":
                c = ie.symlink_target
            out[ie.file_id.decode()] = dict(parent=ie.parent_id.decode() if ie.parent_id else None, name=ie.name,
                                            kind=k, content=c, exec=x)
    return out


def snap_rev_lenient(tree):
    """id-space snapshot that does not walk the tree (works on an inventory whose shape is broken)"""
    out = {}
    repo = tree._repository
    with tree.lock_read():
        inv = tree.root_inventory
        for fid in inv.iter_all_ids():
            ie = inv.get_entry(fid)
            c, x = "", False
            if ie.kind == "file":
                rec = next(repo.texts.get_record_stream([(fid, ie.revision)], "unordered", True))
                c = rec.get_bytes_as("fulltext").decode()
                x = bool(ie.executable)
            elif ie.kind == "symlink":
                c = ie.symlink_target
            out[fid.decode()] = dict(parent=ie.parent_id.decode() if ie.parent_id else None, name=ie.name,
                                     kind=ie.kind, content=c, exec=x)
    return out


def probe_validation():
    """does the code refuse a delta that leaves an unrecorded child below an entry turned into a file?
    (selects the model variant; see excluded_child_corrupt_witness)"""
    w = W("bzr")
    try:
        for op in [("mkdir", "d", "p1"), ("mkdir", "d/sub", "p2"), ("addfile", "d/sub/f", "1", False, "p3"), ("commit", 1),
                   ("remove", "d/sub/f", False), ("kind", "d/sub", "file")]:
            w.apply(op)
        try:
            w.wt.commit("probe", exclude=["d/sub/f"])
        except Exception as e:  # noqa
            return "strict" if err_kind(e) == "E:InconsistentDelta" else "strict?" + type(e).__name__
        return "lax"
    finally:
        shutil.rmtree(w.base, ignore_errors=True)


def disk_node(full):
    if os.path.islink(full):
        return "symlink", os.readlink(full), False
    if os.path.isdir(full):
        return "directory", "", False
    if os.path.isfile(full):
        with open(full) as f:
            return "file", f.read(), bool(os.stat(full).st_mode & 0o100)
    return "missing", "", False


def snap_wt(wt):
    """versioned entries with the node found on disk (kind 'missing' when absent)"""
    out = {}
    with wt.lock_read():
        for path, ie in wt.iter_entries_by_dir():
            k, c, x = disk_node(os.path.join(wt.basedir, path))
            out[ie.file_id.decode()] = dict(parent=ie.parent_id.decode() if ie.parent_id else None, name=ie.name,
                                            kind=k, content=c, exec=x)
    return out


def gsnap_rev(tree):
    out = {}
    with tree.lock_read():
        for path, ie in tree.iter_entries_by_dir():
            if ie.kind == "file":
                out[path] = dict(kind="file", content=tree.get_file_text(path).decode(), exec=bool(ie.executable))
            elif ie.kind == "symlink":
                out[path] = dict(kind="symlink", content=tree.get_symlink_target(path), exec=False)
    return out


def gsnap_wt(wt):
    out = {}
    with wt.lock_read():
        for path in wt.all_versioned_paths():
            if not path:
                continue
            k, c, x = disk_node(os.path.join(wt.basedir, path))
            if k == "directory":
                continue
            out[path] = dict(kind=k, content=c, exec=x)
    return out


def paths_of(t):
    res = {}
    for i in t:
        parts, j, seen, ok = [], i, set(), True
        while t[j]["parent"] is not None:
            if j in seen or t[j]["parent"] not in t:
                ok = False
                break
            seen.add(j)
            parts.append(t[j]["name"])
            j = t[j]["parent"]
        res[i] = "/".join(reversed(parts)) if ok else None
    return res


def inside(ps, p):
    return p is not None and any(s == "" or p == s or p.startswith(s + "/") for s in ps)


def inside_or_parent(ps, p):
    return p is not None and any(s == "" or p == "" or p == s or p.startswith(s + "/") or s.startswith(p + "/") for s in ps)


def wf_tree(t):
    """list of well-formedness failures of an id-space tree"""
    bad = []
    roots = [i for i, e in t.items() if e["parent"] is None]
    if len(roots) != 1:
        bad.append("roots %r" % roots)
    seen = {}
    for i, e in sorted(t.items()):
        p = e["parent"]
        if p is not None:
            if p not in t:
                bad.append("parent of %s missing" % i)
            elif t[p]["kind"] != "directory":
                bad.append("parent of %s is not a directory" % i)
        key = (p, e["name"])
        if key in seen:
            bad.append("duplicate name %r: %s %s" % (key, seen[key], i))
        seen[key] = i
    pp = paths_of(t)
    for i in t:
        if pp[i] is None and not any(i in b for b in bad):
            bad.append("%s does not reach the root" % i)
    return bad


# --------------------------------------------------------------------------
# encoders (line protocol of Driver/C01.lean)

KIND = {"file": "f", "directory": "d", "symlink": "l", "missing": "m"}


def enc_tree(t):
    out = []
    for i in t:
        e = t[i]
        k = KIND[e["kind"]]
        out.append(":".join([i, e["parent"] or "~", e["name"] or ".", k,
                             "-" if k in "dm" else hx(e["content"]), "T" if e["exec"] else "F"]))
    return ";".join(sorted(out)) or "-"


def enc_sel(f):
    if f is None:
        return "~"
    if not f:
        return "-"
    return ",".join(p or "." for p in f)


def enc_paths(f):
    return ",".join(p or "." for p in f) or "-"


def enc_ids(l):
    return ",".join(sorted(set(l))) or "-"


def enc_gtree(t):
    return ";".join("%s=%s:%s:%s" % (p, KIND[e["kind"]], hx(e["content"]), "T" if e["exec"] else "F")
                    for p, e in sorted(t.items()) if e["kind"] in ("file", "symlink")) or "-"


def enc_gchanges(cs):
    return ",".join("%s>%s" % (a if a is not None else "~", b if b is not None else "~") for a, b in cs) or "-"


def err_kind(e):
    n = type(e).__name__
    if n in ("InconsistentDelta", "InconsistentDeltaDelta"):
        return "E:InconsistentDelta"
    if n == "PathsNotVersionedError":
        return "E:PathsNotVersioned:" + ",".join(sorted(p or "." for p in e.paths))
    if n == "Injected":
        return "E:Injected"
    return "E:" + n


# --------------------------------------------------------------------------
# running one commit on a copy of the scenario tree

def copy_tree(base):
    d = env.fresh_dir("q")
    os.rmdir(d)
    shutil.copytree(base, d, symlinks=True)
    return d


def repo_state(wt):
    br = wt.branch
    with br.lock_read():
        return sorted(br.repository.all_revision_ids()), br.last_revision_info()


class Tee:
    """records the ids of the change stream after filter_excluded, i.e. what is fed to
    Commit._filter_iter_changes (call-through wrapper, restored afterwards)"""

    def __enter__(self):
        from breezy import commit as _c
        self._c = _c
        self.orig = _c.Commit._filter_iter_changes
        self.ids = []
        self.pairs = []
        tee = self

        def wrapped(cself, it):
            def src():
                for ch in it:
                    tee.ids.append(ch.file_id.decode() if ch.file_id is not None else None)
                    tee.pairs.append(tuple(ch.path))
                    yield ch
            return tee.orig(cself, src())
        _c.Commit._filter_iter_changes = wrapped
        return self

    def __exit__(self, *a):
        self._c.Commit._filter_iter_changes = self.orig


def status_ids(wt):
    """ids (bzr) / paths (git) reported by iter_changes against the basis"""
    out = set()
    with wt.lock_read():
        basis = wt.basis_tree()
        with basis.lock_read():
            for ch in wt.iter_changes(basis):
                out.add((ch.file_id.decode() if ch.file_id is not None else None, ch.path[0], ch.path[1]))
    return out


def run_bzr_query(base, basis, wtsnap, sel, excl, variant="strict"):
    """one commit(specific_files=sel, exclude=excl) on a copy; returns dict(impl, viol, counters)"""
    from breezy.workingtree import WorkingTree
    d = copy_tree(base)
    viol, counters = [], []
    try:
        wt = WorkingTree.open(d)
        revs0, tip0 = repo_state(wt)
        parents0 = wt.get_parent_ids()
        err = rid = None
        with Tee() as tee:
            try:
                rid = wt.commit("q", specific_files=sel, exclude=excl, rev_id=b"new")
            except Exception as e:  # noqa
                err = e
        S = sorted(set(i for i in tee.ids if i is not None))
        bp, wp = paths_of(basis), paths_of(wtsnap)
        # ids of the change stream that sit where another entry used to be (path vacated by a move / removal)
        vac = sorted(i for i in S if any(j != i and bp.get(j) is not None and bp.get(j) == wp.get(i) and wp.get(j) != bp.get(j)
                                         for j in set(basis)))
        # ... and ids of the stream displaced by another entry of the stream (their basis path is taken over)
        vac = sorted(set(vac) | {i for i in S if bp.get(i) is not None and any(
            j != i and wp.get(j) == bp.get(i) and wtsnap.get(j, {}).get("kind") != "missing" for j in S)})
        # ... and the basis descendants of such a displaced entry (a displaced directory that goes away takes its
        # children along)
        vs = set(vac)
        grew = True
        while grew:
            grew = False
            for i in S:
                if i not in vs and basis.get(i, {}).get("parent") in vs:
                    vs.add(i)
                    grew = True
        vac = sorted(vs)
        # ... and ids of the stream that sit *below* an entry (selected or not) that now occupies a vacated path:
        # the compiled comparison treats the vacated path as a changed directory and walks its children
        vacated = {bp[j] for j in basis if bp.get(j) is not None and wp.get(j) != bp.get(j)}
        occupiers = {wp[j] for j in wtsnap if wp.get(j) in vacated and bp.get(j) != wp.get(j)}
        below_vac = sorted(i for i in S if wp.get(i) is not None and any(
            wp[i].startswith(o + "/") for o in occupiers if o))
        reach = dirstate_reach(sel, basis, wtsnap, bp, wp)
        wt = WorkingTree.open(d)
        revs1, tip1 = repo_state(wt)
        wt1 = snap_wt(wt)
        basis1 = snap_rev(wt.basis_tree())
        bp, wp = paths_of(basis), paths_of(wtsnap)
        eff = {i: e for i, e in wtsnap.items() if e["kind"] != "missing"}
        # a selected path below something that is not a directory on disk (compiled dirstate comparison lstat()s it)
        ondisk = {wp[i]: e["kind"] for i, e in wtsnap.items() if wp.get(i) is not None}
        below = any(ondisk.get("/".join(p.split("/")[:k])) in ("file", "symlink", "missing")
                    for p in list(sel or []) + [q for q in bp.values() if q] for k in range(1, len(p.split("/"))))
        if err is not None:
            impl = err_kind(err)
            counters.append("bzr:" + impl.split(":")[1])
            # O6
            if revs1 != revs0:
                viol.append(("commit raised %s but all_revision_ids changed: +%r" % (impl, sorted(set(revs1) - set(revs0))), None))
            if tip1 != tip0:
                viol.append(("commit raised %s but the tip changed %r -> %r" % (impl, tip0, tip1), None))
            if basis1 != basis:
                viol.append(("commit raised %s but the basis tree changed" % impl, None))
            if wt1 != wtsnap:
                viol.append(("commit raised %s but the working inventory changed" % impl, None))
            if wt.get_parent_ids() != parents0:
                viol.append(("commit raised %s but the tree's parents changed %r -> %r" % (impl, parents0, wt.get_parent_ids()), None))
            return dict(impl=impl, S=S, vac=sorted(set(vac) | set(below_vac) | (reach & set(S))), viol=viol, counters=counters, below=below)
        counters.append("bzr:ok")
        if len(parents0) > 1:
            counters.append("bzr:merge-commit")
            if sel is not None or excl:
                # O7: "nothing else" cannot be honoured for a pending merge (the merged changes are not attributable
                # to paths): the code's contract is to refuse
                viol.append(("O7 a commit with pending merges %r and specific_files=%r exclude=%r was accepted" % (
                    parents0[1:], sel, excl), None))
        # O5 (parents): the new revision has the tree's parents (basis first, then the pending merges), the tree
        # has the new revision as its only parent
        with wt.branch.repository.lock_read():
            newparents = list(wt.branch.repository.get_revision(rid).parent_ids)
        if newparents != list(parents0) or wt.get_parent_ids() != [rid]:
            viol.append(("O5 the new revision has parents %r, the tree had %r; the tree now has %r" % (
                newparents, parents0, wt.get_parent_ids()), None))
        unreadable = None
        try:
            new = snap_rev(wt.branch.repository.revision_tree(rid))
        except Exception as e:  # noqa
            unreadable = "%s: %s" % (type(e).__name__, str(e)[:160])
            new = snap_rev_lenient(wt.branch.repository.revision_tree(rid))
        missing1 = sorted(i for i, e in wt1.items() if e["kind"] == "missing")
        impl = "ok %s %s %s %s" % (enc_ids(S), enc_tree(new), enc_ids(wt1), enc_ids(missing1))
        # ---- oracle
        allids = set(basis) | set(wtsnap)
        must = set()
        for i in allids:
            b, w_ = bp.get(i), wp.get(i)
            if (sel is None or inside(sel, b) or inside(sel, w_)) and not inside(excl, b) and not inside(excl, w_):
                must.add(i)
        presel = {i for i in allids if sel is None or inside(sel, bp.get(i)) or inside(sel, wp.get(i))}
        # a selected directory selects its contents in either tree (find_ids_across_trees semantics)
        grew = True
        while grew:
            grew = False
            for i in allids - must:
                if inside(excl, bp.get(i)) or inside(excl, wp.get(i)):
                    continue
                if basis.get(i, {}).get("parent") in must or wtsnap.get(i, {}).get("parent") in must:
                    must.add(i)
                    grew = True
        # O1
        for i in sorted(must):
            if new.get(i) != eff.get(i):
                viol.append(("O1 selected id %s (basis path %r, working path %r) is %r in the new revision, working tree has %r"
                             % (i, bp.get(i), wp.get(i), new.get(i), eff.get(i)), None))
        # O2
        recorded = {i for i in set(new) | set(basis) if new.get(i) != basis.get(i)}
        for i in sorted(recorded - must):
            if new.get(i) != eff.get(i):
                viol.append(("O2 unselected id %s is %r in the new revision: neither basis %r nor working %r"
                             % (i, new.get(i), basis.get(i), eff.get(i)), None))
                continue
            if inside(excl, bp.get(i)) or inside(excl, wp.get(i)):
                viol.append(("O2 excluded id %s (paths %r, %r) was committed" % (i, bp.get(i), wp.get(i)), None))
                continue
            if not justified(i, recorded, must | presel, basis, wtsnap, eff, bp, wp):
                fam = None
                if i in vac and not (bp.get(i) is not None and any(j != i and wp.get(j) == bp.get(i) for j in S)):
                    fam = "dirstate-unselected-entry-at-vacated-path"
                elif i in reach and i not in vac and any(
                        j != i and j in reach and ((bp.get(i) is not None and wp.get(j) == bp.get(i)) or
                                                   (wp.get(i) is not None and bp.get(j) == wp.get(i) and wp.get(j) != bp.get(j)))
                        for j in set(basis) | set(wtsnap)):
                    # displaced by / sitting in the place of another entry the comparison reached (dirstate_reach),
                    # which is not recorded itself (e.g. it is excluded)
                    fam = "dirstate-unselected-entry-at-vacated-path"
                elif (i in below_vac or i in reach) and i not in vac:
                    fam = "dirstate-unselected-entry-below-vacated-path"
                counters.append("bzr:unselected-committed")
                viol.append(("O2 the pending change of unselected id %s (basis path %r, working path %r) was committed with "
                             "specific_files=%r exclude=%r" % (i, bp.get(i), wp.get(i), sel, excl), fam))
        # O3
        np_ = paths_of(new)
        for i in sorted(must):
            if i in eff and i in new and np_.get(i) != wp.get(i):
                fam = None
                if basis.get(i) == wtsnap.get(i) and new.get(i) == basis.get(i) and bp.get(i) != wp.get(i):
                    # the entry itself is unchanged (same parent id, name, content): only a directory above it moved, and
                    # that directory is neither selected nor needed by any recorded entry
                    fam = "selected-unchanged-entry-below-moved-unselected-directory"
                    counters.append("bzr:selected-unchanged-below-moved-directory")
                viol.append(("O3 selected id %s is at %r in the new revision but at %r in the working tree (specific_files=%r)"
                             % (i, np_.get(i), wp.get(i), sel), fam))
        bad = wf_tree(new)
        if bad or unreadable:
            # (the family excluded-child-left-below-non-directory was repaired by /repo 4a41ee3: a plain violation now)
            counters.append("bzr:ill-formed-commit")
            viol.append(("O3 the new revision tree is ill-formed: %s%s" % (bad[:3], "; reading it back fails with " + unreadable
                                                                          if unreadable else ""), None))
        # O4
        pend0 = {i for i in allids if basis.get(i) != wtsnap.get(i)}
        if unreadable:
            counters.append("bzr:recorded:%d" % min(len(S), 6))
            return dict(impl=impl, S=S, vac=sorted(set(vac) | set(below_vac) | (reach & set(S))), viol=viol, counters=counters, below=below)
        pend1 = {x[0] for x in status_ids(wt)}
        if pend1 & must:
            viol.append(("O4 selected ids still reported as changed after the commit: %r" % sorted(pend1 & must), None))
        gone = {i for i, e in wtsnap.items() if e["kind"] == "missing" and i not in wt1}
        if not (pend0 - recorded - gone) <= pend1:
            viol.append(("O4 pending changes of unrecorded ids are no longer reported: %r" % sorted(pend0 - recorded - gone - pend1), None))
        exp1 = {i for i in set(new) | set(wt1) if new.get(i) != wt1.get(i)}
        if pend1 != exp1:
            viol.append(("O4 status after commit reports %r, the trees differ on %r" % (sorted(pend1), sorted(exp1)), None))
        for i in sorted(allids - set(S)):
            if wt1.get(i) != wtsnap.get(i):
                viol.append(("O4 unrecorded id %s changed in the working tree: %r -> %r" % (i, wtsnap.get(i), wt1.get(i)), None))
        for i in S:
            if new.get(i) != wt1.get(i):
                viol.append(("O4 recorded id %s still differs after the commit: revision %r, tree %r" % (i, new.get(i), wt1.get(i)), None))
        if basis1 != new:
            viol.append(("O4 basis tree after commit is not the new revision", None))
        # O5
        if tip1 != (tip0[0] + 1, rid) or sorted(set(revs0) | {rid}) != revs1:
            viol.append(("O5 tip %r -> %r, revisions +%r" % (tip0, tip1, sorted(set(revs1) - set(revs0))), None))
        counters.append("bzr:recorded:%d" % min(len(S), 6))
        if any(e["kind"] == "missing" and i in basis and i in S for i, e in wtsnap.items()):
            counters.append("bzr:missing-recorded-as-removal")
        return dict(impl=impl, S=S, vac=sorted(set(vac) | set(below_vac) | (reach & set(S))), viol=viol, counters=counters, below=below)
    finally:
        shutil.rmtree(d, ignore_errors=True)


def dirstate_reach(sel, basis, wtsnap, bp, wp):
    """The ids the path-based (compiled dirstate) comparison reaches from `specific_files` - the root cause of
    the families dirstate-unselected-entry-at/below-vacated-path.  It compares *paths*, not ids:
     (F) everything at or below a search path, in either tree, is compared; the search paths are the selected
         paths and, for every entry found this way that was itself moved (its own parent or name differs between
         basis and working tree), both of its paths - transitively;
     (E) every proper ancestor path P of a search path is examined as a single path when the working tree has an
         entry at P: that entry is compared, and so is a *different* entry the basis has at P (it was displaced
         from P); an entry found this way that was itself moved gets its other path examined in the same way
         (single path, no subtree) - transitively.
    So besides the ids at or below the selected paths it reaches exactly: entries at or below a path that an
    (F)-reached entry vacated or moved to (the unselected directory that now sits where a selected one was, its
    old neighbours below the path it came from, what now lies below a directory that moved out of there), and the
    chain of entries displacing each other along the working-tree ancestors of the search paths.  Ids outside
    this set are never excused."""
    allids = set(basis) | set(wtsnap)
    if sel is None:
        return allids
    moved = lambda i: (basis.get(i) is not None and wtsnap.get(i) is not None and
                       (basis[i]["parent"], basis[i]["name"]) != (wtsnap[i]["parent"], wtsnap[i]["name"]))
    at_b = {p: i for i, p in bp.items() if p is not None and i in basis}
    at_w = {p: i for i, p in wp.items() if p is not None and i in wtsnap}
    full = set(sel)
    single = set()
    reach = set()
    freach = set()
    grew = True
    while grew:
        grew = False
        for i in sorted(allids - freach):
            if inside(full, bp.get(i)) or inside(full, wp.get(i)):
                reach.add(i)
                freach.add(i)
                grew = True
                if moved(i):
                    full.update(p for p in (bp.get(i), wp.get(i)) if p is not None)
        for f in sorted(full):
            parts = f.split("/")
            for k in range(1, len(parts)):
                single.add("/".join(parts[:k]))
        for p in sorted(single):
            w = at_w.get(p)
            if w is None:
                continue
            for i in (w, at_b.get(p)):
                if i is not None and i not in reach:
                    reach.add(i)
                    grew = True
                if i is not None and moved(i):
                    for q in (bp.get(i), wp.get(i)):
                        if q is not None and q not in single:
                            single.add(q)
                            grew = True
    return reach


def justified(i, recorded, must, basis, wtsnap, eff, bp, wp):
    """may the unselected id i change in a partial commit?  only to keep the
    new tree well-formed"""
    others = recorded - {i}
    # ancestor directory (in the working inventory, missing entries included) of a selected or recorded entry
    for j in (others | must) - {i}:
        k = wtsnap.get(j, {}).get("parent")
        seen = set()
        while k is not None and k not in seen:
            if k == i:
                return True
            seen.add(k)
            k = wtsnap.get(k, {}).get("parent")
    # displaced: i sits in the basis where another recorded entry goes
    if any(wp.get(j) is not None and wp.get(j) == bp.get(i) and j in eff for j in others):
        return True
    # child (in the basis) of an entry that is no longer a directory / no longer there
    p = basis.get(i, {}).get("parent")
    if p is not None and p in others and eff.get(p, {}).get("kind") != "directory":
        return True
    return False


def gen_queries(rng, basis_paths, wt_paths, n, exhaustive, carried=()):
    """(sel, excl) pairs; sel None | list, excl list.  `carried`: working paths of entries that are unchanged
    themselves but sit below a moved directory"""
    import itertools
    universe = sorted(set(p for p in list(basis_paths) + list(wt_paths) if p))
    out = [(None, []), ([], [])]          # everything; nothing (`[]` is "commit no files", not "no filter")
    if carried:
        out.append(([rng.choice(sorted(carried))], []))
    if exhaustive:
        subs = [list(c) for k in (1, 2, 3) for c in itertools.combinations(universe, k)]
        rng.shuffle(subs)
        for s in subs[:n]:
            out.append((s, []))
        for s in subs[:n // 2]:
            out.append((None, s[:2]))
        for s in subs[:n // 2]:
            rest = [p for p in universe if p not in s]
            if rest:
                out.append((s, [rng.choice(rest)]))
        return out
    for _ in range(n):
        r = rng.random()
        k = rng.choice([1, 1, 2, 2, 3])
        s = rng.sample(universe, min(k, len(universe))) if universe else []
        if r < 0.55:
            q = (s, [])
        elif r < 0.75:
            q = (None, s[:2])
        elif r < 0.93:
            rest = [p for p in universe if p not in s]
            q = (s, rng.sample(rest, min(len(rest), rng.choice([1, 1, 2]))))
        elif r < 0.97:
            q = (s + [rng.choice(["zz", "a/zz"])], [])          # unversioned name: PathsNotVersionedError
        else:
            q = ([], [])
        if q not in out:
            out.append(q)
    return out


# --------------------------------------------------------------------------
# git

def git_changes(wt):
    """(old, new) pairs of the non-directory records of the unfiltered comparison"""
    out = []
    with wt.lock_read():
        basis = wt.basis_tree()
        with basis.lock_read():
            for ch in wt.iter_changes(basis):
                if ch.kind[0] in (None, "directory") and ch.kind[1] in (None, "directory") and not (
                        ch.kind[1] is None and ch.versioned[1]):
                    continue
                out.append((ch.path[0] if ch.kind[0] != "directory" else None,
                            ch.path[1] if ch.kind[1] != "directory" else None))
    return sorted(out, key=lambda x: (x[0] or "", x[1] or ""))


def run_git_query(base, basis, wtsnap, changes, sel, excl):
    from breezy.workingtree import WorkingTree
    d = copy_tree(base)
    viol, counters = [], []
    try:
        wt = WorkingTree.open(d)
        revs0, tip0 = repo_state(wt)
        err = rid = None
        try:
            rid = wt.commit("q", specific_files=sel, exclude=excl)
        except Exception as e:  # noqa
            err = e
        wt = WorkingTree.open(d)
        revs1, tip1 = repo_state(wt)
        wt1 = gsnap_wt(wt)
        basis1 = gsnap_rev(wt.basis_tree())
        eff = {p: e for p, e in wtsnap.items() if e["kind"] != "missing"}
        if err is not None:
            impl = err_kind(err)
            counters.append("git:" + impl.split(":")[1])
            if revs1 != revs0:
                viol.append(("commit raised %s but all_revision_ids changed" % impl, None))
            if tip1 != tip0:
                viol.append(("commit raised %s but the tip changed" % impl, None))
            if basis1 != basis or wt1 != wtsnap:
                viol.append(("commit raised %s but the basis / index changed" % impl, None))
            return dict(impl=impl, viol=viol, counters=counters)
        counters.append("git:ok")
        new = gsnap_rev(wt.branch.repository.revision_tree(rid))
        impl = enc_gtree(new)
        paired = set()
        for a, b in changes:
            if a is not None and b is not None and a != b:
                paired.add(a)
                paired.add(b)
        allp = set(basis) | set(wtsnap)
        # O1 / O2 in path space for paths that are not part of a detected rename pair
        for p in sorted(allp - paired):
            selected = (sel is None or inside_or_parent(sel, p)) and not inside(excl, p)
            exp = eff.get(p) if selected else basis.get(p)
            if new.get(p) != exp:
                viol.append(("%s path %r is %r in the new revision, expected %r (basis %r, working %r)" % (
                    "O1 selected" if selected else "O2 unselected", p, new.get(p), exp, basis.get(p), eff.get(p)), None))
        written_by_kept = set()
        for a, b in changes:
            if a is not None and b is not None and a != b:
                kept = (sel is None or inside_or_parent(sel, a) or inside_or_parent(sel, b)) and not (
                    inside(excl, a) or inside(excl, b))
                if kept and b in eff:
                    written_by_kept.add(b)
        for a, b in changes:
            if a is None or b is None or a == b:
                continue
            kept = (sel is None or inside_or_parent(sel, a) or inside_or_parent(sel, b)) and not (inside(excl, a) or inside(excl, b))
            counters.append("git:rename-pair-%s" % ("kept" if kept else "dropped"))
            if kept:
                if new.get(b) != eff.get(b):
                    viol.append(("O1 rename %r -> %r selected: new path is %r in the new revision, working tree has %r" % (
                        a, b, new.get(b), eff.get(b)), None))
                if a not in written_by_kept and a in new and a not in eff:
                    viol.append(("O1 rename %r -> %r selected but the old path is still in the new revision" % (a, b), None))
        # old paths of kept records - kept rename pairs and kept removals alike
        old_of_kept = {a for a, b in changes if a is not None and a != b and (
            sel is None or inside_or_parent(sel, a) or (b is not None and inside_or_parent(sel, b))) and not (
            inside(excl, a) or (b is not None and inside(excl, b)))}
        for p in sorted(paired):
            if new.get(p) is None and p in old_of_kept:
                # the rename / removal of what was here was committed: the old path is gone even if something new
                # sits there - e.g. the new occupant arrives by a rename pair that is dropped as a whole because
                # its other path is excluded (it then stays, unrecorded, at its basis path, as in id space)
                continue
            if new.get(p) not in (basis.get(p), eff.get(p)):
                viol.append(("O2 path %r is %r in the new revision: neither basis nor working content" % (p, new.get(p)), None))
        if sel is None and not excl and new != eff:
            viol.append(("O1 full commit: the new revision differs from the working tree on %r" % sorted(
                p for p in set(new) | set(eff) if new.get(p) != eff.get(p)), None))
        # the selection asks for a tree that cannot exist: a path to record lies below a path that stays a file
        # (or the other way round); GitCommitBuilder neither refuses nor reports it
        want = {}
        for p in allp:
            selected = (sel is None or inside_or_parent(sel, p)) and not inside(excl, p)
            e = eff.get(p) if (selected or p in written_by_kept) else basis.get(p)
            if e is not None:
                want[p] = e
        conflict = any("/".join(p.split("/")[:k]) in want for p in want for k in range(1, len(p.split("/"))))
        if conflict:
            counters.append("git:file-directory-conflict")
            viol[:] = [(w_, f_ or "git-partial-commit-file-directory-conflict") for w_, f_ in viol]
        # O4: the paths the commit recorded are clean afterwards, the index still knows them
        recorded = {p for p in allp | set(new) if new.get(p) != basis.get(p)}
        for p in sorted(recorded):
            if wt1.get(p) != new.get(p):
                # (the family git-kind-change-dropped-from-index was repaired by /repo 2888e6c: a plain violation now)
                counters.append("git:recorded-path-dirty")
                viol.append(("O4 path %r was committed as %r but the working tree now has %r (versioned before the commit: %r)"
                             % (p, new.get(p), wt1.get(p), p in wtsnap), None))
        for p in sorted(allp - recorded):
            if wtsnap.get(p, {}).get("kind") == "missing" and p not in wt1 and (
                    sel is None or inside_or_parent(sel, p)) and not inside(excl, p):
                continue        # a selected missing path is unversioned by the commit (deleted_paths)
            if wt1.get(p) != wtsnap.get(p):
                viol.append(("O4 unrecorded path %r changed in the index: %r -> %r" % (p, wtsnap.get(p), wt1.get(p)), None))
        if basis1 != new:
            viol.append(("O4 basis tree after commit is not the new revision", None))
        if tip1[1] != rid or (tip0[0] is not None and tip1[0] != tip0[0] + 1) or sorted(set(revs0) | {rid}) != revs1:
            viol.append(("O5 tip %r -> %r, revisions +%r" % (tip0, tip1, sorted(set(revs1) - set(revs0))), None))
        return dict(impl=impl, viol=viol, counters=counters, conflict=conflict)
    finally:
        shutil.rmtree(d, ignore_errors=True)


# --------------------------------------------------------------------------
# faults

def _builder_class(wt):
    if hasattr(wt.branch.repository, "_git"):
        from breezy.git.commit import GitCommitBuilder
        return GitCommitBuilder
    from breezy.bzr import vf_repository
    return vf_repository.VersionedFileCommitBuilder


def _install_fault(wt, stage, when):
    """arrange for `Injected` to be raised at the given stage (`when` = "first": before the stage's effect,
    "last": after it); patches the classes of the live objects; returns an undo callable"""
    from breezy import commit as _c
    from breezy.branch import Branch
    undo = []
    local_base = wt.branch.base

    def patch(cls, name, mk):
        had = name in cls.__dict__
        orig = getattr(cls, name)
        saved = cls.__dict__.get(name)
        setattr(cls, name, mk(orig))
        undo.append((lambda: setattr(cls, name, saved)) if had else (lambda: delattr(cls, name)))
    if stage == "collect":
        def mk(orig):
            def f(cself, it):
                n = 0
                for ch in orig(cself, it):
                    if when == "first" and n == 0:
                        raise Injected("collect")
                    n += 1
                    yield ch
                raise Injected("collect-end")
            return f
        patch(_c.Commit, "_filter_iter_changes", mk)
    elif stage == "finishInv":
        def mk(orig):
            def f(bself):
                if when == "first":
                    raise Injected("finishInv")
                orig(bself)
                raise Injected("finishInv-after")
            return f
        patch(_builder_class(wt), "finish_inventory", mk)
    elif stage == "builderCommit":
        def mk(orig):
            def f(bself, message):
                raise Injected("builderCommit")
            return f
        patch(_builder_class(wt), "commit", mk)
    elif stage == "preHook":
        def hook(*a):
            raise Injected("preHook")
        Branch.hooks.install_named_hook("pre_commit", hook, "c01-fault")
        undo.append(lambda: Branch.hooks.uninstall_named_hook("pre_commit", "c01-fault"))
    elif stage == "postHook":
        def hook(*a):
            raise Injected("postHook")
        Branch.hooks.install_named_hook("post_commit", hook, "c01-fault")
        undo.append(lambda: Branch.hooks.uninstall_named_hook("post_commit", "c01-fault"))
    elif stage == "masterImport":
        def mk(orig):
            def f(bself, source, revno, revid, **kw):
                raise Injected("masterImport")
            return f
        patch(type(wt.branch.get_master_branch()), "import_last_revision_info_and_tags", mk)
    elif stage == "setTip":
        def mk(orig):
            def f(bself, revno, revid):
                if bself.base != local_base:          # the master of a bound branch is written through the same class
                    return orig(bself, revno, revid)
                raise Injected("setTip")
            return f
        patch(type(wt.branch), "set_last_revision_info", mk)
    elif stage == "updateBasis":
        def mk(orig):
            def f(tself, new_revid, delta):
                raise Injected("updateBasis")
            return f
        patch(type(wt), "update_basis_by_delta", mk)

    def undo_all():
        for u in reversed(undo):
            u()
    return undo_all


def late_family(stage, revs_changed, tip_changed):
    """family slug of a late-exception violation, from the stage that raised and what was left behind"""
    name = {"preHook": "pre_commit-hook", "masterImport": "master-update", "setTip": "set_last_revision_info",
            "updateBasis": "update_basis_by_delta", "postHook": "post_commit-hook"}.get(stage)
    if name is None:
        return None
    if tip_changed and stage in ("updateBasis", "postHook"):
        return "exception-after-tip-update:" + name
    if revs_changed and not tip_changed and stage in ("preHook", "masterImport", "setTip"):
        return "revision-left-after-late-exception:" + name
    return None


def fault_points(bound):
    """(stage, when) in program order; None = no fault"""
    pts = [(None, "first"), ("collect", "first"), ("collect", "last"), ("finishInv", "first"), ("finishInv", "last"),
           ("message", "first"), ("builderCommit", "first"), ("preHook", "first")]
    if bound:
        pts.append(("masterImport", "first"))
    return pts + [("setTip", "first"), ("updateBasis", "first"), ("postHook", "first")]


def fault_spec(stage, when, ntexts):
    """the fault point in the vocabulary of Model/C01 (`program`)"""
    if stage is None:
        return "~"
    if stage == "collect":
        return "text:0" if (when == "first" and ntexts > 0) else "pointless"
    if stage == "finishInv":
        return "finishInv" if when == "first" else "finishInv+"
    if stage == "builderCommit":
        return "addRev"
    return stage


def observe(wt, bound):
    """what a fault may not change: revisions / inventories / texts visible in the repository, tip, master, tree basis"""
    br = wt.branch
    repo = br.repository
    with br.lock_read():
        revs = sorted(repo.all_revision_ids())
        tip = br.last_revision_info()
        ninv = ntext = None
        if hasattr(repo, "inventories"):
            ninv, ntext = len(set(repo.inventories.keys())), len(set(repo.texts.keys()))
    mrevs = mtip = None
    if bound:
        m = br.get_master_branch()
        with m.lock_read():
            mrevs, mtip = sorted(m.repository.all_revision_ids()), m.last_revision_info()
    return dict(revs=revs, tip=tip, ninv=ninv, ntext=ntext, mrevs=mrevs, mtip=mtip, basis=wt.last_revision(),
                parents=wt.get_parent_ids())


def copy_scenario(root, sub, bound):
    """a private copy of the scenario; returns (copy root, working tree path)"""
    d = copy_tree(root)
    path = os.path.join(d, sub) if sub else d
    if bound:
        from breezy import urlutils
        from breezy.branch import Branch
        Branch.open(path).set_bound_location(urlutils.local_path_to_url(os.path.join(d, "master")))
    return d, path


def run_fault(root, sub, fmt, bound, stage, when, ntexts):
    """one commit with an exception injected at (stage, when); returns dict(impl, line, viol, ntexts, raised)"""
    from breezy.workingtree import WorkingTree
    d, path = copy_scenario(root, sub, bound)
    viol = []
    try:
        wt = WorkingTree.open(path)
        o0 = observe(wt, bound)
        raised = None
        undo = _install_fault(wt, stage, when) if stage not in (None, "message") else (lambda: None)
        kw = dict(rev_id=b"new") if fmt == "bzr" else {}
        # the caller holds the tree lock around commit() (as cmd_commit does): a write group the
        # pipeline leaves open is then still open when commit() returns
        with wt.lock_write():
            try:
                try:
                    if stage == "message":
                        def cb(c):
                            raise Injected("message")
                        wt.commit(message_callback=cb, **kw)
                    else:
                        wt.commit("q", **kw)
                except Exception as e:  # noqa  (a failing abort may mask the injected exception)
                    raised = e
            finally:
                undo()
            in_group = wt.branch.repository.is_in_write_group()
            if in_group:
                viol.append(("commit raised at stage %s and left the repository write group open" % stage, None))
                wt.branch.repository.abort_write_group()
        wt = WorkingTree.open(path)
        o1 = observe(wt, bound)
        names = {r: "r%d" % k for k, r in enumerate(sorted(set(o0["revs"]) | set(o0["mrevs"] or [])))}
        names[b"null:"] = "~"
        show = lambda r: names.get(r, "new")
        lst = lambda l: ",".join(show(r) for r in sorted(l, key=lambda r: (r not in names, r))) or "-"
        dinv = (o1["ninv"] - o0["ninv"]) if o0["ninv"] is not None else None
        dtext = (o1["ntext"] - o0["ntext"]) if o0["ntext"] is not None else None
        impl = "%s %s %s %s %s %s %s" % ("T" if raised else "F", lst(o1["revs"]), show(o1["tip"][1]), show(o1["basis"]),
                                         "T" if in_group else "F", lst(o1["mrevs"]) if bound else "-",
                                         show(o1["mtip"][1]) if bound else "~")
        if dinv is not None:
            impl += " %d %d" % (dinv, dtext)
        if stage is None and raised is None and dtext is not None:
            ntexts = dtext
        line = "fault %s %s %d %s %s %s %s new" % (fault_spec(stage, when, ntexts), "T" if bound else "F", ntexts,
                                                   lst(o0["revs"]), show(o0["tip"][1]), lst(o0["mrevs"]) if bound else "-",
                                                   show(o0["mtip"][1]) if bound else "~")
        if raised is not None:
            rc, tc = o1["revs"] != o0["revs"], o1["tip"] != o0["tip"]
            if rc or tc:
                viol.append(("commit raised at stage %s (%s: %s) but %s" % (stage, type(raised).__name__, raised, "; ".join(
                    x for x in ["all_revision_ids gained %r" % sorted(set(o1["revs"]) - set(o0["revs"])) if rc else "",
                                "the tip moved %r -> %r" % (o0["tip"], o1["tip"]) if tc else ""] if x)),
                    late_family(stage, rc, tc)))
            if bound and not tc and (o1["mtip"] != o0["mtip"] or o1["mrevs"] != o0["mrevs"]):
                viol.append(("commit raised at stage %s with the local tip unchanged, but the master branch changed: tip %r -> %r, "
                             "revisions +%r" % (stage, o0["mtip"], o1["mtip"], sorted(set(o1["mrevs"]) - set(o0["mrevs"]))),
                             "master-updated-before-late-exception:set_last_revision_info" if stage == "setTip" else None))
            if stage is None:
                viol[:] = []      # the unfaulted commit of this scenario is refused: nothing to inject into
            elif not (rc or tc) and o1["parents"] != o0["parents"]:
                viol.append(("commit raised at stage %s but the tree's parents changed" % stage, None))
        elif stage is not None:
            viol.append(("fault at stage %s was not raised by commit()" % stage, None))
        return dict(impl=impl, line=line, viol=viol, ntexts=ntexts, raised=type(raised).__name__ if raised else None,
                    ncmp=[0, 1, 2, 4, 5, 6] if fmt == "git" else list(range(9)))
    finally:
        shutil.rmtree(d, ignore_errors=True)


# ---- transport faults

PREFIX = "verifc01+"
_registered = False


class _Rec:
    def __init__(self):
        self.reset(None)

    def reset(self, fail_at):
        self.n = 0
        self.fail_at = fail_at
        self.log = []

    def event(self, op, rel):
        self.n += 1
        self.log.append((op, rel))
        if self.fail_at is not None and self.n == self.fail_at:
            from dromedary import errors as derr
            raise derr.TransportError("injected fault at mutating call %d (%s %s)" % (self.n, op, rel))


REC = _Rec()


def register_transport():
    global _registered
    if _registered:
        return
    from dromedary import decorator
    from breezy import transport as bt

    class FaultTransport(decorator.TransportDecorator):
        @classmethod
        def _get_url_prefix(cls):
            return PREFIX

    def mk(name, nrel=1):
        def f(self, *a, **k):
            REC.event(name, self.abspath(a[0]).rsplit("/.bzr/", 1)[-1])
            return getattr(self._decorated, name)(*a, **k)
        return f
    for name in ("rename", "move", "copy", "delete", "delete_tree", "mkdir", "rmdir", "put_file", "put_bytes",
                 "put_bytes_non_atomic", "put_file_non_atomic", "append_file", "append_bytes", "open_write_stream"):
        setattr(FaultTransport, name, mk(name))
    bt.register_transport_proto(PREFIX)
    bt.register_transport(PREFIX, FaultTransport)
    _registered = True


def run_transport_fault(script, k):
    """replay the scenario into a lightweight checkout whose branch lives behind the fault transport,
    fail the k-th mutating call during commit"""
    from breezy.branch import Branch
    from breezy.controldir import ControlDir, format_registry
    from breezy.workingtree import WorkingTree
    register_transport()
    REC.reset(None)
    bdir = env.fresh_dir("fb")
    cdir = env.fresh_dir("fc")
    os.rmdir(cdir)
    viol = []
    try:
        fmt = format_registry.make_controldir("2a")
        br = ControlDir.create_branch_convenience(PREFIX + "file://" + bdir, format=fmt, force_new_tree=False)
        br.create_checkout(cdir, lightweight=True)
        w = W.__new__(W)
        w.fmt, w.wt, w.base, w.n = "bzr", WorkingTree.open(cdir), cdir, 0
        w.bound, w.idprefix, w.nmerge, w.root, w.sub = False, "i", 0, cdir, ""
        w.wt.set_root_id(b"r")
        for op in script:
            w.apply_safe(tuple(op))
        wt = WorkingTree.open(cdir)
        revs0, tip0 = repo_state(wt)
        REC.reset(k)
        raised = None
        try:
            wt.commit("q", rev_id=b"new")
        except Exception as e:  # noqa
            raised = e
        total = REC.n
        log = list(REC.log)
        REC.reset(None)
        try:
            wt.branch.repository.abort_write_group()
        except Exception:
            pass
        wt = WorkingTree.open(cdir)
        revs1, tip1 = repo_state(wt)
        fired = k is not None and total >= k
        after_names = fired and any(rel.endswith("pack-names") for op, rel in log[:k - 1])
        at = log[k - 1] if fired else None
        if raised is not None:
            rc, tc = revs1 != revs0, tip1 != tip0
            if rc or tc:
                fam = None
                if rc and not tc and after_names and at == ("put_bytes", "branch/last-revision"):
                    # the write of the tip itself failed: same call site as the stage fault `setTip`
                    fam = "revision-left-after-late-exception:set_last_revision_info"
                elif rc and not tc and after_names:
                    fam = "revision-left-after-late-exception:transport-fault-after-pack-names"
                viol.append(("commit raised %s at mutating transport call %d %r but %s" % (
                    type(raised).__name__, k, at, "all_revision_ids gained 'new'" if rc else "the tip moved"), fam))
        else:
            if fired:
                viol.append(("transport fault at call %d %r was swallowed: commit returned normally" % (k, at), None)) \
                    if (tip1[1] != b"new" or b"new" not in revs1) else None
            elif tip1[1] != b"new" or sorted(set(revs0) | {b"new"}) != revs1:
                viol.append(("unfaulted commit through the decorator did not move the tip", None))
        return dict(total=total, fired=fired, raised=type(raised).__name__ if raised else None, at=at,
                    after_names=after_names, viol=viol, revs_changed=revs1 != revs0, tip_changed=tip1 != tip0)
    finally:
        shutil.rmtree(bdir, ignore_errors=True)
        shutil.rmtree(cdir, ignore_errors=True)


# --------------------------------------------------------------------------
# scenario workers (run in forked processes; return plain data)

def fault_records(w, fmt, script, basis_enc, wt_enc, npend):
    """the unfaulted commit and one commit per fault point, each on a private copy"""
    recs = []
    ntexts = 0
    for stage, when in fault_points(w.bound):
        r = run_fault(w.root, w.sub, fmt, w.bound, stage, when, ntexts)
        case = dict(fmt=fmt, bound=w.bound, script=script, fault=stage, when=when, basis=basis_enc, wt=wt_enc)
        if stage is None:
            if r["raised"] is not None:
                # the scenario's full commit is refused (e.g. the tree is inconsistent): no pipeline to inject into
                recs.append(dict(kind="fault-baseline-refused", case=case, npend=npend, line=None, impl=r["impl"], viol=[],
                                 counters=["fault:baseline-refused:%s" % r["raised"]]))
                return recs
            ntexts = r["ntexts"]
        counters = ["fault:%s%s:%s" % (fmt, "-bound" if w.bound else "", stage)]
        if r["raised"] not in (None, "Injected"):
            counters.append("fault:masked-by:%s" % r["raised"])
        recs.append(dict(kind="fault", case=case, npend=npend, line=r["line"], impl=r["impl"], viol=r["viol"],
                         counters=counters, ncmp=r["ncmp"]))
    return recs


def query_kind(sel, excl):
    if sel is None:
        return "query:exclude-only" if excl else "query:full"
    if any(p in ("zz", "a/zz") for p in sel):
        return "query:unversioned-name"
    if not sel:
        return "query:empty-selection"
    return "query:select+exclude" if excl else "query:select"


def scenario_worker(args):
    import random
    fmt, seed, tier, nq, faults, variant = args
    bound = merge = False
    if fmt == "bzr-bound":
        fmt, bound = "bzr", True
    elif fmt == "bzr-merge":
        fmt, merge = "bzr", True
    rng = random.Random(seed)
    pick = (lambda q, t: t) if tier == "thorough" else (lambda q, t: q)
    recs = []
    try:
        w, script = build_script(fmt, rng, pick, bound=bound, merge=merge or None)
    except Exception as e:  # infrastructure problem while building: report, do not hide
        import traceback
        return [dict(kind="build-error", etype=type(e).__name__, errno=getattr(e, "errno", None),
                     error="%s: %s\n%s" % (type(e).__name__, e, traceback.format_exc()[-900:]), seed=seed, fmt=fmt)]
    try:
        wt = w.wt
        opk = ["op:%s" % op[0] for op in script]
        if fmt == "bzr":
            basis, wtsnap = snap_rev(wt.basis_tree()), snap_wt(wt)
            bp, wp = paths_of(basis), paths_of(wtsnap)
            with wt.lock_read():
                merges = len(wt.get_parent_ids()) > 1
            pend = [i for i in set(basis) | set(wtsnap) if basis.get(i) != wtsnap.get(i)]
            npend = len(pend)
            shape = []
            for i in pend:
                b, t = basis.get(i), wtsnap.get(i)
                if b is None:
                    shape.append("pending:added")
                elif t is None:
                    shape.append("pending:removed")
                elif t["kind"] == "missing":
                    shape.append("pending:missing")
                else:
                    if b["kind"] != t["kind"]:
                        shape.append("pending:kind-change")
                    if b["parent"] != t["parent"]:
                        shape.append("pending:reparented")
                    elif b["name"] != t["name"]:
                        shape.append("pending:renamed")
                    if b["kind"] == t["kind"] and (b["content"] != t["content"] or b["exec"] != t["exec"]):
                        shape.append("pending:modified")
            first = True
            carried = [wp[i] for i in wtsnap if basis.get(i) == wtsnap[i] and bp.get(i) != wp.get(i) and wp.get(i)]
            queries = gen_queries(rng, bp.values(), wp.values(), nq if not (bound or merges) else 3,
                                  tier == "thorough" and rng.random() < 0.3, carried) if not bound else []
            for sel, excl in queries:
                r = run_bzr_query(w.base, basis, wtsnap, sel, excl)
                case = dict(fmt=fmt, script=script, sel=sel, excl=excl, basis=enc_tree(basis), wt=enc_tree(wtsnap))
                cnt = list(r["counters"]) + [query_kind(sel, excl)]
                if merges:
                    cnt.append("bzr:pending-merge:%s" % r["impl"].split(" ")[0].split(":")[-1][:32])
                if sel:
                    # a rename that crosses the selection: one of the two paths of a moved id is selected, the other is not
                    if any(i in basis and i in wtsnap and bp.get(i) != wp.get(i) and inside(sel, bp.get(i)) != inside(sel, wp.get(i))
                           for i in pend):
                        cnt.append("query:rename-across-selection")
                if first:
                    cnt += opk + shape
                    first = False
                recs.append(dict(kind="bzr", case=case, npend=npend,
                                 line="commit %s %s %s %s %s %s" % (variant, "T" if merges else "F", enc_sel(sel), enc_paths(excl),
                                                                    enc_tree(basis), enc_tree(wtsnap)),
                                 line2="from %s %s %s %s" % (variant, enc_ids(r["S"]), enc_tree(basis), enc_tree(wtsnap)),
                                 line3="ids %s %s %s %s" % (enc_sel(sel), enc_paths(excl), enc_tree(basis), enc_tree(wtsnap)),
                                 impl=r["impl"], S=r["S"], vac=r["vac"], below=r["below"], viol=r["viol"], counters=cnt))
            if faults or bound:
                recs += fault_records(w, fmt, script, enc_tree(basis), enc_tree(wtsnap), npend)
        else:
            basis, wtsnap = gsnap_rev(wt.basis_tree()), gsnap_wt(wt)
            changes = git_changes(wt)
            npend = len([p for p in set(basis) | set(wtsnap) if basis.get(p) != wtsnap.get(p)])
            first = True
            for sel, excl in gen_queries(rng, basis.keys(), wtsnap.keys(), nq, False):
                if sel is not None and any(p in ("zz", "a/zz") for p in sel):
                    continue
                r = run_git_query(w.base, basis, wtsnap, changes, sel, excl)
                eff = {p: e for p, e in wtsnap.items() if e["kind"] != "missing"}
                case = dict(fmt=fmt, script=script, sel=sel, excl=excl, basis=enc_gtree(basis), wt=enc_gtree(eff),
                            changes=enc_gchanges(changes))
                cnt = list(r["counters"]) + [query_kind(sel, excl).replace("query:", "gquery:")]
                if first:
                    cnt += ["g" + k for k in opk]
                    first = False
                if sel == [] and not any(op[0] == "commit" for op in script):
                    # first commit that selects nothing: GitCommitBuilder refuses (no root); outside the tree model
                    if r["impl"] != "E:RootMissing":
                        r["viol"].append(("first commit with specific_files=[] gave %s, expected RootMissing" % r["impl"][:40], None))
                    recs.append(dict(kind="git-rootmissing", case=case, npend=npend, line=None, impl=r["impl"], viol=r["viol"],
                                     counters=cnt))
                    continue
                recs.append(dict(kind="git", case=case, npend=npend,
                                 line=None if r.get("conflict") else "git %s %s %s %s %s" % (
                                     enc_sel(sel), enc_paths(excl), enc_gchanges(changes), enc_gtree(basis), enc_gtree(eff)),
                                 impl=r["impl"], viol=r["viol"], counters=cnt))
            if faults:
                eff = {p: e for p, e in wtsnap.items() if e["kind"] != "missing"}
                recs += fault_records(w, fmt, script, enc_gtree(basis), enc_gtree(eff), npend)
    except Exception as e:
        import traceback
        recs.append(dict(kind="build-error", etype=type(e).__name__, errno=getattr(e, "errno", None),
                         error="%s: %s\n%s" % (type(e).__name__, e, traceback.format_exc()[-1500:]), seed=seed, fmt=fmt))
    finally:
        shutil.rmtree(w.root, ignore_errors=True)
    return recs


def transport_worker(args):
    import random
    seed, tier = args
    rng = random.Random(seed)
    pick = (lambda q, t: t) if tier == "thorough" else (lambda q, t: q)
    w, script = build_script("bzr", rng, pick, merge=False)
    shutil.rmtree(w.root, ignore_errors=True)
    out = []
    try:
        base = run_transport_fault(script, None)
        out.append(dict(k=None, script=script, **base))
        total = base["total"]
        ks = list(range(1, total + 1))
        if tier != "thorough" and len(ks) > 14:
            ks = sorted(set(rng.sample(ks, 10) + ks[-4:]))
        for k in ks:
            out.append(dict(k=k, script=script, **run_transport_fault(script, k)))
    except Exception as e:
        import traceback
        out.append(dict(k=-1, script=script, etype=type(e).__name__, errno=getattr(e, "errno", None),
                        error="%s: %s\n%s" % (type(e).__name__, e, traceback.format_exc()[-1500:]), viol=[]))
    return out


# --------------------------------------------------------------------------

INFRA_ERRNO = (12, 23, 24, 28)       # ENOMEM, ENFILE, EMFILE, ENOSPC


def scenario_error(ctx, r):
    """a scenario that could not be built / run: resource exhaustion is an infrastructure problem (exit 2),
    anything else is reported (the code under test crashed where it must not)"""
    if r.get("etype") in ("MemoryError", "TimeoutError") or r.get("errno") in INFRA_ERRNO:
        raise env.InfraError("scenario worker: " + r["error"][:300])
    ctx.extra.setdefault("scenario_errors", []).append(r["error"][:600])
    ctx.count("scenario-error")


def absorb(ctx, recs):
    """parent-side bookkeeping + model comparison for the records of the workers"""
    lines, cases, impls, kinds, extra = [], [], [], [], []
    for r in recs:
        if r["kind"] == "build-error":
            scenario_error(ctx, r)
            continue
        nontrivial = r["npend"] > 0 and (r["kind"] == "fault" or r["case"].get("sel") is not None or bool(r["case"].get("excl")))
        ctx.case({k: v for k, v in r["case"].items() if k != "script"}, nontrivial=nontrivial)
        for c in r["counters"]:
            ctx.count(c)
        ctx.count("pending:%d" % min(r["npend"], 12))
        for what, fam in r["viol"]:
            ctx.violation(r["case"], what, family=fam)
        if r["line"] is None:
            continue
        lines.append(r["line"])
        cases.append(r["case"])
        impls.append(r["impl"])
        kinds.append(r["kind"])
        extra.append(r)
        if r["kind"] == "bzr":
            for key, kd in (("line2", "bzr-from"), ("line3", "bzr-ids")):
                lines.append(r[key])
                cases.append(r["case"])
                impls.append(r["impl"])
                kinds.append(kd)
                extra.append(r)
    if not lines:
        return
    outs = ctx.model(lines)
    k = 0
    while k < len(lines):
        r = extra[k]
        if kinds[k] == "bzr":
            m_commit, m_from, m_ids = outs[k], outs[k + 1], outs[k + 2]
            ctx.traces += 2
            if r["impl"] in ("E:AssertionError", "E:OSError", "E:NotADirectoryError") and r["below"] and r["case"].get("sel") is not None:
                # known behaviour of the compiled comparison (C10: dirstate-lstat-below-non-directory): the commit is
                # refused (possibly after part of the change stream was produced); the oracle has checked that nothing changed
                ctx.count("bzr:dirstate-lstat-below-non-directory")
                k += 3
                continue
            # refused before the change stream is produced: the `from` line (which has no selection) does not apply
            early = r["impl"].startswith("E:PathsNotVersioned") or r["impl"] == "E:CannotCommitSelectedFileMerge"
            if m_from != r["impl"] and not early:
                ctx.mismatch(r["case"], r["impl"], m_from, line=lines[k + 1], tie="T2 from")
            if m_commit != r["impl"]:
                ms = None if m_ids.startswith("E:") or m_ids == "bad-op" else set(m_ids.split(",")) - {"-"}
                if ms is not None and ms < set(r["S"]) and set(r["S"]) - ms <= set(r["vac"]) and m_from == r["impl"]:
                    # the only other tolerated difference: the compiled dirstate comparison reported more ids than the
                    # InterInventoryTree closure, every extra id sits at a path vacated by another entry, and the rest
                    # of the pipeline behaves as the model says for the observed ids (`from` line)
                    ctx.count("bzr:dirstate-superset")
                else:
                    ctx.mismatch(r["case"], r["impl"], m_commit, line=lines[k], tie="T2 commit")
            k += 3
        else:
            ctx.traces += 1
            m = outs[k]
            impl = r["impl"]
            if kinds[k] == "fault" and r.get("ncmp") and not m.startswith("bad"):
                # git: inventories / texts are not observable and the tree has no basis pointer of its own (it is HEAD)
                m = " ".join(x for n, x in enumerate(m.split(" ")) if n in r["ncmp"])
                impl = " ".join(x for n, x in enumerate(impl.split(" ")) if n in r["ncmp"])
            if m != impl:
                ctx.mismatch(r["case"], r["impl"], outs[k], line=lines[k], tie="T2 " + kinds[k])
            k += 1


def run(ctx):
    global VARIANT
    variant = VARIANT = probe_validation()
    ctx.extra["validation_variant"] = variant
    if variant == "lax":
        ctx.violation(dict(fmt="bzr", script=[["mkdir", "d", "p1"], ["mkdir", "d/sub", "p2"], ["addfile", "d/sub/f", "1", False, "p3"],
                                              ["commit", 1], ["remove", "d/sub/f", False], ["kind", "d/sub", "file"]],
                           sel=None, excl=["d/sub/f"]),
                      "probe: commit(exclude=['d/sub/f']) after replacing the directory d/sub by a file is accepted "
                      "(the defect repaired by /repo 4a41ee3 is back: the committed inventory is ill-formed)")
    if variant not in ("strict", "lax"):
        ctx.mismatch(dict(kind="probe"), variant, "strict | lax")
        variant = VARIANT = "strict"
    nsc = ctx.pick(10, 60)
    ngit = ctx.pick(7, 36)
    nq = ctx.pick(7, 14)
    jobs = []
    for k in range(nsc):
        jobs.append(("bzr", ctx.rng.randrange(1 << 30), ctx.tier, nq, k % ctx.pick(6, 4) == 0, variant))
    for k in range(ctx.pick(2, 10)):
        jobs.append(("bzr-merge", ctx.rng.randrange(1 << 30), ctx.tier, nq, False, variant))
    for k in range(ctx.pick(1, 6)):
        jobs.append(("bzr-bound", ctx.rng.randrange(1 << 30), ctx.tier, nq, True, variant))
    for k in range(ngit):
        jobs.append(("git", ctx.rng.randrange(1 << 30), ctx.tier, nq, k % ctx.pick(8, 6) == 0, variant))
    tjobs = [(ctx.rng.randrange(1 << 30), ctx.tier) for _ in range(ctx.pick(2, 8))]
    # corpus first
    cdir = os.path.join(env.VERIF, "corpus", "C01")
    if os.path.isdir(cdir):
        import json
        for f in sorted(os.listdir(cdir)):
            if f.endswith(".json"):
                case = json.load(open(os.path.join(cdir, f)))
                absorb(ctx, replay_records(case))
                ctx.count("corpus")
    for recs in ctx.pmap(scenario_worker, jobs, chunksize=1):
        absorb(ctx, recs)
    for outs in ctx.pmap(transport_worker, tjobs, chunksize=1):
        for o in outs:
            if o.get("error"):
                scenario_error(ctx, dict(error=o["error"], etype=o.get("etype"), errno=o.get("errno")))
                continue
            case = dict(fmt="bzr-checkout", script=o["script"], transport_fault=o["k"])
            ctx.case(dict(case, at=canon_at(o["at"])), nontrivial=o["k"] is not None)
            ctx.count("tfault:%s" % ("none" if o["k"] is None else ("raised" if o["raised"] else "not-raised")))
            if o["k"] is not None and o["after_names"]:
                ctx.count("tfault:after-pack-names")
            for what, fam in o["viol"]:
                ctx.violation(case, what, family=fam)
    if ctx.dist.get("scenario-error"):
        ctx.mismatch(dict(kind="scenario-error"), ctx.extra["scenario_errors"][0], "scenario built and ran")


def canon_at(at):
    """the transport call a fault hit, without the random parts of lock / upload temp names"""
    import re
    if at is None:
        return None
    return [at[0], re.sub(r"[a-z0-9]{20,}", "*", at[1])]


VARIANT = None


def replay_records(case):
    """re-run one recorded case; returns worker-style records"""
    global VARIANT
    if VARIANT is None:
        VARIANT = probe_validation()
    variant = VARIANT if VARIANT in ("strict", "lax") else "strict"
    fmt = case.get("fmt", "bzr")
    script = [tuple(op) for op in case["script"]]
    if fmt == "bzr-checkout":
        o = run_transport_fault(script, case.get("transport_fault"))
        return [dict(kind="fault", case=case, npend=1, line="fault ~ F 0 - ~ - ~ new", impl="F new new new F - ~ 1 0", viol=o["viol"],
                     counters=["replay"], info=o)]
    bound = bool(case.get("bound"))
    w = replay_script("bzr" if fmt == "bzr" else "git", script, bound=bound)
    try:
        wt = w.wt
        if "fault" in case:
            base = run_fault(w.root, w.sub, fmt, bound, None, "first", 0)
            r = run_fault(w.root, w.sub, fmt, bound, case["fault"], case.get("when", "first"), base["ntexts"])
            return [dict(kind="fault", case=case, npend=1, line=r["line"], impl=r["impl"], viol=r["viol"], counters=["replay"],
                         ncmp=r["ncmp"])]
        sel, excl = case.get("sel"), case.get("excl") or []
        if fmt == "bzr":
            basis, wtsnap = snap_rev(wt.basis_tree()), snap_wt(wt)
            with wt.lock_read():
                merges = len(wt.get_parent_ids()) > 1
            r = run_bzr_query(w.base, basis, wtsnap, sel, excl)
            return [dict(kind="bzr", case=case, npend=1,
                         line="commit %s %s %s %s %s %s" % (variant, "T" if merges else "F", enc_sel(sel), enc_paths(excl),
                                                            enc_tree(basis), enc_tree(wtsnap)),
                         line2="from %s %s %s %s" % (variant, enc_ids(r["S"]), enc_tree(basis), enc_tree(wtsnap)),
                         line3="ids %s %s %s %s" % (enc_sel(sel), enc_paths(excl), enc_tree(basis), enc_tree(wtsnap)),
                         impl=r["impl"], S=r["S"], vac=r["vac"], below=r["below"], viol=r["viol"], counters=r["counters"])]
        basis, wtsnap = gsnap_rev(wt.basis_tree()), gsnap_wt(wt)
        changes = git_changes(wt)
        r = run_git_query(w.base, basis, wtsnap, changes, sel, excl)
        eff = {p: e for p, e in wtsnap.items() if e["kind"] != "missing"}
        return [dict(kind="git", case=case, npend=1,
                     line="git %s %s %s %s %s" % (enc_sel(sel), enc_paths(excl), enc_gchanges(changes), enc_gtree(basis), enc_gtree(eff)),
                     impl=r["impl"], viol=r["viol"], counters=r["counters"])]
    finally:
        shutil.rmtree(w.root, ignore_errors=True)


def replay(ctx, case):
    recs = replay_records(case)
    r = recs[0]
    for what, fam in r["viol"]:
        ctx.violation(case, what, family=fam)
    m = ctx.model([r["line"]])[0] if ctx.model_available else None
    impl = r["impl"]
    if m is not None and r.get("ncmp") and r["kind"] == "fault":
        m = " ".join(x for n, x in enumerate(m.split(" ")) if n in r["ncmp"])
        impl = " ".join(x for n, x in enumerate(impl.split(" ")) if n in r["ncmp"])
    return dict(case=case, impl=r["impl"], model=m, agree=(m == impl), info=r.get("info"),
                oracle_failures=[v["what"] for v in ctx.violations])
