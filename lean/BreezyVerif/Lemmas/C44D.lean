import BreezyVerif.Model.C44
/-
C44 — helper lemmas, part 4: the committer line (split, format, parse, join).
-/
namespace BreezyVerif.C44

theorem rstrip_snoc_nonws (s : Str) (c : Char) (h : isWs c = false) : rstrip (s ++ [c]) = s ++ [c] := by
  unfold rstrip
  simp [List.reverse_append, List.dropWhile, h]

theorem rstrip_snoc_ws (s : Str) (c : Char) (h : isWs c = true) : rstrip (s ++ [c]) = rstrip s := by
  unfold rstrip
  simp [List.reverse_append, List.dropWhile, h]

theorem rstrip_nil : rstrip [] = [] := rfl

theorem takeWhile_prefix {p : Char → Bool} (N : Str) (x : Char) (r : Str) (hN : ∀ c ∈ N, p c = true) (hx : p x = false) :
    (N ++ x :: r).takeWhile p = N := by
  induction N with
  | nil => simp [List.takeWhile, hx]
  | cons a N ih =>
    have ha := hN a List.mem_cons_self
    simp only [List.cons_append, List.takeWhile, ha]
    rw [ih (fun c hc => hN c (List.mem_cons_of_mem _ hc))]

theorem splitLast_none (s : Str) (h : ∀ c ∈ s, c ≠ '>') : splitLastGtSp s = none := by
  induction s with
  | nil => rfl
  | cons c rest ih =>
    have hc := h c List.mem_cons_self
    unfold splitLastGtSp
    rw [ih (fun x hx => h x (List.mem_cons_of_mem _ hx))]
    simp only
    split
    · exact absurd rfl hc
    · rfl

theorem splitLast_some (E : Str) (d : Char) (ds : Str) (hE : ∀ c ∈ E, c ≠ '>') (hd : ∀ c ∈ d :: ds, c ≠ '>') :
    splitLastGtSp (E ++ '>' :: ' ' :: d :: ds) = some (E, d :: ds) := by
  induction E with
  | nil =>
    have hn : splitLastGtSp (' ' :: d :: ds) = none := by
      apply splitLast_none
      intro c hc
      rcases List.mem_cons.mp hc with h | h
      · rw [h]; decide
      · exact hd c h
    simp only [List.nil_append]
    unfold splitLastGtSp
    rw [hn]
    rfl
  | cons a E ih =>
    simp only [List.cons_append]
    unfold splitLastGtSp
    rw [ih (fun c hc => hE c (List.mem_cons_of_mem _ hc))]

/-- the committer `N <E>` is split into `N` and `E` -/
theorem split_name_email (N E : Str) (hN : rstrip N = N) (hE : ∀ c ∈ E, c ≠ '<' ∧ c ≠ '>') :
    splitCommitter (N ++ [' ', '<'] ++ E ++ ['>']) = some (N, E) := by
  unfold splitCommitter
  have hc : (N ++ [' ', '<'] ++ E ++ ['>']).contains '<' = true := by simp
  simp only [hc, Bool.not_true, Bool.false_eq_true, if_false]
  rw [rstrip_snoc_nonws _ '>' (by decide)]
  have hrev : (N ++ [' ', '<'] ++ E ++ ['>']).reverse = '>' :: (E.reverse ++ '<' :: ' ' :: N.reverse) := by simp
  rw [hrev]
  simp only
  have htw : (E.reverse ++ '<' :: ' ' :: N.reverse).takeWhile (fun c => c != '<' && c != '>') = E.reverse := by
    apply takeWhile_prefix
    · intro c hc
      have := hE c (List.mem_reverse.mp hc)
      simp [this.1, this.2]
    · simp
  rw [htw]
  have hdrop : (E.reverse ++ '<' :: ' ' :: N.reverse).drop E.reverse.length = '<' :: ' ' :: N.reverse := by simp
  rw [hdrop]
  simp only [List.reverse_cons, List.reverse_reverse]
  rw [rstrip_snoc_ws _ ' ' (by decide), hN]

/-- the line written for `(name, email)` is parsed back into `(name, email)` -/
theorem parse_format (name email : Str) (d : Char) (ds : Str) (hn1 : ∀ c ∈ name, c ≠ '<') (hn2 : rstrip name = name)
    (he : ∀ c ∈ email, c ≠ '>') (hd : ∀ c ∈ d :: ds, c ≠ '>') :
    parseWho (formatWho (name, email) (d :: ds)) = some (name, email, d :: ds) := by
  unfold parseWho formatWho
  simp only
  by_cases hne : name = []
  · subst hne
    simp only [List.isEmpty_nil, if_true, List.nil_append, List.append_nil, List.cons_append, List.takeWhile]
    have : (('<' : Char) != '<') = false := by decide
    simp only [this, List.length_nil, List.drop_zero]
    have hsh : email ++ ['>', ' '] ++ d :: ds = email ++ '>' :: ' ' :: d :: ds := by simp
    rw [hsh, splitLast_some email d ds he hd]
    simp [rstrip_nil]
  · have hie : name.isEmpty = false := by cases name <;> simp_all
    simp only [hie, Bool.false_eq_true, if_false]
    have hshape : name ++ [' '] ++ ['<'] ++ email ++ ['>', ' '] ++ d :: ds = (name ++ [' ']) ++ '<' :: (email ++ '>' :: ' ' :: d :: ds) := by
      simp
    rw [hshape]
    have htw : ((name ++ [' ']) ++ '<' :: (email ++ '>' :: ' ' :: d :: ds)).takeWhile (· != '<') = name ++ [' '] := by
      apply takeWhile_prefix
      · intro c hc
        rcases List.mem_append.mp hc with h | h
        · simp [hn1 c h]
        · simp only [List.mem_singleton] at h; subst h; decide
      · simp
    rw [htw]
    have hdrop : ((name ++ [' ']) ++ '<' :: (email ++ '>' :: ' ' :: d :: ds)).drop (name ++ [' ']).length
        = '<' :: (email ++ '>' :: ' ' :: d :: ds) := by simp
    rw [hdrop]
    simp only
    rw [splitLast_some email d ds he hd, rstrip_snoc_ws _ ' ' (by decide), hn2]

end BreezyVerif.C44
