import BreezyVerif.Lemmas.C02Inv
/-
C02: the recorded attributes are the tree's; linear histories.
-/
namespace BreezyVerif.C02

theorem recordOne_attr (st : State) (c : Commit) (f : FileId) (a : Attr) :
    (recordOne st c f a).1.attr = a := by
  rcases recordOne_cases st c f a with ⟨x, pe, _, _, ht, hrec⟩ | ⟨hrec, _⟩
  · rw [hrec]; exact (carryTest_iff _ _).mp ht
  · rw [hrec]

theorem mkRec_inv_attr (st : State) (c : Commit) (f : FileId) :
    ((mkRec st c).inv.lookup f).map (·.attr) = c.tree.lookup f := by
  rw [mkRec_inv_lookup]
  cases c.tree.lookup f with
  | none => rfl
  | some a => simp [recordOne_attr]

theorem heads_singleton (g : TGraph) (f : FileId) (x : Rev) : heads g f [x] = [x] := by
  simp [heads, isHead]

theorem heads_nil (g : TGraph) (f : FileId) : heads g f [] = [] := rfl

/-- single parent `p` whose inventory has no `f`: a fresh entry -/
theorem recordOne_single_none {st : State} {c : Commit} {p : Rev} {f : FileId} (a : Attr)
    (hp : c.parents = [p]) (he : entryIn st f p = none) :
    recordOne st c f a = (⟨a, c.id⟩, some []) := by
  have : candidates st c.parents f = [] := by
    simp [candidates, candEntries, hp, he, dedup]
  simp [recordOne, this, heads_nil]

/-- single parent `p` whose inventory holds `f ↦ ep`: carried over iff the
attributes are equal -/
theorem recordOne_single_some {st : State} {c : Commit} {p : Rev} {f : FileId} (a : Attr)
    {ep : Entry} (hp : c.parents = [p]) (he : entryIn st f p = some ep) :
    (recordOne st c f a).1.rev = if ep.attr = a then ep.rev else c.id := by
  have hc : candidates st c.parents f = [ep.rev] := by
    simp [candidates, candEntries, hp, he, dedup]
  have hw : entryWithRev st c.parents f ep.rev = some ep := by
    simp [entryWithRev, candEntries, hp, he]
  simp only [recordOne, hc, heads_singleton, hw]
  by_cases h : ep.attr = a
  · have : carryTest ep.attr a = true := (carryTest_iff _ _).mpr h
    simp only [this, if_true, if_pos h]
  · have : ¬ carryTest ep.attr a = true := fun t => h ((carryTest_iff _ _).mp t)
    simp only [if_neg this, if_neg h]

theorem recordOne_no_parents {st : State} {c : Commit} {f : FileId} (a : Attr)
    (hp : c.parents = []) : recordOne st c f a = (⟨a, c.id⟩, some []) := by
  have : candidates st c.parents f = [] := by simp [candidates, candEntries, hp, dedup]
  simp [recordOne, this, heads_nil]

theorem linLast_cons_cons (c p : Commit) (rest : List Commit) (f : FileId) :
    linLast (c :: p :: rest) f =
      match c.tree.lookup f with
      | none => none
      | some a => if p.tree.lookup f = some a then linLast (p :: rest) f else some c.id := rfl

theorem linear_build : ∀ (rest : List Commit) (c : Commit), linear (c :: rest) = true →
    ∀ f, ((mkRec (build rest) c).inv.lookup f).map (·.rev) = linLast (c :: rest) f
  | [], c, hl, f => by
    have hp : c.parents = [] := by simpa [linear] using hl
    rw [mkRec_inv_lookup]
    simp only [linLast]
    cases c.tree.lookup f with
    | none => rfl
    | some a => simp [recordOne_no_parents a hp]
  | p :: rest, c, hl, f => by
    simp only [linear, Bool.and_eq_true, beq_iff_eq] at hl
    obtain ⟨hp, hl'⟩ := hl
    have ih := linear_build rest p hl' f
    have hattr := mkRec_inv_attr (build rest) p f
    rw [mkRec_inv_lookup, linLast_cons_cons]
    cases ht : c.tree.lookup f with
    | none => rfl
    | some a =>
      simp only [Option.map_some]
      have hent : entryIn (build (p :: rest)) f p.id = (mkRec (build rest) p).inv.lookup f :=
        entryIn_cons_self (mkRec (build rest) p) (build rest) f
      cases he : (mkRec (build rest) p).inv.lookup f with
      | none =>
        rw [he] at hattr hent
        have : ¬ p.tree.lookup f = some a := by rw [← hattr]; simp
        simp only [this, if_false, recordOne_single_none a hp hent]
      | some ep =>
        rw [he] at hattr hent ih
        rw [recordOne_single_some a hp hent]
        simp only [Option.map_some] at hattr ih
        by_cases h : ep.attr = a
        · have : p.tree.lookup f = some a := by rw [← hattr, h]
          simp only [h, this, if_true]; exact ih
        · have : ¬ p.tree.lookup f = some a := by
            rw [← hattr]; simpa using h
          simp only [h, this, if_false]

end BreezyVerif.C02
