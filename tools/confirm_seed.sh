#!/bin/bash
# tools/confirm_seed.sh <worktree> <test files...>: confirm a seeded change
# (demo fails with it / passes without it; the named tests give the same
# result with and without it).  Prints a JSON-ish summary.
wt=$1; shift
cd "$wt" || exit 2
export HOME=/var/tmp/seedhome-$$ BRZ_HOME=/var/tmp/seedhome-$$; mkdir -p $HOME
git diff > /var/tmp/seedpatch-$$.diff
/venv/bin/python demo.py > /var/tmp/seed-demo-with-$$.log 2>&1; with=$?
git apply -R /var/tmp/seedpatch-$$.diff || exit 2
/venv/bin/python demo.py > /var/tmp/seed-demo-without-$$.log 2>&1; without=$?
tw="-"; two="-"
if [ $# -gt 0 ]; then
  two=$(timeout 3000 /venv/bin/python -m pytest -q -p no:cacheprovider -n 4 "$@" 2>&1 | tail -1)
fi
git apply /var/tmp/seedpatch-$$.diff || exit 2
if [ $# -gt 0 ]; then
  tw=$(timeout 3000 /venv/bin/python -m pytest -q -p no:cacheprovider -n 4 "$@" 2>&1 | tail -1)
fi
echo "demo_with_change_exit=$with demo_without_change_exit=$without"
echo "tests_without: $two"
echo "tests_with:    $tw"
tail -3 /var/tmp/seed-demo-with-$$.log
rm -rf $HOME /var/tmp/seed-demo-*-$$.log /var/tmp/seedpatch-$$.diff
