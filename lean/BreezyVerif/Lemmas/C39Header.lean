import BreezyVerif.Model.C39
/-! C39 helper lemmas: decimal numbers and hunk headers parse back. -/
namespace BreezyVerif.C39

theorem digitV_digitB (k : Nat) (h : k < 10) : digitV (digitB k) = some k := by
  have : k = 0 ∨ k = 1 ∨ k = 2 ∨ k = 3 ∨ k = 4 ∨ k = 5 ∨ k = 6 ∨ k = 7 ∨ k = 8 ∨ k = 9 := by omega
  rcases this with rfl | rfl | rfl | rfl | rfl | rfl | rfl | rfl | rfl | rfl <;> decide

theorem digitsV_append (acc : Nat) (a b : Bytes) :
    digitsV acc (a ++ b) = (digitsV acc a).bind (fun v => digitsV v b) := by
  induction a generalizing acc with
  | nil => simp [digitsV]
  | cons c cs ih =>
    simp only [List.cons_append, digitsV]
    cases digitV c with
    | none => simp
    | some d => simp [ih]

theorem natB_lt (n : Nat) (h : n < 10) : natB n = [digitB n] := by
  rw [natB]; simp [h]

theorem natB_ge (n : Nat) (h : ¬ n < 10) : natB n = natB (n / 10) ++ [digitB (n % 10)] := by
  rw [natB]; simp [h]

theorem digitsV_natB (n : Nat) : ∀ acc, ∃ k, digitsV acc (natB n) = some (acc * 10 ^ k + n) := by
  induction n using Nat.strongRecOn with
  | _ n ih =>
    intro acc
    by_cases h : n < 10
    · refine ⟨1, ?_⟩
      rw [natB_lt n h]
      simp [digitsV, digitV_digitB n h]
    · obtain ⟨k, hk⟩ := ih (n / 10) (by omega) acc
      refine ⟨k + 1, ?_⟩
      rw [natB_ge n h, digitsV_append, hk]
      simp only [Option.bind_some, digitsV, digitV_digitB (n % 10) (Nat.mod_lt _ (by omega))]
      congr 1
      rw [Nat.pow_succ]
      generalize 10 ^ k = m
      rw [Nat.add_mul, Nat.mul_assoc]
      omega

theorem digitsV_zero_natB (n : Nat) : digitsV 0 (natB n) = some n := by
  obtain ⟨k, hk⟩ := digitsV_natB n 0
  simpa using hk

theorem natB_ne_nil (n : Nat) : natB n ≠ [] := by
  by_cases h : n < 10
  · rw [natB_lt n h]; simp
  · rw [natB_ge n h]; simp

theorem digit_of_mem_natB (n : Nat) : ∀ c ∈ natB n, digitV c ≠ none := by
  induction n using Nat.strongRecOn with
  | _ n ih =>
    intro c hc
    by_cases h : n < 10
    · rw [natB_lt n h] at hc
      simp only [List.mem_singleton] at hc
      rw [hc, digitV_digitB n h]; simp
    · rw [natB_ge n h] at hc
      simp only [List.mem_append, List.mem_singleton] at hc
      rcases hc with hc | hc
      · exact ih (n / 10) (by omega) c hc
      · rw [hc, digitV_digitB _ (Nat.mod_lt _ (by omega))]; simp

theorem not_mem_natB (n : Nat) (c : UInt8) (hc : digitV c = none) : c ∉ natB n :=
  fun h => digit_of_mem_natB n c h hc

theorem parseIntSign_natB (n : Nat) : parseIntSign (natB n) = some (false, n) := by
  have hne := natB_ne_nil n
  have hd := digit_of_mem_natB n
  have hv := digitsV_zero_natB n
  generalize natB n = s at *
  match s, hne with
  | c :: cs, _ =>
    have hc := hd c (by simp)
    have h45 : c ≠ 45 := fun e => hc (by rw [e]; decide)
    have h43 : c ≠ 43 := fun e => hc (by rw [e]; decide)
    unfold parseIntSign
    split
    · rename_i heq; simp only [List.cons.injEq] at heq; exact absurd heq.1 h45
    · rename_i heq; simp only [List.cons.injEq] at heq; exact absurd heq.1 h43
    · simp [hv]

theorem splitOnB_of_not_mem (sep : UInt8) (a : Bytes) (h : sep ∉ a) : splitOnB sep a = [a] := by
  induction a with
  | nil => simp [splitOnB]
  | cons x xs ih =>
    have hx : x ≠ sep := fun e => h (by simp [e])
    have hxs : sep ∉ xs := fun e => h (by simp [e])
    rw [splitOnB]
    simp [hx, ih hxs]

theorem splitOnB_append (sep : UInt8) (a b : Bytes) (h : sep ∉ a) :
    splitOnB sep (a ++ sep :: b) = a :: splitOnB sep b := by
  induction a with
  | nil => simp [splitOnB]
  | cons x xs ih =>
    have hx : x ≠ sep := fun e => h (by simp [e])
    have hxs : sep ∉ xs := fun e => h (by simp [e])
    rw [List.cons_append, splitOnB]
    simp [hx, ih hxs]

theorem sep_not_digit : digitV commaB = none ∧ digitV spB = none ∧ digitV atB = none ∧
    digitV plusB = none ∧ digitV minusB = none ∧ digitV nlB = none := by decide

theorem parseRange_pair (p r : Nat) (hp : p < 2147483648) (hr : r < 2147483648) :
    parseRange (natB p ++ commaB :: natB r) = .ok p r := by
  unfold parseRange
  rw [splitOnB_append _ _ _ (not_mem_natB p _ sep_not_digit.1),
    splitOnB_of_not_mem _ _ (not_mem_natB r _ sep_not_digit.1)]
  simp only [List.head?_cons, Option.getD_some, parseIntSign_natB]
  rw [if_neg (by omega), if_neg (by simp), if_neg (by simp)]

theorem parseRange_single (p : Nat) (hp : p < 2147483648) :
    parseRange (natB p) = .ok p 1 := by
  unfold parseRange
  rw [splitOnB_of_not_mem _ _ (not_mem_natB p _ sep_not_digit.1)]
  have : parseIntSign [49] = some (false, 1) := by decide
  simp only [List.head?_cons, Option.getD_some, parseIntSign_natB, this]
  rw [if_neg (by omega), if_neg (by simp), if_neg (by simp)]

theorem parseRange_rangeStr (p r : Nat) (hp : p < 2147483648) (hr : r < 2147483648) :
    parseRange (rangeStr p r) = .ok p r := by
  unfold rangeStr
  split
  · rename_i h; rw [h]; exact parseRange_single p hp
  · simpa using parseRange_pair p r hp hr

theorem takeWhile_append_stop (p : UInt8 → Bool) (a b : Bytes) (c : UInt8)
    (ha : ∀ x ∈ a, p x = true) (hc : p c = false) :
    (a ++ c :: b).takeWhile p = a ∧ (a ++ c :: b).dropWhile p = c :: b := by
  induction a with
  | nil => simp [List.takeWhile, List.dropWhile, hc]
  | cons x xs ih =>
    have hx := ha x (by simp)
    have := ih (fun y hy => ha y (List.mem_cons_of_mem _ hy))
    simp [List.takeWhile, List.dropWhile, hx, this]

theorem dropLast_shape (x y z c : UInt8) (a b : Bytes) :
    (x :: (a ++ y :: z :: (b ++ [c]))).dropLast = x :: (a ++ y :: z :: b) := by
  have : x :: (a ++ y :: z :: (b ++ [c])) = (x :: (a ++ y :: z :: b)) ++ [c] := by simp
  rw [this, List.dropLast_concat]

def tailPart : Option Bytes → Bytes
  | some t => spB :: t
  | none => []

/-- the generic shape of a hunk header -/
def hdr (o m : Bytes) (tail : Option Bytes) : Bytes :=
  [atB, atB, spB] ++ ((minusB :: o ++ spB :: plusB :: m ++ [spB]) ++ atB :: atB :: (tailPart tail ++ [nlB]))

theorem matchHeader_hdr (o m : Bytes) (tail : Option Bytes)
    (ho : atB ∉ o) (hm : atB ∉ m) (ht : ∀ t, tail = some t → nlB ∉ t) :
    matchHeader (hdr o m tail) = some (minusB :: o ++ spB :: plusB :: m, tail) := by
  unfold matchHeader hdr
  generalize htp : tailPart tail ++ [nlB] = tp
  have hpre : stripPrefix [atB, atB, spB] ([atB, atB, spB] ++ ((minusB :: o ++ spB :: plusB :: m ++ [spB]) ++ atB :: atB :: tp)) =
      some ((minusB :: o ++ spB :: plusB :: m ++ [spB]) ++ atB :: atB :: tp) := by
    simp [stripPrefix, List.isPrefixOf]
  rw [hpre]
  simp only []
  have hall : ∀ x ∈ (minusB :: o ++ spB :: plusB :: m ++ [spB]), (decide (x ≠ atB)) = true := by
    intro x hx
    simp only [decide_eq_true_eq]
    intro e
    subst e
    have h1 : atB ≠ minusB := by decide
    have h2 : atB ≠ spB := by decide
    have h3 : atB ≠ plusB := by decide
    simp [ho, hm, h1, h2, h3] at hx
  have htd := takeWhile_append_stop (fun x => decide (x ≠ atB)) _ (atB :: tp) atB hall (by simp)
  rw [htd.1, htd.2]
  have hlast : (minusB :: o ++ spB :: plusB :: m ++ [spB]).getLast? = some spB := by
    rw [List.getLast?_append]; simp
  rw [if_neg (by rw [hlast]; simp)]
  have hpre2 : stripPrefix [atB, atB] (atB :: atB :: tp) = some tp := by
    simp [stripPrefix, List.isPrefixOf]
  rw [hpre2]
  simp only []
  cases tail with
  | none =>
    simp only [tailPart, List.nil_append] at htp
    subst htp
    simp only [nlB, List.dropLast_concat]
  | some t =>
    have hnt := ht t rfl
    have htw := takeWhile_append_stop (fun x => decide (x ≠ nlB)) t [] nlB
      (by intro x hx; simp only [decide_eq_true_eq]; exact fun e => hnt (e ▸ hx)) (by simp)
    simp only [tailPart, List.cons_append] at htp
    subst htp
    simp only [spB]
    rw [if_pos (by simp)]
    rw [htw.1, List.dropLast_concat]

theorem hunkFromHeader_hdr (o m : Bytes) (tail : Option Bytes) (op orr mp mr : Nat)
    (ho : atB ∉ o) (hm : atB ∉ m) (hos : spB ∉ o) (hms : spB ∉ m) (ht : ∀ t, tail = some t → nlB ∉ t)
    (hpo : parseRange o = .ok op orr) (hpm : parseRange m = .ok mp mr) :
    hunkFromHeader (hdr o m tail) = .ok ⟨op, orr, mp, mr, tail, []⟩ := by
  unfold hunkFromHeader
  rw [matchHeader_hdr o m tail ho hm ht]
  simp only []
  have hsp : spB ∉ minusB :: o := by
    intro h
    rcases List.mem_cons.mp h with e | h
    · exact absurd e (by decide)
    · exact hos h
  have hsp2 : spB ∉ plusB :: m := by
    intro h
    rcases List.mem_cons.mp h with e | h
    · exact absurd e (by decide)
    · exact hms h
  rw [splitOnB_append spB (minusB :: o) (plusB :: m) hsp, splitOnB_of_not_mem spB _ hsp2]
  simp only [minusB, plusB, hpo, hpm]

theorem not_mem_rangeStr (p r : Nat) (c : UInt8) (hc : digitV c = none) (hcc : c ≠ commaB) :
    c ∉ rangeStr p r := by
  unfold rangeStr
  split
  · exact not_mem_natB p c hc
  · simp only [List.append_assoc, List.mem_append, List.mem_singleton, List.mem_cons, List.not_mem_nil, or_false, not_or]
    exact ⟨not_mem_natB p c hc, hcc, not_mem_natB r c hc⟩

def small (h : Hunk) : Bool :=
  h.origPos < 2147483648 ∧ h.origRange < 2147483648 ∧ h.modPos < 2147483648 ∧ h.modRange < 2147483648

theorem headerFull_eq (h : Hunk) :
    headerFull h = hdr (natB h.origPos ++ commaB :: natB h.origRange) (natB h.modPos ++ commaB :: natB h.modRange) none := by
  simp [headerFull, hdr, tailPart, List.append_assoc]

theorem headerShort_eq (h : Hunk) :
    headerShort h = hdr (rangeStr h.origPos h.origRange) (rangeStr h.modPos h.modRange) h.tail := by
  cases ht : h.tail <;> simp [headerShort, hdr, tailPart, List.append_assoc, ht]

theorem hunkFromHeader_full (h : Hunk) (hs : small h = true) :
    hunkFromHeader (headerFull h) = .ok ⟨h.origPos, h.origRange, h.modPos, h.modRange, none, []⟩ := by
  simp only [small, Bool.decide_and, Bool.and_eq_true, decide_eq_true_eq] at hs
  rw [headerFull_eq]
  have key := fun p r => (show rangeStr p r = natB p ++ commaB :: natB r ∨ True from Or.inr trivial)
  have nm : ∀ (p r : Nat) (c : UInt8), digitV c = none → c ≠ commaB → c ∉ natB p ++ commaB :: natB r := by
    intro p r c hc hcc
    simp only [List.mem_append, List.mem_cons, not_or]
    exact ⟨not_mem_natB p c hc, hcc, not_mem_natB r c hc⟩
  exact hunkFromHeader_hdr _ _ none _ _ _ _
    (nm _ _ _ sep_not_digit.2.2.1 (by decide)) (nm _ _ _ sep_not_digit.2.2.1 (by decide))
    (nm _ _ _ sep_not_digit.2.1 (by decide)) (nm _ _ _ sep_not_digit.2.1 (by decide))
    (by simp) (parseRange_pair _ _ hs.1 hs.2.1) (parseRange_pair _ _ hs.2.2.1 hs.2.2.2)

theorem hunkFromHeader_short (h : Hunk) (hs : small h = true) (ht : ∀ t, h.tail = some t → nlB ∉ t) :
    hunkFromHeader (headerShort h) = .ok ⟨h.origPos, h.origRange, h.modPos, h.modRange, h.tail, []⟩ := by
  simp only [small, Bool.decide_and, Bool.and_eq_true, decide_eq_true_eq] at hs
  rw [headerShort_eq]
  exact hunkFromHeader_hdr _ _ h.tail _ _ _ _
    (not_mem_rangeStr _ _ _ sep_not_digit.2.2.1 (by decide)) (not_mem_rangeStr _ _ _ sep_not_digit.2.2.1 (by decide))
    (not_mem_rangeStr _ _ _ sep_not_digit.2.1 (by decide)) (not_mem_rangeStr _ _ _ sep_not_digit.2.1 (by decide))
    ht (parseRange_rangeStr _ _ hs.1 hs.2.1) (parseRange_rangeStr _ _ hs.2.2.1 hs.2.2.2)

end BreezyVerif.C39
