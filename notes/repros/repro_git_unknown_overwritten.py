#!/venv/bin/python
"""C12 finding: in a git working tree, `merge` / `pull` of a revision that ADDS a file at a path where the
user has an unversioned (unknown) file silently overwrites the user's file: no conflict, no `.moved` copy.
(bzr trees move the existing file to `<name>.moved` and report a DuplicateEntry conflict.)

usage: repro_git_unknown_overwritten.py [repo-root]   (exit 1 = user content lost)"""
import os, sys, tempfile, shutil
repo = sys.argv[1] if len(sys.argv) > 1 else os.environ.get("VERIF_REPO", "/repo")
sys.path.insert(0, repo)
home = tempfile.mkdtemp(prefix="c12repro-", dir="/var/tmp")
os.environ["HOME"] = home; os.environ["BRZ_HOME"] = home; os.environ["BRZ_EMAIL"] = "t <t@example.com>"; os.environ["BRZ_PLUGIN_PATH"] = "-user:-site"; os.environ["BRZ_LOG"] = os.path.join(home, "brz.log")
import breezy
breezy.initialize()
import breezy.bzr, breezy.git
from breezy.controldir import ControlDir, format_registry
from breezy import ui, trace
ui.ui_factory = ui.SilentUIFactory(); trace.be_quiet(True)
import logging; logging.getLogger("brz").setLevel(logging.CRITICAL + 1)
from breezy.workingtree import WorkingTree

bad = 0
for fmt in ("git", "2a"):
    for how in ("merge", "pull"):
        d = tempfile.mkdtemp(prefix="c12r-", dir=home)
        main = ControlDir.create_standalone_workingtree(os.path.join(d, "main"), format=format_registry.make_controldir(fmt))
        open(os.path.join(main.basedir, "f0"), "w").write("base\n")
        main.add(["f0"]); main.commit("r1")
        other = main.controldir.sprout(os.path.join(d, "other")).open_workingtree()
        open(os.path.join(other.basedir, "o0"), "w").write("incoming new file\n")
        other.add(["o0"]); other.commit("adds o0")
        user = "USER: uncommitted, never versioned\n"
        open(os.path.join(main.basedir, "o0"), "w").write(user)
        if how == "merge":
            main.merge_from_branch(other.branch, force=True)
        else:
            main.pull(other.branch)
        found = []
        for dp, dn, fn in os.walk(main.basedir):
            dn[:] = [x for x in dn if x not in (".git", ".bzr")]
            for f in fn:
                if open(os.path.join(dp, f)).read() == user:
                    found.append(os.path.relpath(os.path.join(dp, f), main.basedir))
        print("%-3s %-5s: user's bytes found at %s; o0 = %r" % (fmt, how, found or "NOWHERE (lost)", open(os.path.join(main.basedir, "o0")).read()))
        if not found:
            bad = 1
# second trigger of the same mechanism: THIS removed f0 and has a NEW unknown file at f0; OTHER modified f0
for fmt in ("git", "2a"):
    d = tempfile.mkdtemp(prefix="c12r-", dir=home)
    main = ControlDir.create_standalone_workingtree(os.path.join(d, "main"), format=format_registry.make_controldir(fmt))
    open(os.path.join(main.basedir, "f0"), "w").write("base\n")
    open(os.path.join(main.basedir, "f1"), "w").write("base\n")
    main.add(["f0", "f1"]); main.commit("r1")
    other = main.controldir.sprout(os.path.join(d, "other")).open_workingtree()
    open(os.path.join(other.basedir, "f0"), "w").write("base\nother change\n")
    other.commit("modifies f0")
    main.remove(["f0"], keep_files=False, force=True)
    main.commit("removes f0")
    user = "USER: new unknown file at the removed path\n"
    open(os.path.join(main.basedir, "f0"), "w").write(user)
    main.merge_from_branch(other.branch, force=True)
    found = [f for f in os.listdir(main.basedir) if os.path.isfile(os.path.join(main.basedir, f)) and open(os.path.join(main.basedir, f)).read() == user]
    print("%-3s merge (THIS removed f0 + unknown f0, OTHER modified f0): user's bytes found at %s; files %s"
          % (fmt, found or "NOWHERE (lost)", sorted(x for x in os.listdir(main.basedir) if not x.startswith("."))))
    if not found:
        bad = 1
shutil.rmtree(home, ignore_errors=True)
sys.exit(bad)
