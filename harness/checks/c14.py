"""C14 — transform previews match their applied result.

Mechanism: breezy/transform.py (TreeTransform bookkeeping, final_* accessors,
resolve_conflicts / conflict_pass / CONFLICT_RESOLVERS, PreviewTree),
breezy/bzr/transform.py (find_raw_conflicts, InventoryPreviewTree,
_inventory_altered, _generate_inventory_delta, apply) and
breezy/git/transform.py (the same for git trees, _generate_index_changes).

T1: the key set of CONFLICT_RESOLVERS, the pass count of resolve_conflicts and
    ten code-variant flags are read from the source with `ast` and written to
    Generated/C14.lean: six for the repairs already in /repo (preview accessors
    reading an unmodified entry at its tree path, resolvers using
    by_parent().get, guarded cancel_creation, loops of new entries left alone)
    and four for the repairs proposed for the defects this check reports
    (upSkipsIdless, npReleasesId, unversionTolerant, deltaDropsOldId: the model
    follows whichever variant the source is).  Props/C14T1.lean proves that the
    model has a resolver for exactly the extracted keys, uses the extracted
    pass count, and (source_flags_fixed) that both extracted flag records have
    previewFixed and resolversFixed — the hypotheses of the positive theorems.
T2 (three-way): operation sequences (new_file / new_directory / new_symlink /
    delete_contents / adjust_path / version_file / unversion_file /
    set_executability / create_file / create_directory) on real bzr (2a) and
    git working-tree transforms, in four streams: `pre` (the patterns merge,
    revert and build_tree use), `deep` (directories with files two and more
    levels below renamed / re-parented), `wild` (unconstrained operations over
    the registered paths; the root only as a parent) and `wildroot` (also on the
    root; accept/reject + initial conflicts only).  Compared with the Lean
    model: accept/reject of every operation, find_raw_conflicts() in order, the
    outcome of resolve_conflicts (clean / MalformedTransform + conflicts as a
    sorted list / exception class AND the conflict whose resolver raised), the
    outcome of apply() (returned / which exception / is the tree as before),
    the dump of get_preview_tree() and the dump of the working tree after
    apply() — the model's applied dump is enumerated from its *disk* (inodes
    with a directory entry, at the path their directory entries spell) plus
    inventory entries without a file; git versioning is compared as it is
    (no mask).  The hypotheses of the theorems (TT.wf, baseWf, gitHyps,
    bzrHyps when nothing is re-versioned, fuelOk) are evaluated by the driver
    on every conflict-free transform reached and a false one is a mismatch.
Oracle (independent of the model), on every stream but `wildroot`: preview
    dump == working tree dump after apply (paths, kinds, contents, executable
    bits, versioning) on every path either of them or the previous tree has;
    find_raw_conflicts / resolve_conflicts end clean or with
    MalformedTransform, nothing else; after MalformedTransform apply() raises
    MalformedTransform too and the directory and the versioned paths are
    exactly as before; a clean transform applies, and a failed apply leaves
    the tree as it was.  The same is run with lazily registered trans-ids (no
    model) to cover `_add_tree_children`.
Failing applies ("never a partially applied tree" when the file system fails):
    every case whose transform resolves clean and applies is applied again on
    an untouched copy with the k-th os.rename of apply() failing - a real
    OSError(EIO) out of os.rename (-> TransformRenameFailed) or a BaseException
    raised there.  apply() must raise, and the WHOLE tree (paths, kinds,
    contents, executable bits, versioning) must equal the tree before, with no
    limbo / pending-deletion left after finalize.  k runs over ALL rename
    indices for the `execfault` stream (executable-bit changes of existing,
    non-moving files plus newly created entries whose names sort before and
    after them, so that the mode change is the first / a middle / the last
    thing apply() does; a minority with a rename or a replaced file) and over a
    sample for the other streams.  Tie: the model's applyFaulted /
    resolveAndApplyFaulted (driver field flt=) says "raises, disk as before";
    theorems faulted_run_keeps_disk, faulted_apply_of_clean.  (Seeded change
    C14b: rollback() no longer undid mode changes made before the first
    rename - caught here with the mode in the diff.)

Findings.  Repaired by fix: commits in /repo, plain violations if they return
(corpus/C14 holds one minimal case each, run first): preview reads the base
tree at the preview path; preview path bound to a removed sibling;
GitPreviewTree.is_versioned of a new entry; git index not updated for children
of renamed directories / version-only entries; by_parent()[id] KeyError in
resolvers; git duplicate-directories cancel_creation; ImmortalLimbo after a
limbo fallback name; KeyError for a parent loop of new entries.  Known finding
(committed): preview-extras-lists-deleted-entry.  Families found when the
wild stream was given the whole pipeline and the oracle (`_classify_failure`
computes them from the operations, the base tree, the conflict being resolved
and the call chain of the exception; each has a witness theorem in
Props/C14.lean and a repro script under /var/tmp/imp-C13C14/c14/repro):
  bzr-unversioned-parent-without-file-id   resolve_unversioned_parent calls
      version_file(file_id=None): ValueError out of resolve_conflicts;
  bzr-non-directory-parent-new-file-id-reused   resolve_non_directory_parent
      gives the replacement directory a file id the parent still holds in
      _new_id: DuplicateKey;
  bzr-unversion-of-unversioned-tree-path   _add_tree_children:
      stored_kind(path) raises NoSuchFile out of find_raw_conflicts;
  bzr-version-file-on-versioned-entry   version_file on a versioned path
      without unversion_file: no conflict, the delta keeps the old id —
      InconsistentDelta after the files were moved (partially applied tree), or
      a stale versioned entry the preview does not show;
  contentless-entry-moved-below-a-file   no conflict; TransformRenameFailed
      (ENOTDIR, rolled back) or InconsistentDelta (partial) on apply;
  directory-contents-replaced-below-kept-children   apply_deletions fails
      with ENOTEMPTY after everything was changed; the children are gone.

Mutants (scratch worktree; o = caught by the oracle with a concrete input,
t = by the correspondence).  Run against this version: git
_generate_index_changes not re-keying the children of moved directories (o,t);
delta parent file id taken from the tree parent (o,t); `range(10)` ->
`range(2)` in resolve_conflicts (o,t); resolve_duplicate moving the renamed
entry instead of the other one (t); _apply_insertions skipping the rename
from limbo for some ids without new contents (o); _parent_type_conflicts
accepting symlink parents (o,t); PreviewTree.is_executable reading at the
preview path (o, and T1: source_flags_fixed fails, theorems 47/51); harmless
and clean: by_parent with setdefault.  Run against the first version of the
check (not repeated): `range(1)` (o,t,T1); "duplicate" dropped from
CONFLICT_RESOLVERS (t,T1); final_kind ignoring _removed_contents (o,t);
_inventory_altered ignoring new file ids (o,t); _duplicate_entries counting
removed unversioned entries (t); _apply_insertions skipping
_set_executability (o,t); apply() without _check_malformed (o); _parent_loops
testing `in seen` before `== trans_id` (o,t); PreviewTree.kind from the tree
kind for removed contents (o,t); resolve_missing_parent keeping the deletion
of a directory with unversioned children (t); harmless: conflict_pass
collecting into a list.  The four proposed repairs applied together
(/var/tmp/imp-C13C14/c14/c14-resolver-and-delta-fixes.patch) leave the check
with mismatches=0 and only the two unrepaired families.
"""
import ast
import os
import random
import shutil
import sys

from vlib import env

THEOREMS = [
    # the resolution loop and its three outcomes
    "resolve_clean_or_error", "resolve_clean_reached", "resolve_zero_malformed",
    "resolve_crashed_from_resolver", "conflictPass_unresolvable", "resolve_unresolvable_malformed",
    "unversioned_parent_crash_witness", "non_dir_parent_duplicate_key_witness", "unversion_unversioned_raises_witness",
    # all or nothing
    "run_raise_keeps_disk_partial", "run_all_or_nothing", "apply_clean_applies", "inconsistent_delta_partial_witness",
    "dangling_rename_failed_witness", "faulted_run_keeps_disk", "faulted_apply_of_clean",
    # apply (disk) = final, paths, preview = apply
    "resolveOne_no_resolver", "applyRemovals_get", "removal_fields", "applied_disk_eq_final",
    "applied_dirent_eq_final", "diskPath_applyDisk_eq_finalPath", "appliedPaths_eq_final",
    "preview_entry_eq_final", "preview_eq_apply_disk", "preview_eq_apply_per_path", "preview_paths_on_applied_disk",
    "preview_entry_partial", "preview_path_lookup_witness",
    # versioning: git index and bzr inventory delta
    "git_index_dir_rename_witness", "gitAdded_mem_iff", "gitIndex_mem_iff", "gitIndex_eq_final",
    "inventoryAltered_covers", "delta_sound", "applied_inv_functional", "applied_inv_path_eq_final",
    "delta_reversion_stale_witness",
    # fuel
    "finalPath_fuel_mono", "treePath_invPath_fuel_mono", "loopWalk_findChanged_fuel_mono",
    # resolvers
    "resolve_versioning_no_contents_sound", "resolve_missing_parent_sound", "resolve_missing_parent_cancels",
    "resolve_duplicate_renames", "resolve_duplicate_id_sound",
]
T1_THEOREMS = ["resolver_keys_match", "pass_count_matches", "flags_known", "source_flags_fixed"]
RULE = ("case = (format bzr-2a|git, random base tree of <= ~10 paths with files/dirs/symlinks/unversioned entries, "
        "1..7 operation groups, stream pre|deep|lazy|wild|wildroot); distinct by canonical (base, ops); non-trivial = the "
        "transform has >= 1 raw conflict or changes >= 2 trans-ids")
ASSUMPTIONS = [
    "every tree path has a trans-id before the operations start (the harness registers them; the lazy stream checks the real code without that)",
    "default orphan policy (transform.orphan_policy=conflict); case-sensitive POSIX file system with symlinks and executable bits",
    "gitIndex_eq_final / delta_sound / the path theorems have explicit decidable hypotheses (TT.wf, baseWf, gitHyps, bzrHyps) that are "
    "evaluated on every conflict-free transform the harness reaches, not derived from find_raw_conflicts() == []",
]
TRUSTED = [
    "git: the order of 'versioning no contents' conflicts (a Python set) is not compared; the conflicts a MalformedTransform carries are "
    "compared as a sorted list (their order depends on set iteration in _reparent_transform_children, i.e. on PYTHONHASHSEED)",
    "the disk is modelled as an inode table (directory entry + node per trans-id): a directory rename carries its children; limbo naming, "
    "stat caching and observed sha1s are not modelled; a rename fails only in the ENOTDIR case of TT.dangling, and its rollback is exact (C13)",
    "update_by_delta's consistency check is modelled as: no two entries share (parent id, name), every parent id is present and a directory",
    "children sets of by_parent() are iterated in trans-id order in the model (Python iterates them in hash order); _path2trans_id is "
    "modelled by the final paths plus the `shadowed` mask for names bound to entries that do not exist in the result",
]

NAMES = ["a", "b", "c", "d"]
RESOLVER_KEYS = ["duplicate id", "duplicate", "parent loop", "missing parent", "unversioned parent",
                 "non-directory parent", "versioning no contents"]

# --------------------------------------------------------------------------
# T1

def _src(rel):
    return open(os.path.join(env.REPO, rel)).read()


def _func(tree, qual):
    body = tree.body
    node = None
    for p in qual.split("."):
        node = next((n for n in body if isinstance(n, (ast.FunctionDef, ast.ClassDef)) and n.name == p), None)
        if node is None:
            raise ValueError("%s not found" % qual)
        body = node.body
    return node


def _mentions(fn, attr):
    return any(isinstance(n, ast.Attribute) and n.attr == attr for n in ast.walk(fn))


def _subscripts_by_parent(fn):
    for n in ast.walk(fn):
        if isinstance(n, ast.Subscript):
            v = n.value
            if isinstance(v, ast.Name) and v.id == "by_parent":
                return True
            if isinstance(v, ast.Call) and isinstance(v.func, ast.Attribute) and v.func.attr == "by_parent":
                return True
    return False


def source_facts():
    t = ast.parse(_src("breezy/transform.py"))
    b = ast.parse(_src("breezy/bzr/transform.py"))
    g = ast.parse(_src("breezy/git/transform.py"))
    keys = None
    for n in t.body:
        if isinstance(n, ast.Assign) and any(isinstance(x, ast.Name) and x.id == "CONFLICT_RESOLVERS" for x in n.targets):
            keys = [ast.literal_eval(k) for k in n.value.keys]
    if keys is None:
        raise ValueError("CONFLICT_RESOLVERS not found")
    rc = _func(t, "resolve_conflicts")
    passes = None
    for n in ast.walk(rc):
        if isinstance(n, ast.For) and isinstance(n.iter, ast.Call) and getattr(n.iter.func, "id", None) == "range":
            passes = ast.literal_eval(n.iter.args[0])
    if passes is None:
        raise ValueError("pass count not found")
    data_bzr = _mentions(_func(b, "InventoryPreviewTree.get_file"), "tree_path")
    exec_by_tree = _mentions(_func(t, "PreviewTree.is_executable"), "tree_path")
    children_get = not (_subscripts_by_parent(_func(t, "_reparent_transform_children"))
                        or _subscripts_by_parent(_func(b, "TreeTransformBase._get_potential_orphans"))
                        or _subscripts_by_parent(_func(g, "TreeTransformBase._get_potential_orphans")))
    rd = _func(t, "resolve_duplicate")
    cancel_guarded = any(isinstance(n, ast.If) and any(isinstance(c, ast.Call) and getattr(c.func, "attr", None) == "cancel_creation"
                                                       for c in ast.walk(n))
                         and not any(isinstance(c, ast.Call) and getattr(c.func, "attr", None) == "delete_contents" for c in ast.walk(n))
                         for n in ast.walk(rd))
    rpl = _func(t, "resolve_parent_loop")
    loop_guarded = _mentions(rpl, "tree_path") or _mentions(rpl, "_tree_id_paths")
    # proposed repairs of the resolver / delta defects this check reports (the model follows the source)
    rup = _func(t, "resolve_unversioned_parent")
    up_skips = any(isinstance(n, ast.Compare) and isinstance(n.left, ast.Name) and n.left.id == "file_id"
                   and len(n.ops) == 1 and isinstance(n.ops[0], ast.Is)
                   and isinstance(n.comparators[0], ast.Constant) and n.comparators[0].value is None for n in ast.walk(rup))
    rnp = _func(t, "resolve_non_directory_parent")
    np_releases = any(isinstance(n, ast.Call) and getattr(n.func, "attr", None) == "cancel_versioning" for n in ast.walk(rnp))
    unversion_tolerant = any(isinstance(n, ast.Try) for n in ast.walk(_func(b, "TreeTransformBase._add_tree_children")))
    delta_drops_old = _mentions(_func(b, "InventoryTreeTransform._generate_inventory_delta"), "_new_id")
    return dict(keys=keys, passes=passes, data_bzr=data_bzr, exec_by_tree=exec_by_tree, children_get=children_get,
                cancel_guarded=cancel_guarded, loop_guarded=loop_guarded, up_skips=up_skips, np_releases=np_releases,
                unversion_tolerant=unversion_tolerant, delta_drops_old=delta_drops_old)


def extract(ctx):
    sys.path.insert(0, os.path.join(env.VERIF, "tools"))
    import extract as ex
    f = source_facts()
    b = lambda x: "true" if x else "false"
    rest = ("execByTreePath := %s, childrenGet := %s, cancelGuarded := %s, loopGuarded := %s, upSkipsIdless := %s, "
            "npReleasesId := %s, unversionTolerant := %s, deltaDropsOldId := %s"
            % tuple(b(f[k]) for k in ("exec_by_tree", "children_get", "cancel_guarded", "loop_guarded", "up_skips",
                                      "np_releases", "unversion_tolerant", "delta_drops_old")))
    text = ("-- GENERATED by harness/checks/c14.py from breezy/transform.py, breezy/bzr/transform.py, breezy/git/transform.py — do not edit\n"
            "import BreezyVerif.Model.C14\nnamespace BreezyVerif.C14\n"
            "/-- keys of `CONFLICT_RESOLVERS` -/\n"
            "def resolverKeys : List String := [%s]\n"
            "/-- `for n in range(N)` in `resolve_conflicts` -/\n"
            "def sourcePassCount : Nat := %d\n"
            "/-- code variant found in the source (bzr trees) -/\n"
            "def sourceFlagsBzr : Flags := { git := false, dataByTreePath := %s, %s }\n"
            "/-- code variant found in the source (git trees; GitPreviewTree.get_file reads the tree path) -/\n"
            "def sourceFlagsGit : Flags := { git := true, dataByTreePath := true, %s }\n"
            "end BreezyVerif.C14\n" % (", ".join(ex.lean_str(k) for k in f["keys"]), f["passes"], b(f["data_bzr"]), rest, rest))
    ex.write_if_changed(os.path.join(env.VERIF, "lean/BreezyVerif/Generated/C14.lean"), text)
    ctx.extra["source_facts"] = f
    return "resolver keys=%d passes=%d flags=%s" % (len(f["keys"]), f["passes"], _flags("2a", f))


def _facts(ctx):
    f = ctx.extra.get("source_facts")
    if f is None:
        f = source_facts()
        ctx.extra["source_facts"] = f
    return f


def _flags(fmt, f):
    tf = lambda x: "T" if x else "F"
    rest = "".join(tf(f[k]) for k in ("exec_by_tree", "children_get", "cancel_guarded", "loop_guarded", "up_skips",
                                      "np_releases", "unversion_tolerant", "delta_drops_old"))
    if fmt == "git":
        return "T" + "T" + rest
    return "F" + tf(f["data_bzr"]) + rest


# --------------------------------------------------------------------------
# case generation (pure: no breezy)

def gen_base(rng):
    """entries [path, kind, data, exec, want_versioned], sorted by path"""
    entries = []

    def fill(prefix, depth, parent_versioned):
        n = rng.randint(1, 3) if depth == 0 else rng.randint(0, 2)
        for name in rng.sample(NAMES, n):
            rel = prefix + name
            versioned = parent_versioned and rng.random() < 0.8
            r = rng.random()
            if r < 0.35 and depth < 2:
                entries.append([rel, "directory", "", False, versioned])
                fill(rel + "/", depth + 1, versioned)
            elif r < 0.45:
                entries.append([rel, "symlink", "t%d" % rng.randint(0, 2), False, versioned])
            else:
                entries.append([rel, "file", "B%s%d" % (rel.replace("/", "_"), rng.randint(0, 3)), rng.random() < 0.3, versioned])
    fill("", 0, True)
    if rng.random() < 0.4:
        # a chain of directories with files two and more levels below its top
        v = rng.random() < 0.9
        entries.append(["k", "directory", "", False, v])
        entries.append(["k/s", "directory", "", False, v])
        entries.append(["k/s/g", "file", "Bk_s_g%d" % rng.randint(0, 3), rng.random() < 0.3, v])
        if rng.random() < 0.5:
            entries.append(["k/s/t", "directory", "", False, v])
            entries.append(["k/s/t/h", "file", "Bk_s_t_h%d" % rng.randint(0, 3), False, v and rng.random() < 0.8])
        if rng.random() < 0.5:
            entries.append(["k/m", "file", "Bk_m%d" % rng.randint(0, 3), False, v])
    entries.sort()
    return entries


def gen_deep_case(rng, fmt):
    """a directory with versioned files two and more levels below it is renamed / re-parented
    (to another name, below an existing directory, below a newly created directory), optionally
    with other changes inside it"""
    entries = [["k", "directory", "", False, True], ["k/s", "directory", "", False, True],
               ["k/s/g", "file", "Bg%d" % rng.randint(0, 3), rng.random() < 0.3, True],
               ["o", "directory", "", False, True], ["o/f", "file", "Bof", False, True]]
    if rng.random() < 0.6:
        entries += [["k/s/t", "directory", "", False, True], ["k/s/t/h", "file", "Bh%d" % rng.randint(0, 3), False, True]]
    if rng.random() < 0.5:
        entries.append(["k/m", "file", "Bm", False, True])
    if rng.random() < 0.4:
        entries.append(["k/s/u", "file", "Bu", False, False])
    entries.sort()
    handles = [""] + [e[0] for e in entries]
    H = handles.index
    nh = len(handles)
    ops = []
    which = rng.choice(["k", "k", "k/s"])
    how = rng.choice(["rename", "into-existing", "into-new", "into-new-nested"])
    name = rng.choice(["e", "f", os.path.basename(which)])
    if how == "rename":
        ops.append(["adjust_path", "e" if name == os.path.basename(which) else name, H(os.path.dirname(which)), H(which)])
    elif how == "into-existing":
        ops.append(["adjust_path", name, H("o"), H(which)])
    else:
        fid = "fid1"
        ops.append(["new_directory", "n", 0, fid])
        parent = nh
        nh += 1
        if how == "into-new-nested":
            ops.append(["new_directory", "nn", parent, "fid2"])
            parent = nh
            nh += 1
        ops.append(["adjust_path", name, parent, H(which)])
    r = rng.random()
    if r < 0.3:
        ops += [["delete_contents", H("k/s/g")], ["create_file", "M%d" % rng.randint(0, 9), H("k/s/g")]]
    elif r < 0.5:
        ops.append(["adjust_path", "g2", H("k/s"), H("k/s/g")])
    elif r < 0.65:
        ops.append(["new_file", "new", H("k/s"), "N%d" % rng.randint(0, 9), "fid9", None])
    return entries, handles, ops


def gen_execfault_case(rng, fmt):
    """executable-bit changes of existing, non-moving versioned files together with newly
    created entries - and, in a minority of cases, a rename or a replaced file - so that the
    mode change is the first, a middle or the last thing apply() does (new_paths() is sorted:
    names are drawn on both sides of the changed files).  Every os.rename of apply() gets a
    failure injected (`nfault`)."""
    entries = [["b", "file", "Bb%d" % rng.randint(0, 3), rng.random() < 0.5, True],
               ["m", "directory", "", False, True],
               ["m/f", "file", "Bmf%d" % rng.randint(0, 3), rng.random() < 0.5, True]]
    if rng.random() < 0.6:
        entries.append(["q", "file", "Bq", rng.random() < 0.5, True])
    if rng.random() < 0.3:
        entries.append(["a", "file", "Ba", False, rng.random() < 0.7])
    entries.sort()
    handles = [""] + [e[0] for e in entries]
    H = handles.index
    files = [e for e in entries if e[1] == "file" and e[4]]
    ops = []
    changed = rng.sample(files, rng.randint(1, min(2, len(files))))
    for e in changed:
        # mostly a real flip; sometimes re-asserting the current bit
        ops.append(["set_executability", (not e[3]) if rng.random() < 0.85 else e[3], H(e[0])])
    fid = 0
    used = set(handles)
    for _ in range(rng.randint(1, 3)):
        par = rng.choice(["", "", "m"])
        name = rng.choice(["0", "c", "n", "y", "zz"])
        path = (par + "/" if par else "") + name
        if path in used:
            continue
        used.add(path)
        fid += 1
        r = rng.random()
        if r < 0.7:
            ops.append(["new_file", name, H(par), "N%d" % rng.randint(0, 9), "fid%d" % fid, rng.choice([None, None, True])])
        elif r < 0.85:
            ops.append(["new_directory", name, H(par), "fid%d" % fid])
        else:
            ops.append(["new_symlink", name, H(par), "g%d" % rng.randint(0, 3), "fid%d" % fid])
    r = rng.random()
    others = [e for e in files if e not in changed]
    if r < 0.2 and others:
        # a rename of another file: a removal-phase rename now precedes the mode change
        e = rng.choice(others)
        ops.append(["adjust_path", rng.choice(["0r", "zr"]), H(os.path.dirname(e[0])), H(e[0])])
    elif r < 0.3 and others:
        e = rng.choice(others)
        ops += [["delete_contents", H(e[0])], ["create_file", "M%d" % rng.randint(0, 9), H(e[0])]]
    rng.shuffle(ops)
    return entries, handles, ops


def gen_ops(rng, entries, n, fmt):
    """pattern-based generator (what merge / revert / build_tree do with a transform).
    handles: 0 = root, 1..k = base paths (sorted), then missing paths, then new ids."""
    handles = [""] + [e[0] for e in entries]
    base = {i + 1: e for i, e in enumerate(entries)}
    existing_dirs = [0] + [i for i, e in base.items() if e[1] == "directory"]
    extra = []
    for _ in range(rng.randint(0, 2)):
        d = rng.choice(existing_dirs)
        p = (handles[d] + "/" if d else "") + rng.choice(["y", "z"])
        if p not in handles and p not in extra:
            extra.append(p)
    handles += sorted(extra)
    nh = len(handles)
    st = {}
    for i in range(nh):
        if i == 0:
            st[i] = dict(kind="directory", versioned=True, basev=True, new=False)
        elif i in base:
            st[i] = dict(kind=base[i][1], versioned=base[i][4], basev=base[i][4], new=False,
                         parent=handles.index(os.path.dirname(handles[i])))
        else:
            st[i] = dict(kind=None, versioned=False, basev=False, new=False, missing=True,
                         parent=handles.index(os.path.dirname(handles[i])))
    fids = [0]
    ops = []

    def live_versioned(i):
        s = st[i]
        return s["versioned"] and not s.get("unversioned")

    def newfid(p):
        if not live_versioned(p) or st[p].get("missing") or rng.random() < 0.25:
            return None
        if fmt != "git" and rng.random() < 0.08:
            # the file id of an existing tree entry (a non-directory without children in the transform,
            # other than the parent: what a merge can produce)
            cand = [i for i, s in st.items() if i and i != p and not s["new"] and s["basev"] and s["kind"] != "directory"
                    and not s.get("haskids") and not s.get("unversioned")]
            if cand:
                j = rng.choice(cand)
                st[j]["idtouched"] = True
                return "T%d" % j
        fids[0] += 1
        return "fid%d" % fids[0]

    def parent_for_new():
        cands = []
        for i, s in st.items():
            if s["new"] and s["kind"] != "directory":
                continue
            if s.get("missing") and not s.get("created"):
                if s["versioned"]:
                    continue
                w = 1
            elif s["kind"] == "directory":
                w = 8 if not s.get("deleted") else 2
            elif s.get("deleted") or s.get("idtouched"):
                continue
            else:
                w = 1
            cands += [i] * w
        return rng.choice(cands)

    def new_only_chain(i):
        seen = set()
        while i != 0:
            if not st[i]["new"] or i in seen:
                return False
            seen.add(i)
            i = st[i]["parent"]
        return True

    def tree_live():
        return [i for i, s in st.items() if i and not s["new"] and s["kind"] is not None and not s.get("deleted")]

    for _ in range(n):
        r = rng.random()
        name = rng.choice(NAMES + ["e", "f"])
        if r < 0.30:          # add
            p = parent_for_new()
            st[p]["haskids"] = True
            f = newfid(p)
            k = rng.random()
            if k < 0.55:
                ex = rng.choice([None, None, True, False]) if f else None
                ops.append(["new_file", name, p, "N%d" % rng.randint(0, 9), f, ex])
                st[nh] = dict(kind="file", versioned=f is not None, basev=False, new=True, parent=p, xset=ex is not None, name=name)
            elif k < 0.85:
                ops.append(["new_directory", name, p, f])
                st[nh] = dict(kind="directory", versioned=f is not None, basev=False, new=True, parent=p, name=name)
            else:
                ops.append(["new_symlink", name, p, "g%d" % rng.randint(0, 3), f])
                st[nh] = dict(kind="symlink", versioned=f is not None, basev=False, new=True, parent=p, name=name)
            nh += 1
        elif r < 0.45:        # remove
            c = [i for i in tree_live() if not (st[i]["kind"] != "directory" and st[i].get("haskids"))]
            if not c:
                continue
            i = rng.choice(c)
            ops.append(["delete_contents", i]); st[i]["deleted"] = True
            st[i]["idtouched"] = True
            if st[i]["basev"] and not st[i].get("unversioned"):
                ops.append(["unversion_file", i]); st[i]["unversioned"] = True
        elif r < 0.70:        # rename / move a tree entry
            c = tree_live()
            if not c:
                continue
            i = rng.choice(c)
            pc = []
            for j, s in st.items():
                if j == i or s.get("missing"):
                    continue
                if fmt != "git" and (live_versioned(i) or st[i]["basev"]) and not live_versioned(j):
                    continue        # (an unversioned tree entry with versioned children is re-versioned by the resolver)
                if s["new"]:
                    if s["kind"] == "directory" and new_only_chain(j):
                        pc += [j] * 4
                elif s["kind"] == "directory":
                    pc += [j] * 4
                elif s["kind"] is not None and not s.get("deleted") and not s.get("idtouched"):
                    pc += [j]
            if not pc:
                continue
            p = rng.choice(pc)
            st[p]["haskids"] = True
            ops.append(["adjust_path", name if rng.random() < 0.8 else os.path.basename(handles[i]), p, i])
            st[i]["parent"] = p
        elif r < 0.80:        # modify a tree file
            c = [i for i in tree_live() if st[i]["kind"] == "file" and not st[i].get("created")]
            if not c:
                continue
            i = rng.choice(c)
            ops.append(["delete_contents", i])
            ops.append(["create_file", "M%d" % rng.randint(0, 9), i]); st[i]["created"] = True
        elif r < 0.87:        # chmod
            c = [i for i, s in st.items() if i and s["kind"] == "file" and live_versioned(i) and not s.get("xset") and not s.get("deleted")]
            if rng.random() < 0.08:   # unresolvable: executability of something unversioned / not a file
                c = [i for i, s in st.items() if i and not s.get("xset")]
            if not c:
                continue
            i = rng.choice(c)
            ops.append(["set_executability", rng.choice([True, False]), i]); st[i]["xset"] = True
        elif r < 0.92:        # version an unversioned tree entry below a versioned directory
            c = [i for i in tree_live() if not st[i]["versioned"] and live_versioned(st[i]["parent"])
                 and not (st[i]["kind"] != "directory" and st[i].get("haskids"))]
            if rng.random() < 0.15:   # ... or something without contents ("versioning no contents")
                c = [i for i, s in st.items() if s.get("missing") and not s.get("created") and not s["versioned"]
                     and not s.get("haskids") and live_versioned(s["parent"])]
            if not c:
                continue
            i = rng.choice(c)
            fids[0] += 1
            ops.append(["version_file", i, "fid%d" % fids[0]]); st[i]["versioned"] = True; st[i]["idtouched"] = True
        elif r < 0.96:        # unversion only
            c = [i for i in tree_live() if st[i]["basev"] and not st[i].get("unversioned")
                 and not (st[i]["kind"] != "directory" and st[i].get("haskids"))]
            if not c:
                continue
            i = rng.choice(c)
            ops.append(["unversion_file", i]); st[i]["unversioned"] = True; st[i]["idtouched"] = True
        else:                 # rename / move a new entry
            c = [i for i, s in st.items() if s["new"]]
            if not c:
                continue
            i = rng.choice(c)
            x = rng.random()
            if x < 0.4:
                pc = [st[i]["parent"]]           # in place (possibly onto the name of a sibling)
            elif x < 0.9:
                pc = [j for j, s in st.items() if not s["new"] and s["kind"] == "directory" and not s.get("deleted")]
            else:
                pc = [j for j, s in st.items() if s["new"] and s["kind"] == "directory" and j != i]   # may close a loop of new entries
            pc = [j for j in pc if (fmt == "git" or not live_versioned(i) or live_versioned(j)) and not st[j].get("missing")
                  and not (st[j]["new"] and st[j]["kind"] != "directory")]
            if not pc:
                continue
            p = rng.choice(pc)
            if rng.random() < 0.3:
                sib = [s2 for j2, s2 in st.items() if s2.get("new") and s2.get("parent") == p and j2 != i and s2.get("name")]
                if sib:
                    name = rng.choice(sib)["name"]
            ops.append(["adjust_path", name, p, i]); st[i]["parent"] = p; st[i]["name"] = name
            st[p]["haskids"] = True
    return handles, ops


def gen_wild_ops(rng, entries, n, root_ops=True):
    """unconstrained operations.  root_ops=False: the root trans-id is only used as a parent (it is
    never moved, deleted, re-created, versioned or chmod-ed)"""
    handles = [""] + [e[0] for e in entries]
    for cand in ["y", "z"]:
        if rng.random() < 0.5:
            handles.append(cand)
    nh = len(handles)
    fids = 0
    ops = []
    for _ in range(n):
        r = rng.random()
        name = rng.choice(NAMES + ["e", "f"])
        anyp = lambda: rng.randrange(nh)
        anyh = anyp if root_ops or nh < 2 else (lambda: rng.randrange(1, nh))
        fids += 1
        fid = None if rng.random() < 0.3 else "fid%d" % fids
        if r < 0.15:
            ops.append(["new_file", name, anyp(), "N%d" % rng.randint(0, 9), fid, rng.choice([None, None, True, False])]); nh += 1
        elif r < 0.25:
            ops.append(["new_directory", name, anyp(), fid]); nh += 1
        elif r < 0.30:
            ops.append(["new_symlink", name, anyp(), "g1", fid]); nh += 1
        elif r < 0.45:
            ops.append(["delete_contents", anyh()])
        elif r < 0.68:
            ops.append(["adjust_path", name, anyp(), anyh()])
        elif r < 0.78:
            ops.append(["version_file", anyh(), "fid%d" % fids])
        elif r < 0.86:
            ops.append(["unversion_file", rng.randrange(1, len(entries) + 1) if entries else 0])
        elif r < 0.93:
            ops.append(["set_executability", rng.choice([True, False]), anyh()])
        elif r < 0.97:
            ops.append(["create_file", "C%d" % rng.randint(0, 9), anyh()])
        else:
            ops.append(["create_directory", anyh()])
    return handles, ops


def build_case(seed_tuple):
    """seed_tuple = (seed, fmt, index, stream)"""
    rng = random.Random(repr(tuple(seed_tuple)))
    fmt, stream = seed_tuple[1], seed_tuple[3]
    entries = gen_base(rng)
    nfault = None
    if stream == "deep":
        entries, handles, ops = gen_deep_case(rng, fmt)
        stream = "pre"
    elif stream == "execfault":
        entries, handles, ops = gen_execfault_case(rng, fmt)
        stream = "pre"
        nfault = 12
    elif stream in ("wild", "wildroot"):
        handles, ops = gen_wild_ops(rng, entries, rng.randint(1, 6), root_ops=stream == "wildroot")
    else:
        handles, ops = gen_ops(rng, entries, rng.randint(1, 7), fmt)
    case = dict(id=list(seed_tuple), fmt=fmt, stream=stream, entries=entries, handles=handles, ops=ops)
    if nfault:
        case["nfault"] = nfault
    return case


# --------------------------------------------------------------------------
# real code

def make_base_tree(case):
    wt = env.make_tree(case["fmt"])
    root = wt.basedir
    for path, kind, data, ex, versioned in case["entries"]:
        full = os.path.join(root, path)
        if kind == "directory":
            os.mkdir(full)
        elif kind == "symlink":
            os.symlink(data, full)
        else:
            with open(full, "w") as f:
                f.write(data)
            if ex:
                os.chmod(full, 0o755)
    to_add = [e[0] for e in case["entries"] if e[4]]
    if to_add:
        wt.add(to_add)
    return wt


def dump_disk(root):
    """{path: [kind, data, exec, versioned]} of a working tree (fresh open)"""
    from breezy.workingtree import WorkingTree
    wt = WorkingTree.open(root)
    out = {}
    with wt.lock_read():
        def walk(rel):
            full = os.path.join(root, rel) if rel else root
            for name in sorted(os.listdir(full)):
                r = name if not rel else rel + "/" + name
                if wt.is_control_filename(r):
                    continue
                p = os.path.join(root, r)
                if os.path.islink(p):
                    out[r] = ["symlink", os.readlink(p), False, wt.is_versioned(r)]
                elif os.path.isdir(p):
                    out[r] = ["directory", "", False, wt.is_versioned(r)]
                    walk(r)
                else:
                    with open(p, "rb") as f:
                        data = f.read().decode()
                    out[r] = ["file", data, bool(os.stat(p).st_mode & 0o100), wt.is_versioned(r)]
        walk("")
        for p in wt.all_versioned_paths():
            if p and p not in out:
                out[p] = [None, "", False, True]
    return out


def _try(fn, *a):
    try:
        return fn(*a)
    except Exception as e:
        return "E:" + type(e).__name__


def query_preview(pv, cands):
    out = {}
    for p in sorted(cands):
        if p == "":
            continue
        kind = _try(pv.kind, p)
        if kind == "E:NoSuchFile":
            kind = None
        data = ""
        ex = False
        if kind == "file":
            data = _try(pv.get_file_text, p)
            if isinstance(data, bytes):
                data = data.decode()
            ex = _try(pv.is_executable, p)
            if not isinstance(ex, str):
                ex = bool(ex)
        elif kind == "symlink":
            data = _try(pv.get_symlink_target, p)
        v = _try(pv.is_versioned, p)
        if kind is None and v is False:
            continue
        out[p] = [kind, data, ex, v]
    return out


def enum_preview(pv):
    paths = set()
    errs = []
    try:
        for p, _e in pv.iter_entries_by_dir():
            paths.add(p)
    except Exception as e:
        errs.append("iter_entries_by_dir:" + type(e).__name__)
    try:
        paths.update(pv.extras())
    except Exception as e:
        errs.append("extras:" + type(e).__name__)
    return paths, errs


def _tid_num(x):
    if isinstance(x, str) and x.startswith("new-"):
        return int(x[4:])
    return x


CONF_CODE = {"unversioned parent": "up", "parent loop": "pl", "duplicate": "du", "missing parent": "mp",
             "non-directory parent": "np", "versioning no contents": "vn", "unversioned executability": "ue",
             "non-file executability": "ne", "overwrite": "ow", "duplicate id": "di"}


def conf_str(cs):
    out = []
    for c in cs:
        out.append(":".join([CONF_CODE.get(c[0], "??" + c[0].replace(" ", "_"))] + [str(_tid_num(x)) for x in c[1:]]))
    return ",".join(out) or "-"


def run_ops(tt, case, fidmap, prereg):
    handles, ops = case["handles"], case["ops"]
    tids = []
    if prereg:
        for i, p in enumerate(handles):
            t = tt.trans_id_tree_path(p)
            if t != "new-%d" % i:
                raise env.InfraError("trans-id numbering: handle %d got %s" % (i, t))
            tids.append(t)
    else:
        tids = [None] * len(handles)
        tids[0] = tt.root

    def T(i):
        if i < len(handles) and tids[i] is None:
            tids[i] = tt.trans_id_tree_path(handles[i])
        if i >= len(tids):
            raise IndexError(i)
        return tids[i]

    def F(fid):
        if fid is None:
            return None
        return fidmap.get(fid, fid.encode())
    for op in ops:
        k = op[0]
        try:
            if k == "new_file":
                _, name, par, data, fid, ex = op
                tids.append(None)
                tids[-1] = tt.new_file(name, T(par), [data.encode()], F(fid), ex)
            elif k == "new_directory":
                _, name, par, fid = op
                tids.append(None)
                tids[-1] = tt.new_directory(name, T(par), F(fid))
            elif k == "new_symlink":
                _, name, par, tgt, fid = op
                tids.append(None)
                tids[-1] = tt.new_symlink(name, T(par), tgt, F(fid))
            elif k == "delete_contents":
                tt.delete_contents(T(op[1]))
            elif k == "adjust_path":
                tt.adjust_path(op[1], T(op[2]), T(op[3]))
            elif k == "version_file":
                tt.version_file(T(op[1]), file_id=F(op[2]))
            elif k == "unversion_file":
                tt.unversion_file(T(op[1]))
            elif k == "set_executability":
                tt.set_executability(op[1], T(op[2]))
            elif k == "create_file":
                tt.create_file([op[1].encode()], T(op[2]))
            elif k == "create_directory":
                tt.create_directory(T(op[1]))
        except IndexError:
            return "E:BadHandle"
        except Exception as e:
            return "E:" + type(e).__name__
    return "ok"


def _chain(e):
    """(function names of the traceback below the harness, the raw conflict `conflict_pass` was resolving)"""
    names, conflict = [], None
    tb = e.__traceback__
    while tb is not None:
        names.append(tb.tb_frame.f_code.co_name)
        if tb.tb_frame.f_code.co_name == "conflict_pass":
            c = tb.tb_frame.f_locals.get("conflict")
            if c is not None:
                conflict = conf_str([c])
        tb = tb.tb_next
    return names[1:], conflict


def run_real(case):
    """Run one case on the real code.  Returns a JSON-able dict."""
    from breezy.transform import MalformedTransform, resolve_conflicts
    from breezy.workingtree import WorkingTree
    prereg = case["stream"] != "lazy"
    wt = make_base_tree(case)
    root = wt.basedir
    res = dict()
    # what the tree really versions (git: directories are versioned iff they contain versioned files)
    fidmap = {}
    basev = []
    with wt.lock_read():
        for i, e in enumerate(case["entries"]):
            v = wt.is_versioned(e[0])
            basev.append(v)
            if v and case["fmt"] != "git":
                fidmap["T%d" % (i + 1)] = wt.path2id(e[0])
    res["basev"] = basev
    before = dump_disk(root)
    res["before"] = before
    copy = None
    if case["stream"] != "wildroot":
        copy = env.fresh_dir("cp")
        os.rmdir(copy)
        shutil.copytree(root, copy, symlinks=True)
    tt = wt.transform()
    try:
        res["oplog"] = run_ops(tt, case, fidmap, prereg)
        if res["oplog"] != "ok":
            return res
        try:
            res["conf0"] = conf_str(tt.find_raw_conflicts())
        except Exception as e:
            res["conf0"] = "E:" + type(e).__name__
            return res
        try:
            resolve_conflicts(tt)
            res["resolve"] = "clean"
        except MalformedTransform as e:
            res["resolve"] = "malformed:" + conf_str(e.conflicts)
        except Exception as e:
            import traceback
            res["resolve"] = "crashed:" + type(e).__name__
            res["resolve_tb"] = traceback.format_exc()[-700:]
            fr = traceback.extract_tb(e.__traceback__)[-1]
            res["resolve_frame"] = "%s: %s" % (fr.name, fr.line)
            res["resolve_chain"], res["resolve_conflict"] = _chain(e)
        if case["stream"] == "wildroot":
            return res
        if not res["resolve"].startswith("crashed"):
            real_rename, nren = os.rename, [0]

            def counting_rename(*a, **kw):
                nren[0] += 1
                return real_rename(*a, **kw)
            os.rename = counting_rename
            try:
                tt.apply()
                res["apply"] = "ok"
                res["nrename"] = nren[0]
            except MalformedTransform:
                res["apply"] = "malformed"
            except Exception as e:
                import traceback
                res["apply"] = "E:" + type(e).__name__
                res["apply_tb"] = traceback.format_exc()[-700:]
                res["apply_chain"] = _chain(e)[0]
                res["apply_errno"] = getattr(e, "errno", None)
            finally:
                os.rename = real_rename
    finally:
        try:
            tt.finalize()
        except Exception as e:
            res["finalize"] = "E:" + type(e).__name__
        if res.get("oplog") == "ok" and "conf0" in res and not res["conf0"].startswith("E:") and case["stream"] != "wildroot":
            try:
                res["after"] = dump_disk(root)
            except Exception as e:
                res["after_err"] = "E:" + type(e).__name__
        shutil.rmtree(root, ignore_errors=True)
        if copy and not (res.get("resolve") == "clean" and res.get("apply") == "ok"):
            shutil.rmtree(copy, ignore_errors=True)
    # ---- second run on the copy: the preview of the resolved transform
    if res.get("resolve") == "clean" and res.get("apply") == "ok":
        wt2 = WorkingTree.open(copy)
        tt2 = wt2.transform()
        try:
            run_ops(tt2, case, fidmap, prereg)
            resolve_conflicts(tt2)
            pv = tt2.get_preview_tree()
            en, errs = enum_preview(pv)
            res["preview_errs"] = errs
            res["preview_enum"] = sorted(en)
            res["preview"] = query_preview(pv, en | set(before) | set(res.get("after", {})))
        except Exception as e:
            import traceback
            res["preview_fail"] = "E:" + type(e).__name__
            res["preview_tb"] = traceback.format_exc()[-700:]
        finally:
            try:
                tt2.finalize()
            except Exception:
                pass
        try:
            if "preview_fail" not in res:
                run_faulted_applies(case, res, copy, fidmap, prereg, before)
        finally:
            shutil.rmtree(copy, ignore_errors=True)
    return res


class InjectedBase(BaseException):
    """a fault that is not an Exception (what a KeyboardInterrupt looks like to apply())"""


def fault_indices(case, nren):
    """which of the `nren` os.rename calls of apply() get a failure injected: `nfault` of them
    (all, up to 12, for the `execfault` stream; a sample for the others, chosen in _cases)"""
    rng = random.Random(repr(case["id"]) + "faults")
    ks = list(range(nren))
    return sorted(rng.sample(ks, min(case.get("nfault", 0), len(ks))))


def run_faulted_applies(case, res, copy, fidmap, prereg, before):
    """`never a partially applied tree` under file-system failures: the same resolved transform
    is applied again on the untouched copy with the k-th os.rename of apply() failing (a real
    OSError(EIO) from os.rename, or a BaseException raised there).  apply() must raise, and the
    whole tree - paths, kinds, contents, executable bits, versioning - must be as before, with
    nothing left in the limbo / pending-deletion areas.  Each failed apply leaves the copy
    untouched if the property holds, so the copy is reused; the first violation ends the series."""
    import errno
    from breezy.transform import resolve_conflicts
    from breezy.workingtree import WorkingTree
    out = res["faults"] = []
    rng = random.Random(repr(case["id"]) + "faultmode")
    for k in fault_indices(case, res.get("nrename", 0)):
        mode = rng.choice(["os", "os", "base"])
        rec = dict(k=k, mode=mode)
        out.append(rec)
        wt3 = WorkingTree.open(copy)
        tt3 = wt3.transform()
        real_rename, n = os.rename, [0]
        hit = []

        def failing_rename(src, dst, *a, **kw):
            j = n[0]
            n[0] += 1
            if j == k:
                hit.append(os.path.relpath(dst, copy))
                if mode == "os":
                    raise OSError(errno.EIO, "injected I/O error", src)
                raise InjectedBase("injected at rename %d" % k)
            return real_rename(src, dst, *a, **kw)
        try:
            if run_ops(tt3, case, fidmap, prereg) != "ok":
                rec["raised"] = "E:ops"
                break
            resolve_conflicts(tt3)
            os.rename = failing_rename
            try:
                tt3.apply()
                rec["raised"] = "returned"
            except InjectedBase:
                rec["raised"] = "E:Injected"
            except Exception as e:
                rec["raised"] = "E:" + type(e).__name__
                rec["errno"] = getattr(e, "errno", None)
            finally:
                os.rename = real_rename
        except Exception as e:
            rec["raised"] = "E:setup:" + type(e).__name__
        finally:
            os.rename = real_rename
            try:
                tt3.finalize()
            except Exception as e:
                rec["finalize"] = "E:" + type(e).__name__
        rec["target"] = hit[0] if hit else None
        ctl = ".git" if case["fmt"] == "git" else ".bzr/checkout"
        rec["leftovers"] = [a for a in ("limbo", "pending-deletion") if os.path.lexists(os.path.join(copy, ctl, a))]
        try:
            after = dump_disk(copy)
        except Exception as e:
            after = {"<error>": [type(e).__name__, "", False, False]}
        rec["same"] = after == before
        if not rec["same"]:
            rec["diff"] = _diffs(_norm_real(case["fmt"], before), _norm_real(case["fmt"], after))[:4]
            break
        if rec["leftovers"] or not hit:
            break


# --------------------------------------------------------------------------
# model line and reply

KCODE = {"file": "f", "directory": "d", "symlink": "l", None: "~"}
KNAME = {"f": "file", "d": "directory", "l": "symlink", "~": None}


def model_line(case, basev, flags):
    handles = case["handles"]
    ent = {e[0]: e for e in case["entries"]}
    base = []
    for i, p in enumerate(handles):
        if i == 0:
            base.append("~|-|d|-|F|%s" % ("-" if case["fmt"] == "git" else "T0"))
            continue
        par = handles.index(os.path.dirname(p))
        name = os.path.basename(p)
        if p in ent:
            _, kind, data, ex, _v = ent[p]
            v = basev[i - 1]
            fid = "~" if not v else ("-" if case["fmt"] == "git" else "T%d" % i)
            base.append("%d|%s|%s|%s|%s|%s" % (par, name, KCODE[kind], data or "-", "T" if ex else "F", fid))
        else:
            base.append("%d|%s|~|-|F|~" % (par, name))
    ops = []
    tf = lambda b: "~" if b is None else ("T" if b else "F")
    ft = lambda f: "~" if f is None else f
    for op in case["ops"]:
        k = op[0]
        if k == "new_file":
            ops.append("nf|%s|%d|%s|%s|%s" % (op[1], op[2], op[3], ft(op[4]), tf(op[5])))
        elif k == "new_directory":
            ops.append("nd|%s|%d|%s" % (op[1], op[2], ft(op[3])))
        elif k == "new_symlink":
            ops.append("ns|%s|%d|%s|%s" % (op[1], op[2], op[3], ft(op[4])))
        elif k == "delete_contents":
            ops.append("dc|%d" % op[1])
        elif k == "adjust_path":
            ops.append("ap|%s|%d|%d" % (op[1], op[2], op[3]))
        elif k == "version_file":
            ops.append("vf|%d|%s" % (op[1], op[2]))
        elif k == "unversion_file":
            ops.append("uf|%d" % op[1])
        elif k == "set_executability":
            ops.append("sx|%s|%d" % (tf(op[1]), op[2]))
        elif k == "create_file":
            ops.append("cf|%s|%d" % (op[1], op[2]))
        elif k == "create_directory":
            ops.append("cd|%d" % op[1])
    return "run %s %s %s" % (flags, ";".join(base), ";".join(ops) or "-")


def parse_dump(s):
    out = {}
    if s == "-":
        return out
    for e in s.split(";"):
        p, k, d, x, v = e.split("|")
        out[p] = [KNAME[k], "!" if d == "!" else ("" if d == "-" else d), x == "T", "?" if v == "?" else v == "T"]
    return out


def parse_reply(r):
    f = r.split(" ")
    if len(f) != 9:
        return dict(raw=r)
    resolve, at = f[2], None
    if resolve.startswith("crashed:") and "@" in resolve:
        resolve, at = resolve.split("@", 1)
    diag = {}
    if f[8] != "-":
        for kv in f[8].split(","):
            k, v = kv.split("=")
            diag[k] = v
    return dict(oplog=f[0], conf0=f[1], resolve=resolve, resolve_at=at, preview=parse_dump(f[3]), applied=parse_dump(f[4]),
                shadowed=[] if f[5] == "-" else f[5].split(";"), final=parse_dump(f[6]), apply=f[7], diag=diag)


# --------------------------------------------------------------------------
# comparison

def _norm_real(fmt, dump, preview=False):
    """real dump -> comparable form: git directories carry no versioning of their own,
    entries without contents are dropped for git (the index has no missing entries)"""
    out = {}
    for p, (k, d, x, v) in dump.items():
        if isinstance(d, str) and d.startswith("E:"):
            d = "!"
        if fmt == "git":
            if k is None:
                continue
            if k == "directory":
                v = "-"
        out[p] = [k, d, x, v]
    return out


def _norm_model(fmt, dump):
    out = {}
    for p, (k, d, x, v) in dump.items():
        if fmt == "git":
            if k is None:
                continue
            if k == "directory":
                v = "-"
        out[p] = [k, d, x, v]
    return out


FIELDS = ["kind", "data", "exec", "versioned"]


def _diffs(a, b):
    """[(path, field, a-value, b-value)]"""
    out = []
    for p in sorted(set(a) | set(b)):
        x, y = a.get(p), b.get(p)
        if x == y:
            continue
        if x is None or y is None:
            out.append((p, "presence", x, y))
            continue
        for i, f in enumerate(FIELDS):
            if x[i] != y[i]:
                out.append((p, f, x[i], y[i]))
    return out


def _under(p, prefixes):
    return any(p == q or p.startswith(q + "/") for q in prefixes)


def _classify(fmt, d, m, res=None, facts=None, case=None):
    """family of one preview-vs-applied discrepancy `d` = (path, field, preview value, applied value),
    computed from the concrete discrepancy.  Only the committed known finding has a family; every
    other discrepancy (including the defects repaired by the fix: commits, should they return) is a
    plain violation."""
    p, field, pv, av = d
    if field == "presence" and av is None and res is not None and p in res.get("preview_enum", []) \
            and p not in res.get("preview", {}):
        # extras() yields the path of an entry whose contents are deleted and which is unversioned,
        # while kind()/is_versioned() of the same preview tree say it does not exist
        return "preview-extras-lists-deleted-entry"
    stale = (field == "presence" and pv is None and av is not None and av[0] is None and av[3] is True) or \
            (field == "versioned" and pv is False and av is True)
    if (fmt != "git" and stale and case is not None and res is not None and m is not None and "raw" not in m
            and m.get("diag", {}).get("rev", "-") != "-"
            and any(_tree_versioned(case, res, op[1]) and not any(u[1] == op[1] for u in _op_targets(case, "unversion_file"))
                    for op in _op_targets(case, "version_file"))):
        # version_file() of a versioned tree path without unversion_file, renamed in the same transform:
        # the old file id stays in the inventory at the old path (a versioned entry without a file, or
        # whatever else ends up at that path shows as versioned)
        return "bzr-version-file-on-versioned-entry"
    return None


def _scrub(line):
    """no absolute scratch paths / random ids in messages"""
    import re
    line = re.sub(r"/var/tmp/[^ :'\"]*?/(wt|cp)[0-9_]+", "<tree>", line)
    return re.sub(r"\[[0-9, ]{20,}\]", "[<file id>]", line)[:300]


def _op_targets(case, kind):
    return [op for op in case["ops"] if op[0] == kind]


def _tree_versioned(case, res, h):
    """is handle `h` a tree path that the base tree versions?"""
    return 1 <= h <= len(case["entries"]) and bool(res["basev"][h - 1])


def _contentless_below_file(case):
    """does an adjust_path move a tree path that has no contents (it does not exist, or its contents
    are deleted and not re-created) to some parent?  (that the parent ends as a non-directory is
    taken from the model's diagnosis or the errno)"""
    nh = len(case["handles"])
    ents = {i + 1: e for i, e in enumerate(case["entries"])}
    created = {op[-1] for op in case["ops"] if op[0] in ("create_file", "create_directory")}
    deleted = {op[1] for op in _op_targets(case, "delete_contents")}
    return any(1 <= op[3] < nh and op[3] not in created and (op[3] not in ents or op[3] in deleted)
               for op in _op_targets(case, "adjust_path"))


def _classify_failure(case, res, m, where):
    """family of a failure of the resolution / apply machinery on the unchanged code, computed from
    the concrete input (operations + base tree), the conflict being resolved and the call chain of
    the exception.  Anything else is a plain violation (family None)."""
    fmt = case["fmt"]
    nh = len(case["handles"])
    if where == "conflicts":
        # F-c: unversion_file() of a tree path that is not versioned; InventoryTreeTransform.
        # _add_tree_children asks stored_kind(path) for it (the git variant catches NoSuchFile)
        if fmt != "git" and res.get("conf0") == "E:NoSuchFile" and any(
                1 <= op[1] < nh and not _tree_versioned(case, res, op[1]) for op in _op_targets(case, "unversion_file")):
            return "bzr-unversion-of-unversioned-tree-path"
        return None
    if where == "resolve":
        chain = res.get("resolve_chain") or []
        at = res.get("resolve_conflict") or ""
        exc = res["resolve"][8:]
        tid = int(at.split(":")[1]) if at.count(":") >= 1 and at.split(":")[1].isdigit() else None
        if (fmt != "git" and exc == "ValueError" and at.startswith("up:") and chain[-2:] == ["resolve_unversioned_parent", "version_file"]
                and tid is not None and not _tree_versioned(case, res, tid)):
            # F-a: the unversioned parent has no file id in the tree (a new directory, an unversioned
            # or missing tree path): resolve_unversioned_parent calls version_file(file_id=None)
            return "bzr-unversioned-parent-without-file-id"
        if (fmt != "git" and exc == "DuplicateKey" and at.startswith("np:")
                and chain[-5:] == ["resolve_non_directory_parent", "new_directory", "_new_entry", "version_file", "unique_add"]):
            # F-b: the non-directory parent carries a file id assigned in this transform (version_file /
            # new_* / re-versioned by resolve_unversioned_parent): the replacement directory is created
            # with the same id while the parent still holds it in _new_id
            return "bzr-non-directory-parent-new-file-id-reused"
        return None
    if where == "apply":
        chain = res.get("apply_chain") or []
        exc = (res.get("apply") or "")[2:]
        if fmt != "git" and exc == "InconsistentDelta" and chain[-1:] == ["apply_inventory_delta"]:
            # F-d: version_file() of a tree path that is versioned and is not unversioned by the
            # transform: the delta adds the new id at a path the old id still occupies
            rev = [op for op in _op_targets(case, "version_file") if _tree_versioned(case, res, op[1])
                   and not any(u[1] == op[1] for u in _op_targets(case, "unversion_file"))]
            why = (res.get("apply_tb") or "").strip().splitlines()[-1:]
            why = why[0] if why else ""
            if "already occupied" in why and rev and (m is None or "raw" in m or m.get("diag", {}).get("rev", "-") != "-"):
                return "bzr-version-file-on-versioned-entry"
            # F-e, versioned variant: the delta puts a versioned entry without contents below a file
            if "not a directory" in why and _contentless_below_file(case) and (
                    m is None or "raw" in m or m.get("diag", {}).get("vbn", "-") != "-"):
                return "contentless-entry-moved-below-a-file"
            return None
        if exc == "TransformRenameFailed" and res.get("apply_errno") == 20 and chain[-2:] == ["_apply_insertions", "rename"]:
            # F-e: a tree path without contents is moved below a file: no conflict is reported (the
            # entry has no contents) but the rename from limbo fails with ENOTDIR, not ENOENT
            if _contentless_below_file(case) and (m is None or "raw" in m or m.get("diag", {}).get("dang", "-") != "-"):
                return "contentless-entry-moved-below-a-file"
            return None
        if exc == "OSError" and chain[-1:] == ["apply_deletions"]:
            # F-f: the contents of a tree directory are deleted and re-created as a directory while
            # entries stay below it: they go to pending-deletion with the old directory
            ents = {i + 1: e for i, e in enumerate(case["entries"])}
            swapped = [d[1] for d in _op_targets(case, "delete_contents") if d[1] in ents and ents[d[1]][1] == "directory"
                       and any(c[1] == d[1] for c in _op_targets(case, "create_directory"))]
            if swapped:
                return "directory-contents-replaced-below-kept-children"
            return None
    return None


def check_case(ctx, case, res, reply, flags):
    fmt, stream = case["fmt"], case["stream"]
    facts = _facts(ctx)
    cid = dict(id=case["id"], fmt=fmt, stream=stream, entries=case["entries"], handles=case["handles"], ops=case["ops"])
    if case.get("nfault"):
        cid["nfault"] = case["nfault"]
    m = parse_reply(reply) if reply is not None else None
    nconf = 0 if res.get("conf0", "-") in ("-",) else len(res.get("conf0", "").split(","))
    ctx.case(dict(fmt=fmt, stream=stream, e=case["entries"], o=case["ops"], h=case["handles"]),
             nontrivial=nconf > 0 or len(case["ops"]) >= 2)
    ctx.count("stream:%s:%s" % (fmt, stream))
    ctx.count("ops:%d" % min(len(case["ops"]), 10))
    for c in (res.get("conf0") or "-").split(","):
        if c != "-":
            ctx.count("conflict:" + c.split(":")[0])
    ctx.count("oplog:" + res.get("oplog", "?"))
    if "resolve" in res:
        ctx.count("resolve:" + res["resolve"].split(":")[0] + (":" + res["resolve"].split(":")[1] if res["resolve"].startswith("crashed") else ""))
    # ---------------- T2 (the lazy stream has a model reply for classification only)
    if m is not None and stream != "lazy":
        if "raw" in m:
            ctx.mismatch(cid, "(see real)", m["raw"], tie="T2 model reply")
            return
        if stream == "wildroot":
            impl = "%s %s" % (res.get("oplog"), _canon_conf(fmt, res.get("conf0", "-")) if res.get("oplog") == "ok" else "-")
            mod = "%s %s" % (m["oplog"], _canon_conf(fmt, m["conf0"]) if m["oplog"] == "ok" else "-")
            ctx.traces += 1
            if impl != mod and not (impl.startswith("E:") and mod.startswith("E:") and _err_equiv(impl, mod)):
                ctx.mismatch(cid, impl, mod, tie="T2 wild accept/reject + conflicts")
        else:
            def _cr(r):
                return "malformed:" + _canon_conf(fmt, r[10:], True) if r.startswith("malformed:") else r
            impl = "%s %s %s" % (res.get("oplog"), _canon_conf(fmt, res.get("conf0", "-")), _cr(res.get("resolve", "-")))
            mod = "%s %s %s" % (m["oplog"], _canon_conf(fmt, m["conf0"]), _cr(m["resolve"]))
            ctx.traces += 1
            if impl != mod:
                ctx.mismatch(cid, impl, mod, tie="T2 ops/conflicts/resolution")
            elif res.get("resolve", "").startswith("crashed"):
                # the conflict whose resolver raised
                if m.get("resolve_at") != res.get("resolve_conflict"):
                    ctx.mismatch(cid, "crashed at %s" % res.get("resolve_conflict"), "crashed at %s" % m.get("resolve_at"),
                                 tie="T2 crashing resolver")
            elif res.get("resolve") == "clean":
                # the outcome of apply(): returned / which exception / is the tree as before
                ra = res.get("apply")
                if ra == "malformed":
                    ra = "E:MalformedTransform"
                if ra != "ok":
                    ra = "%s:%s" % (ra, "same" if res.get("after") == res.get("before") else "changed")
                if _apply_modelled(ra) or m["apply"] != "ok":
                    if ra != m["apply"]:
                        ctx.mismatch(cid, "apply " + str(ra), "apply " + m["apply"], tie="T2 apply outcome")
                ctx.count("hyp:wf=%s" % m["diag"].get("wf"))
                ctx.count("hyp:baseWf=%s" % m["diag"].get("bwf"))
                ctx.count("hyp:gitHyps(%s,apply %s)=%s" % (fmt, "ok" if res.get("apply") == "ok" else "raised", m["diag"].get("ghyp")))
                if fmt != "git":
                    ctx.count("hyp:bzrHyps(rev=%s)=%s" % ("none" if m["diag"].get("rev") == "-" else "some", m["diag"].get("bhyp")))
                if m["diag"].get("wf") != "T":
                    ctx.mismatch(cid, "(reached by operations + resolvers)", "TT.wf = false", tie="T2 hypothesis wf")
                if m["diag"].get("bwf") != "T":
                    ctx.mismatch(cid, "(harness base tree)", "TT.baseWf = false", tie="T2 hypothesis baseWf")
                if fmt != "git" and m["diag"].get("bhyp") != "T" and m["diag"].get("rev") == "-":
                    ctx.mismatch(cid, "(conflict-free transform reached by operations + resolvers, nothing re-versioned)",
                                 "TT.bzrHyps = false", tie="T2 hypothesis bzrHyps")
                if m["diag"].get("rhyp") != "T":
                    ctx.mismatch(cid, "(conflict-free transform reached by operations + resolvers)", "TT.rootHyps = false",
                                 tie="T2 hypothesis rootHyps")
                if m["diag"].get("fuel") != "T":
                    ctx.mismatch(cid, "(transform reached by operations + resolvers)", "TT.fuelOk = false", tie="T2 hypothesis fuelOk")
                if m["diag"].get("ghyp") != "T":
                    ctx.mismatch(cid, "(conflict-free transform reached by operations + resolvers)", "TT.gitHyps = false",
                                 tie="T2 hypothesis gitHyps")
            if impl == mod and res.get("resolve") == "clean" and res.get("apply") == "ok" and m["apply"] == "ok":
                after = _norm_real(fmt, res.get("after", {}))
                ma = _norm_model(fmt, m["applied"])
                da = _diffs(after, ma)
                if da:
                    ctx.mismatch(cid, "applied " + repr(da[:4]), "(model applied)", tie="T2 applied tree")
                if "preview" in res:
                    pv = _norm_real(fmt, res["preview"], True)
                    mp = _norm_model(fmt, m["preview"])
                    dd = [d for d in _diffs(pv, mp) if not _under(d[0], m["shadowed"])
                          and not (d[1] == "versioned" and d[2] == "E:AttributeError")
                          # which OS error a base-tree lookup at a foreign path raises is not modelled
                          and not (d[1] == "exec" and isinstance(d[2], str) and d[2].startswith("E:") and not facts["exec_by_tree"])]
                    if dd:
                        ctx.mismatch(cid, "preview " + repr(dd[:4]), "(model preview)", tie="T2 preview tree")
    # ---------------- oracle
    if stream == "wildroot" or res.get("oplog") != "ok":
        return
    before = res["before"]
    if "resolve" not in res:
        # find_raw_conflicts() itself raised: resolve_conflicts() cannot end clean or with MalformedTransform
        ctx.violation(cid, "find_raw_conflicts() raised %s: resolve_conflicts cannot end clean or with MalformedTransform"
                      % res.get("conf0", "?")[2:], family=_classify_failure(case, res, m, "conflicts"))
        return
    r = res["resolve"]
    if r.startswith("crashed"):
        fam = _classify_failure(case, res, m, "resolve")
        tb = res.get("resolve_tb", "")
        fr = res.get("resolve_frame", "")
        ctx.count("crash:%s" % (fam or "unclassified"))
        ctx.violation(cid, "resolve_conflicts raised %s instead of returning or raising MalformedTransform (conflicts %s, resolving %s) in %s"
                      % (r[8:], res.get("conf0"), res.get("resolve_conflict"), fr or (tb.strip().splitlines()[-1] if tb else "")), family=fam)
        if res.get("after") is not None and res["after"] != before:
            ctx.violation(cid, "working tree changed although resolve_conflicts raised %s" % r[8:])
        return
    if r.startswith("malformed"):
        if res.get("apply") != "malformed":
            ctx.violation(cid, "resolve_conflicts raised MalformedTransform but apply() ended with %r" % res.get("apply"))
        if res.get("after") != before:
            ctx.violation(cid, "partially applied tree: MalformedTransform was raised but the tree differs: %r"
                          % (_diffs(_norm_real(fmt, before), _norm_real(fmt, res.get("after") or {}))[:4],))
        return
    # clean
    if res.get("apply") != "ok":
        fam = _classify_failure(case, res, m, "apply")
        ctx.count("applyfail:%s" % (fam or "unclassified"))
        ctx.violation(cid, "conflict-free transform (after resolve_conflicts) does not apply: %s %s"
                      % (res.get("apply"), [_scrub(x) for x in (res.get("apply_tb") or "").strip().splitlines()[-1:]]), family=fam)
        if res.get("after") != before:
            ctx.violation(cid, "partially applied tree after failed apply() (%s): %r"
                          % (res.get("apply"), _diffs(_norm_real(fmt, before), _norm_real(fmt, res.get("after") or {}))[:4]),
                          family=fam)
        return
    if "preview_fail" in res:
        ctx.violation(cid, "get_preview_tree() of a conflict-free transform failed: %s %s"
                      % (res["preview_fail"], (res.get("preview_tb") or "").strip().splitlines()[-1:]))
        return
    for e in res.get("preview_errs", []):
        ctx.violation(cid, "preview tree enumeration failed: %s" % e)
    pv = _norm_real(fmt, res["preview"])
    after = _norm_real(fmt, res["after"])
    # enumerated preview paths must exist after apply
    for p in res.get("preview_enum", []):
        if p and p not in res["after"] and not (fmt == "git" and res["preview"].get(p, [None])[0] is None):
            ctx.violation(cid, "preview tree lists %r which the applied tree does not have" % p,
                          family=_classify(fmt, (p, "presence", res["preview"].get(p), None), m, res, facts))
    seen = set()
    for d in _diffs(pv, after):
        fam = _classify(fmt, d, m, res, facts, case)
        if (fam, d[1]) in seen:
            continue
        seen.add((fam, d[1]))
        ctx.count("discrepancy:%s" % (fam or "unclassified"))
        ctx.violation(cid, "preview tree and applied tree differ at %r: %s preview=%r applied=%r"
                      % (d[0], d[1], d[2], d[3]), family=fam)
    check_faults(ctx, cid, case, res, m)


def check_faults(ctx, cid, case, res, m):
    """oracle and tie for the failing applies of one case"""
    for rec in res.get("faults", []):
        ctx.case(dict(id=case["id"], fault=rec["k"], mode=rec["mode"]))
        ctx.count("faulted-apply:%s:%s" % (case["fmt"], rec["mode"]))
        what = "apply() with a failure injected at its os.rename #%d (%s, target %s)" % (rec["k"], rec["mode"], rec.get("target"))
        fc = dict(cid, fault=rec["k"], fault_mode=rec["mode"])
        if rec.get("raised", "").startswith(("E:ops", "E:setup")) or rec.get("target") is None:
            ctx.mismatch(fc, "second build of the same transform: %s" % rec.get("raised"), "as the first build", tie="T2 faulted apply")
            continue
        expect = "E:TransformRenameFailed" if rec["mode"] == "os" else "E:Injected"
        if rec["raised"] != expect:
            ctx.violation(fc, "%s ended with %s instead of raising %s" % (what, rec["raised"], expect[2:]))
        if not rec["same"]:
            ctx.violation(fc, "partially applied tree: %s raised %s and left the tree changed: %r"
                          % (what, rec["raised"], rec.get("diff")))
        if rec.get("leftovers") or rec.get("finalize"):
            ctx.violation(fc, "%s left %r behind (finalize: %s)" % (what, rec.get("leftovers"), rec.get("finalize")))
        # tie: the model's apply with a failing mover phase raises and leaves the disk as before
        if m is not None and "raw" not in m and m.get("diag", {}).get("flt"):
            ctx.traces += 1
            impl = "E:%s:%s" % ("TransformRenameFailed" if rec["raised"] in ("E:TransformRenameFailed", "E:Injected") else rec["raised"][2:],
                                "same" if rec["same"] else "changed")
            if impl != m["diag"]["flt"]:
                ctx.mismatch(fc, impl, m["diag"]["flt"], tie="T2 faulted apply")


def _apply_modelled(ra):
    """apply() outcomes the model predicts (the others — e.g. ENOTEMPTY in apply_deletions — are
    left to the oracle)"""
    return ra == "ok" or ra.split(":")[1] in ("MalformedTransform", "InconsistentDelta", "TransformRenameFailed")


def _canon_conf(fmt, s, after_resolvers=False):
    """git keeps `_versioned` in a set: the "versioning no contents" conflicts come in hash order.
    after_resolvers: `_reparent_transform_children` iterates a *set* of trans-ids, so the insertion
    order of `_new_parent` / `_new_name` — and with it the order of the conflicts of later passes —
    depends on PYTHONHASHSEED: the conflicts a MalformedTransform carries are compared as a sorted list."""
    if s in ("-", None) or s.startswith("E:"):
        return s
    if after_resolvers:
        return ",".join(sorted(s.split(",")))
    if fmt != "git":
        return s
    items = s.split(",")
    out, run = [], []
    for it in items + [None]:
        if it is not None and it.startswith("vn:"):
            run.append(it)
            continue
        out += sorted(run)
        run = []
        if it is not None:
            out.append(it)
    return ",".join(out)


def _err_equiv(a, b):
    return a.split(" ")[0] == b.split(" ")[0]


# --------------------------------------------------------------------------

def _cases(ctx, n):
    out = []
    i = 0
    for fmt in ("2a", "git"):
        for k in range(n):
            r = k % 20
            stream = "wild" if r in (3, 7, 13, 17) else "wildroot" if r == 11 else "lazy" if r in (5, 9, 15, 19) else "pre"
            out.append(build_case((ctx.seed, fmt, k, stream)))
            i += 1
        for k in range(max(12, n // 12)):
            out.append(build_case((ctx.seed, fmt, k, "deep")))
        for k in range(max(16, n // 10)):
            out.append(build_case((ctx.seed, fmt, k, "execfault")))
    # failing applies: all rename indices for the execfault stream (build_case), a sample elsewhere
    frng = random.Random(ctx.seed * 7919 + 13)
    for c in out:
        if "nfault" not in c and c["stream"] not in ("wildroot", "lazy"):
            c["nfault"] = ctx.pick(1 if frng.random() < 0.35 else 0, 3)
    return out


def _corpus():
    import json
    d = os.path.join(env.VERIF, "corpus", "C14")
    out = []
    if os.path.isdir(d):
        for fn in sorted(os.listdir(d)):
            if fn.endswith(".json"):
                out.append(json.load(open(os.path.join(d, fn))))
    return out


def run(ctx, n=None):
    f = _facts(ctx)
    n = n or ctx.pick(230, 2400)
    cases = _corpus() + _cases(ctx, n)
    results = ctx.pmap(run_real, cases)
    lines, idx = [], []
    for i, (c, r) in enumerate(zip(cases, results)):
        lines.append(model_line(c, r["basev"], _flags(c["fmt"], f)))
        idx.append(i)
    replies = {}
    if lines and ctx.model_available:
        for i, rep in zip(idx, ctx.model(lines)):
            replies[i] = rep
    for i, (c, r) in enumerate(zip(cases, results)):
        check_case(ctx, c, r, replies.get(i), _flags(c["fmt"], f))
    ctx.extra["flags"] = dict(bzr=_flags("2a", f), git=_flags("git", f))


def widen(ctx):
    run(ctx, n=900)


def replay(ctx, case):
    f = _facts(ctx)
    if "entries" not in case:
        case = build_case(tuple(case["id"]))
    else:
        case = dict(case)
    res = run_real(case)
    rep = ctx.model([model_line(case, res["basev"], _flags(case["fmt"], f))])[0]
    check_case(ctx, case, res, rep, _flags(case["fmt"], f))
    keep = {k: res.get(k) for k in ("oplog", "conf0", "resolve", "apply", "preview", "after", "resolve_tb", "apply_tb") if k in res}
    return dict(case=case, impl=keep, model=rep, mismatches=[x for x in ctx.mismatches if x],
                oracle_failures=[dict(what=v["what"], family=v["family"]) for v in ctx.violations])
