import BreezyVerif.Model.C08
import BreezyVerif.Lemmas.C03
/-
C08 — helper lemmas.
-/
namespace BreezyVerif.C08

open BreezyVerif.C03

theorem both_invs_get (s : Stacked) (k : Rev) :
    get (both s).invs k = match get s.st.invs k with
      | some i => some i
      | none => get s.fb.invs k := by
  unfold both
  cases h : get s.st.invs k with
  | some i => exact get_append_some h
  | none => exact get_append_none h

theorem both_texts_isSome (s : Stacked) (k : TextKey)
    (h : (get s.st.texts k).isSome = true ∨ (get s.fb.texts k).isSome = true) :
    (get (both s).texts k).isSome = true := by
  unfold both
  cases hs : get s.st.texts k with
  | some c => simp [get_append_some hs]
  | none =>
    simp only [get_append_none hs]
    rcases h with h | h
    · simp [hs] at h
    · exact h

/-- what `stackable` says about one locally stored revision -/
theorem stackable_rev {s : Stacked} (h : stackable s = true) {k : Rev} {rec : RevRec}
    (hk : get s.st.revs k = some rec) :
    ∃ inv, get s.st.invs k = some inv ∧
      (∀ p ∈ rec.parents, presentRev s p = true → ∃ ip, get s.st.invs p = some ip) ∧
      ∀ e ∈ inv, e ∈ parentEntries s rec ∨ ∃ c, get s.st.texts e.key = some c := by
  unfold stackable at h
  have := List.all_eq_true.mp h (k, rec) (get_mem hk)
  unfold stackableRev at this
  cases hi : get s.st.invs k with
  | none => simp [hi] at this
  | some inv =>
    simp only [hi, Bool.and_eq_true, List.all_eq_true, Bool.or_eq_true, Bool.not_eq_true',
      decide_eq_true_eq] at this
    refine ⟨inv, rfl, fun p hp hpres => ?_, fun e he => ?_⟩
    · rcases this.1 p hp with h1 | h1
      · simp [hpres] at h1
      · cases hh : get s.st.invs p with
        | none => simp [hh] at h1
        | some ip => exact ⟨ip, rfl⟩
    · rcases this.2 e he with h1 | h1
      · exact Or.inl h1
      · cases hh : get s.st.texts e.key with
        | none => simp [hh] at h1
        | some c => exact Or.inr ⟨c, rfl⟩

theorem mem_parentEntries {s : Stacked} {rec : RevRec} {e : Entry} (h : e ∈ parentEntries s rec) :
    ∃ p ∈ rec.parents, presentRev s p = true ∧ ∃ ip, get s.st.invs p = some ip ∧ e ∈ ip := by
  unfold parentEntries at h
  obtain ⟨p, hp, hep⟩ := List.mem_flatMap.mp h
  obtain ⟨hp1, hp2⟩ := List.mem_filter.mp hp
  obtain ⟨ip, hip, he⟩ := mem_invOrEmpty hep
  exact ⟨p, hp1, hp2, ip, hip, he⟩

theorem topo_lt {r : Repo} (h : topo r = true) {k p : Rev} {rec : RevRec}
    (hk : get r.revs k = some rec) (hp : p ∈ rec.parents) : p < k := by
  unfold topo at h
  have := List.all_eq_true.mp h (k, rec) (get_mem hk)
  simp only [List.all_eq_true, decide_eq_true_eq] at this
  exact this p hp

theorem readable_iff {r : Repo} {k : Rev} :
    readable r k = true ↔ ∃ inv, get r.invs k = some inv ∧ ∀ e ∈ inv, (get r.texts e.key).isSome = true := by
  unfold readable
  cases h : get r.invs k with
  | none => simp
  | some inv => simp [List.all_eq_true]

/-- a revision of the (complete) fallback is readable through the stack, whatever inventory copy is local -/
theorem readable_of_fallback {s : Stacked} (hfb : complete s.fb = true) (hag : invsAgree s = true)
    {p : Rev} (hp : hasRev s.fb p = true) : readable (both s) p = true := by
  obtain ⟨rec, hrec⟩ := (hasRev_iff ..).mp hp
  obtain ⟨i, hi, htexts⟩ := complete_inv hfb hrec
  rw [readable_iff]
  refine ⟨i, ?_, fun e he => ?_⟩
  · rw [both_invs_get]
    cases hl : get s.st.invs p with
    | none => exact hi
    | some il =>
      have : i = il := agreeOn_eq hag hl hi
      simp [this]
  · obtain ⟨c, hc⟩ := htexts e he
    exact both_texts_isSome s e.key (Or.inr (by simp [hc]))

/-- the per-revision invariant survives growth of the local store, provided every parent
that newly counts as present has its inventory locally -/
theorem stackableRev_mono {s s' : Stacked} {k : Rev} {rec : RevRec}
    (hinv : ∀ q i, get s.st.invs q = some i → get s'.st.invs q = some i)
    (htxt : ∀ q c, get s.st.texts q = some c → get s'.st.texts q = some c)
    (hpres : ∀ p, presentRev s p = true → presentRev s' p = true)
    (hnewp : ∀ p ∈ rec.parents, presentRev s' p = true → presentRev s p = true ∨ (get s'.st.invs p).isSome = true)
    (h : stackableRev s k rec = true) : stackableRev s' k rec = true := by
  unfold stackableRev at h ⊢
  cases hi : get s.st.invs k with
  | none => simp [hi] at h
  | some inv =>
    simp only [hi, Bool.and_eq_true, List.all_eq_true, Bool.or_eq_true, Bool.not_eq_true',
      decide_eq_true_eq] at h
    simp only [hinv k inv hi, Bool.and_eq_true, List.all_eq_true, Bool.or_eq_true, Bool.not_eq_true',
      decide_eq_true_eq]
    refine ⟨fun p hp => ?_, fun e he => ?_⟩
    · cases hp' : presentRev s' p with
      | false => exact Or.inl rfl
      | true =>
        right
        rcases hnewp p hp hp' with h1 | h1
        · rcases h.1 p hp with h2 | h2
          · simp [h1] at h2
          · cases hh : get s.st.invs p with
            | none => simp [hh] at h2
            | some ip => simp [hinv p ip hh]
        · exact h1
    · rcases h.2 e he with h1 | h1
      · left
        obtain ⟨p, hp, hpp, ip, hip, hep⟩ := mem_parentEntries h1
        unfold parentEntries
        refine List.mem_flatMap.mpr ⟨p, List.mem_filter.mpr ⟨hp, hpres p hpp⟩, ?_⟩
        unfold invOrEmpty
        rw [hinv p ip hip]
        exact hep
      · right
        cases hh : get s.st.texts e.key with
        | none => simp [hh] at h1
        | some c => simp [htxt _ c hh]

theorem hasRev_both (s : Stacked) (p : Rev) : hasRev (both s) p = presentRev s p := by
  unfold hasRev presentRev hasRev both
  cases h : get s.st.revs p with
  | some v => simp [get_append_some h]
  | none => simp [get_append_none h]

/-- the shape of a successful fetch into a stacked repository -/
theorem fetchStacked_ok {x : Exclusion} {fg : Bool} {src : Repo} {s s' : Stacked} {rev : Rev}
    (h : fetchStacked x fg src s rev = .ok s') :
    streamable x src (missing fg src (both s) rev) = true ∧ s'.fb = s.fb ∧
    s'.st.revs = (copy x src s.st (missing fg src (both s) rev)).revs ∧
    s'.st.texts = (copy x src s.st (missing fg src (both s) rev)).texts ∧
    s'.st.invs = (copy x src s.st (missing fg src (both s) rev)).invs ++
      parentInvFill src (copy x src s.st (missing fg src (both s) rev)) (missing fg src (both s) rev) := by
  unfold fetchStacked at h
  simp only at h
  split at h
  · cases h
  · split at h
    · cases h
    · rename_i h2
      simp only [Except.ok.injEq] at h
      subst h
      exact ⟨by simpa using h2, rfl, rfl, rfl, rfl⟩

theorem get_parentInvFill (src t : Repo) (m : List Rev) (p : Rev) :
    get (parentInvFill src t m) p =
      if p ∈ (m.flatMap (C33.parentsL (graph src))).filter (fun p => !hasRev t p && (get t.invs p).isNone)
      then get src.invs p else none := by
  unfold parentInvFill
  exact get_filterMap_keyed (get src.invs) _ p

theorem get_filter_ne {α β : Type} [DecidableEq α] (l : List (α × β)) (k q : α) :
    C03.get (l.filter fun kv => !decide (kv.1 = k)) q = if q = k then none else C03.get l q := by
  induction l with
  | nil => simp [C03.get]
  | cons x xs ih =>
    obtain ⟨k', v⟩ := x
    by_cases hk : k' = k
    · subst hk
      simp only [List.filter_cons, decide_true, Bool.not_true, Bool.false_eq_true, if_false, ih, C03.get]
      by_cases hq : q = k'
      · simp [hq]
      · have : ¬ k' = q := fun h => hq h.symm
        simp [hq, this]
    · simp only [List.filter_cons, hk, decide_false, Bool.not_false, if_true, C03.get, ih]
      by_cases hq : k' = q
      · subst hq; simp [hk]
      · simp [hq]

theorem get_dedupKeys {α β : Type} [DecidableEq α] (l : List (α × β)) (q : α) :
    C03.get (dedupKeys l) q = C03.get l q := by
  induction l with
  | nil => rfl
  | cons x xs ih =>
    obtain ⟨k, v⟩ := x
    simp only [dedupKeys, C03.get, get_filter_ne, ih]
    by_cases hq : k = q
    · simp [hq]
    · have : ¬ q = k := fun h => hq h.symm
      simp [hq, this]

theorem mem_dedupKeys {α β : Type} [DecidableEq α] {l : List (α × β)} {kv : α × β}
    (h : kv ∈ dedupKeys l) : kv ∈ l := by
  induction l with
  | nil => cases h
  | cons x xs ih =>
    obtain ⟨k, v⟩ := x
    simp only [dedupKeys, List.mem_cons, List.mem_filter] at h
    rcases h with h | h
    · exact h ▸ List.mem_cons_self
    · exact List.mem_cons_of_mem _ (ih h.1)

theorem get_singleton {α β : Type} [DecidableEq α] (k q : α) (v : β) :
    C03.get [(k, v)] q = if k = q then some v else none := by
  simp [C03.get]

end BreezyVerif.C08
