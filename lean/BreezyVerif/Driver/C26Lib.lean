import BreezyVerif.Common
import BreezyVerif.Model.C26
/-! line-protocol parsing shared by the C26 and C27 drivers (core Lean only) -/
namespace BreezyVerif.C26

/-- `<host>.<logname>.<T|F steal>` (running as root) or `<host>.<logname>.<T|F steal>.<uid>` -/
def parseCfg (s : String) : Option Cfg :=
  match s.splitOn "." with
  | [h, u, st] => do
      let h ← h.toNat?
      let u ← u.toNat?
      let st ← parseBool st
      pure ⟨h, { name := u }, st⟩
  | [h, u, st, uid] => do
      let h ← h.toNat?
      let u ← u.toNat?
      let st ← parseBool st
      let uid ← uid.toNat?
      pure ⟨h, { name := u, uid := uid }, st⟩
  | _ => none

def parseNonce (s : String) : Option Nonce :=
  match s.splitOn "." with
  | [o, k] => do
      let o ← o.toNat?
      let k ← k.toNat?
      pure ⟨o, k⟩
  | _ => none

/-- `-` absent, `e` no info file, `o<owner>.<serial>`, `b<tag>` -/
def parseHeld (s : String) : Option (Option Dir) :=
  if s == "-" then some none
  else if s == "e" then some (some none)
  else match s.toList with
    | 'o' :: rest => (parseNonce (String.ofList rest)).map (fun n => some (some (.ok n)))
    | 'b' :: rest => (String.ofList rest).toNat?.map (fun t => some (some (.bad t)))
    | _ => none

def parseOp : Char → Option Op
  | 'a' => some .attempt | 'u' => some .unlock | 'c' => some .confirm | 'b' => some .brk
  | _ => none

/-- `s<i><a|u|c|b>` start, `t<i>` step, `f<i><T|P>` fault, `x<i>` crash -/
def parseEv (s : String) : Option Ev :=
  match s.toList with
  | 's' :: rest =>
    match rest.reverse with
    | o :: ds => do
        let op ← parseOp o
        let i ← (String.ofList ds.reverse).toNat?
        pure (.start i op)
    | [] => none
  | 't' :: rest => (String.ofList rest).toNat?.map .step
  | 'x' :: rest => (String.ofList rest).toNat?.map .crash
  | 'f' :: rest =>
    match rest.reverse with
    | k :: ds => do
        let k ← (if k == 'T' then some FaultKind.T else if k == 'P' then some FaultKind.P else none)
        let i ← (String.ofList ds.reverse).toNat?
        pure (.fault i k)
    | [] => none
  | _ => none

def cfgFun (cs : List Cfg) : Nat → Cfg := fun i =>
  match cs[i]? with
  | some c => c
  | none => ⟨1, 1, false⟩

/-- observations after every prefix of the schedule -/
def traceWith (f : Sys → String) (s : Sys) : List Ev → List String
  | [] => [f s]
  | e :: es => f s :: traceWith f (s.step e) es

end BreezyVerif.C26
