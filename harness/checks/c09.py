"""C09 — working trees behave like an abstract versioned file system.

Mechanism: breezy/bzr/workingtree_4.py (DirStateWorkingTree._add, unversion,
move, rename_one, set_parent_trees, flush; InterDirStateTree.iter_changes),
breezy/bzr/workingtree.py (remove, _move, revert via transform), breezy/transform.py
(revert, _alter_files: backups, executable bit, `.moved` conflicts), breezy/git/tree.py
(MutableGitIndexTree.add/unversion/rename_one/move, InterGitTrees.iter_changes),
breezy/git/workingtree.py (_flush, _rename_one), breezy/mutabletree.py, breezy/workingtree.py.

T2 (the statement is the correspondence): random operation sequences —
mkdir, add, remove(keep_files | force), unversion, rename_one, move, file / symbolic-link creation,
content edits and chmod on disk, commit, revert(backups=False | True) of the whole tree,
revert([file], backups=False | True), re-open — are generated
*adaptively* from the observed state of a real working tree (2a dirstate and
git index), executed on the real tree and replayed on the Lean step machine
(Model/C09.lean, `step : Flavour -> State -> Op -> State x Out`).  After every
step both sides are compared on: outcome (ok / error), all versioned paths with
kind, file text / symlink target and executable bit, the canonical status
against the basis (bzr: iter_changes records without ids, i.e. renames keep
their identity; git: path-space added / removed / modified) and EVERYTHING ON DISK
below the root, versioned or not (path, kind, content, executable bit: backup copies
`name.~N~` with the content and mode of the edited file, `.moved` objects, directories
revert empties and deletes, unversioned files left alone).  One tree object is
kept alive across the whole sequence (re-opened only by the occasional `reopen`
op); names vacated by earlier renames / removals are reused on purpose.
Input families besides single random operations: (a) bursts — two or three edits to ONE
committed file (content, mode, name, versionedness, in random combination and order)
followed by a revert with or without backups or by a revert of just that file;
(b) `lock` ... `unlock` blocks — 3-6 mutations under one lock_write held by the harness
(no flush / re-read of dirstate or index in between; the live object is compared with a
fresh one after the block); (c) half of the sequences start from a non-empty first commit
(files, an executable, a directory, a symbolic link); write / chmod prefer files that
already differ from the basis in the other aspect; contents are drawn from a small pool
(collisions feed git's rename detection) or are tokens unique in the sequence.
The model's own invariant (disk tree, basis and working tree well-formed; git: the basis is
git-representable, i.e. the hypotheses of step_revert_status_empty_git_closed) is evaluated
by the driver after every step.
Oracle (independent of the model, on the real tree): an operation that raises
leaves listing, status and the directory contents unchanged; after EVERY step, for
every path the sequence has touched (present or just vacated, parents included),
is_versioned / path2id / stored_kind of the live tree object agree with
all_versioned_paths and with a freshly opened tree ("re-open is the identity on
every query"); after commit the status is empty; after revert (with and without backups)
the listing equals the listing at the last commit — contents AND executable bits — and the
status is empty; listing, status and queries of the tree never raise, whatever the operations were; revert destroys no content (what an unversioned file held is still on disk,
and with backups=True so is what every versioned file held); after revert([p]) exactly the
entry of p is the committed one, every other versioned entry and every other object on disk
is unchanged, and with backups a new `p.~N~` holds the content and mode of the edited file;
re-opening changes nothing; the status is sound
and complete with respect to the listings (the paths whose entry differs
between the last commit and now are exactly the paths named by the status).
A failing sequence is delta-debugged to a minimal op list before it is reported.

Known findings (family slugs computed from the concrete failing step; entries in
known_findings.json):
 git-rename-detection-pairs-modified-file-with-added-copy (git: status reports a modified file also as renamed
     to a new file with its old content; revert then versions `c.moved` and loses the added file)
 (the same family covers every case where the rename detector has two candidates for one committed file: its old
     content in a new file while the file is still there modified, or in two new files; iter_changes then names the
     same source twice and revert leaves `<name>.moved` versioned)
 git-status-reports-root-renamed-to-directory       (git: all files of the basis moved into one
     directory with the same names: iter_changes reports the root directory as renamed to that directory; a revert
     then "renames it back", which moves unversioned files of that directory into the root)
 git-revert-raises-after-remove-keep                (git: revert raises KeyError when a committed file was removed with
     keep_files and its directory is no longer versioned)
 bzr-unversion-directory-with-versioned-grandchildren (bzr, NEW, not yet triaged: DirStateWorkingTree.unversion of a directory
     with a versioned path two or more levels below it clears only the directory's own dirblock - `block[0][len(path)] == "/"`
     compares an int with a str - so iter_changes raises AssertionError "Could not find target parent in wt" (committed) or
     the grandchildren stay versioned without parents (uncommitted); one-line fix in
     /var/tmp/imp-C09/fix_bzr_unversion_nested_directory.diff, repro /var/tmp/imp-C09/repro_bzr_unversion_nested_directory.py)
 bzr-revert-duplicate-key-entry-moved-out-of-removed-directory (bzr, NEW, not yet triaged: commit e/a; rename_one e/a d;
     remove e (--keep or --force); revert() raises DuplicateKey: _alter_files makes two transform ids for the file id of `e`
     when the record of the moved entry comes before the record of the directory; small fix in
     /var/tmp/imp-C09/fix_bzr_revert_duplicate_key.diff, repro /var/tmp/imp-C09/repro_bzr_revert_duplicate_key.py)
 git-revert-duplicate-resolution-sorts-transform-ids-as-strings (git, NEW, not yet triaged: a committed directory with a file
     in it is unversioned but kept on disk, so revert finds directory AND file in the way; with >= 10 transform ids
     (about 6 more objects in the tree) the string sort `new-10` < `new-4` in _duplicate_entries makes resolve_duplicate
     rename the NEW file: `c/a/a.moved` ends up versioned, `c/a/a` not; repro /var/tmp/imp-C09/repro_git_revert_nested_in_the_way.py)
 git-revert-non-directory-at-path-of-basis-directory (git, NEW, not yet triaged: a file / link - unversioned, or versioned
     e.g. by a rename - sits where the last commit has a directory that was renamed away or removed: revert takes it for
     the directory (same path = same transform id) and leaves the directory's contents below `<name>.moved.new` /
     `<name>.new`, wrongly versioned or not versioned at all, status not empty; bzr trees handle it with `.moved`;
     repro: /var/tmp/imp-C09/repro_git_revert_non_directory_at_dir_path.py)
Found by this check and FIXED in /repo (no family any more: a regression is a plain VIOLATION; the minimal
sequences stay in corpus/C09 and run first):
 1f6467c add of a path below a directory that was removed from versioning but is still in the basis succeeded
 011e662 mkdir below an unversioned directory raised but left the directory on disk
 5189316 git rename_one of a path that does not exist onto an unversioned file versioned the file

Mutants tried (scratch worktree, known findings treated as known):
 s1 (seeded by the coordinator) git rename_one keeps stale `_versioned_dirs` cache entries: live is_versioned('d') /
    path2id / stored_kind say "directory" after the rename, a re-opened tree says gone -> oracle (reopen-query), every seed,
    minimal ['mkfile:c', 'add:c', 'rename:c:d']; pinned in corpus/C09/git-versioned-dirs-cache-after-rename.json
 s2 (seeded) transform._alter_files skips set_executability when the edited file is backed up (`mode_id is None` guard):
    content + mode edit of a committed file, then revert(backups=True) keeps the edited bit -> oracle (revert-restore),
    seeds 0-3, minimal ['mkfile:b:78', 'add:b', 'commit', 'chmod:b:T', 'write:b:..', 'revert:b'], bzr and git
 f1/f2/f3 each of the three fix: commits reverted                                  -> oracle, minimal sequences (see report)
 m2 InventoryWorkingTree._move_entry: inv.rename(..., entry.from_tail)             -> oracle (error not atomic / status)
 m4 MutableGitIndexTree.rename_one: index entry of the old path kept               -> oracle (status vs listing) + T2
 m5 transform._alter_files (revert): content of added files not kept               -> oracle (revert deleted files outside the basis)
 m6 InventoryWorkingTree.remove: keep_files ignored for directories                -> T2 (minimal: ['remove:b:k'])
 m8 bzr TreeTransform._available_backup_name ignores existing names (always .~1~)  -> T2 on the disk listing
    (minimal: write e; revert:b; write e; revert:b -> `e.~1~.moved` instead of `e.~2~`)
 m10 DirStateWorkingTree._add: _make_dirty(reset_inventory=False) (stale cached inventory; invisible when every
    operation takes its own lock)                                                  -> oracle, minimal ['lock', 'mkfile:a', 'add:a']
 m12 _alter_files: backup placed in the directory of the TARGET path               -> T2 on the disk listing (rename + edit + revert:b)
 m13 _alter_files: `backups or target_kind is None` -> `backups`                    -> oracle (revert deleted files outside the basis)
 m1 DirStateWorkingTree.unversion: only the dirblock of the directory itself is cleared, not those of its
    descendants: this turned out to be what the UNCHANGED code does (finding bzr-unversion-directory-with-versioned-grandchildren)
 m3b MutableGitIndexTree.unversion / _unversion_path: `_versioned_dirs = None` dropped -> oracle (live object vs re-opened tree)
 m3 _unversion_path directory branch: prefix test without the separator (`startswith(subpath)`): NOT caught - needs a
    versioned sibling whose name extends the directory's name (only `x.moved` / `x.~N~` names do here)
 harmless (stays clean): reordered comparison and reworded message in _move_entry; reordered / negated condition of the
    final set_executability in _alter_files
"""
import os
import shutil

from vlib import env

THEOREMS = [
    "reopen_id", "run_append", "step_error_unchanged", "mkdir_error_no_leftover", "rename_missing_source_fails",
    "unversion_not_versioned_fails", "unversion_eq_remove_keep", "changesOf_self", "commit_status_empty", "status_sound_complete", "revert_restores", "revert_only_basis",
    "revert_backups_same_versioned", "step_revert_ok", "step_revert_basis", "step_revert_only_basis",
    "step_revert_restores_bzr", "step_revert_restores_git_nondir", "step_revert_restores_git_kept",
    "step_revert_restores_git", "step_revert_status_empty_bzr", "step_revert_status_empty_git",
    "step_revert_status_empty_git_closed", "revertPath_restores_entry", "pathStatus_complete", "pathStatus_sound",
    "pathStatus_nil_iff",
]
RULE = ("case = (format, op sequence generated adaptively from the real tree: single operations, bursts of 2-3 edits to one "
        "committed file (content / mode / name / versionedness) followed by a revert with or without backups, blocks of 3-6 "
        "mutations under ONE write lock, half of the sequences after a non-empty first commit, re-open at random points); "
        "compared after every step; distinct by (format, canonical op list); non-trivial = at least 3 successful mutating ops "
        "and one of commit / revert / reopen")
ASSUMPTIONS = [
    "names from {a..f} (plus the `.moved` / `.~N~` names revert makes), depth <= 3, contents from 4 values plus tokens unique in the sequence; sequences <= 25 ops plus bursts (70 per quick run, 400 per thorough run); theorems are unbounded",
    "files are never replaced by directories on disk behind the tree's back (kind changes) and versioned files are only deleted through remove",
    "bzr rename_one / move of a path that is not versioned any more but still in the basis (resurrects the basis entry) is outside the model: such operations are skipped",
    "revert is run on the whole tree with backups=False and backups=True, and on ONE file or symbolic link that both trees have at the same path (bzr: not below or part of a rename / removal / addition); conflicts of revert other than 'unversioned object in the way -> .moved' are avoided by the generator",
    "remove is run with keep_files or force (the default mode that refuses / backs up changed files is not generated)",
    "symbolic links point to names that do not exist",
    "case-sensitive UTF-8 file system",
]
TRUSTED = ["dirstate and git index byte formats (bzrformats / dulwich) are exercised through re-opening, not modelled"]

NAMES = ["a", "b", "c", "d", "e", "f"]
LOCKED_OPS = ("mkfile", "mklink", "mkdir", "add", "remove", "unversion", "rename", "move", "write", "chmod")
CONTENTS = ["", "x", "y", "xy"]


def hx(s):
    return s.encode().hex() or "-"


class Real:
    """operation interpreter on a real working tree"""

    def __init__(self, fmt):
        self.fmt = fmt
        self.wt = env.make_tree("2a" if fmt == "bzr" else "git")
        self.base = self.wt.basedir
        self.ctl = ".bzr" if fmt == "bzr" else ".git"
        self._lk = None           # the long write lock of a `lock` ... `unlock` block

    def close(self):
        self.unlock()
        shutil.rmtree(self.base, ignore_errors=True)

    def locked(self):
        return self._lk is not None

    def unlock(self):
        if self._lk is not None:
            lk, self._lk = self._lk, None
            lk.unlock()

    def full(self, p):
        return os.path.join(self.base, p)

    def do(self, op):
        from breezy.workingtree import WorkingTree
        k = op[0]
        wt = self.wt
        try:
            if k == "lock":
                if self._lk is None:
                    self._lk = wt.lock_write()
                return "ok"
            if k == "unlock" or k in ("commit", "revert", "revertp", "reopen"):
                # commit / revert / re-open always run with the block closed
                self.unlock()
                if k == "unlock":
                    return "ok"
            if k == "mkfile":
                with open(self.full(op[1]), "xb") as f:
                    f.write(op[2].encode())
            elif k == "write":
                if not os.path.isfile(self.full(op[1])) or os.path.islink(self.full(op[1])):
                    raise FileNotFoundError(op[1])
                with open(self.full(op[1]), "wb") as f:
                    f.write(op[2].encode())
            elif k == "chmod":
                if not os.path.isfile(self.full(op[1])) or os.path.islink(self.full(op[1])):
                    raise FileNotFoundError(op[1])
                os.chmod(self.full(op[1]), 0o755 if op[2] else 0o644)
            elif k == "mkdir":
                wt.mkdir(op[1])
            elif k == "add":
                wt.add([op[1]])
            elif k == "remove":
                wt.remove([op[1]], keep_files=(op[2] == "k"), force=(op[2] == "f"))
            elif k == "unversion":
                wt.unversion([op[1]])
            elif k == "rename":
                wt.rename_one(op[1], op[2])
            elif k == "move":
                wt.move([op[1]], op[2])
            elif k == "commit":
                wt.commit("c")
            elif k == "revert":
                wt.revert(backups=(len(op) > 1 and op[1] == "b"))
            elif k == "revertp":
                wt.revert([op[1]], backups=(op[2] == "b"))
            elif k == "mklink":
                if os.path.lexists(self.full(op[1])):
                    raise FileExistsError(op[1])
                os.symlink(op[2], self.full(op[1]))
            elif k == "reopen":
                self.wt = WorkingTree.open(self.base)
            else:
                raise ValueError(k)
            return "ok"
        except (KeyboardInterrupt, SystemExit):
            raise
        except BaseException as e:      # pyo3 panics are BaseExceptions
            return "err:" + type(e).__name__

    def listing(self):
        wt = self.wt
        out = []
        with wt.lock_read():
            for p in sorted(wt.all_versioned_paths()):
                try:
                    kind = wt.kind(p)
                except Exception as e:
                    out.append("%s|!%s|-|F" % (p or ".", type(e).__name__))
                    continue
                txt, ex = "-", False
                if kind == "file":
                    txt = wt.get_file_text(p).hex() or "-"
                    ex = bool(wt.is_executable(p))
                elif kind == "symlink":
                    txt = hx(wt.get_symlink_target(p))
                out.append("%s|%s|%s|%s" % (p or ".", kind, txt, "T" if ex else "F"))
        return sorted(out)

    def changes(self):
        wt = self.wt
        with wt.lock_read():
            basis = wt.basis_tree()
            with basis.lock_read():
                return [(c.path, c.changed_content, c.versioned, c.kind, c.executable) for c in wt.iter_changes(basis)]

    def queries(self, paths, fresh=False):
        """is_versioned / path2id / stored kind for every given path, on the live tree
        object or on a freshly opened one"""
        from breezy.workingtree import WorkingTree
        wt = WorkingTree.open(self.base) if fresh else self.wt
        out = {}
        with wt.lock_read():
            for p in paths:
                q = "" if p == "." else p
                try:
                    v = bool(wt.is_versioned(q))
                except Exception as e:
                    v = "!" + type(e).__name__
                try:
                    i = wt.path2id(q) is not None
                except Exception as e:
                    i = "!" + type(e).__name__
                k = None
                if v is True:
                    try:
                        k = wt.stored_kind(q)
                    except Exception as e:
                        k = "!" + type(e).__name__
                out[p] = (v, i, k)
        return out

    def disk(self):
        out = []
        for d, ds, fs in os.walk(self.base):
            rel = os.path.relpath(d, self.base)
            if rel == ".":
                ds[:] = [x for x in ds if x != self.ctl]
                rel = ""
            for n in list(ds):
                if os.path.islink(os.path.join(d, n)):
                    out.append((os.path.join(rel, n), "l"))
                else:
                    out.append((os.path.join(rel, n), "d"))
            for n in fs:
                out.append((os.path.join(rel, n), "l" if os.path.islink(os.path.join(d, n)) else "f"))
        return sorted(out)

    def disk_listing(self):
        """everything below the root, versioned or not: `path|kind|content|exec`"""
        out = []
        for p, k in self.disk():
            fp = self.full(p)
            if k == "d":
                out.append("%s|directory|-|F" % p)
            elif k == "l":
                out.append("%s|symlink|%s|F" % (p, hx(os.readlink(fp))))
            else:
                with open(fp, "rb") as f:
                    txt = f.read().hex() or "-"
                out.append("%s|file|%s|%s" % (p, txt, "T" if os.stat(fp).st_mode & 0o100 else "F"))
        return sorted(out)


def _moved_variants(q):
    """q itself, or q below / as an object that revert renamed to `<name>.moved`"""
    parts = q.split("/")
    out = {q}
    for k in range(1, len(parts) + 1):
        out.add("/".join(parts[:k - 1] + [parts[k - 1] + ".moved"] + parts[k:]))
    return out


def _prefixes(p):
    parts = p.split("/")
    return ["/".join(parts[:k]) for k in range(1, len(parts))]


def _s(x):
    if x is None:
        return "~"
    if isinstance(x, bool):
        return "T" if x else "F"
    return x or "."


def status_bzr(changes):
    return sorted("|".join([_s(p[0]), _s(p[1]), _s(cc), _s(v[0]) + _s(v[1]), _s(k[0]), _s(k[1]), _s(e[0]), _s(e[1])])
                  for p, cc, v, k, e in changes)


def status_paths(changes, committed, current):
    """path-space canonical status from real change records: renames are split"""
    minus, plus, mod = {}, {}, set()
    implied_minus, implied_plus = {}, {}
    for p, cc, v, k, e in changes:
        if v == (False, True):
            plus[p[1] or "."] = k[1]
        elif v == (True, False):
            minus[p[0] or "."] = k[0]
        elif v == (True, True):
            if p[0] != p[1]:
                minus[p[0] or "."] = k[0]
                plus[p[1] or "."] = k[1]
                if k[0] == "directory":
                    # the children of a renamed directory move with it without a record of their own
                    for l in committed:
                        q = l.split("|")[0]
                        if q.startswith(p[0] + "/") and q not in minus:
                            implied_minus[q] = l.split("|")[1]
                    for l in current:
                        q = l.split("|")[0]
                        if q.startswith(p[1] + "/") and q not in plus:
                            implied_plus[q] = l.split("|")[1]
            elif cc or e[0] != e[1] or k[0] != k[1]:
                mod.add(p[0] or ".")
    cb = {l.split("|")[0]: l for l in committed}
    cw = {l.split("|")[0]: l for l in current}
    # a child with a record of its own is handled by that record: as a source for the old path, as a
    # target for the new one (a NEW object at the old path of a child does not cancel the implied removal)
    explicit_src = {(p[0] or ".") for p, cc, v, k, e in changes if p[0] is not None}
    explicit_tgt = {(p[1] or ".") for p, cc, v, k, e in changes if p[1] is not None}
    for q, k in implied_minus.items():
        if q not in explicit_src:
            minus.setdefault(q, k)
    for q, k in implied_plus.items():
        if q not in explicit_tgt:
            plus.setdefault(q, k)
    for p in set(minus) & set(plus):
        del minus[p], plus[p]
        if cb.get(p) != cw.get(p):
            mod.add(p)
    return sorted(["+|%s|%s" % (p, k) for p, k in plus.items()] + ["-|%s|%s" % (p, k) for p, k in minus.items()] +
                  ["M|%s" % p for p in mod])


def expected_status(committed, current):
    """path-space status recomputed from two listings (oracle for the status)"""
    cb = {l.split("|")[0]: l for l in committed}
    cw = {l.split("|")[0]: l for l in current}
    out = []
    for p in set(cb) | set(cw):
        if p not in cw:
            out.append("-|%s|%s" % (p, cb[p].split("|")[1]))
        elif p not in cb:
            out.append("+|%s|%s" % (p, cw[p].split("|")[1]))
        elif cb[p] != cw[p]:
            out.append("M|%s" % p)
    return sorted(out)


def git_copy_of_modified(committed, current):
    """the rename detector has two candidates for one committed file, so iter_changes names the
    same source path in two records: the old content of a committed file is found in a new file
    while the file itself is still there modified, or in two (or more) new files"""
    cb = {l.split("|")[0]: l.split("|") for l in committed}
    cw = {l.split("|")[0]: l.split("|") for l in current}
    for p, f in cb.items():
        if f[1] != "file":
            continue
        copies = [q for q, g in cw.items() if q not in cb and g[1] == "file" and g[2] == f[2]]
        still_there_modified = p in cw and cw[p][1] == "file" and cw[p] != f
        if (copies and still_there_modified) or (len(copies) >= 2 and p not in cw):
            return True
    return False


def git_dir_holds_whole_basis(committed, current):
    """some directory of the working tree contains exactly the files of the basis root (same
    relative names and contents) while they are gone from the top: git's tree-level rename
    detection then reports the *root* as renamed to that directory"""
    cb = {l.split("|")[0]: l.split("|")[1:] for l in committed if l.split("|")[1] != "directory"}
    cw = {l.split("|")[0]: l.split("|")[1:] for l in current if l.split("|")[1] != "directory"}
    if not cb:
        return False
    for l in current:
        f = l.split("|")
        if f[1] == "directory" and f[0] != ".":
            under = {q[len(f[0]) + 1:]: v for q, v in cw.items() if q.startswith(f[0] + "/")}
            if under == cb and not any(q in cw for q in cb):
                return True
    return False


def git_file_at_basis_directory(committed, listing, disk):
    """an object that is not a directory (unversioned, or versioned: e.g. a file renamed to that name) sits
    at a path where the last commit has a directory (the directory was renamed away or removed): git's
    revert takes that object for the directory (same path = same transform id), resolves a 'non-directory
    parent' conflict and ends with the contents below `<name>.new` / `<name>.moved.new`, versioned wrongly
    or not at all"""
    cdirs = {l.split("|")[0] for l in committed if l.split("|")[1] == "directory"}
    return any(k != "d" and q in cdirs for q, k in disk)


def git_nested_in_the_way(committed, listing, disk):
    """a committed file AND its committed parent directory are both on disk but not versioned (the subtree was
    removed with keep_files / unversioned): revert finds two levels of objects in the way; the existing file is
    re-parented with its directory, so resolve_duplicate sees 'path changed' on both candidates and falls back on
    the order of the transform ids, which _duplicate_entries sorts as STRINGS (`new-10` < `new-4`): with ten or
    more transform ids the NEW file is the one renamed to `<name>.moved` and stays versioned under that name"""
    ctype = {l.split("|")[0]: l.split("|")[1] for l in committed}
    ver = {l.split("|")[0] for l in listing}
    dk = dict(disk)
    for q, k in ctype.items():
        if k != "directory" and "/" in q and q not in ver and dk.get(q) in ("f", "l"):
            par = q.rsplit("/", 1)[0]
            if ctype.get(par) == "directory" and par not in ver and dk.get(par) == "d":
                return True
    return False


def bzr_moved_out_of_removed_directory(status):
    """(bzr status records) a committed directory is no longer versioned while an entry that the last commit has
    below it is still versioned somewhere else: revert has to re-create the directory AND move the entry back below
    it; when the entry's record comes first, _alter_files makes two transform ids for the directory's file id
    (trans_id_file_id for the child's parent, assign_id for the directory itself) and resolve_unversioned_parent
    raises DuplicateKey"""
    recs = [r.split("|") for r in status]
    gone = [r[0] for r in recs if r[3] == "TF" and r[4] == "directory"]
    return any(r[3] == "TT" and any(r[0].startswith(d + "/") for d in gone) for r in recs)


def bzr_unversion_deep(fmt, op, listing):
    """DirStateWorkingTree.unversion of a directory that has a versioned path two or more levels below it:
    only the dirblock of the directory itself is cleared (the test for deeper blocks compares a byte of a
    bytes object with the str "/"), so the grandchildren stay in the dirstate without their parents"""
    if fmt != "bzr" or op[0] != "unversion" or not op[1]:
        return False
    return any(l.split("|")[0].startswith(op[1] + "/") and l.split("|")[0].count("/") >= op[1].count("/") + 2 for l in listing)


def enc_op(op):
    k = op[0]
    P = lambda p: p or "."
    if k in ("mkfile", "write", "mklink"):
        return "%s:%s:%s" % (k, P(op[1]), hx(op[2]))
    if k == "revert":
        return "revert:b" if len(op) > 1 and op[1] == "b" else "revert"
    if k == "revertp":
        return "revertp:%s:%s" % (P(op[1]), op[2])
    if k == "chmod":
        return "chmod:%s:%s" % (P(op[1]), "T" if op[2] else "F")
    if k in ("mkdir", "add", "unversion"):
        return "%s:%s" % (k, P(op[1]))
    if k == "remove":
        return "remove:%s:%s" % (P(op[1]), op[2])
    if k == "rename":
        return "rename:%s:%s" % (P(op[1]), P(op[2]))
    if k == "move":
        # move([a], d) == rename_one(a, d/basename(a))
        base = op[1].rsplit("/", 1)[-1]
        return "rename:%s:%s" % (P(op[1]), (op[2] + "/" + base) if op[2] else base)
    return k


# --------------------------------------------------------------------------
# adaptive generator

OPS = ["mkfile", "mkdir", "add", "remove", "rename", "move", "write", "chmod", "commit", "revert", "reopen", "mklink", "burst",
       "revertp", "unversion"]
WEIGHTS = [8, 7, 12, 7, 12, 6, 9, 7, 7, 9, 4, 3, 13, 8, 6]


def fresh_content(rng, avoid=None, st=None):
    """a content from the small pool (collisions matter for git's rename detection) or a token
    that occurs nowhere else in the sequence (so that its survival can be checked)"""
    if st is not None and rng.random() < 0.3:
        st["u"] = st.get("u", 0) + 1
        return "u%d" % st["u"]
    c = rng.choice(CONTENTS)
    if c == avoid:
        c = rng.choice(CONTENTS)
    return c


def revertp_candidates(fmt, listing, committed, status):
    """paths for `revert([p])` inside the modelled envelope: a file or symbolic link that the working tree and
    the last commit both have at that path; bzr: neither the path nor a directory above it is part of a
    rename / removal / addition (so that it is the same entry in the same directory)"""
    ver = {l.split("|")[0]: l.split("|") for l in listing}
    com = {l.split("|")[0]: l.split("|") for l in committed}
    out = []
    for q, f in ver.items():
        g = com.get(q)
        if g is None or f[1] != g[1] or f[1] not in ("file", "symlink"):
            continue
        if fmt == "bzr":
            moved = set()
            for r in status:
                a, b = r.split("|")[:2]
                if a != b:
                    moved.update(x for x in (a, b) if x != "~")
            if any(q == x or q.startswith(x + "/") for x in moved):
                continue
        out.append(q)
    return sorted(out)


def gen_op(rng, listing, disk, vacated=(), committed=(), st=None, fmt="bzr", status=()):
    """one operation, or a list of operations (a burst of edits to one file followed by a revert)"""
    ver = {l.split("|")[0]: l.split("|") for l in listing}
    ver_paths = sorted(p for p in ver if p != ".")
    ver_dirs = sorted(("" if p == "." else p) for p, f in ver.items() if f[1] == "directory")
    ver_files = sorted(p for p, f in ver.items() if f[1] == "file")
    com = {l.split("|")[0]: l.split("|") for l in committed}
    # versioned files that are part of the last commit at the same path: what revert has to restore
    com_files = [p for p in ver_files if p in com and com[p][1] == "file"]
    disk_dirs = [""] + [p for p, k in disk if k == "d"]
    disk_files = [p for p, k in disk if k == "f"]
    disk_all = [p for p, k in disk]
    unver = [p for p in disk_all if p not in ver]

    on_disk = set(disk_all)
    # names that were versioned earlier and are free now (a renamed directory, the last
    # file moved out of a directory, ...): reused on purpose
    free = sorted(p for p in vacated if p not in ver and p not in on_disk and
                  (("/" not in p) or p.rsplit("/", 1)[0] in on_disk))

    def child(d, free_only=0.75):
        # mostly a name that is free in d (so that the operation can succeed)
        ns = NAMES
        if rng.random() < free_only:
            ns = [n for n in NAMES if ((d + "/" + n) if d else n) not in on_disk] or NAMES
        n = rng.choice(ns)
        return (d + "/" + n) if d else n

    def target(d):
        if free and rng.random() < 0.4:
            return rng.choice(free)
        return child(d)

    def shallow(ds):
        ds = [d for d in ds if d.count("/") < 2]
        return rng.choice(ds) if ds else ""

    def edit_target(aspect=None):
        """a file to edit: mostly a versioned one, mostly one the last commit knows; often one that
        already differs from the last commit in the OTHER aspect (content 2 / mode 3)"""
        r = rng.random()
        if aspect is not None and rng.random() < 0.5:
            other = 5 - aspect
            half = [p for p in com_files if ver[p][other] != com[p][other] and ver[p][aspect] == com[p][aspect]]
            if half:
                return rng.choice(half)
        if com_files and r < 0.55:
            return rng.choice(com_files)
        if ver_files and r < 0.8:
            return rng.choice(ver_files)
        return rng.choice(disk_files) if disk_files else None

    def cur(p):
        return ver.get(p)

    r = rng.random()
    if r < 0.07:
        # malformed / error stream
        return rng.choice([
            ("add", "zz"), ("remove", "zz", "k"), ("rename", "zz", "a"), ("mkdir", "zz/a"), ("rename", child(""), "zz/q"),
            ("remove", "", "k"), ("rename", "", "a"), ("add", child(shallow(disk_dirs))), ("move", child(""), child("")),
            ("write", "zz", "x"), ("remove", rng.choice(unver) if unver else "zz", "k"),
            ("rename", rng.choice(unver) if unver else "zz", child("")), ("chmod", "zz", True),
            ("mklink", rng.choice(disk_all) if disk_all else "zz/l", "zz"),
        ])
    k = rng.choices(OPS, WEIGHTS)[0]
    if k == "mkfile":
        return ("mkfile", target(shallow(disk_dirs)), fresh_content(rng, st=st))
    if k == "mklink":
        return ("mklink", target(shallow(disk_dirs)), rng.choice(["zz", "zz/t", "x"]))
    if k == "mkdir":
        return ("mkdir", target(shallow(ver_dirs if rng.random() < 0.85 else disk_dirs)))
    if k == "add":
        if unver and rng.random() < 0.85:
            return ("add", rng.choice(unver))
        return ("add", rng.choice(disk_all) if disk_all else "a")
    if k == "remove":
        if not ver_paths:
            return ("mkdir", child(""))
        return ("remove", rng.choice(ver_paths), rng.choice(["k", "k", "f"]))
    if k == "unversion":
        deep = [d for d in ver_dirs if d and any(q.startswith(d + "/") and q.count("/") > d.count("/") + 1 for q in ver_paths)]
        if deep and rng.random() < 0.5:
            # a directory with versioned grandchildren
            return ("unversion", rng.choice(deep))
        if not ver_paths and unver and rng.random() < 0.8:
            return ("add", rng.choice(unver))
        if ver_paths and rng.random() < 0.85:
            return ("unversion", rng.choice([d for d in ver_dirs if d] or ver_paths) if rng.random() < 0.4 else rng.choice(ver_paths))
        return ("unversion", rng.choice(unver) if unver and rng.random() < 0.7 else rng.choice(["", "zz"]))
    if k == "rename":
        if not ver_paths:
            return ("mkfile", child(""), "x")
        a = rng.choice(ver_paths)
        d = shallow(ver_dirs if rng.random() < 0.85 else disk_dirs)
        return ("rename", a, target(d))
    if k == "move":
        if not ver_paths:
            return ("mkfile", child(""), "x")
        if free and rng.random() < 0.3:
            # move something to where a freed name was (its parent directory)
            f = rng.choice(free)
            cands = [p for p in ver_paths if p.rsplit("/", 1)[-1] == f.rsplit("/", 1)[-1]]
            if cands:
                return ("move", rng.choice(cands), f.rsplit("/", 1)[0] if "/" in f else "")
        a = rng.choice(ver_paths)
        ds = [d for d in (ver_dirs if rng.random() < 0.9 else disk_dirs) if d.count("/") < 2]
        if rng.random() < 0.85:
            # mostly a destination where the move can succeed: another directory, not below the source, name free
            ds = [d for d in ds if d != (a.rsplit("/", 1)[0] if "/" in a else "") and d != a and not d.startswith(a + "/")
                  and ((d + "/" if d else "") + a.rsplit("/", 1)[-1]) not in on_disk]
            if not ds:
                # nowhere to move to yet: make a directory
                return ("mkdir", child(shallow(ver_dirs)))
        return ("move", a, rng.choice(ds) if ds else "")
    if k == "write":
        f = edit_target(2)
        if f is None:
            return ("mkfile", child(""), "y")
        return ("write", f, fresh_content(rng, avoid=bytes.fromhex(cur(f)[2].replace("-", "")).decode() if cur(f) else None, st=st))
    if k == "chmod":
        f = edit_target(3)
        if f is None:
            return ("mkfile", child(""), "y")
        # mostly a real change of the bit
        if cur(f) and rng.random() < 0.8:
            return ("chmod", f, cur(f)[3] != "T")
        return ("chmod", f, rng.random() < 0.6)
    if k == "burst":
        # several edits to ONE file the last commit knows (content, mode, name, versionedness in
        # a random combination and order), then mostly a revert: interactions of edits
        f = edit_target()
        if f is None or cur(f) is None:
            return ("mkfile", child(""), fresh_content(rng, st=st))
        kinds = rng.choice([["write", "chmod"], ["write", "rename"], ["chmod", "rename"], ["write", "chmod", "rename"]])
        kinds = rng.sample(kinds, len(kinds))
        if rng.random() < 0.15:
            kinds = kinds + ["remove"]
        out = []
        name = f
        for e in kinds:
            if e == "write":
                out.append(("write", name, fresh_content(rng, avoid=bytes.fromhex(cur(f)[2].replace("-", "")).decode(), st=st)))
            elif e == "chmod":
                out.append(("chmod", name, cur(f)[3] != "T"))
            elif e == "rename":
                new = target(shallow(ver_dirs))
                if new in on_disk or new == name:
                    continue
                out.append(("rename", name, new))
                name = new
            else:
                out.append(("remove", name, "k"))
        if rng.random() < 0.8:
            if "rename" not in kinds and "remove" not in kinds and rng.random() < 0.4 and \
                    f in revertp_candidates(fmt, listing, committed, status):
                out.append(("revertp", f, rng.choice(["b", "n"])))
            else:
                out.append(("revert", "b") if rng.random() < 0.6 else ("revert",))
        return out
    if k == "revert":
        return ("revert", "b") if rng.random() < 0.5 else ("revert",)
    if k == "revertp":
        cands = revertp_candidates(fmt, listing, committed, status)
        dirty = [q for q in cands if ver[q] != com[q]]
        if dirty and rng.random() < 0.8:
            cands = dirty
        if not cands:
            return ("reopen",)
        return ("revertp", rng.choice(cands), rng.choice(["b", "n"]))
    return (k,)


def setup_prefix(rng, st):
    """a non-empty first commit: 2-4 files (one mostly below a directory, some executable), perhaps a
    symbolic link, all added and committed, so that the rest of the sequence works against a basis"""
    names = rng.sample(NAMES, 4)
    out = []
    d = None
    if rng.random() < 0.7:
        d = names.pop()
        out.append(("mkdir", d))
    sub = None
    if d is not None and rng.random() < 0.4:
        # a second level
        sub = d + "/" + rng.choice(NAMES)
        out.append(("mkdir", sub))
    for k, n in enumerate(names[:rng.randint(2, 3)]):
        p = (d + "/" + n) if d is not None and rng.random() < 0.5 else n
        if sub is not None and k == 0 and p != sub:
            p = sub + "/" + n
        if rng.random() < 0.15:
            out.append(("mklink", p, "zz"))
        else:
            out.append(("mkfile", p, fresh_content(rng, st=st)))
            if rng.random() < 0.35:
                out.append(("chmod", p, True))
        out.append(("add", p))
    out.append(("commit",))
    return out


def risky_revert(listing, committed, disk):
    """revert situations the model does not cover (documented in ASSUMPTIONS): an
    unversioned object in the way whose `.moved` name is taken"""
    names = {p for p, k in disk}
    return any((p + ".moved") in names for p in names)


# --------------------------------------------------------------------------
# running one sequence on the real tree (and checking the oracle)

def run_real(fmt, ops=None, rng=None, length=0, gen=True):
    """execute `ops` (or generate `length` ops adaptively).  Returns dict(ops, steps, problems)."""
    r = Real(fmt)
    try:
        steps = []
        problems = []
        done = []
        listing = r.listing()
        committed = []            # listing at the last commit (empty tree)
        disk = r.disk()
        prev_status = status_bzr(r.changes())
        i = 0
        skipped = 0
        known = {"."}
        vacated = set()
        combos = []
        pending = []              # rest of a burst
        gst = {}                  # generator state (unique content counter)
        held = None               # operations still to run under the one write lock that is held
        while True:
            if ops is not None:
                if i >= len(ops):
                    break
                op = tuple(ops[i])
            else:
                if i >= length and not pending:
                    break
                if i == 0 and rng.random() < 0.5:
                    pending = setup_prefix(rng, gst)
                if pending:
                    op = pending.pop(0)
                elif held is None and rng.random() < 0.06:
                    # several mutations under ONE lock_write (no flush / re-read in between)
                    op = ("lock",)
                    held = rng.randint(3, 6)
                elif held == 0:
                    op = ("unlock",)
                    held = None
                else:
                    op = gen_op(rng, listing, disk, vacated, committed, gst, fmt, prev_status)
                    if held is not None:
                        for _ in range(20):
                            if not isinstance(op, list) and op[0] in LOCKED_OPS:
                                break
                            op = gen_op(rng, listing, disk, vacated, committed, gst, fmt, prev_status)
                        else:
                            op = ("mkfile", "zz", "x")
                        held -= 1
                    if isinstance(op, list):
                        if not op:
                            continue
                        pending = list(op[1:])
                        op = op[0]
                if op[0] == "revert" and risky_revert(listing, committed, disk):
                    op = ("reopen",)
            i += 1
            if op[0] in ("lock", "unlock"):
                done.append((list(op), r.do(op)))
                continue
            if fmt == "bzr" and op[0] in ("rename", "move") and (op[1] or ".") not in {
                    l.split("|")[0] for l in listing} and (op[1] or ".") in {l.split("|")[0] for l in committed}:
                # outside the modelled envelope (documented bzr feature: rename_one of a path that
                # is no longer versioned but still in the basis puts the basis entry back): skipped
                skipped += 1
                continue
            disk_l = r.disk_listing() if op[0] in ("revert", "revertp") else None
            n0 = len(problems)
            step_family = "bzr-unversion-directory-with-versioned-grandchildren" if bzr_unversion_deep(fmt, op, listing) else None
            res = r.do(op)
            where = "step %d %r" % (i - 1, op)
            try:
                new_listing = r.listing()
                ch = r.changes()
                new_disk = r.disk()
                new_disk_l = r.disk_listing()
                sb = status_bzr(ch)
                st = sb if fmt == "bzr" else status_paths(ch, committed, new_listing)
                for l in listing + new_listing:
                    known.add(l.split("|")[0])
                for q, k in disk + new_disk:
                    known.add(q)
                for a in op[1:3]:
                    if isinstance(a, str) and a and not a.startswith("zz") and len(a) < 40 and op[0] not in ("mkfile", "write"):
                        known.add(a)
                if op[0] in ("mkfile", "write"):
                    known.add(op[1])
                for q in list(known):
                    known.update(_prefixes(q))
                kp = sorted(known)
                live = r.queries(kp)
                fresh = live if r.locked() else r.queries(kp, fresh=True)
            except (KeyboardInterrupt, SystemExit):
                raise
            except BaseException as e:
                # listing / status / queries of the tree must never raise, whatever the operations were
                import traceback
                tb = traceback.extract_tb(e.__traceback__)
                problems.append((where, "observing the tree (all_versioned_paths / kind / iter_changes / path2id, live or re-opened) "
                                        "raised %s: %s [%s]" % (type(e).__name__, str(e)[:120],
                                                               "; ".join("%s:%s" % (os.path.basename(f.filename), f.name) for f in tb[-3:])),
                                 "observe-raises", step_family))
                done.append((list(op), res))
                break
            # ---- oracle ----------------------------------------------------
            if res != "ok" and op[0] in ("revert", "commit", "reopen"):
                fam = None
                on_disk = {q for q, k in disk}
                if fmt == "git" and op[0] == "revert" and any(
                        l.split("|")[1] == "file" and l.split("|")[0] not in {x.split("|")[0] for x in listing}
                        and l.split("|")[0] in on_disk for l in committed):
                    fam = "git-revert-raises-after-remove-keep"
                if fam is None and fmt == "git" and op[0] == "revert" and git_file_at_basis_directory(committed, listing, disk):
                    # (depending on what else changed the mis-resolved conflict ends in MalformedTransform)
                    fam = "git-revert-non-directory-at-path-of-basis-directory"
                if fmt == "bzr" and op[0] == "revert" and res == "err:DuplicateKey" and bzr_moved_out_of_removed_directory(prev_status):
                    fam = "bzr-revert-duplicate-key-entry-moved-out-of-removed-directory"
                problems.append((where, "%s raised %s" % (op[0], res), "must-not-raise", fam))
            elif res != "ok":
                if new_listing != listing or sb != prev_status:
                    problems.append((where, "operation raised %s but the tree changed: versioned %r -> %r" % (
                        res, sorted(set(listing) ^ set(new_listing))[:4], sorted(set(sb) ^ set(prev_status))[:3]), "error-not-atomic", None))
                elif new_disk != disk:
                    problems.append((where, "operation raised %s but the directory contents changed: %r" % (
                        res, sorted(set(disk) ^ set(new_disk))[:4]), "error-not-atomic-disk", None))
            else:
                if op[0] == "commit":
                    committed = new_listing
                    if ch:
                        problems.append((where, "status not empty after commit: %r" % (sb[:3],), "commit-status", None))
                if op[0] == "revert":
                    # what the revert had to undo (coverage counters)
                    cbf = {l.split("|")[0]: l.split("|") for l in committed}
                    cwf = {l.split("|")[0]: l.split("|") for l in listing}
                    asp = set()
                    for q, f in cwf.items():
                        g = cbf.get(q)
                        if g is None:
                            asp.add("added")
                        elif f[1] == g[1] == "file":
                            if f[2] != g[2] and f[3] != g[3]:
                                asp.add("content+mode")
                            elif f[2] != g[2]:
                                asp.add("content")
                            elif f[3] != g[3]:
                                asp.add("mode")
                        elif f != g:
                            asp.add("kind-or-target")
                    if any(q not in cwf for q in cbf):
                        asp.add("missing")
                    bk = "b" if len(op) > 1 and op[1] == "b" else "n"
                    for a_ in asp or {"clean"}:
                        combos.append("revert:%s:%s" % (bk, a_))
                    # (before the first commit the basis is the empty tree: only the root stays)
                    if new_listing != (committed or [".|directory|-|F"]):
                        problems.append((where, "revert did not restore the versioned part: %r" % (
                            sorted(set(new_listing) ^ set(committed))[:4],), "revert-restore",
                            "git-rename-detection-pairs-modified-file-with-added-copy"
                            if fmt == "git" and git_copy_of_modified(committed, listing) else
                            "git-revert-non-directory-at-path-of-basis-directory"
                            if fmt == "git" and git_file_at_basis_directory(committed, listing, disk) else
                            "git-revert-duplicate-resolution-sorts-transform-ids-as-strings"
                            if fmt == "git" and git_nested_in_the_way(committed, listing, disk) else None))
                    # unversioned files and files that were only added stay on disk
                    cb = {l.split("|")[0] for l in committed}
                    verp = {l.split("|")[0]: l.split("|")[1] for l in listing}
                    nd = {q for q, k in new_disk}
                    renames = [(f[0], f[1]) for f in (x.split("|") for x in prev_status)
                               if f[3] == "TT" and f[0] != f[1]]

                    def back(q):
                        # where a path ends up when the renames are undone
                        for old, new_ in sorted(renames, key=lambda r: -len(r[1])):
                            if q == new_ or q.startswith(new_ + "/"):
                                return old + q[len(new_):]
                        return q
                    lost = [q for q, k in disk if k == "f" and (q not in verp or q not in cb)
                            and q not in {r[1] for r in renames}
                            and not (_moved_variants(q) | _moved_variants(back(q))) & nd
                            and not any(x in cb and x not in verp for x in _prefixes(q))]
                    if lost:
                        problems.append((where, "revert deleted files that are not part of the basis: %r" % (lost[:4],),
                                         "revert-deletes-unversioned", None))
                    # no content is destroyed: what an unversioned file held is still there, and with
                    # backups=True so is what every versioned file held (restored, kept or backed up)
                    texts_after = {l.split("|")[2] for l in new_disk_l if l.split("|")[1] == "file"}
                    was = {l.split("|")[0]: l.split("|") for l in disk_l}
                    gone = sorted(q for q, f in was.items() if f[1] == "file" and f[2] not in texts_after and
                                  (q not in verp or (len(op) > 1 and op[1] == "b")))
                    if gone:
                        problems.append((where, "revert(backups=%s) destroyed the content of %r" % (
                            len(op) > 1 and op[1] == "b", [(q, was[q][2]) for q in gone[:3]]), "revert-loses-content", None))
                    if ch and (committed or sb != ["~|.|T|FT|~|directory|~|F"]):
                        problems.append((where, "status not empty after revert: %r" % (sb[:3],), "revert-status", None))
                if op[0] == "revertp":
                    # exactly that entry is restored, nothing else changes, a backup holds what the file held
                    cbl = {l.split("|")[0]: l for l in committed}
                    q = op[1]
                    if q in cbl:
                        exp = sorted([l for l in listing if l.split("|")[0] != q] + [cbl[q]])
                        if new_listing != exp:
                            problems.append((where, "revert of %r: versioned entries are %r, expected %r" % (
                                q, sorted(set(new_listing) - set(exp))[:3], sorted(set(exp) - set(new_listing))[:3]),
                                "revertp-restore", None))
                    pre = {l.split("|")[0]: l for l in disk_l}
                    post = {l.split("|")[0]: l for l in new_disk_l}
                    others = sorted(x for x in set(pre) | set(post) if pre.get(x) != post.get(x) and x != q
                                    and not (x.startswith(q + ".~") and x not in pre))
                    if others:
                        problems.append((where, "revert of %r changed other objects on disk: %r" % (
                            q, [(x, pre.get(x), post.get(x)) for x in others[:3]]), "revertp-touches-others", None))
                    was = pre.get(q, "").split("|")
                    if op[2] == "b" and q in cbl and len(was) == 4 and was[1] == "file" and was[2] != cbl[q].split("|")[2] and not any(
                            x.startswith(q + ".~") and x not in pre and l.split("|")[1:] == was[1:] for x, l in post.items()):
                        problems.append((where, "revert of %r with backups: no backup with the content and mode of the edited file %r" % (
                            q, was[1:]), "revertp-backup", None))
                if op[0] == "reopen" and (new_listing != listing or sb != prev_status):
                    problems.append((where, "re-opening changed the tree: %r / %r" % (
                        sorted(set(new_listing) ^ set(listing))[:4], sorted(set(sb) ^ set(prev_status))[:3]), "reopen", None))
            # an operation on a source path that is not versioned must not change what is versioned
            if res == "ok" and op[0] in ("rename", "move", "remove", "unversion") and (op[1] or ".") not in {
                    l.split("|")[0] for l in listing} and (new_listing != listing or sb != prev_status):
                problems.append((where, "%s of the unversioned path %r changed the tree: %r" % (
                    op[0], op[1], sorted(set(listing) ^ set(new_listing))[:4]), "unversioned-source", None))
            # status sound and complete w.r.t. the listings
            exp = expected_status(committed, new_listing)
            got = status_paths(ch, committed, new_listing)
            if exp != got:
                fam = None
                if fmt == "git" and git_copy_of_modified(committed, new_listing):
                    fam = "git-rename-detection-pairs-modified-file-with-added-copy"
                elif fmt == "git" and git_dir_holds_whole_basis(committed, new_listing):
                    fam = "git-status-reports-root-renamed-to-directory"
                problems.append((where, "status says %r, the listings differ by %r" % (
                    sorted(set(got) - set(exp))[:4], sorted(set(exp) - set(got))[:4]), "status-sound-complete", fam))
            # every query agrees with all_versioned_paths, on the live object and after re-opening
            vnow = {l.split("|")[0]: l.split("|")[1] for l in new_listing}
            for l in listing:
                if l.split("|")[0] not in vnow:
                    vacated.add(l.split("|")[0])
            bad_live = [(q, live[q]) for q in kp if live[q][:2] != (q in vnow, q in vnow) or
                        (q in vnow and live[q][2] != vnow[q] and not vnow[q].startswith("!"))]
            bad_fresh = [(q, live[q], fresh[q]) for q in kp if live[q] != fresh[q]]
            if bad_fresh:
                fam = None
                problems.append((where, "the live tree object and a freshly opened tree disagree on (is_versioned, path2id, kind): %r" % (
                    [(q, "live=%r" % (a,), "reopened=%r" % (b,)) for q, a, b in bad_fresh[:3]],), "reopen-query", fam))
            elif bad_live:
                problems.append((where, "is_versioned / path2id / stored_kind disagree with all_versioned_paths: %r (versioned: %r)" % (
                    bad_live[:3], sorted(vnow)), "query-consistency", None))
            if step_family is not None:
                problems[n0:] = [(w_, t_, s_, f_ or step_family) for w_, t_, s_, f_ in problems[n0:]]
            steps.append("%s@%s@%s@%s" % ("ok" if res == "ok" else "err", ";".join(new_listing) or "-", ";".join(st) or "-",
                                         ";".join(new_disk_l) or "-"))
            done.append((list(op), res))
            listing, disk, prev_status = new_listing, new_disk, sb
        return dict(ops=[d[0] for d in done], results=[d[1] for d in done], steps=steps, problems=problems, skipped=skipped,
                    combos=combos)
    finally:
        r.close()


def edit_matrix():
    """the complete matrix `edits to ONE committed file x kind of revert`: every non-empty subset of {content edit,
    mode flip, rename} in every order, for a file committed executable or not, at the top or in a directory,
    followed by revert / revert with backups / (when the name is unchanged) revert of just that file with and
    without backups, then re-open; for both formats"""
    import itertools
    out = []
    for fmt in ("bzr", "git"):
        for loc in ("a", "d/a"):
            for e0 in (False, True):
                for k in (1, 2, 3):
                    for edits in itertools.permutations(("write", "chmod", "rename"), k):
                        finals = [("revert",), ("revert", "b")]
                        if "rename" not in edits:
                            finals += [("revertp", loc, "n"), ("revertp", loc, "b")]
                        for fin in finals:
                            ops = [("mkdir", "d"), ("mkfile", loc, "x")] + ([("chmod", loc, True)] if e0 else []) + [
                                ("add", loc), ("mkfile", "g", "gg"), ("add", "g"), ("commit",), ("write", "g", "gh")]
                            name = loc
                            for e in edits:
                                if e == "write":
                                    ops.append(("write", name, "u1"))
                                elif e == "chmod":
                                    ops.append(("chmod", name, not e0))
                                else:
                                    new = "d/b" if name == "a" else "b"
                                    ops.append(("rename", name, new))
                                    name = new
                            out.append((fmt, [list(o) for o in ops + [fin, ("reopen",)]]))
    return out


def _job(job):
    import random
    if job[0] == "ops":
        try:
            return run_real(job[1], ops=job[2])
        except (KeyboardInterrupt, SystemExit):
            raise
        except BaseException as e:
            import traceback
            return dict(error="%s: %s" % (type(e).__name__, e), tb=traceback.format_exc()[-1200:], ops=[], steps=[], problems=[])
    fmt, seed, length = job
    try:
        return run_real(fmt, rng=random.Random(seed), length=length)
    except (KeyboardInterrupt, SystemExit):
        raise
    except BaseException as e:
        import traceback
        return dict(error="%s: %s" % (type(e).__name__, e), tb=traceback.format_exc()[-1200:], ops=[], steps=[], problems=[])


def model_line(fmt, ops):
    return "run %s %s" % ("b" if fmt == "bzr" else "g",
                          ",".join(enc_op(tuple(o)) for o in ops if o[0] not in ("lock", "unlock")) or "-")


def model_steps(ctx, fmt, ops, rep=None):
    if rep is None:
        rep = ctx.model([model_line(fmt, ops)])[0]
    if rep == "bad-op":
        return None
    return rep.split("#") if rep else []


def strip_inv(m):
    f = m.split("@")
    return "@".join([f[0]] + f[2:]), f[1]


def first_diff(real_steps, model):
    """index of the first step where model and implementation differ, or None"""
    if model is None:
        return 0
    for i, (a, b) in enumerate(zip(real_steps, model)):
        mb, inv = strip_inv(b)
        if a != mb or inv != "T":
            return i
    if len(real_steps) != len(model):
        return min(len(real_steps), len(model))
    return None


def fails(ctx, fmt, ops, kind):
    """re-run `ops` on a fresh real tree; does it still fail in the same way?"""
    res = run_real(fmt, ops=ops)
    if kind.startswith("oracle:"):
        return any(p[2] == kind[7:] for p in res["problems"])
    return first_diff(res["steps"], model_steps(ctx, fmt, res["ops"])) is not None


def ddmin(ctx, fmt, ops, kind, budget=70):
    """delta debugging over the op list"""
    ops = list(ops)
    n = 2
    while len(ops) >= 2 and budget > 0:
        chunk = max(1, len(ops) // n)
        reduced = False
        for i in range(0, len(ops), chunk):
            cand = ops[:i] + ops[i + chunk:]
            budget -= 1
            if cand and fails(ctx, fmt, cand, kind):
                ops = cand
                n = max(n - 1, 2)
                reduced = True
                break
            if budget <= 0:
                break
        if not reduced:
            if chunk == 1:
                break
            n = min(len(ops), n * 2)
    return ops


SHRINK_LIMIT = 8      # failing sequences delta-debugged per run (the others are reported as generated)


def check_result(ctx, fmt, res, shrink=True, rep=None):
    ops = res["ops"]
    case = dict(fmt=fmt, ops=ops)
    if "error" in res:
        ctx.count("harness-error:" + res["error"].split(":")[0])
        ctx.extra.setdefault("harness_errors", []).append(res["error"][:200])
        return
    good = sum(1 for o, r in zip(ops, res["results"]) if r == "ok" and o[0] not in (
        "reopen", "write", "chmod", "mkfile", "mklink", "lock", "unlock"))
    ctx.case(dict(fmt=fmt, ops=[enc_op(tuple(o)) for o in ops]),
             nontrivial=good >= 3 and any(o[0] in ("commit", "revert", "reopen") for o in ops))
    for o, r in zip(ops, res["results"]):
        ctx.count("op:%s:%s" % (o[0], "ok" if r == "ok" else "err"))
        if r != "ok":
            ctx.count("%s:%s" % (fmt, r))
    ctx.count("len:%d" % (len(ops) // 5 * 5))
    for c in res.get("combos", ()):
        ctx.count(c)
    if res.get("skipped"):
        ctx.count("skipped:bzr-rename-of-removed-basis-path", res["skipped"])
    # oracle
    # only the first problem of a sequence is reported: later ones are consequences
    for where, what, slug, fam in res["problems"][:1]:
        # unknown problems are always minimised (up to the limit); known families once each
        seen_fams = ctx.extra.setdefault("families_shrunk", [])
        do_shrink = shrink and ((fam is None and ctx.extra.get("shrunk", 0) < SHRINK_LIMIT) or
                                (fam is not None and fam not in seen_fams))
        small = ddmin(ctx, fmt, ops, "oracle:" + slug) if do_shrink else ops
        if do_shrink and fam is None:
            ctx.extra["shrunk"] = ctx.extra.get("shrunk", 0) + 1
        if do_shrink and fam is not None:
            seen_fams.append(fam)
        r2 = run_real(fmt, ops=small)
        w2 = next((p for p in r2["problems"] if p[2] == slug), (where, what, slug, fam))
        ctx.violation(dict(fmt=fmt, ops=small), "%s: %s: %s" % (fmt, w2[0], w2[1]), family=w2[3])
    if res["problems"]:
        return      # the real tree left the abstract state space: nothing to compare after that
    # T2
    model = model_steps(ctx, fmt, ops, rep)
    ctx.traces += len(ops)
    d = first_diff(res["steps"], model)
    if d is not None:
        do_shrink = shrink and ctx.extra.get("shrunk", 0) < SHRINK_LIMIT
        small = ddmin(ctx, fmt, ops, "t2") if do_shrink else ops
        if do_shrink:
            ctx.extra["shrunk"] = ctx.extra.get("shrunk", 0) + 1
        r2 = run_real(fmt, ops=small)
        m2 = model_steps(ctx, fmt, r2["ops"])
        d2 = first_diff(r2["steps"], m2)
        if d2 is None:
            small, r2, m2, d2 = ops, res, model, d
        ctx.mismatch(dict(fmt=fmt, ops=small, step=d2), impl=(r2["steps"][d2] if d2 < len(r2["steps"]) else "<no step>"),
                     model=(m2[d2] if m2 and d2 < len(m2) else "bad-op" if m2 is None else "<no step>"),
                     line="run %s %s" % (fmt, ",".join(enc_op(tuple(o)) for o in small)))


def run(ctx, nseq=None, matrix_n=None):
    os.environ["RUST_BACKTRACE"] = "0"
    nseq = nseq or ctx.pick(70, 400)
    maxlen = 25      # longer sequences mostly add revert conflicts outside the modelled envelope
    jobs = []
    for k in range(nseq):
        fmt = "bzr" if k % 2 == 0 else "git"
        jobs.append((fmt, ctx.rng.randrange(1 << 30), ctx.rng.randint(6, maxlen)))
    # the edit x revert matrix: a seeded sample in the quick tier, all of it in the thorough tier
    matrix = edit_matrix()
    nm = ctx.pick(40, len(matrix)) if matrix_n is None else matrix_n
    matrix = ctx.rng.sample(matrix, min(nm, len(matrix)))
    if nm >= len(edit_matrix()):
        ctx.extra["edit_matrix"] = "complete (%d sequences)" % len(matrix)
    else:
        ctx.extra["edit_matrix"] = "sample of %d of %d sequences" % (len(matrix), len(edit_matrix()))
    cor = corpus()
    alljobs = [("ops", c["fmt"], c["ops"]) for c in cor] + [("ops", f, o) for f, o in matrix] + jobs
    results = ctx.pmap(_job, alljobs)
    cases = [(j[1] if j[0] == "ops" else j[0], res, k >= len(cor)) for k, (j, res) in enumerate(zip(alljobs, results))]
    # the model replays all sequences in one batch
    reps = ctx.model([model_line(fmt, res["ops"]) for fmt, res, _ in cases])
    for (fmt, res, shrink), rep in zip(cases, reps):
        check_result(ctx, fmt, res, shrink=shrink, rep=rep)


def widen(ctx):
    run(ctx, nseq=200, matrix_n=10 ** 6)


def corpus():
    import glob
    import json
    out = []
    for f in sorted(glob.glob(os.path.join(env.VERIF, "corpus", "C09", "*.json"))):
        out.append(json.load(open(f)))
    return out


def replay(ctx, case):
    fmt, ops = case["fmt"], case["ops"]
    res = run_real(fmt, ops=ops)
    model = model_steps(ctx, fmt, res["ops"])
    for where, what, slug, fam in res["problems"][:1]:
        ctx.violation(dict(fmt=fmt, ops=ops), "%s: %s: %s" % (fmt, where, what), family=fam)
    return dict(ops=res["ops"], results=res["results"], impl=res["steps"], model=model,
                first_difference=first_diff(res["steps"], model), oracle_failures=[p[:2] for p in res["problems"]])
