import BreezyVerif.Common
import BreezyVerif.Model.C44
/-
C44 driver.  Requests:

  cmds plain <old entries> <new entries>
      entries = `fid.path.own.d|f.val` joined by `;` (`-` = empty tree)
      -> `<D.p / R.p.q in stream order, joined by ','> | <M.p.v sorted, joined by ','>`
  apply <flat tree> <commands>
      flat tree = `path.val` joined by `;`; commands = `D.p` / `R.p.q` / `M.p.v` joined by `,`
      -> flat tree, sorted by path
  graph <parents of commit 1>;<parents of commit 2>;…   (parents = positions joined by `.`, `-` = none, 0 = ghost)
      -> `<from|~>:<merges joined by '.'|->` joined by `;`
-/
namespace BreezyVerif.C44

def parseEnt (s : String) : Option Ent :=
  match s.splitOn "." with
  | [f, p, o, d, v] => do
      let d ← if d == "d" then some true else if d == "f" then some false else none
      pure ⟨← f.toNat?, ← p.toNat?, ← o.toNat?, d, ← v.toNat?⟩
  | _ => none

def parseTree (s : String) : Option Tree :=
  if s == "-" then some [] else (s.splitOn ";").mapM parseEnt

def parseCmd (s : String) : Option Cmd :=
  match s.splitOn "." with
  | ["D", p] => do pure (.del (← p.toNat?))
  | ["R", p, q] => do pure (.ren (← p.toNat?) (← q.toNat?))
  | ["M", p, v] => do pure (.mod (← p.toNat?) (← v.toNat?))
  | _ => none

def showCmd : Cmd → String
  | .del p => s!"D.{p}"
  | .ren p q => s!"R.{p}.{q}"
  | .mod p v => s!"M.{p}.{v}"

def isMod : Cmd → Bool
  | .mod _ _ => true
  | _ => false

def parseFlat (s : String) : Option Flat :=
  if s == "-" then some [] else (s.splitOn ";").mapM fun e =>
    match e.splitOn "." with
    | [p, v] => do pure (← p.toNat?, ← v.toNat?)
    | _ => none

def showFlat (m : Flat) : String :=
  let sorted := m.mergeSort fun a b => decide (a.1 ≤ b.1)
  if sorted.isEmpty then "-" else ";".intercalate (sorted.map fun e => s!"{e.1}.{e.2}")

def parseParents (s : String) : Option (List (List Nat)) :=
  if s == "-" then some [] else (s.splitOn ";").mapM fun c =>
    if c == "-" then some [] else (c.splitOn ".").mapM String.toNat?

def handle : List String → String
  | ["cmds", "plain", o, n] =>
    match parseTree o, parseTree n with
    | some o, some n =>
      let cs := exportCmds o n
      let pre := (cs.filter (!isMod ·)).map showCmd
      let ms := ((cs.filter isMod).map showCmd).mergeSort (fun a b => decide (a ≤ b))
      s!"{joinList pre} | {joinList ms}"
    | _, _ => "bad-op"
  | ["apply", m, cs] =>
    match parseFlat m, (splitList cs).mapM parseCmd with
    | some m, some cs => showFlat (applyCmds m cs)
    | _, _ => "bad-op"
  | ["graph", ps] =>
    match parseParents ps with
    | some ps =>
      let h : List Commit := ps.map fun p => ⟨p, [], 0⟩
      let xs := exportAll h
      let out := xs.map fun x =>
        let f := match x.from_ with | some f => toString f | none => "~"
        let ms := if x.merges.isEmpty then "-" else ".".intercalate (x.merges.map toString)
        s!"{f}:{ms}"
      if out.isEmpty then "-" else ";".intercalate out
    | none => "bad-op"
  | _ => "bad-op"

end BreezyVerif.C44

def main : IO Unit := BreezyVerif.runDriver BreezyVerif.C44.handle
