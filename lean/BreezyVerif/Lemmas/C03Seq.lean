import BreezyVerif.Lemmas.C03Gen
/-
C03 — the property statements for the copy of an arbitrary search result
(`fetchWith` under `SearchOK`), preservation of the hypotheses (closure,
agreement, completeness) and sequences of fetches.
-/
namespace BreezyVerif.C03

open BreezyVerif.C33 (PMap parentsOf parentsL bfs Reach)

/-- the source's revision ids are distinct (it is a dictionary) -/
def distinctRevs (r : Repo) : Bool := decide (r.revs.map (·.1)).Nodup

theorem get_of_mem_nodup {α β : Type} [DecidableEq α] {l : List (α × β)} (hnd : (l.map (·.1)).Nodup)
    {k : α} {v : β} (h : (k, v) ∈ l) : get l k = some v := by
  induction l with
  | nil => cases h
  | cons x xs ih =>
    obtain ⟨k', v'⟩ := x
    simp only [List.map_cons, List.nodup_cons] at hnd
    simp only [get]
    rcases List.mem_cons.mp h with heq | hm
    · simp at heq; simp [heq.1, heq.2]
    · have hk : k' ≠ k := by
        intro e; subst e
        exact hnd.1 (List.mem_map.mpr ⟨(k', v), hm, rfl⟩)
      simp only [hk, if_false]
      exact ih hnd.2 hm

section Generic
variable {ext fg : Bool} {src tgt t' : Repo} {rev : Rev} {m : List Rev} {es : List Entry}

theorem fetchWith_complete (hok : SearchOK fg src tgt rev m) (hc : fg = true ∨ closed tgt src = true)
    (h : fetchWithE ext src tgt m es = .ok t') : ∀ k ∈ anc src rev, hasRev t' k = true := by
  intro k hk
  rcases hok.cover hc k hk with hm | ht
  · exact fetchWith_hasRev_sent h hm ((mem_anc ..).mp hk).2
  · exact fetchWith_hasRev_old h ht

theorem fetchWith_faithful (_hok : SearchOK fg src tgt rev m)
    (ha : agree src tgt = true) (hcomp : complete tgt = true)
    (h : fetchWithE ext src tgt m es = .ok t') (k : Rev) (hk : k ∈ anc src rev) (hkt : hasRev t' k = true) :
    get t'.revs k = get src.revs k ∧ ∀ i, get src.invs k = some i → get t'.invs k = some i := by
  obtain ⟨rec, hrec⟩ := (hasRev_iff ..).mp ((mem_anc ..).mp hk).2
  cases hg : get tgt.revs k with
  | some w =>
    have hw : rec = w := agreeOn_eq (agree_revs ha) hg hrec
    subst hw
    refine ⟨by rw [fetchWith_revs_get h, hg, hrec], fun i hi => ?_⟩
    obtain ⟨i', hi', _⟩ := complete_inv hcomp hg
    have : i = i' := agreeOn_eq (agree_invs ha) hi' hi
    subst this
    exact fetchWith_invs_old h hi'
  | none =>
    have hm : k ∈ m := by
      rcases fetchWith_hasRev_inv h hkt with h1 | h1
      · obtain ⟨v, hv⟩ := (hasRev_iff ..).mp h1
        rw [hg] at hv; cases hv
      · exact h1.1
    exact ⟨by rw [fetchWith_revs_get h, hg]; simp [hm], fun i hi => fetchWith_inv_of_sent h ha hm hi⟩

theorem fetchWith_texts_faithful (hok : SearchOK fg src tgt rev m) (hso : StreamOK src tgt m es)
    (hc : fg = true ∨ closed tgt src = true) (ha : agree src tgt = true) (hcomp : complete tgt = true)
    (h : fetchWithE ext src tgt m es = .ok t') (k : Rev) (hk : k ∈ anc src rev)
    (i : Inv) (hi : get src.invs k = some i) (e : Entry) (he : e ∈ i) :
    ∃ c, get t'.texts e.key = some c ∧ ∀ c', get src.texts e.key = some c' → c' = c := by
  rcases hok.cover hc k hk with hm | ht
  · exact entry_textG hso h ha hm hi he
  · obtain ⟨rec, hrec⟩ := (hasRev_iff ..).mp ht
    obtain ⟨i', hi', htexts⟩ := complete_inv hcomp hrec
    have : i = i' := agreeOn_eq (agree_invs ha) hi' hi
    subst this
    obtain ⟨c, hc0⟩ := htexts e he
    exact ⟨c, (fetchWith_monotone h).2.2 _ _ hc0, fun c' hc' => agreeOn_eq (agree_texts ha) hc0 hc'⟩

theorem fetchWith_consistent (hso : StreamOK src tgt m es)
    (ha : agree src tgt = true) (hcomp : complete tgt = true)
    (h : fetchWithE ext src tgt m es = .ok t') : complete t' = true := by
  have hmono := fetchWith_monotone h
  unfold complete
  rw [List.all_eq_true]
  rintro ⟨k, rec⟩ hmem
  rw [(fetchWithE_ok h).2.1] at hmem
  simp only [copyE, List.mem_append, List.mem_filterMap] at hmem
  rcases hmem with hmem | ⟨j, hj, hjrec⟩
  · obtain ⟨v, hv⟩ : ∃ v, get tgt.revs k = some v := by
      have := get_isSome_of_mem hmem
      cases hg : get tgt.revs k with
      | none => simp [hg] at this
      | some v => exact ⟨v, rfl⟩
    obtain ⟨i, hi, htexts⟩ := complete_inv hcomp hv
    simp only [hmono.2.1 k i hi, List.all_eq_true]
    intro e he
    obtain ⟨c, hc0⟩ := htexts e he
    simp [hmono.2.2 _ _ hc0]
  · cases hsr : get src.revs j with
    | none => simp [hsr] at hjrec
    | some r =>
      simp only [hsr, Option.map_some, Option.some.injEq, Prod.mk.injEq] at hjrec
      obtain ⟨hjk, _⟩ := hjrec
      subst hjk
      obtain ⟨i, hi⟩ := streamableE_inv (fetchWithE_ok h).1 hj
      simp only [fetchWith_inv_of_sent h ha hj hi, List.all_eq_true]
      intro e he
      obtain ⟨c, hc0, _⟩ := entry_textG hso h ha hj hi he
      simp [hc0]

/-- closure is preserved: afterwards the target again holds every source-present parent of what it holds -/
theorem fetchWith_closed (hok : SearchOK fg src tgt rev m) (hd : distinctRevs src = true)
    (hc : closed tgt src = true) (h : fetchWithE ext src tgt m es = .ok t') : closed t' src = true := by
  have hnd : (src.revs.map (·.1)).Nodup := by simpa [distinctRevs] using hd
  unfold closed
  rw [List.all_eq_true]
  rintro ⟨k, rec⟩ hmem
  have hget := get_of_mem_nodup hnd hmem
  cases hk : hasRev t' k with
  | false => simp
  | true =>
    simp only [Bool.not_true, Bool.false_or, List.all_eq_true, Bool.or_eq_true, Bool.not_eq_true']
    intro p hp
    cases hps : hasRev src p with
    | false => exact Or.inl rfl
    | true =>
      right
      rcases fetchWith_hasRev_inv h hk with ht | ⟨hm, _⟩
      · exact fetchWith_hasRev_old h (closed_parent hc hget ht hp hps)
      · have hpa : p ∈ anc src rev := parent_mem_anc (hok.sub k hm) hget hp hps
        rcases hok.cover (Or.inr hc) p hpa with h1 | h1
        · exact fetchWith_hasRev_sent h h1 hps
        · exact fetchWith_hasRev_old h h1

theorem agreeOn_of_forall {α β : Type} [DecidableEq α] [DecidableEq β] {a c : List (α × β)}
    (h : ∀ kv ∈ c, get a kv.1 = some kv.2) : agreeOn a c = true := by
  unfold agreeOn
  rw [List.all_eq_true]
  intro kv hkv
  simp [h kv hkv]

theorem agreeOn_append {α β : Type} [DecidableEq α] [DecidableEq β] {a b c : List (α × β)}
    (hb : agreeOn a b = true) (hc : agreeOn a c = true) : agreeOn a (b ++ c) = true := by
  unfold agreeOn at *
  rw [List.all_append, hb, hc]
  rfl

/-- agreement is preserved: what the target holds afterwards under a key of the source is the source's -/
theorem fetchWith_agree (ha : agree src tgt = true) (h : fetchWithE ext src tgt m es = .ok t') :
    agree src t' = true := by
  obtain ⟨_, hr, ht, hi⟩ := fetchWithE_ok h
  unfold agree
  rw [hr, ht, hi]
  simp only [copyE, copyMap, Bool.and_eq_true]
  refine ⟨⟨agreeOn_append (agree_revs ha) (agreeOn_of_forall ?_),
    agreeOn_append (agreeOn_append (agree_invs ha) (agreeOn_of_forall ?_)) ?_⟩,
    agreeOn_append (agree_texts ha) (agreeOn_of_forall ?_)⟩
  · rintro ⟨k, v⟩ hkv
    simp only [List.mem_filterMap] at hkv
    obtain ⟨j, _, hj⟩ := hkv
    cases hg : get src.revs j with
    | none => simp [hg] at hj
    | some w => simp only [hg, Option.map_some, Option.some.injEq, Prod.mk.injEq] at hj; simp [← hj.1, ← hj.2, hg]
  · rintro ⟨k, v⟩ hkv
    simp only [List.mem_filterMap] at hkv
    obtain ⟨j, _, hj⟩ := hkv
    cases hg : get src.invs j with
    | none => simp [hg] at hj
    | some w => simp only [hg, Option.map_some, Option.some.injEq, Prod.mk.injEq] at hj; simp [← hj.1, ← hj.2, hg]
  · cases ext
    · exact agreeOn_of_forall (by intro kv hkv; cases hkv)
    · apply agreeOn_of_forall
      rintro ⟨k, v⟩ hkv
      simp only [if_true, parentInvFill, List.mem_filterMap] at hkv
      obtain ⟨j, _, hj⟩ := hkv
      cases hg : get src.invs j with
      | none => simp [hg] at hj
      | some w => simp only [hg, Option.map_some, Option.some.injEq, Prod.mk.injEq] at hj; simp [← hj.1, ← hj.2, hg]
  · rintro ⟨k, v⟩ hkv
    simp only [List.mem_filterMap] at hkv
    obtain ⟨e, _, hj⟩ := hkv
    cases hg : get src.texts e.key with
    | none => simp [hg] at hj
    | some w => simp only [hg, Option.map_some, Option.some.injEq, Prod.mk.injEq] at hj; simp [← hj.1, ← hj.2, hg]

end Generic

/-! ### a consistent source can always produce the stream -/

theorem mem_kind_entries {s : StreamKind} {src : Repo} {m : List Rev} {e : Entry} (he : e ∈ s.entries src m) :
    ∃ k ∈ m, e ∈ invOrEmpty src k := by
  cases s with
  | filtered x =>
    simp only [StreamKind.entries, streamEntries, List.mem_filter, List.mem_flatMap] at he
    exact he.1
  | perRevision =>
    simp only [StreamKind.entries, streamEntriesP, List.mem_flatMap, List.mem_filter] at he
    obtain ⟨k, hk, hek, _⟩ := he
    exact ⟨k, hk, hek⟩

theorem streamable_of_complete {s : StreamKind} {src : Repo} (hcs : complete src = true) {m : List Rev}
    (hm : ∀ k ∈ m, hasRev src k = true) : streamableE src m (s.entries src m) = true := by
  unfold streamableE
  simp only [Bool.and_eq_true, List.all_eq_true]
  constructor
  · intro k hk
    obtain ⟨rec, hrec⟩ := (hasRev_iff ..).mp (hm k hk)
    obtain ⟨i, hi, _⟩ := complete_inv hcs hrec
    simp [hi]
  · intro e he
    obtain ⟨k, hk, hek⟩ := mem_kind_entries he
    obtain ⟨rec, hrec⟩ := (hasRev_iff ..).mp (hm k hk)
    obtain ⟨i, hi, htexts⟩ := complete_inv hcs hrec
    obtain ⟨i', hi', hei⟩ := mem_invOrEmpty hek
    rw [hi] at hi'
    cases hi'
    obtain ⟨c, hc⟩ := htexts e hei
    simp [hc]

/-- from a consistent source a fetch of a revision it has never raises -/
theorem fetchB_ok_of_complete {n : Nat} (hn : 0 < n) {s : StreamKind} {ext fg : Bool} {src tgt : Repo} {rev : Rev}
    (hcs : complete src = true) (hs : hasRev src rev = true) : ∃ t', fetchB n s ext fg src tgt rev = .ok t' := by
  unfold fetchB fetchWithE
  have h1 : (!hasRev src rev && (fg || !hasRev tgt rev)) = false := by simp [hs]
  have h2 : streamableE src (missingB n fg src tgt rev) (s.entries src (missingB n fg src tgt rev)) = true :=
    streamable_of_complete hcs fun k hk => ((mem_anc ..).mp (missingB_sub_anc hn hk)).2
  simp only [h1, h2, Bool.false_eq_true, if_false, Bool.not_true]
  exact ⟨_, rfl⟩

/-! ### sequences of fetches from one source -/

/-- what every target reachable by fetching from `src` satisfies -/
def SeqInv (src t : Repo) : Prop := closed t src = true ∧ agree src t = true ∧ complete t = true

theorem seqInv_empty (src : Repo) : SeqInv src emptyRepo := by
  refine ⟨?_, ?_, ?_⟩
  · unfold closed
    rw [List.all_eq_true]
    intro kv _
    simp [hasRev, emptyRepo, get]
  · simp [agree, agreeOn, emptyRepo]
  · simp [complete, emptyRepo]

theorem seqInv_fetchB {n : Nat} (hn : 0 < n) {s : StreamKind} {ext fg : Bool} {src t t' : Repo} {rev : Rev}
    (d : Rev → Nat) (hx : kindOK s d src = true) (hd : distinctRevs src = true)
    (hinv : SeqInv src t) (h : fetchB n s ext fg src t rev = .ok t') : SeqInv src t' := by
  obtain ⟨hc, ha, hcomp⟩ := hinv
  have hok := searchOK_missingB hn fg src t rev
  have hw := (fetchB_ok h).2
  exact ⟨fetchWith_closed hok hd hc hw, fetchWith_agree ha hw,
    fetchWith_consistent (streamOK_kind hok (Or.inr hc) ha hcomp d hx) ha hcomp hw⟩

/-- data of one revision as the source holds it, present in `t` -/
def HoldsFaithfully (src t : Repo) (k : Rev) : Prop :=
  get t.revs k = get src.revs k ∧ (get src.revs k).isSome = true ∧
  ∀ i, get src.invs k = some i → get t.invs k = some i ∧
    ∀ e ∈ i, ∃ c, get t.texts e.key = some c ∧ ∀ c', get src.texts e.key = some c' → c' = c

theorem holds_mono {src t t' : Repo} {k : Rev}
    (hm : (∀ k v, get t.revs k = some v → get t'.revs k = some v) ∧
      (∀ k v, get t.invs k = some v → get t'.invs k = some v) ∧
      (∀ k v, get t.texts k = some v → get t'.texts k = some v))
    (h : HoldsFaithfully src t k) : HoldsFaithfully src t' k := by
  obtain ⟨h1, h2, h3⟩ := h
  refine ⟨?_, h2, fun i hi => ?_⟩
  · cases hs : get src.revs k with
    | none => simp [hs] at h2
    | some v => rw [hs] at h1; exact hm.1 k v h1
  · obtain ⟨hi', ht⟩ := h3 i hi
    refine ⟨hm.2.1 k i hi', fun e he => ?_⟩
    obtain ⟨c, hc, hc'⟩ := ht e he
    exact ⟨c, hm.2.2 _ c hc, hc'⟩

theorem fetchSeq_monotone (n : Nat) (x : StreamKind) (ext : Bool) (src : Repo) :
    ∀ (ops : List (Rev × Bool)) (t : Repo),
      (∀ k v, get t.revs k = some v → get (fetchSeq n x ext src t ops).revs k = some v) ∧
      (∀ k v, get t.invs k = some v → get (fetchSeq n x ext src t ops).invs k = some v) ∧
      (∀ k v, get t.texts k = some v → get (fetchSeq n x ext src t ops).texts k = some v) := by
  intro ops
  induction ops with
  | nil => intro t; exact ⟨fun _ _ h => h, fun _ _ h => h, fun _ _ h => h⟩
  | cons op rest ih =>
    intro t
    obtain ⟨rev, fg⟩ := op
    unfold fetchSeq
    cases hf : fetchB n x ext fg src t rev with
    | error e => exact ih t
    | ok t1 =>
      have hm := fetchWith_monotone (fetchB_ok hf).2
      have := ih t1
      exact ⟨fun k v h => this.1 k v (hm.1 k v h), fun k v h => this.2.1 k v (hm.2.1 k v h),
        fun k v h => this.2.2 k v (hm.2.2 k v h)⟩

theorem fetchSeq_inv {n : Nat} (hn : 0 < n) {x : StreamKind} {ext : Bool} {src : Repo}
    (d : Rev → Nat) (hx : kindOK x d src = true) (hd : distinctRevs src = true) :
    ∀ (ops : List (Rev × Bool)) (t : Repo), SeqInv src t → SeqInv src (fetchSeq n x ext src t ops) := by
  intro ops
  induction ops with
  | nil => intro t h; exact h
  | cons op rest ih =>
    intro t hinv
    obtain ⟨rev, fg⟩ := op
    unfold fetchSeq
    cases hf : fetchB n x ext fg src t rev with
    | error e => exact ih t hinv
    | ok t1 => exact ih t1 (seqInv_fetchB hn d hx hd hinv hf)

/-- one successful fetch into a target satisfying the invariant gives faithful copies of the whole ancestry -/
theorem fetchB_holds {n : Nat} (hn : 0 < n) {x : StreamKind} {ext fg : Bool} {src t t' : Repo} {rev : Rev}
    (d : Rev → Nat) (hx : kindOK x d src = true)
    (hinv : SeqInv src t) (h : fetchB n x ext fg src t rev = .ok t') :
    ∀ k ∈ anc src rev, HoldsFaithfully src t' k := by
  obtain ⟨hc, ha, hcomp⟩ := hinv
  have hok := searchOK_missingB hn fg src t rev
  have hw := (fetchB_ok h).2
  intro k hk
  have hkt := fetchWith_complete hok (Or.inr hc) hw k hk
  obtain ⟨h1, h2⟩ := fetchWith_faithful hok ha hcomp hw k hk hkt
  refine ⟨h1, ?_, fun i hi => ⟨h2 i hi, fun e he => ?_⟩⟩
  · have := ((mem_anc ..).mp hk).2
    simpa [hasRev] using this
  · exact fetchWith_texts_faithful hok (streamOK_kind hok (Or.inr hc) ha hcomp d hx) (Or.inr hc) ha hcomp hw k hk i hi e he

theorem fetchSeq_holds {n : Nat} (hn : 0 < n) {x : StreamKind} {ext : Bool} {src : Repo}
    (d : Rev → Nat) (hx : kindOK x d src = true) (hd : distinctRevs src = true)
    (hcs : complete src = true) :
    ∀ (ops : List (Rev × Bool)) (t : Repo), SeqInv src t →
      ∀ op ∈ ops, hasRev src op.1 = true → ∀ k ∈ anc src op.1,
        HoldsFaithfully src (fetchSeq n x ext src t ops) k := by
  intro ops
  induction ops with
  | nil => intro t _ op hop; cases hop
  | cons op0 rest ih =>
    intro t hinv op hop hs k hk
    obtain ⟨rev, fg⟩ := op0
    unfold fetchSeq
    cases hf : fetchB n x ext fg src t rev with
    | error e =>
      simp only
      rcases List.mem_cons.mp hop with heq | hin
      · subst heq
        obtain ⟨t1, ht1⟩ := fetchB_ok_of_complete hn (s := x) (ext := ext) (fg := fg) (tgt := t) hcs hs
        rw [hf] at ht1; cases ht1
      · exact ih t hinv op hin hs k hk
    | ok t1 =>
      simp only
      rcases List.mem_cons.mp hop with heq | hin
      · subst heq
        exact holds_mono (fetchSeq_monotone n x ext src rest t1) (fetchB_holds hn d hx hinv hf k hk)
      · exact ih t1 (seqInv_fetchB hn d hx hd hinv hf) op hin hs k hk

/-! ### a second identical fetch -/

theorem kind_entries_nil (s : StreamKind) (src : Repo) : s.entries src [] = [] := by
  cases s <;> simp [StreamKind.entries, streamEntries, streamEntriesP]

theorem fetchWith_nil (ext : Bool) (src t : Repo) : fetchWithE ext src t [] [] = .ok t := by
  have h2 : streamableE src [] [] = true := by simp [streamableE]
  unfold fetchWithE
  simp only [h2, Bool.not_true, Bool.false_eq_true, if_false]
  cases ext
  · simp [copyE]
  · simp [copyE, withParentInvs, parentInvFill]

theorem fetchB_again {n : Nat} (hn : 0 < n) {x : StreamKind} {ext fg : Bool} {src tgt t' : Repo} {rev : Rev}
    (h : fetchB n x ext fg src tgt rev = .ok t')
    (hrev : hasRev src rev = true → hasRev t' rev = true) :
    missingB n fg src t' rev = [] ∧ fetchB n x ext fg src t' rev = .ok t' := by
  obtain ⟨hguard, hw⟩ := fetchB_ok h
  have ht'rev : hasRev src rev = true ∨ hasRev t' rev = true := by
    rcases hguard with hs | ⟨_, ht⟩
    · exact Or.inl hs
    · exact Or.inr (fetchWith_hasRev_old hw ht)
  have hempty : missingB n fg src t' rev = [] := by
    cases hfg : fg
    · have : hasRev t' rev = true := by
        rcases ht'rev with hs | ht
        · exact hrev hs
        · exact ht
      exact missingB_nil_of_held hn this
    · subst hfg
      apply List.eq_nil_iff_forall_not_mem.mpr
      intro k hk
      have hka := missingB_sub_anc hn hk
      have hnt := missingB_not_in_target hn hk
      have := fetchWith_complete (searchOK_missingB hn true src tgt rev) (Or.inl rfl) hw k hka
      rw [this] at hnt
      cases hnt
  refine ⟨hempty, ?_⟩
  unfold fetchB
  rw [hempty, kind_entries_nil, fetchWith_nil]
  have h1 : (!hasRev src rev && (fg || !hasRev t' rev)) = false := by
    rcases hguard with hs | ⟨hfg, ht⟩
    · simp [hs]
    · simp [hfg, fetchWith_hasRev_old hw ht]
  simp [h1]

/-! ### acyclic histories: the requested revision always arrives -/

theorem reach_exists_start {g : PMap} {S : List Rev} {k : Rev} (h : Reach g [] S k) : ∃ s ∈ S, Reach g [] [s] k := by
  induction h with
  | base hk => exact ⟨_, hk, Reach.base (by simp)⟩
  | step _ hns hps hk ih =>
    obtain ⟨s, hs, hr⟩ := ih
    exact ⟨s, hs, Reach.step hr hns hps hk⟩

theorem reach_acyclic {d : Rev → Nat} {src : Repo} (hacyc : acyclicBy d src = true) {a b : Rev}
    (h : Reach (graph src) [] [a] b) : a = b ∨ d b < d a := by
  induction h with
  | base hk => simp at hk; exact Or.inl hk.symm
  | @step j k ps _ _ hps hk ih =>
    rw [parentsOf_graph] at hps
    cases hrec : get src.revs j with
    | none => simp [hrec] at hps
    | some rec =>
      simp only [hrec, Option.map_some, Option.some.injEq] at hps
      subst hps
      unfold acyclicBy at hacyc
      have := List.all_eq_true.mp hacyc (j, rec) (get_mem hrec)
      have hlt : d k < d j := by simpa using List.all_eq_true.mp this k hk
      rcases ih with h1 | h1
      · subst h1; exact Or.inr hlt
      · exact Or.inr (by omega)

theorem fetchB_rev_arrives {n : Nat} (hn : 0 < n) {x : StreamKind} {ext fg : Bool} {src tgt t' : Repo} {rev : Rev}
    (d : Rev → Nat) (hacyc : acyclicBy d src = true)
    (h : fetchB n x ext fg src tgt rev = .ok t') (hs : hasRev src rev = true) : hasRev t' rev = true := by
  have hw := (fetchB_ok h).2
  have hra := rev_mem_anc hs
  rcases anc_casesB hn (fg := fg) (tgt := tgt) hra with h1 | ⟨_, h1⟩ | ⟨_, h1⟩
  · exact fetchWith_hasRev_sent hw h1 hs
  · exact fetchWith_hasRev_old hw h1
  · obtain ⟨s, hsm, hr⟩ := reach_exists_start h1
    obtain ⟨hsa, hst⟩ := List.mem_filter.mp hsm
    have h2 := reach_acyclic hacyc ((mem_anc ..).mp hsa).1
    have h3 := reach_acyclic hacyc hr
    have : s = rev := by
      rcases h2 with h2 | h2
      · exact h2.symm
      · rcases h3 with h3 | h3
        · exact h3
        · omega
    subst this
    exact fetchWith_hasRev_old hw hst

/-! ### per-file history -/

theorem textsHaveParents_get {r : RepoH} (h : textsHaveParents r = true) {k : TextKey} {c : Nat}
    (hk : get r.repo.texts k = some c) : ∃ v, get r.tpar k = some v := by
  unfold textsHaveParents at h
  have := List.all_eq_true.mp h (k, c) (get_mem hk)
  cases hg : get r.tpar k with
  | none => simp [hg] at this
  | some v => exact ⟨v, rfl⟩

theorem fetchWithH_ok {ext : Bool} {src tgt t' : RepoH} {m : List Rev} {es : List Entry}
    (h : fetchWithH ext src tgt m es = .ok t') :
    fetchWithE ext src.repo tgt.repo m es = .ok t'.repo ∧ t'.tpar = copyMap src.tpar tgt.tpar es := by
  unfold fetchWithH at h
  cases hf : fetchWithE ext src.repo tgt.repo m es with
  | error e => simp [hf] at h
  | ok t =>
    simp only [hf, Except.ok.injEq] at h
    subst h
    exact ⟨rfl, rfl⟩

theorem fetchWithH_perfile {ext fg : Bool} {src tgt t' : RepoH} {rev : Rev} {m : List Rev} {es : List Entry}
    (hok : SearchOK fg src.repo tgt.repo rev m) (hso : StreamOK src.repo tgt.repo m es)
    (hc : fg = true ∨ closed tgt.repo src.repo = true) (ha : agree src.repo tgt.repo = true)
    (hcomp : complete tgt.repo = true)
    (hap : agreeOn src.tpar tgt.tpar = true) (htp : textsHaveParents tgt = true) (hsp : textsHaveParents src = true)
    (h : fetchWithH ext src tgt m es = .ok t') (k : Rev) (hk : k ∈ anc src.repo rev)
    (i : Inv) (hi : get src.repo.invs k = some i) (e : Entry) (he : e ∈ i) :
    ∃ ps, get t'.tpar e.key = some ps ∧ ∀ ps', get src.tpar e.key = some ps' → ps' = ps := by
  obtain ⟨hw, htp'⟩ := fetchWithH_ok h
  rw [htp']
  rcases hok.cover hc k hk with hm | ht
  · exact entry_valueG hso hap (fun k c hk => textsHaveParents_get htp hk)
      (fun e he => by
        obtain ⟨c, hc⟩ := streamableE_text (fetchWithE_ok hw).1 he
        exact textsHaveParents_get hsp hc) hm hi he
  · obtain ⟨rec, hrec⟩ := (hasRev_iff ..).mp ht
    obtain ⟨i', hi', htexts⟩ := complete_inv hcomp hrec
    have : i = i' := agreeOn_eq (agree_invs ha) hi' hi
    subst this
    obtain ⟨c, hc0⟩ := htexts e he
    obtain ⟨v, hv⟩ := textsHaveParents_get htp hc0
    exact ⟨v, get_append_some hv, fun ps' hps' => agreeOn_eq hap hv hps'⟩

theorem fetchBH_ok {n : Nat} {s : StreamKind} {ext fg : Bool} {src tgt t' : RepoH} {rev : Rev}
    (h : fetchBH n s ext fg src tgt rev = .ok t') :
    fetchWithH ext src tgt (missingB n fg src.repo tgt.repo rev)
      (s.entries src.repo (missingB n fg src.repo tgt.repo rev)) = .ok t' := by
  unfold fetchBH at h
  split at h
  · cases h
  · exact h

end BreezyVerif.C03
