import BreezyVerif.Model.C44
/-
C44 — helper lemmas: the path-space map, the delete and modify phases, the
history fold.
-/
namespace BreezyVerif.C44

/-! ### lookups -/

theorem lookup_nil (q : Path) : lookup [] q = none := rfl

theorem lookup_cons (p : Path) (v : Val) (m : Flat) (q : Path) :
    lookup ((p, v) :: m) q = if q = p then some v else lookup m q := by
  unfold lookup
  by_cases h : q = p
  · subst h; simp
  · have : (p == q) = false := by simp; exact fun e => h e.symm
    simp [List.find?, this, h]

theorem lookup_erase (m : Flat) (p q : Path) :
    lookup (erase m p) q = if q = p then none else lookup m q := by
  induction m with
  | nil => simp [erase, lookup]
  | cons x xs ih =>
    obtain ⟨a, b⟩ := x
    unfold erase at ih ⊢
    by_cases hap : a = p
    · subst hap
      simp only [List.filter_cons, ne_eq, not_true_eq_false, decide_false, Bool.false_eq_true, if_false]
      rw [ih, lookup_cons]
      by_cases hq : q = a <;> simp [hq]
    · simp only [List.filter_cons, ne_eq, hap, not_false_eq_true, decide_true, if_true]
      rw [lookup_cons, lookup_cons, ih]
      by_cases hq : q = a
      · subst hq; simp [hap]
      · simp [hq]

/-- two maps with the same lookups -/
def FlatEq (a b : Flat) : Prop := ∀ q, lookup a q = lookup b q

theorem applyCmd_congr {a b : Flat} (h : FlatEq a b) (c : Cmd) : FlatEq (applyCmd a c) (applyCmd b c) := by
  intro q
  cases c with
  | del p => simp only [applyCmd, lookup_erase, h q]
  | ren p r =>
    simp only [applyCmd, h p]
    cases lookup b p with
    | none => exact h q
    | some v => simp only [lookup_cons, lookup_erase, h q]
  | mod p v => simp only [applyCmd, lookup_cons, lookup_erase, h q]

theorem applyCmds_congr {a b : Flat} (h : FlatEq a b) (cs : List Cmd) : FlatEq (applyCmds a cs) (applyCmds b cs) := by
  induction cs generalizing a b with
  | nil => exact h
  | cons c cs ih => exact ih (applyCmd_congr h c)

theorem applyCmds_append (m : Flat) (a b : List Cmd) : applyCmds m (a ++ b) = applyCmds (applyCmds m a) b := by
  simp [applyCmds, List.foldl_append]

/-- the delete phase -/
theorem lookup_dels (ds : List Path) (m : Flat) (q : Path) :
    lookup (applyCmds m (ds.map Cmd.del)) q = if q ∈ ds then none else lookup m q := by
  induction ds generalizing m with
  | nil => simp [applyCmds]
  | cons d ds ih =>
    simp only [List.map_cons, applyCmds, List.foldl_cons] at ih ⊢
    rw [ih, applyCmd, lookup_erase]
    by_cases h1 : q ∈ ds
    · simp [h1]
    · by_cases h2 : q = d <;> simp [h1, h2]

/-- the modify phase: a path that no command names keeps its value … -/
theorem lookup_mods_other (ms : List (Path × Val)) (m : Flat) (q : Path) (hq : q ∉ ms.map (·.1)) :
    lookup (applyCmds m (ms.map fun e => Cmd.mod e.1 e.2)) q = lookup m q := by
  induction ms generalizing m with
  | nil => simp [applyCmds]
  | cons x xs ih =>
    simp only [List.map_cons, List.mem_cons, not_or] at hq
    simp only [List.map_cons, applyCmds, List.foldl_cons] at ih ⊢
    rw [ih _ hq.2, applyCmd, lookup_cons, lookup_erase]
    simp [hq.1]

/-- … and a path named by exactly one command gets that command's value -/
theorem lookup_mods_mem (ms : List (Path × Val)) (hnd : (ms.map (·.1)).Nodup) (m : Flat) (q : Path) (v : Val)
    (hq : (q, v) ∈ ms) :
    lookup (applyCmds m (ms.map fun e => Cmd.mod e.1 e.2)) q = some v := by
  induction ms generalizing m with
  | nil => cases hq
  | cons x xs ih =>
    simp only [List.map_cons, List.nodup_cons] at hnd
    simp only [List.map_cons, applyCmds, List.foldl_cons] at ih ⊢
    rcases List.mem_cons.mp hq with h | h
    · subst h
      have := lookup_mods_other xs (applyCmd m (Cmd.mod q v)) q hnd.1
      simp only [applyCmds] at this
      rw [this, applyCmd, lookup_cons]; simp
    · exact ih hnd.2 _ h

/-! ### sorting -/

theorem mem_insertBy {α : Type} (le : α → α → Bool) (x : α) (l : List α) (y : α) :
    y ∈ insertBy le x l ↔ y = x ∨ y ∈ l := by
  induction l with
  | nil => simp [insertBy]
  | cons z zs ih =>
    unfold insertBy
    split
    · simp
    · simp only [List.mem_cons, ih]
      constructor
      · rintro (h | h | h)
        · exact Or.inr (Or.inl h)
        · exact Or.inl h
        · exact Or.inr (Or.inr h)
      · rintro (h | h | h)
        · exact Or.inr (Or.inl h)
        · exact Or.inl h
        · exact Or.inr (Or.inr h)

theorem mem_sortBy {α : Type} (le : α → α → Bool) (l : List α) (y : α) : y ∈ sortBy le l ↔ y ∈ l := by
  induction l with
  | nil => simp [sortBy]
  | cons x xs ih => simp [sortBy, mem_insertBy, ih]

/-! ### entries -/

theorem find_some {t : Tree} {f : Nat} {e : Ent} (h : find t f = some e) : e ∈ t ∧ e.fid = f := by
  unfold find at h
  have h1 := List.mem_of_find?_eq_some h
  have h2 := List.find?_some h
  simp only [beq_iff_eq] at h2
  exact ⟨h1, h2⟩

/-- with distinct file ids, `find` returns the entry that is there -/
theorem find_of_mem {t : Tree} (hnd : (t.map (·.fid)).Nodup) {e : Ent} (he : e ∈ t) : find t e.fid = some e := by
  induction t with
  | nil => cases he
  | cons x xs ih =>
    simp only [List.map_cons, List.nodup_cons] at hnd
    unfold find
    rcases List.mem_cons.mp he with h | h
    · subst h; simp [List.find?]
    · have hne : x.fid ≠ e.fid := by
        intro heq
        exact hnd.1 (heq ▸ List.mem_map.mpr ⟨e, h, rfl⟩)
      have : (x.fid == e.fid) = false := by simp [hne]
      simp only [List.find?, this]
      exact ih hnd.2 h

theorem find_none {t : Tree} {f : Nat} (h : find t f = none) : ∀ e ∈ t, e.fid ≠ f := by
  intro e he heq
  unfold find at h
  have := List.find?_eq_none.mp h e he
  simp [heq] at this

/-- with distinct paths, a file is found under its path -/
theorem lookup_flat_mem (t : Tree) (hnd : ((flat t).map (·.1)).Nodup) (e : Ent) (he : e ∈ t) (hd : e.dir = false) :
    lookup (flat t) e.path = some e.val := by
  have hmem : (e.path, e.val) ∈ flat t := by
    unfold flat
    exact List.mem_map.mpr ⟨e, List.mem_filter.mpr ⟨he, by simp [hd]⟩, rfl⟩
  generalize flat t = m at hnd hmem
  induction m with
  | nil => cases hmem
  | cons x xs ih =>
    obtain ⟨a, b⟩ := x
    simp only [List.map_cons, List.nodup_cons] at hnd
    rw [lookup_cons]
    rcases List.mem_cons.mp hmem with h | h
    · injection h with h1 h2; simp [h1, h2]
    · have hne : e.path ≠ a := by
        intro heq
        exact hnd.1 (heq ▸ List.mem_map.mpr ⟨(e.path, e.val), h, rfl⟩)
      simp [hne, ih hnd.2 h]

theorem lookup_flat_none (t : Tree) (q : Path) (h : ∀ e ∈ t, e.dir = false → e.path ≠ q) : lookup (flat t) q = none := by
  unfold lookup
  have : (flat t).find? (·.1 == q) = none := by
    apply List.find?_eq_none.mpr
    intro x hx
    unfold flat at hx
    obtain ⟨e, he, rfl⟩ := List.mem_map.mp hx
    have := List.mem_filter.mp he
    simp only [Bool.not_eq_true', beq_iff_eq]
    simp only [Bool.not_eq_true'] at this
    simpa using h e this.1 this.2
  simp [this]

/-! ### the history fold -/

theorem foldlM_append_single {α β ε : Type} (f : β → α → Except ε β) (l : List α) (x : α) (b : β) :
    (l ++ [x]).foldlM f b = (l.foldlM f b >>= fun r => f r x) := by
  rw [List.foldlM_append]
  simp

end BreezyVerif.C44
