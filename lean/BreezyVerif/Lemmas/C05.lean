import BreezyVerif.Model.C05
import BreezyVerif.Lemmas.C04
/-!
C05 — the data invariant (`InvA`): bounds, privacy of unsaved names, the
per-process covering invariant of pack operations, "data of every name that
was ever listed is still visible".  Preserved by every phase of every process.
-/
namespace BreezyVerif.C05
open BreezyVerif.C04

@[simp] theorem upd_same {α : Type} (f : Nat → α) (i : Nat) (x : α) : upd f i x i = x := by simp [upd]

theorem upd_other {α : Type} (f : Nat → α) {i j : Nat} (x : α) (h : j ≠ i) : upd f i x j = f j := by
  simp [upd, h]

structure InvA (s : Sys) : Prop where
  bound_disk : ∀ n ∈ s.disk.names, n < s.next
  bound_ever : ∀ n ∈ s.ever, n < s.next
  bound_names : ∀ p, ∀ n ∈ (s.procs p).names, n < s.next
  bound_atLoad : ∀ p, ∀ n ∈ (s.procs p).atLoad, n < s.next
  /-- what is listed has been listed -/
  ev : ∀ n ∈ s.disk.names, n ∈ s.ever
  /-- `_packs_at_load` was read from `pack-names` -/
  al : ∀ p, ∀ n ∈ (s.procs p).atLoad, n ∈ s.ever
  /-- a name a process holds but did not load was created by it and has never been listed -/
  priv : ∀ p, ∀ n ∈ (s.procs p).names, n ∉ (s.procs p).atLoad → s.owner n = p ∧ n ∉ s.ever
  /-- what a process is about to drop is covered by what it is about to add -/
  covers : ∀ p, ∀ n ∈ (s.procs p).atLoad, n ∉ (s.procs p).names → ∀ r ∈ s.content n,
      ∃ m ∈ (s.procs p).names, m ∉ (s.procs p).atLoad ∧ r ∈ s.content m
  /-- the revisions of every name that was ever listed are still visible -/
  kept : ∀ n ∈ s.ever, ∀ r ∈ s.content n, ∃ m ∈ s.disk.names, r ∈ s.content m
  /-- committed revisions belong to names that have been listed -/
  comm : ∀ r ∈ s.committed, ∃ n ∈ s.ever, r ∈ s.content n

theorem isPut_newPackOps (chk : Bool) (tmp : File) (m : Nat) : ∀ op ∈ newPackOps chk tmp m, isPut op = false := by
  intro op hop
  simp only [newPackOps, finishOps, List.mem_cons, List.mem_append, List.mem_flatMap,
    List.not_mem_nil, or_false] at hop
  rcases hop with rfl | ⟨e, _, rfl | rfl⟩ | rfl | rfl <;> rfl

theorem names_newPack (chk : Bool) (d : Disk) (tmp : File) (m : Nat) :
    (run d (newPackOps chk tmp m)).names = d.names :=
  run_names_noPut _ _ (isPut_newPackOps chk tmp m)

theorem names_saveStep (d : Disk) (N : List Nat) (clear : Bool) (c : List Nat) :
    (run d ([Op.lock, Op.putNames N] ++ (if clear then clearOps d c else []) ++ [Op.unlock])).names = N := by
  have h : ∀ op ∈ (if clear then clearOps d c else []) ++ [Op.unlock], isPut op = false := by
    intro op hop
    rcases List.mem_append.mp hop with hop | hop
    · cases clear
      · cases hop
      · exact clearOps_noPut d c op hop
    · simp only [List.mem_singleton] at hop; subst hop; rfl
  have e : [Op.lock, Op.putNames N] ++ (if clear then clearOps d c else []) ++ [Op.unlock]
      = Op.lock :: Op.putNames N :: ((if clear then clearOps d c else []) ++ [Op.unlock]) := by
    simp
  rw [e, run_cons, run_cons, run_names_noPut _ _ h]
  rfl

theorem isPut_obsolete (chk : Bool) (l : List Nat) : ∀ op ∈ l.flatMap (obsoleteOps chk), isPut op = false := by
  intro op hop
  simp only [List.mem_flatMap, obsoleteOps, List.mem_cons, List.mem_map] at hop
  obtain ⟨n, _, (rfl | ⟨e, _, rfl⟩)⟩ := hop <;> rfl

/-! ### reload -/

theorem reloadProc_names_sub (d : Disk) (p : Proc) :
    ∀ n ∈ (reloadProc d p).names, n ∈ d.names ∨ n ∈ p.names := by
  intro n hn
  rcases mem_mergeNames.mp hn with ⟨h, _⟩ | ⟨h, _, _⟩
  · exact Or.inl h
  · exact Or.inr h

theorem reloadProc_atLoad (d : Disk) (p : Proc) : (reloadProc d p).atLoad = d.names := rfl

theorem reloadProc_names (d : Disk) (p : Proc) :
    (reloadProc d p).names = mergeNames d.names p.atLoad p.names := rfl

/-- after a reload the private names are among the private names before -/
theorem reloadProc_private (d : Disk) (p : Proc) (n : Nat)
    (hn : n ∈ (reloadProc d p).names) (hna : n ∉ (reloadProc d p).atLoad) :
    n ∈ p.names ∧ n ∉ p.atLoad := by
  rw [reloadProc_names] at hn
  rw [reloadProc_atLoad] at hna
  rcases mem_mergeNames.mp hn with ⟨hd, _⟩ | ⟨hm, ha, _⟩
  · exact absurd hd hna
  · exact ⟨hm, ha⟩

theorem invA_reload (s : Sys) (i : Nat) (h : InvA s) : InvA (doReload s i) := by
  have hprivD : ∀ n ∈ (s.procs i).names, n ∉ (s.procs i).atLoad → n ∉ s.disk.names :=
    fun n hn ha hd => (h.priv i n hn ha).2 (h.ev n hd)
  refine ⟨h.bound_disk, h.bound_ever, ?_, ?_, h.ev, ?_, ?_, ?_, h.kept, h.comm⟩
  · intro p n hn
    by_cases hp : p = i
    · subst hp
      simp only [doReload, upd_same] at hn
      rcases reloadProc_names_sub _ _ n hn with h1 | h1
      · exact h.bound_disk n h1
      · exact h.bound_names p n h1
    · simp only [doReload, upd_other _ _ hp] at hn
      exact h.bound_names p n hn
  · intro p n hn
    by_cases hp : p = i
    · subst hp
      simp only [doReload, upd_same, reloadProc_atLoad] at hn
      exact h.bound_disk n hn
    · simp only [doReload, upd_other _ _ hp] at hn
      exact h.bound_atLoad p n hn
  · intro p n hn
    by_cases hp : p = i
    · subst hp
      simp only [doReload, upd_same, reloadProc_atLoad] at hn
      exact h.ev n hn
    · simp only [doReload, upd_other _ _ hp] at hn
      exact h.al p n hn
  · intro p n hn hna
    by_cases hp : p = i
    · subst hp
      simp only [doReload, upd_same] at hn hna
      have := reloadProc_private _ _ n hn hna
      exact h.priv p n this.1 this.2
    · simp only [doReload, upd_other _ _ hp] at hn hna
      exact h.priv p n hn hna
  · intro p n hn hnn r hr
    by_cases hp : p = i
    · subst hp
      simp only [doReload, upd_same, reloadProc_atLoad, reloadProc_names] at hn hnn ⊢
      · have hdrop : n ∈ (s.procs p).atLoad ∧ n ∉ (s.procs p).names := by
          by_cases ha : n ∈ (s.procs p).atLoad
          · by_cases hm : n ∈ (s.procs p).names
            · exact absurd (mem_mergeNames.mpr (Or.inl ⟨hn, fun x => x.2 hm⟩)) hnn
            · exact ⟨ha, hm⟩
          · exact absurd (mem_mergeNames.mpr (Or.inl ⟨hn, fun x => ha x.1⟩)) hnn
        obtain ⟨m, hm, hma, hrm⟩ := h.covers p n hdrop.1 hdrop.2 r hr
        have hmd := hprivD m hm hma
        exact ⟨m, mem_mergeNames.mpr (Or.inr ⟨hm, hma, hmd⟩), hmd, hrm⟩
    · simp only [doReload, upd_other _ _ hp] at hn hnn ⊢
      exact h.covers p n hn hnn r hr

/-! ### a new pack with a fresh name (`finish`, `repack`) -/

theorem content_upd_lt (s : Sys) (v : List Nat) {x : Nat} (hx : x < s.next) :
    upd s.content (s.next + 1) v x = s.content x := by
  apply upd_other; omega

theorem owner_upd_lt (s : Sys) (i : Nat) {x : Nat} (hx : x < s.next) :
    upd s.owner (s.next + 1) i x = s.owner x := by
  apply upd_other; omega

/-- the common shape of `finish` and `repack`: process `i` replaces its names by
`keep ++ [next+1]` with `keep ⊆ names`, the new pack holds `v`, and everything
of the dropped names is in `v` -/
theorem invA_newPack (s : Sys) (i : Nat) (h : InvA s) (d' : Disk) (hd : d'.names = s.disk.names)
    (keep : List Nat) (v : List Nat) (p' : Proc)
    (hnames : p'.names = keep ++ [s.next + 1]) (hat : p'.atLoad = (s.procs i).atLoad)
    (hkeep : ∀ n ∈ keep, n ∈ (s.procs i).names)
    (hv : ∀ n ∈ (s.procs i).names, n ∉ keep → ∀ r ∈ s.content n, r ∈ v) :
    InvA { s with disk := d', procs := upd s.procs i p', content := upd s.content (s.next + 1) v,
                  owner := upd s.owner (s.next + 1) i, next := s.next + 2 } := by
  have lt2 : ∀ {n}, n < s.next → n < s.next + 2 := fun hn => by omega
  refine ⟨?_, ?_, ?_, ?_, ?_, ?_, ?_, ?_, ?_, ?_⟩
  · intro n hn; simp only [hd] at hn; exact lt2 (h.bound_disk n hn)
  · intro n hn; exact lt2 (h.bound_ever n hn)
  · intro p n hn
    by_cases hp : p = i
    · subst hp
      simp only [upd_same, hnames, List.mem_append, List.mem_singleton] at hn
      rcases hn with hn | rfl
      · exact lt2 (h.bound_names p n (hkeep n hn))
      · show s.next + 1 < s.next + 2; omega
    · simp only [upd_other _ _ hp] at hn
      exact lt2 (h.bound_names p n hn)
  · intro p n hn
    by_cases hp : p = i
    · subst hp
      simp only [upd_same, hat] at hn
      exact lt2 (h.bound_atLoad p n hn)
    · simp only [upd_other _ _ hp] at hn
      exact lt2 (h.bound_atLoad p n hn)
  · intro n hn; simp only [hd] at hn; exact h.ev n hn
  · intro p n hn
    by_cases hp : p = i
    · subst hp
      simp only [upd_same, hat] at hn
      exact h.al p n hn
    · simp only [upd_other _ _ hp] at hn
      exact h.al p n hn
  · intro p n hn hna
    by_cases hp : p = i
    · subst hp
      simp only [upd_same, hnames, hat, List.mem_append, List.mem_singleton] at hn hna
      rcases hn with hn | rfl
      · have := h.priv p n (hkeep n hn) hna
        have hlt := h.bound_names p n (hkeep n hn)
        exact ⟨by show upd s.owner (s.next + 1) p n = p; rw [owner_upd_lt s p hlt]; exact this.1, this.2⟩
      · refine ⟨by show upd s.owner (s.next + 1) p (s.next + 1) = p; simp, ?_⟩
        intro he; have := h.bound_ever _ he; omega
    · simp only [upd_other _ _ hp] at hn hna
      have := h.priv p n hn hna
      have hlt := h.bound_names p n hn
      exact ⟨by show upd s.owner (s.next + 1) i n = p; rw [owner_upd_lt s i hlt]; exact this.1, this.2⟩
  · intro p n hn hnn r hr
    by_cases hp : p = i
    · subst hp
      simp only [upd_same, hnames, hat, List.mem_append, List.mem_singleton, not_or] at hn hnn ⊢
      have hlt := h.bound_atLoad p n hn
      have hr' : r ∈ s.content n := by
        have : upd s.content (s.next + 1) v n = s.content n := content_upd_lt s v hlt
        rw [← this]; exact hr
      have fresh_not_atLoad : s.next + 1 ∉ (s.procs p).atLoad := by
        intro hx; have := h.bound_atLoad p _ hx; omega
      by_cases hN : n ∈ (s.procs p).names
      · -- dropped now: its data is in the new pack
        refine ⟨s.next + 1, Or.inr rfl, fresh_not_atLoad, ?_⟩
        show r ∈ upd s.content (s.next + 1) v (s.next + 1)
        simp only [upd_same]
        exact hv n hN hnn.1 r hr'
      · obtain ⟨m, hm, hma, hrm⟩ := h.covers p n hn hN r hr'
        by_cases hk : m ∈ keep
        · refine ⟨m, Or.inl hk, hma, ?_⟩
          show r ∈ upd s.content (s.next + 1) v m
          rw [content_upd_lt s v (h.bound_names p m hm)]; exact hrm
        · refine ⟨s.next + 1, Or.inr rfl, fresh_not_atLoad, ?_⟩
          show r ∈ upd s.content (s.next + 1) v (s.next + 1)
          simp only [upd_same]
          exact hv m hm hk r hrm
    · simp only [upd_other _ _ hp] at hn hnn ⊢
      have hlt := h.bound_atLoad p n hn
      have hr' : r ∈ s.content n := by
        have : upd s.content (s.next + 1) v n = s.content n := content_upd_lt s v hlt
        rw [← this]; exact hr
      obtain ⟨m, hm, hma, hrm⟩ := h.covers p n hn hnn r hr'
      refine ⟨m, hm, hma, ?_⟩
      show r ∈ upd s.content (s.next + 1) v m
      rw [content_upd_lt s v (h.bound_names p m hm)]; exact hrm
  · intro n hn r hr
    have hlt := h.bound_ever n hn
    have hr' : r ∈ s.content n := by
      have : upd s.content (s.next + 1) v n = s.content n := content_upd_lt s v hlt
      rw [← this]; exact hr
    obtain ⟨m, hm, hrm⟩ := h.kept n hn r hr'
    refine ⟨m, by simp only [hd]; exact hm, ?_⟩
    show r ∈ upd s.content (s.next + 1) v m
    rw [content_upd_lt s v (h.bound_disk m hm)]; exact hrm
  · intro r hr
    obtain ⟨n, hn, hrn⟩ := h.comm r hr
    refine ⟨n, hn, ?_⟩
    show r ∈ upd s.content (s.next + 1) v n
    rw [content_upd_lt s v (h.bound_ever n hn)]; exact hrn

/-! ### save -/

theorem mem_privateNames {p : Proc} {n : Nat} : n ∈ privateNames p ↔ n ∈ p.names ∧ n ∉ p.atLoad := by
  simp [privateNames]

theorem invA_save (s : Sys) (i : Nat) (clear : Bool) (h : InvA s) : InvA (step s i (.save clear)) := by
  have hprivD : ∀ n ∈ (s.procs i).names, n ∉ (s.procs i).atLoad → n ∉ s.disk.names :=
    fun n hn ha hd => (h.priv i n hn ha).2 (h.ev n hd)
  have hM : ∀ n, n ∈ mergeNames s.disk.names (s.procs i).atLoad (s.procs i).names →
      n ∈ s.disk.names ∨ (n ∈ (s.procs i).names ∧ n ∉ (s.procs i).atLoad) := by
    intro n hn
    rcases mem_mergeNames.mp hn with ⟨h1, _⟩ | ⟨h1, h2, _⟩
    · exact Or.inl h1
    · exact Or.inr ⟨h1, h2⟩
  have hMlt : ∀ n, n ∈ mergeNames s.disk.names (s.procs i).atLoad (s.procs i).names → n < s.next := by
    intro n hn
    rcases hM n hn with h1 | ⟨h1, _⟩
    · exact h.bound_disk n h1
    · exact h.bound_names i n h1
  simp only [step]
  refine ⟨?_, ?_, ?_, ?_, ?_, ?_, ?_, ?_, ?_, ?_⟩
  · intro n hn
    simp only [names_saveStep] at hn
    exact hMlt n hn
  · intro n hn
    simp only [List.mem_append] at hn
    rcases hn with hn | hn
    · exact h.bound_ever n hn
    · exact hMlt n hn
  · intro p n hn
    by_cases hp : p = i
    · subst hp; simp only [upd_same] at hn; exact hMlt n hn
    · simp only [upd_other _ _ hp] at hn; exact h.bound_names p n hn
  · intro p n hn
    by_cases hp : p = i
    · subst hp; simp only [upd_same] at hn; exact hMlt n hn
    · simp only [upd_other _ _ hp] at hn; exact h.bound_atLoad p n hn
  · intro n hn
    simp only [names_saveStep] at hn
    exact List.mem_append_right _ hn
  · intro p n hn
    by_cases hp : p = i
    · subst hp; simp only [upd_same] at hn; exact List.mem_append_right _ hn
    · simp only [upd_other _ _ hp] at hn; exact List.mem_append_left _ (h.al p n hn)
  · intro p n hn hna
    by_cases hp : p = i
    · subst hp; simp only [upd_same] at hn hna; exact absurd hn hna
    · simp only [upd_other _ _ hp] at hn hna
      have hpr := h.priv p n hn hna
      refine ⟨hpr.1, ?_⟩
      intro he
      rcases List.mem_append.mp he with he | he
      · exact hpr.2 he
      · rcases hM n he with h1 | ⟨h1, h2⟩
        · exact hpr.2 (h.ev n h1)
        · exact hp (hpr.1.symm.trans (h.priv i n h1 h2).1)
  · intro p n hn hnn r hr
    by_cases hp : p = i
    · subst hp; simp only [upd_same] at hn hnn; exact absurd hn hnn
    · simp only [upd_other _ _ hp] at hn hnn ⊢
      exact h.covers p n hn hnn r hr
  · intro n hn r hr
    simp only [names_saveStep]
    rcases List.mem_append.mp hn with hn | hn
    · obtain ⟨m, hm, hrm⟩ := h.kept n hn r hr
      by_cases hdrop : m ∈ (s.procs i).atLoad ∧ m ∉ (s.procs i).names
      · obtain ⟨m', hm', hma', hrm'⟩ := h.covers i m hdrop.1 hdrop.2 r hrm
        exact ⟨m', mem_mergeNames.mpr (Or.inr ⟨hm', hma', hprivD m' hm' hma'⟩), hrm'⟩
      · exact ⟨m, mem_mergeNames.mpr (Or.inl ⟨hm, hdrop⟩), hrm⟩
    · exact ⟨n, hn, hr⟩
  · intro r hr
    rcases List.mem_append.mp hr with hr | hr
    · obtain ⟨n, hn, hrn⟩ := h.comm r hr
      exact ⟨n, List.mem_append_left _ hn, hrn⟩
    · simp only [List.mem_flatMap, mem_privateNames] at hr
      obtain ⟨n, ⟨hn, hna⟩, hrn⟩ := hr
      exact ⟨n, List.mem_append_right _ (mem_mergeNames.mpr (Or.inr ⟨hn, hna, hprivD n hn hna⟩)), hrn⟩

/-! ### phases that only move or delete files -/

theorem invA_files (s : Sys) (i : Nat) (h : InvA s) (d' : Disk) (hd : d'.names = s.disk.names) (p' : Proc)
    (hn : p'.names = (s.procs i).names) (ha : p'.atLoad = (s.procs i).atLoad) :
    InvA { s with disk := d', procs := upd s.procs i p' } := by
  have e1 : ∀ p, (upd s.procs i p' p).names = (s.procs p).names := by
    intro p; by_cases hp : p = i
    · subst hp; simp [hn]
    · rw [upd_other _ _ hp]
  have e2 : ∀ p, (upd s.procs i p' p).atLoad = (s.procs p).atLoad := by
    intro p; by_cases hp : p = i
    · subst hp; simp [ha]
    · rw [upd_other _ _ hp]
  refine ⟨?_, h.bound_ever, ?_, ?_, ?_, ?_, ?_, ?_, ?_, h.comm⟩
  · intro n hn'; simp only [hd] at hn'; exact h.bound_disk n hn'
  · intro p n hn'; simp only [e1] at hn'; exact h.bound_names p n hn'
  · intro p n hn'; simp only [e2] at hn'; exact h.bound_atLoad p n hn'
  · intro n hn'; simp only [hd] at hn'; exact h.ev n hn'
  · intro p n hn'; simp only [e2] at hn'; exact h.al p n hn'
  · intro p n hn' hna; simp only [e1, e2] at hn' hna; exact h.priv p n hn' hna
  · intro p n hn' hnn r hr
    simp only [e1, e2] at hn' hnn ⊢
    exact h.covers p n hn' hnn r hr
  · intro n hn' r hr
    obtain ⟨m, hm, hrm⟩ := h.kept n hn' r hr
    exact ⟨m, by simp only [hd]; exact hm, hrm⟩

/-! ### every phase -/

theorem invA_step (s : Sys) (i : Nat) (a : Act) (h : InvA s) : InvA (step s i a) := by
  cases a with
  | reload => exact invA_reload s i h
  | finish revs =>
    simp only [step]
    exact invA_newPack s i h _ (names_newPack _ _ _ _) (s.procs i).names revs _ rfl rfl
      (fun n hn => hn) (fun n hn hk => absurd hn hk)
  | repack sel =>
    simp only [step]
    split
    · refine invA_newPack s i h _ (names_newPack _ _ _ _)
        ((s.procs i).names.filter (fun n => !sel.contains n)) (sel.flatMap s.content) _ rfl rfl
        (fun n hn => (List.mem_filter.mp hn).1) ?_
      intro n hn hk r hr
      have : n ∈ sel := by
        by_cases hs : n ∈ sel
        · exact hs
        · exact absurd (List.mem_filter.mpr ⟨hn, by simpa using hs⟩) hk
      exact List.mem_flatMap.mpr ⟨n, this, hr⟩
    · exact invA_reload s i h
  | save clear => exact invA_save s i clear h
  | obsolete =>
    simp only [step]
    exact invA_files s i h _ (run_names_noPut _ _ (isPut_obsolete _ _)) _ rfl rfl
  | clearAll =>
    simp only [step]
    have := invA_files s i h (run s.disk (clearOps s.disk [])) (run_names_noPut _ _ (clearOps_noPut _ _))
      (s.procs i) rfl rfl
    have e : upd s.procs i (s.procs i) = s.procs := by
      funext j; simp only [upd]; split
      · rename_i hj; rw [hj]
      · rfl
    rw [e] at this
    exact this

theorem invA_exec (s : Sys) (sched : Schedule) (h : InvA s) : InvA (exec s sched) := by
  induction sched generalizing s with
  | nil => exact h
  | cons a rest ih => exact ih _ (invA_step s a.1 a.2 h)

theorem invA_init (chk : Bool) (d : Disk) (content : Nat → List Nat) (next : Nat)
    (hb : ∀ n ∈ d.names, n < next) : InvA (Sys.init chk d content next) := by
  refine ⟨hb, hb, ?_, ?_, fun n hn => hn, ?_, ?_, ?_, ?_, ?_⟩
  · intro p n hn; cases hn
  · intro p n hn; cases hn
  · intro p n hn; cases hn
  · intro p n hn; cases hn
  · intro p n hn; cases hn
  · intro n hn r hr; exact ⟨n, hn, hr⟩
  · intro r hr
    simp only [Sys.init, List.mem_flatMap] at hr
    exact hr

end BreezyVerif.C05
