#!/venv/bin/python
"""C15: in a tree without any commit, `brz add f; brz shelve --all; brz unshelve` loses f: the shelf cannot be read.
usage: [VERIF_REPO=/path] /venv/bin/python repro_c15_empty_basis.py   (exit 1 when the defect is present)"""
import os, sys, tempfile, shutil
base = tempfile.mkdtemp(prefix="c15repro-", dir="/var/tmp/imp-C15C16")
os.environ.update(HOME=base, BRZ_HOME=base, BRZ_EMAIL="T <t@e.c>", BRZ_PLUGIN_PATH="-user:-site")
sys.path.insert(0, os.environ.get("VERIF_REPO", "/repo"))
import breezy; breezy.initialize()
import breezy.bzr, breezy.bzr.bzrdir, breezy.bzr.workingtree_4, breezy.bzr.groupcompress_repo
from breezy import shelf, ui, trace
from breezy.controldir import ControlDir, format_registry
from breezy.workingtree import WorkingTree
ui.ui_factory = ui.SilentUIFactory(); trace.be_quiet(True)
d = base + "/t"
wt = ControlDir.create_standalone_workingtree(d, format=format_registry.make_controldir("2a"))
open(d + "/f", "wb").write(b"precious\n")
wt.add(["f"])
with wt.lock_tree_write():
    cr = shelf.ShelfCreator(wt, wt.basis_tree())
    try:
        cr.shelve_all()
        sid = wt.get_shelf_manager().shelve_changes(cr)
    finally:
        cr.finalize()
print("after shelve --all: f on disk:", os.path.exists(d + "/f"))
wt = WorkingTree.open(d)
bad = 0
try:
    with wt.lock_tree_write():
        u = wt.get_shelf_manager().get_unshelver(sid)
        try:
            u.make_merger().do_merge()
        finally:
            u.finalize()
    ok = os.path.exists(d + "/f") and wt.is_versioned("f")
    print("after unshelve: f restored:", ok)
    bad = 0 if ok else 1
except Exception as e:
    print("FAILS: unshelve raised %s: %s -- f on disk: %s" % (type(e).__name__, str(e).split("\n")[0], os.path.exists(d + "/f")))
    bad = 1
shutil.rmtree(base, ignore_errors=True)
sys.exit(bad)
