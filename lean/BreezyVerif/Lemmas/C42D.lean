import BreezyVerif.Lemmas.C42C
/-!
C42 — helper lemmas, part 4: shape of the final paths (no leading / trailing
slash), member names at specification level, selections that denote no path,
`get_root_name`.
-/
namespace BreezyVerif.C42

/-- `pathjoin(root, p)` is the root directory prefix followed by `p` -/
theorem pathjoin_eq (root p : Str) (hp : p.head? ≠ some '/') : pathjoin root p = rootDir root ++ p := by
  unfold pathjoin rootDir
  simp only [hp, if_false]
  by_cases h0 : root = []
  · simp [h0]
  · by_cases h1 : root.getLast? = some '/'
    · simp [h0, h1]
    · simp [h0, h1]

theorem pathStr_head_ne_slash {p : List Name} (hp : p.all goodName = true) :
    (pathStr p).head? ≠ some '/' := by
  cases p with
  | nil => simp [pathStr]
  | cons a r =>
    simp only [List.all_cons, Bool.and_eq_true] at hp
    have ga := goodName_iff.mp hp.1
    cases a with
    | nil => exact absurd rfl ga.1
    | cons x a =>
      have hx : x ≠ '/' := fun e => ga.2 (e ▸ List.mem_cons_self)
      cases r with
      | nil => simpa [pathStr] using hx
      | cons b r => simpa [pathStr] using hx

theorem pathStr_getLast_ne_slash {p : List Name} (hp : p.all goodName = true) :
    (pathStr p).getLast? ≠ some '/' := by
  by_cases hne : p = []
  · subst hne; simp [pathStr]
  · obtain ⟨pre, h⟩ := pathStr_ends_lastName p
    have g := goodName_iff.mp (lastName_good hp hne)
    rw [h, List.getLast?_append]
    intro e
    cases hl : (lastName p).getLast? with
    | none => exact g.1 (List.getLast?_eq_none_iff.mp hl)
    | some c =>
      rw [hl] at e
      simp only [Option.some_or, Option.some.injEq] at e
      subst e
      exact g.2 (List.mem_of_getLast? hl)

/-- the final path of every specification item is a non-empty list of good names -/
theorem specStep_final_good {special : Str → Bool} {sub : Option (List Name)} {c : CEnt} {i : SItem}
    (hc : c.cpath.all goodName = true) (hi : specStep special sub c = some i) :
    i.final.all goodName = true ∧ i.final ≠ [] := by
  unfold specStep at hi
  split at hi
  · cases hi
  · rename_i h0
    split at hi
    · cases hi
    · cases sub with
      | none => simp only at hi; cases hi; exact ⟨hc, h0⟩
      | some s =>
        simp only at hi
        split at hi
        · split at hi
          · cases hi
          · cases hi
            exact ⟨by simpa using lastName_good hc h0, by simp⟩
        · split at hi
          · rename_i hb
            cases hi
            obtain ⟨r, hr, he⟩ := below_iff.mp hb
            refine ⟨?_, ?_⟩
            · rw [List.all_eq_true] at hc ⊢
              intro x hx
              exact hc x (List.mem_of_mem_drop hx)
            · rw [he]; simpa using hr
          · cases hi

theorem exportSpec_final_good {special : Str → Bool} {sub : Option (List Name)} {t : List CEnt}
    (ht : ∀ c ∈ t, c.cpath.all goodName = true) {i : SItem} (hi : i ∈ exportSpec special sub t) :
    i.final.all goodName = true ∧ i.final ≠ [] := by
  unfold exportSpec at hi
  obtain ⟨c, hc, hci⟩ := List.mem_filterMap.mp hi
  exact specStep_final_good (ht c hc) hci

/-- the item the specification yields for an entry carries that entry -/
theorem specStep_ent {special : Str → Bool} {sub : Option (List Name)} {c : CEnt} {i : SItem}
    (hi : specStep special sub c = some i) : i.ent = c := by
  unfold specStep at hi
  split at hi
  · cases hi
  · split at hi
    · cases hi
    · cases sub with
      | none => simp only at hi; cases hi; rfl
      | some s =>
        simp only at hi
        split at hi
        · split at hi
          · cases hi
          · cases hi; rfl
        · split at hi
          · cases hi; rfl
          · cases hi

theorem tarMember_renderItem (filt : Filter) (root : Str) (i : SItem) (hg : i.final.all goodName = true) :
    tarMember filt root (renderItem i) = specTar filt root i := by
  unfold tarMember specTar renderItem
  simp only [pathjoin_eq root _ (pathStr_head_ne_slash hg), render]

theorem dirMember_renderItem (filt : Filter) (i : SItem) :
    dirMember filt (renderItem i) = specTar filt [] i := by
  unfold dirMember specTar renderItem
  simp only [render, rootDir, if_true, List.nil_append]

theorem zipMember_renderItem (ke : Bool) (filt : Filter) (root : Str) (i : SItem)
    (hg : i.final.all goodName = true) :
    zipMember ke filt root (renderItem i) = specZip ke filt root i := by
  unfold zipMember specZip renderItem
  simp only [pathjoin_eq root _ (pathStr_head_ne_slash hg), render]

theorem mapM_map_congr {α β γ : Type} (g : α → β) (f : β → Except Str γ) (h : α → Except Str γ) :
    ∀ l : List α, (∀ a ∈ l, f (g a) = h a) → (l.map g).mapM f = l.mapM h := by
  intro l
  induction l with
  | nil => intro _; rfl
  | cons a l ih =>
    intro hh
    simp only [List.map_cons, List.mapM_cons]
    rw [hh a List.mem_cons_self, ih (fun x hx => hh x (List.mem_cons_of_mem _ hx))]

theorem specTar_name {filt : Filter} {root : Str} {i : SItem} {m : Member}
    (h : specTar filt root i = .ok m) : m.name = rootDir root ++ pathStr i.final := by
  unfold specTar at h
  cases hk : i.ent.kind <;> rw [hk] at h <;> cases h <;> rfl

theorem mapM_specTar_names (filt : Filter) (root : Str) :
    ∀ (l : List SItem) (ms : List Member), l.mapM (specTar filt root) = .ok ms →
      ms.map (·.name) = l.map (fun i => rootDir root ++ pathStr i.final) := by
  intro l
  induction l with
  | nil => intro ms h; cases h; rfl
  | cons i l ih =>
    intro ms h
    simp only [List.mapM_cons, bind, Except.bind, pure, Except.pure] at h
    cases h1 : specTar filt root i with
    | error e => rw [h1] at h; cases h
    | ok m =>
      rw [h1] at h
      simp only at h
      cases h2 : List.mapM (specTar filt root) l with
      | error e => rw [h2] at h; cases h
      | ok ms2 =>
        rw [h2] at h
        cases h
        simp only [List.map_cons, specTar_name h1, ih ms2 h2]

/-- names `rootDir root ++ "/".join(final)` are distinct when the final paths are -/
theorem names_nodup (root : Str) (l : List SItem) (hg : ∀ i ∈ l, i.final.all goodName = true)
    (hn : (l.map (·.final)).Nodup) : (l.map (fun i => rootDir root ++ pathStr i.final)).Nodup := by
  rw [← List.filterMap_eq_map']
  apply nodup_filterMap_on _ (·.final) l hn
  intro a ha a' ha' b h1 h2
  simp only [Option.some.injEq] at h1 h2
  have : pathStr a.final = pathStr a'.final := List.append_cancel_left (h1.trans h2.symm)
  exact pathStr_inj (hg a ha) (hg a' ha') this

/-! ### selections -/

/-- if `s0 + "/"` is a string prefix of the `/`-join of good names, `s0` is
itself the join of a proper component prefix -/
theorem prefix_slash_is_path : ∀ (c : List Name) (s0 : Str), c.all goodName = true →
    (s0 ++ ['/']) <+: pathStr c → ∃ p, p ≠ [] ∧ below p c = true ∧ pathStr p = s0 := by
  intro c
  induction c with
  | nil =>
    intro s0 _ h
    obtain ⟨rest, hrest⟩ := h
    simp [pathStr] at hrest
  | cons a r ih =>
    intro s0 hc h
    simp only [List.all_cons, Bool.and_eq_true] at hc
    have ga := goodName_iff.mp hc.1
    obtain ⟨rest, hrest⟩ := h
    by_cases hr : r = []
    · subst hr
      simp only [pathStr] at hrest
      exact (noslash_ne ga.2 (by simpa using hrest)).elim
    · rw [pathStr_cons a hr] at hrest
      have hrest' : s0 ++ '/' :: rest = a ++ '/' :: pathStr r := by simpa using hrest
      by_cases hs : '/' ∈ s0
      · obtain ⟨x, y, hxy, hx⟩ := List.eq_append_cons_of_mem hs
        rw [hxy] at hrest'
        have e : x ++ '/' :: (y ++ '/' :: rest) = a ++ '/' :: pathStr r := by simpa using hrest'
        obtain ⟨e1, e2⟩ := noslash_split hx ga.2 e
        obtain ⟨p, hp, hb, hps⟩ := ih y hc.2 ⟨rest, by simpa using e2⟩
        obtain ⟨r', hr', her⟩ := below_iff.mp hb
        refine ⟨a :: p, by simp, below_iff.mpr ⟨r', hr', by rw [her]; rfl⟩, ?_⟩
        rw [pathStr_cons a hp, hps, hxy, e1]
      · obtain ⟨e1, _⟩ := noslash_split hs ga.2 hrest'
        exact ⟨[a], by simp, below_iff.mpr ⟨r, hr, rfl⟩, by simp [pathStr, e1]⟩

/-- an entry passes the loop body under the (normalised) selection `s0` only
if `s0` is the join of a non-empty component prefix of the entry's path -/
theorem step_some_is_path {special : Str → Bool} {s0 : Str} {c : CEnt} {it : Item}
    (hc : c.cpath.all goodName = true) (h : step special (some s0) (render c) = some it) :
    ∃ p, p ≠ [] ∧ p <+: c.cpath ∧ pathStr p = s0 := by
  unfold step at h
  split at h
  · cases h
  · rename_i h0
    split at h
    · cases h
    · split at h
      · rename_i heq
        have h00 : c.cpath ≠ [] := by
          intro e
          apply h0
          simp [render, e, pathStr]
        exact ⟨c.cpath, h00, List.prefix_refl _, (Option.some.inj heq)⟩
      · simp only at h
        split at h
        · rename_i hp
          rw [List.isPrefixOf_iff_prefix] at hp
          obtain ⟨p, hp0, hb, hps⟩ := prefix_slash_is_path c.cpath s0 hc hp
          obtain ⟨r, _, he⟩ := below_iff.mp hb
          exact ⟨p, hp0, ⟨r, he.symm⟩, hps⟩
        · cases h

theorem splitSlash_noslash {a : Str} (h : '/' ∉ a) : splitSlash a = [a] := by
  induction a with
  | nil => rfl
  | cons c a ih =>
    have hc : c ≠ '/' := fun e => h (e ▸ List.mem_cons_self)
    have ha : '/' ∉ a := fun m => h (List.mem_cons_of_mem _ m)
    simp [splitSlash, hc, ih ha]

theorem splitSlash_append {a : Str} (y : Str) (h : '/' ∉ a) :
    splitSlash (a ++ '/' :: y) = a :: splitSlash y := by
  induction a with
  | nil => simp [splitSlash]
  | cons c a ih =>
    have hc : c ≠ '/' := fun e => h (e ▸ List.mem_cons_self)
    have ha : '/' ∉ a := fun m => h (List.mem_cons_of_mem _ m)
    simp [splitSlash, hc, ih ha]

/-- `"/".join(p).split("/") == p` for non-empty lists of good names -/
theorem splitSlash_pathStr {p : List Name} (hp : p.all goodName = true) (hne : p ≠ []) :
    splitSlash (pathStr p) = p := by
  induction p with
  | nil => exact absurd rfl hne
  | cons a r ih =>
    simp only [List.all_cons, Bool.and_eq_true] at hp
    have ga := goodName_iff.mp hp.1
    by_cases hr : r = []
    · subst hr; simpa [pathStr] using splitSlash_noslash ga.2
    · rw [pathStr_cons a hr, splitSlash_append _ ga.2, ih hp.2 hr]

theorem prefix_all_good {p c : List Name} (hc : c.all goodName = true) (h : p <+: c) :
    p.all goodName = true := by
  rw [List.all_eq_true] at hc ⊢
  intro x hx
  exact hc x (List.IsPrefix.mem hx h)

/-! ### `get_root_name` -/

theorem basename_noslash {b : Str} (hb : '/' ∉ b) : basename b = b := by
  unfold basename
  have : b.reverse.takeWhile (· != '/') = b.reverse := by
    have e : b.reverse = b.reverse ++ [] := by simp
    rw [e, List.takeWhile_append_of_pos]
    · simp
    · intro x hx
      have : x ≠ '/' := fun e => hb (e ▸ List.mem_reverse.mp hx)
      simpa using this
  rw [this, List.reverse_reverse]

theorem basename_append (d : Str) {b : Str} (hb : '/' ∉ b) : basename (d ++ '/' :: b) = b := by
  unfold basename
  have e : (d ++ '/' :: b).reverse = b.reverse ++ '/' :: d.reverse := by simp
  rw [e, List.takeWhile_append_of_pos, List.takeWhile_cons_of_neg (by simp)]
  · simp
  · intro x hx
    have : x ≠ '/' := fun e => hb (e ▸ List.mem_reverse.mp hx)
    simpa using this

theorem endsWith_iff {s suf : Str} : endsWith s suf = true ↔ suf <:+ s := by
  unfold endsWith
  rw [List.isPrefixOf_iff_prefix, List.reverse_prefix]

theorem find?_unique {α : Type} (p : α → Bool) (x : α) :
    ∀ l : List α, x ∈ l → p x = true → (∀ y ∈ l, p y = true → y = x) → l.find? p = some x := by
  intro l
  induction l with
  | nil => intro h; cases h
  | cons y l ih =>
    intro hx hpx hu
    by_cases hy : p y = true
    · rw [List.find?_cons_of_pos hy, hu y List.mem_cons_self hy]
    · rw [List.find?_cons_of_neg hy]
      rcases List.mem_cons.mp hx with rfl | hx'
      · exact absurd hpx hy
      · exact ih hx' hpx (fun z hz => hu z (List.mem_cons_of_mem _ hz))

/-- no registered extension is a suffix of another one -/
theorem ext_suffix_free : ∀ x ∈ extensions, ∀ y ∈ extensions, endsWith x y = true → x = y := by decide

theorem ext_noslash : ∀ x ∈ extensions, '/' ∉ x ∧ 2 ≤ x.length := by decide

end BreezyVerif.C42
