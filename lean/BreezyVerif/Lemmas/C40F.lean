import BreezyVerif.Model.C40F
import BreezyVerif.Lemmas.C47Date
import BreezyVerif.Lemmas.C40
/-
C40 — helper lemmas: the patch date and the directive fields round-trip.
-/
namespace BreezyVerif.C40

open BreezyVerif.C47 (fmtBase parseBase inRange padAtLeast padNat digitsVal length_padNat digitsVal_padNat
  padAtLeast_two parseBase_fmtBase)

theorem length_fmtBase (secs : Int) : (fmtBase secs).length = 19 := by
  simp [fmtBase, length_padNat]

/-- the domain on which a (time, timezone) pair survives the directive's timestamp -/
def dateOK (secs off : Int) : Bool :=
  off % 60 = 0 ∧ (secs = 0 → off = 0) ∧ 0 ≤ secs + off ∧ inRange (secs + off) ∧ off.natAbs < 86400

theorem parsePatchDate_canonical (x : Int) (neg : Bool) (H M : Nat) (hH : H < 24) (hM : M < 60)
    (hr : inRange x = true) :
    parsePatchDate (fmtBase x ++ ' ' :: (if neg then '-' else '+') :: (padNat 2 H ++ padNat 2 M)) =
      .ok (x - (if neg then -((H * 3600 + M * 60 : Nat) : Int) else ((H * 3600 + M * 60 : Nat) : Int)),
        if neg then -((H * 3600 + M * 60 : Nat) : Int) else ((H * 3600 + M * 60 : Nat) : Int)) := by
  have hl := length_fmtBase x
  have hlen : (fmtBase x ++ ' ' :: (if neg then '-' else '+') :: (padNat 2 H ++ padNat 2 M)).length = 25 := by
    simp [hl, length_padNat]
  have htake : (fmtBase x ++ ' ' :: (if neg then '-' else '+') :: (padNat 2 H ++ padNat 2 M)).take 19 = fmtBase x := by
    rw [← hl]; exact List.take_left
  have hdrop : (fmtBase x ++ ' ' :: (if neg then '-' else '+') :: (padNat 2 H ++ padNat 2 M)).drop 19 =
      ' ' :: (if neg then '-' else '+') :: (padNat 2 H ++ padNat 2 M) := by
    rw [← hl]; exact List.drop_left
  have h2 : (padNat 2 H ++ padNat 2 M).take 2 = padNat 2 H := by
    have : (padNat 2 H).length = 2 := length_padNat 2 H
    rw [← this]; exact List.take_left
  have h3 : (padNat 2 H ++ padNat 2 M).drop 2 = padNat 2 M := by
    have : (padNat 2 H).length = 2 := length_padNat 2 H
    rw [← this]; exact List.drop_left
  have dH : digitsVal 0 (padNat 2 H) = some H := by
    rw [digitsVal_padNat]; simp; omega
  have dM : digitsVal 0 (padNat 2 M) = some M := by
    rw [digitsVal_padNat]; simp; omega
  unfold parsePatchDate
  rw [if_neg (by rw [hlen]; simp)]
  simp only [htake, hdrop, List.drop_succ_cons, List.drop_zero, List.take_succ_cons, List.take_zero, h2, h3, dH, dM]
  rw [if_neg (by cases neg <;> simp)]
  rw [if_neg (by omega)]
  simp only [parseBase_fmtBase x hr, hr, true_and, if_true]
  cases neg <;> simp

theorem natAbs_hm (off : Int) (h60 : off % 60 = 0) :
    ((off.natAbs / 3600 * 3600 + off.natAbs / 60 % 60 * 60 : Nat) : Int) = off.natAbs := by
  have : off.natAbs % 60 = 0 := by omega
  omega

/-- `parse_patch_date(format_patch_date(secs, offset)) = (secs, offset)` on the domain -/
theorem patchDate_roundtrip (secs off : Int) (h : dateOK secs off = true) :
    ∃ s, formatPatchDate secs off = .ok s ∧ parsePatchDate s = .ok (secs, off) := by
  simp only [dateOK, Bool.decide_and, Bool.and_eq_true, decide_eq_true_eq] at h
  obtain ⟨h60, hz, hnn, hr, hoff⟩ := h
  have hoff' : (if secs = 0 then 0 else off) = off := by
    by_cases hs : secs = 0
    · simp [hs, hz hs]
    · simp [hs]
  have hH : off.natAbs / 3600 < 24 := by omega
  have hM : off.natAbs / 60 % 60 < 60 := by omega
  have hfmt : formatPatchDate secs off = .ok (fmtBase (secs + off) ++ ' ' :: (if off ≥ 0 then '+' else '-') ::
      (padAtLeast 2 (off.natAbs / 3600) ++ padAtLeast 2 (off.natAbs / 60 % 60))) := by
    unfold formatPatchDate
    rw [if_neg (by simpa using h60)]
    simp only [hoff']
    rw [if_neg (by omega), hr]
    simp
  refine ⟨_, hfmt, ?_⟩
  rw [padAtLeast_two _ (by omega), padAtLeast_two _ (by omega)]
  have hsign : (if off ≥ 0 then '+' else '-') = (if decide (off < 0) then '-' else '+') := by
    by_cases hn : off < 0
    · simp [hn, show ¬ off ≥ 0 by omega]
    · simp [hn, show off ≥ 0 by omega]
  rw [hsign, parsePatchDate_canonical _ (decide (off < 0)) _ _ hH hM hr]
  have habs := natAbs_hm off h60
  by_cases hn : off < 0
  · simp only [hn, decide_true, if_true]
    rw [habs]
    have : -((off.natAbs : Nat) : Int) = off := by omega
    rw [this]
    have e : secs + off - off = secs := by omega
    rw [e]
  · simp only [hn, decide_false, Bool.false_eq_true, if_false]
    rw [habs]
    have : ((off.natAbs : Nat) : Int) = off := by omega
    rw [this]
    have e : secs + off - off = secs := by omega
    rw [e]

/-! ### fields -/

/-- the domain on which the fields survive: a testament sha1 is given (not needed by the
tolerant variant), there is a merge source, and the date is in the timestamp's domain -/
def fieldsOKV (tolerant : Bool) (d : Directive Fields) : Bool :=
  (tolerant ∨ d.fields.testamentSha1.isSome) ∧ (d.fields.sourceBranch.isSome ∨ d.bundle.isSome) ∧
    dateOK d.fields.time d.fields.timezone

def fieldsOK (d : Directive Fields) : Bool := fieldsOKV false d

theorem fields_roundtrip (tolerant : Bool) (f : Fields) (hasBundle : Bool)
    (ht : tolerant = true ∨ f.testamentSha1.isSome = true)
    (hsrc : f.sourceBranch.isSome = true ∨ hasBundle = true) (hd : dateOK f.time f.timezone = true) :
    ∃ st, toPairs f = .ok st ∧ fromPairsV tolerant st hasBundle = .ok f := by
  obtain ⟨ts, hf, hp⟩ := patchDate_roundtrip f.time f.timezone hd
  obtain ⟨rid, sha, time, tz, tb, src, msg, bid⟩ := f
  simp only at hf hp hsrc ht
  simp only [toPairs, hf]
  refine ⟨_, rfl, ?_⟩
  cases sha with
  | none =>
    have htol : tolerant = true := by simpa using ht
    cases src with
    | none =>
      have hb : hasBundle = true := by simpa using hsrc
      cases msg <;> simp [fromPairsV, lookup, hp, hb, htol]
    | some s => cases msg <;> simp [fromPairsV, lookup, hp, htol]
  | some sha =>
    cases src with
    | none =>
      have hb : hasBundle = true := by simpa using hsrc
      cases msg <;> simp [fromPairsV, lookup, hp, hb]
    | some s => cases msg <;> simp [fromPairsV, lookup, hp]

end BreezyVerif.C40
