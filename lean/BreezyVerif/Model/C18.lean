/-
C18 — merge decision rules.  Literal model of
`breezy/merge.py: Merge3Merger._three_way` and `_lca_multi_way`, over any type
with decidable equality.
-/
namespace BreezyVerif.C18

inductive Winner where
  | this | other | conflict
  deriving DecidableEq, Repr

def Winner.swap : Winner → Winner
  | .this => .other
  | .other => .this
  | .conflict => .conflict

def Winner.toString : Winner → String
  | .this => "this" | .other => "other" | .conflict => "conflict"

variable {α : Type} [DecidableEq α]

/-- `_three_way(base, other, this)` -/
def threeWay (base other this : α) : Winner :=
  if base = other then .this
  else if ¬ (this = base ∨ this = other) then .conflict
  else if this = other then .this
  else .other

/-- `_lca_multi_way((base, lcas), other, this, allow_overriding_lca)`.
`set(filtered)` of size 1 is "all filtered values equal the first". -/
def lcaMultiWay (base : α) (lcas : List α) (other this : α) (allow : Bool := true) : Winner :=
  if other = this then .this
  else
    match lcas.filter (fun v => v ≠ base) with
    | [] => threeWay base other this
    | v :: rest =>
      if rest.all (fun w => w = v) then threeWay v other this
      else if allow then
        if other ∈ v :: rest then
          (if this ∈ v :: rest then .conflict else .this)
        else if this ∈ v :: rest then .other
        else .conflict
      else .conflict

/-- Python `set(l)` for the T1 transcription of `_lca_multi_way`: a
duplicate-free list with the same members.  The order is immaterial: the code
only uses `len`, `in` and `pop()` of a one-element set. -/
def pySet (l : List α) : List α :=
  l.foldr (fun x r => if x ∈ r then r else x :: r) []

end BreezyVerif.C18
