import BreezyVerif.Model.C17
/-!
C17 helper lemmas: the triple-level steps of `mergeChange` agree with the
entry-level steps of `mergeEntry` when the triples are read off three entries.
-/
namespace BreezyVerif.C17
open BreezyVerif.C18 (threeWay Winner)

theorem overrideAbsent_false (w : Winner) : overrideAbsent false w = w := by
  simp [overrideAbsent]

theorem overrideAbsent_true_ne_this (w : Winner) : overrideAbsent true w ≠ .this := by
  cases w <;> simp [overrideAbsent]

theorem namesStepW_ofEntries (nw pw : Winner) (b o t tc : Option Entry) :
    namesStepW nw pw (Change.ofEntries b o t false tc) =
      (if overrideAbsent t.isNone nw = .conflict ∨ overrideAbsent t.isNone pw = .conflict then [.path] else [],
       namesOn (overrideAbsent t.isNone nw) (overrideAbsent t.isNone pw) o t) := by
  unfold namesStepW
  simp only [Change.ofEntries]
  cases t with
  | some te =>
    simp only [Option.map_some, Option.isNone_some, overrideAbsent_false]
    cases o with
    | none => cases nw <;> cases pw <;> simp [namesOn, pairOf]
    | some oe => cases nw <;> cases pw <;> simp [namesOn, pairOf, pick]
  | none =>
    simp only [Option.map_none, Option.isNone_none]
    cases o with
    | none => cases nw <;> cases pw <;> simp [namesOn, pairOf, overrideAbsent]
    | some oe => cases nw <;> cases pw <;> simp [namesOn, pairOf, pick, overrideAbsent]

theorem namesStepC_ofEntries (b o t : Option Entry) (tc : Option Entry := none) :
    namesStepC (Change.ofEntries b o t false tc) = namesStep b t o := by
  unfold namesStepC namesStep
  rw [namesStepW_ofEntries]
  simp [Change.ofEntries]

theorem contentsOnP_pairOf (w : Winner) (t o : Option Entry) :
    contentsOnP w (pairOf t) (pairOf o) = contentsOn w t o := by
  cases w <;> cases t <;> cases o <;> simp [contentsOnP, contentsOn, pairOf]

theorem contentsStepC_ofEntries (b o t : Option Entry) (tc : Option Entry := none) :
    contentsStepC (Change.ofEntries b o t false tc) = contentsStep b t o := by
  unfold contentsStepC contentsStep
  by_cases h : pairOf o = pairOf b
  · simp [Change.ofEntries, h, contentsOn]
  · simp [Change.ofEntries, h, contentsOnP_pairOf]

theorem execStepW_ofEntries (w0 : Winner) (b o t tc : Option Entry) :
    execStepW w0 (Change.ofEntries b o t false tc) =
      execOn (if w0 = .conflict then (if o.isNone then .this else .other) else w0) b t o := by
  unfold execStepW
  simp only [Change.ofEntries]
  cases w0 <;> cases b <;> cases o <;> cases t <;> simp [execOn, pairOf]

theorem execStepC_ofEntries (b o t : Option Entry) (tc : Option Entry := none) :
    execStepC (Change.ofEntries b o t false tc) = execStep b t o := by
  unfold execStepC execStep
  rw [execStepW_ofEntries]
  simp [Change.ofEntries]

theorem normCopy_ofEntries_false (b o t : Option Entry) (tc : Option Entry := none) :
    normCopy (Change.ofEntries b o t false tc) = Change.ofEntries b o t false tc := by
  simp [normCopy, Change.ofEntries]

/-- the copy normalisation turns the element into the one of an add of OTHER's entry merged
with whatever THIS has at the copy's own path (`tc`), the copy source (`sb`, `st`) forgotten -/
theorem normCopy_ofEntries_copied (sb st tc : Option Entry) (oe : Entry) :
    normCopy (Change.ofEntries sb (some oe) st true tc) = Change.ofEntries none (some oe) tc false := by
  cases tc <;> simp [normCopy, Change.ofEntries, pairOf]

/-! ### clean three-way decisions -/

/-- the value an attribute takes when at most one side changed it -/
def sel {α : Type} [DecidableEq α] (b t o : α) : α := if o = b then t else o

theorem threeWay_some {α : Type} [DecidableEq α] (b o t : α) :
    threeWay (some b) (some o) (some t) = threeWay b o t := by
  unfold threeWay; simp

theorem threeWay_one_side {α : Type} [DecidableEq α] (b o t : α) (h : t = b ∨ o = b) :
    threeWay b o t ≠ .conflict ∧ pick (threeWay b o t) o t = sel b t o := by
  unfold threeWay pick sel
  by_cases h1 : b = o
  · subst h1; simp
  · have ht : t = b := by
      rcases h with h | h
      · exact h
      · exact absurd h.symm h1
    subst ht
    have h2 : ¬ o = t := fun e => h1 e.symm
    simp [h1, h2]

theorem assemble_conflicts (st : Status) (kc : Option (Kind × Nat)) (np : Option (Option Id × Nat)) (ex : Bool)
    (cf : List ConflictKind) : (assemble st kc np ex cf).conflicts = cf := by
  unfold assemble; split <;> rfl

theorem overrideAbsent_conflict_iff (a : Bool) (w : Winner) : overrideAbsent a w = .conflict ↔ w = .conflict := by
  cases a <;> cases w <;> simp [overrideAbsent]

theorem contentsOn_conflicts_nil_iff (w : Winner) (t o : Option Entry) :
    (contentsOn w t o).2.2 = [] ↔ w ≠ .conflict := by
  cases w <;> cases t <;> cases o <;> simp [contentsOn] <;> split <;> simp

theorem contentsOn_no_path (w : Winner) (t o : Option Entry) : ConflictKind.path ∉ (contentsOn w t o).2.2 := by
  cases w <;> cases t <;> cases o <;> simp [contentsOn] <;> split <;> simp

theorem pathConf_nil_iff (A B : Prop) [Decidable A] [Decidable B] :
    (if A ∨ B then [ConflictKind.path] else []) = [] ↔ ¬ A ∧ ¬ B := by
  by_cases hA : A <;> by_cases hB : B <;> simp [hA, hB]

/-- names of a file present on all three sides, name and parent each changed by at most one side -/
theorem namesStep_one_side (be te oe : Entry) (h1 : te.name = be.name ∨ oe.name = be.name)
    (h2 : te.parent = be.parent ∨ oe.parent = be.parent) :
    namesStep (some be) (some te) (some oe) =
      ([], some (sel be.parent te.parent oe.parent, sel be.name te.name oe.name)) := by
  have a := threeWay_one_side be.name oe.name te.name h1
  have b := threeWay_one_side be.parent oe.parent te.parent h2
  simp only [namesStep, namesOn, Option.map_some, Option.isNone_some, overrideAbsent_false, threeWay_some,
    a.1, b.1, a.2, b.2, or_self, if_false]

theorem contentsStep_one_side (be te oe : Entry)
    (h3 : (te.kind, te.content) = (be.kind, be.content) ∨ (oe.kind, oe.content) = (be.kind, be.content)) :
    ∃ st, st ≠ Status.deleted ∧ contentsStep (some be) (some te) (some oe) =
      (st, some (sel (be.kind, be.content) (te.kind, te.content) (oe.kind, oe.content)), []) := by
  unfold contentsStep
  by_cases hp : (oe.kind, oe.content) = (be.kind, be.content)
  · refine ⟨.unmodified, by simp, ?_⟩
    simp [pairOf, hp, contentsOn, sel]
  · have ht : (te.kind, te.content) = (be.kind, be.content) := by
      rcases h3 with h | h
      · exact h
      · exact absurd h hp
    have a := threeWay_one_side (be.kind, be.content) (oe.kind, oe.content) (te.kind, te.content) (Or.inl ht)
    refine ⟨.modified, by simp, ?_⟩
    have hw : threeWay (be.kind, be.content) (oe.kind, oe.content) (te.kind, te.content) = .other := by
      unfold threeWay
      have h1 : ¬ (be.kind, be.content) = (oe.kind, oe.content) := fun e => hp e.symm
      have h2 : ¬ (te.kind, te.content) = (oe.kind, oe.content) := fun e => hp (e.symm.trans ht)
      simp [h1, h2, ht]
    simp only [pairOf, Option.map_some, Option.some.injEq, hp, if_false, threeWay_some, hw, contentsOn, sel]

theorem execStep_one_side (be te oe : Entry) (h4 : te.exec = be.exec ∨ oe.exec = be.exec) :
    execStep (some be) (some te) (some oe) = sel be.exec te.exec oe.exec := by
  have a := threeWay_one_side be.exec oe.exec te.exec h4
  unfold execStep
  simp only [Option.map_some, threeWay_some, a.1, if_false]
  rw [← a.2]
  cases threeWay be.exec oe.exec te.exec <;> simp [execOn, pick]

end BreezyVerif.C17
