import BreezyVerif.Model.C36
/-! C36 — lemmas about file-id escaping. -/
namespace BreezyVerif.C36

/-- the three `replace` passes act as one character-wise substitution -/
def escapeOne (c : Nat) : List Nat :=
  if c = 0x5f then [0x5f, 0x5f] else if c = 0x20 then [0x5f, 0x73] else if c = 0x0c then [0x5f, 0x63] else [c]

theorem replaceByte_append (c : Nat) (rep l1 l2 : List Nat) :
    replaceByte c rep (l1 ++ l2) = replaceByte c rep l1 ++ replaceByte c rep l2 := by
  simp [replaceByte]

theorem escapeFileId_cons (x : Nat) (f : List Nat) :
    escapeFileId (x :: f) = escapeOne x ++ escapeFileId f := by
  have h : ∀ l : List Nat, x :: l = [x] ++ l := fun _ => rfl
  unfold escapeFileId
  rw [h f, replaceByte_append, replaceByte_append, replaceByte_append]
  congr 1
  unfold escapeOne replaceByte
  by_cases h1 : x = 0x5f
  · subst h1; simp
  · by_cases h2 : x = 0x20
    · subst h2; simp
    · by_cases h3 : x = 0x0c
      · subst h3; simp
      · simp [h1, h2, h3]

theorem escapeFileId_nil : escapeFileId [] = [] := by simp [escapeFileId, replaceByte]

theorem unescape_escapeOne (x : Nat) (rest : List Nat) :
    unescapeFileId (escapeOne x ++ rest) = (unescapeFileId rest).map (x :: ·) := by
  unfold escapeOne
  by_cases h1 : x = 0x5f
  · subst h1; simp [unescapeFileId]
  · by_cases h2 : x = 0x20
    · subst h2; simp [unescapeFileId]
    · by_cases h3 : x = 0x0c
      · subst h3; simp [unescapeFileId]
      · rw [unescapeFileId.eq_def]; simp [h1, h2, h3]

end BreezyVerif.C36
