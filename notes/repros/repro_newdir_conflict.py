"""C17 / git: both sides make the SAME change — move the only file of directory c into a new directory d.
Merging OTHER into THIS (identical trees) must be a no-op without conflicts; do_merge() returns a
TextConflict for 'd' (a cooked fs-level 'duplicate'), which the git working tree then silently drops.
Run: /venv/bin/python repro_newdir_conflict.py   (exit 1 = defect present)"""
import os, sys, tempfile
sys.path.insert(0, os.environ.get("VERIF_REPO", "/repo"))
top = tempfile.mkdtemp(prefix="c17-newdir-", dir="/var/tmp")
os.environ["HOME"] = top; os.environ["BRZ_HOME"] = top; os.environ["BRZ_EMAIL"] = "T <t@example.com>"
import breezy; breezy.initialize()
import breezy.bzr, breezy.git
from breezy import controldir, merge as M, ui, trace
ui.ui_factory = ui.SilentUIFactory(); trace.be_quiet(True)
wt = controldir.ControlDir.create_standalone_workingtree(os.path.join(top, "this"), format=controldir.format_registry.make_controldir("git"))
os.mkdir(wt.abspath("c")); os.symlink("target", wt.abspath("c/c"))
open(wt.abspath("a"), "w").write("a\n")
os.symlink("b", wt.abspath("e"))
wt.add(["c/c", "a", "e"]); wt.commit("base")
owt = wt.controldir.sprout(os.path.join(top, "other")).open_workingtree()
for t in (owt, wt):
    t.remove(["c/c"], keep_files=False, force=True)
    if os.path.isdir(t.abspath("c")):
        os.rmdir(t.abspath("c"))
    os.mkdir(t.abspath("d")); os.symlink("target", t.abspath("d/c")); t.add(["d/c"])
    t.commit("move c/c -> d/c in " + os.path.basename(t.basedir))
raw = []
orig = M.Merge3Merger.cook_conflicts
def cc(self, fs):
    fs = list(fs); raw.extend(fs); raw.extend(self._raw_conflicts); return orig(self, fs)
M.Merge3Merger.cook_conflicts = cc
if os.environ.get("PRE"):
    with wt.lock_write():
        m0 = M.Merger.from_revision_ids(wt, owt.branch.last_revision(), other_branch=owt.branch)
        m0.merge_type = M.LCAMerger
        mm = m0.make_merger()
        with mm.base_tree.lock_read(), mm.other_tree.lock_read(), mm.this_tree.lock_read():
            print("entries:", [(e[2], e[6]) for e in mm._entries3()])
with wt.lock_write():
    m = M.Merger.from_revision_ids(wt, owt.branch.last_revision(), other_branch=owt.branch)
    m.merge_type = M.LCAMerger
    got = m.do_merge()
print("raw conflicts:", raw)
print("returned by do_merge:", got)
print("wt.conflicts():", list(wt.conflicts()))
sys.exit(1 if got else 0)
