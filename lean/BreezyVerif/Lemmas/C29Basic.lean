import BreezyVerif.Model.C29
/-! helper lemmas for C29/C30: lines, digits, big-endian lengths -/
namespace BreezyVerif.C29

/-! ### splitLine -/

theorem splitLine_append_some {a l r : Bytes} (b : Bytes) (h : splitLine a = some (l, r)) :
    splitLine (a ++ b) = some (l, r ++ b) := by
  induction a generalizing l with
  | nil => simp [splitLine] at h
  | cons c cs ih =>
    simp only [List.cons_append]
    unfold splitLine at h ⊢
    split
    · rename_i hc; simp [hc] at h; obtain ⟨rfl, rfl⟩ := h; rfl
    · rename_i hc
      simp only [hc, if_false] at h
      split at h
      · simp at h
      · rename_i l' r' heq
        simp at h; obtain ⟨rfl, rfl⟩ := h
        rw [ih heq]

theorem splitLine_none_of_notMem {l : Bytes} (h : (10 : UInt8) ∉ l) : splitLine l = none := by
  induction l with
  | nil => rfl
  | cons c cs ih =>
    simp only [List.mem_cons, not_or] at h
    unfold splitLine
    have hc : c ≠ 10 := fun e => h.1 e.symm
    simp [hc, ih h.2]

theorem splitLine_of_notMem {l : Bytes} (r : Bytes) (h : (10 : UInt8) ∉ l) :
    splitLine (l ++ 10 :: r) = some (l, r) := by
  induction l with
  | nil => simp [splitLine]
  | cons c cs ih =>
    simp only [List.mem_cons, not_or] at h
    have hc : c ≠ 10 := fun e => h.1 e.symm
    simp only [List.cons_append]
    unfold splitLine
    simp [hc, ih h.2]

theorem splitLine_some_eq {a l r : Bytes} (h : splitLine a = some (l, r)) :
    a = l ++ 10 :: r ∧ (10 : UInt8) ∉ l := by
  induction a generalizing l with
  | nil => simp [splitLine] at h
  | cons c cs ih =>
    unfold splitLine at h
    split at h
    · rename_i hc; simp at h; obtain ⟨rfl, rfl⟩ := h; simp [hc]
    · rename_i hc
      split at h
      · simp at h
      · rename_i l' r' heq
        simp at h; obtain ⟨rfl, rfl⟩ := h
        obtain ⟨e, hn⟩ := ih heq
        refine ⟨by simp [e], ?_⟩
        simp only [List.mem_cons, not_or]
        exact ⟨fun e => hc e.symm, hn⟩

theorem splitLine_none_notMem {a : Bytes} (h : splitLine a = none) : (10 : UInt8) ∉ a := by
  induction a with
  | nil => simp
  | cons c cs ih =>
    unfold splitLine at h
    split at h
    · simp at h
    · rename_i hc
      split at h
      · rename_i heq
        simp only [List.mem_cons, not_or]
        exact ⟨fun e => hc e.symm, ih heq⟩
      · simp at h

/-! ### digits -/

theorem digitRaw_digitChar : ∀ d, d < 16 → digitRaw (digitChar d) = some d := by decide

theorem digitChar_ne (c : UInt8) (hc : c = 10 ∨ c = 58 ∨ c = 69 ∨ c = 44 ∨ c = 1) :
    ∀ d, d < 16 → digitChar d ≠ c := by
  rcases hc with rfl | rfl | rfl | rfl | rfl <;> decide

theorem digitVal_digitChar {base d : Nat} (hb : base ≤ 16) (hd : d < base) :
    digitVal base (digitChar d) = some d := by
  unfold digitVal
  rw [digitRaw_digitChar d (by omega)]
  simp [hd]

theorem parseDigits_append (base acc : Nat) (xs ys : Bytes) :
    parseDigits base acc (xs ++ ys) =
      (parseDigits base acc xs).bind (fun a => parseDigits base a ys) := by
  induction xs generalizing acc with
  | nil => simp [parseDigits]
  | cons c cs ih =>
    simp only [List.cons_append, parseDigits]
    split
    · simp
    · exact ih _

theorem natDigits_ne_nil (base n : Nat) : natDigits base n ≠ [] := by
  unfold natDigits
  split <;> simp

theorem parseDigits_natDigits {base : Nat} (h2 : 2 ≤ base) (hb : base ≤ 16) (n : Nat) :
    parseDigits base 0 (natDigits base n) = some n := by
  induction n using Nat.strongRecOn with
  | _ n ih =>
    unfold natDigits
    split
    · rename_i h
      have hn : n < base := by omega
      simp [parseDigits, digitVal_digitChar hb hn]
    · rename_i h
      have hn : base ≤ n := by omega
      have hlt : n / base < n := Nat.div_lt_self (by omega) (by omega)
      rw [parseDigits_append, ih _ hlt]
      have hm : n % base < base := Nat.mod_lt _ (by omega)
      simp only [Option.bind_some, parseDigits, digitVal_digitChar hb hm]
      congr 1
      exact Nat.div_add_mod' n base

theorem parseNat_natDigits {base : Nat} (h2 : 2 ≤ base) (hb : base ≤ 16) (n : Nat) :
    parseNat base (natDigits base n) = some n := by
  unfold parseNat
  have hne := natDigits_ne_nil base n
  have he : (natDigits base n).isEmpty = false := by
    cases h : natDigits base n with
    | nil => exact absurd h hne
    | cons c cs => rfl
  simp [he, parseDigits_natDigits h2 hb]

theorem natDigits_mem {base : Nat} (h2 : 2 ≤ base) (n : Nat) :
    ∀ c ∈ natDigits base n, ∃ d, d < base ∧ c = digitChar d := by
  induction n using Nat.strongRecOn with
  | _ n ih =>
    unfold natDigits
    split
    · rename_i h
      intro c hc
      simp at hc
      exact ⟨n, by omega, hc⟩
    · rename_i h
      have hn : base ≤ n := by omega
      have hlt : n / base < n := Nat.div_lt_self (by omega) (by omega)
      intro c hc
      simp only [List.mem_append, List.mem_singleton] at hc
      rcases hc with hc | hc
      · exact ih _ hlt c hc
      · exact ⟨n % base, Nat.mod_lt _ (by omega), hc⟩

/-- the digits of a number in base ≤ 16 contain none of the delimiter bytes
`\n`, `:`, `E`, `,`, `\x01` -/
theorem natDigits_notMem {base : Nat} (h2 : 2 ≤ base) (hb : base ≤ 16) (n : Nat) (c : UInt8)
    (hc : c = 10 ∨ c = 58 ∨ c = 69 ∨ c = 44 ∨ c = 1) : c ∉ natDigits base n := by
  intro hm
  obtain ⟨d, hd, rfl⟩ := natDigits_mem h2 n c hm
  exact digitChar_ne _ hc d (by omega) rfl

/-! ### big-endian 32-bit lengths -/

theorem unbe32_be32_append {n : Nat} (h : n < 4294967296) (r : Bytes) :
    unbe32 (be32 n ++ r) = n := by
  simp only [be32, unbe32, List.cons_append, List.nil_append, UInt8.toNat_ofNat']
  omega

theorem be32_length (n : Nat) : (be32 n).length = 4 := rfl

end BreezyVerif.C29
