import BreezyVerif.Lemmas.C29CK
import BreezyVerif.Lemmas.C29Misc
import BreezyVerif.Lemmas.C29Req
/-!
C29 — smart protocol messages survive the wire unchanged.

For every decoder `D ∈ {LengthPrefixedBodyDecoder (LP), ChunkedBodyDecoder (CK),
ProtocolThreeDecoder (V3), SmartServerRequestProtocolOne/Two (Req)}`:

* `*_feed_append`: `accept_bytes(a); accept_bytes(b)` leaves the decoder in exactly
  the state `accept_bytes(a ++ b)` does — for EVERY state (not only reachable
  ones) and all byte strings, hence
* `*_segmentation_independent`: any two ways of cutting the same byte stream
  into (at least one) reads give the same state, and
* `*_roundtrip`: decoding `encode m ++ rest`, cut into reads arbitrarily, ends
  finished with exactly `m` decoded and `unused_data = rest`.

All statements are unbounded (any sizes, any number of reads).
-/
namespace BreezyVerif.C29

/-- generic corollary of an append law: the state only depends on the concatenation -/
theorem segmentation_of_append {S : Type} (feed : S → Bytes → S)
    (happ : ∀ s a b, feed (feed s a) b = feed s (a ++ b))
    (s : S) (segs₁ segs₂ : List Bytes) (h₁ : segs₁ ≠ []) (h₂ : segs₂ ≠ [])
    (h : segs₁.flatten = segs₂.flatten) :
    feedAll feed s segs₁ = feedAll feed s segs₂ := by
  match segs₁, segs₂, h₁, h₂ with
  | a :: r₁, b :: r₂, _, _ =>
    simp only [feedAll, feedAll_eq_of_append feed happ]
    simp only [List.flatten_cons] at h
    rw [h]

/-! ## LengthPrefixedBodyDecoder -/

theorem lp_feed_append (s : LP) (a b : Bytes) : (s.feed a).feed b = s.feed (a ++ b) :=
  LP.feed_append s a b

theorem lp_segmentation_independent (s : LP) (segs₁ segs₂ : List Bytes)
    (h₁ : segs₁ ≠ []) (h₂ : segs₂ ≠ []) (h : segs₁.flatten = segs₂.flatten) :
    feedAll LP.feed s segs₁ = feedAll LP.feed s segs₂ :=
  segmentation_of_append LP.feed LP.feed_append s _ _ h₁ h₂ h

/-- `_encode_bulk_data(body)` followed by any bytes `rest`, delivered in any
reads: the decoder finishes with exactly `body` and `unused_data = rest`. -/
theorem lp_roundtrip (body rest : Bytes) (segs : List Bytes) (hne : segs ≠ [])
    (h : segs.flatten = lpEncode body ++ rest) :
    feedAll LP.feed LP.init segs = .done body rest := by
  match segs, hne with
  | a :: r, _ =>
    simp only [feedAll, feedAll_eq_of_append LP.feed LP.feed_append]
    simp only [List.flatten_cons] at h
    rw [h, LP.feed_init_encode]

/-- `read_pending_data()` between reads does not change what is decoded: the bytes
returned before plus the bytes returned after equal what an undrained decoder returns -/
theorem lp_drain_commutes (s : LP) (x : Bytes) :
    (LP.drain (LP.feed (LP.drain s).2 x)).2 = (LP.drain (LP.feed s x)).2 ∧
    (LP.drain s).1 ++ (LP.drain (LP.feed (LP.drain s).2 x)).1 = (LP.drain (LP.feed s x)).1 :=
  LP.drain_feed s x

example : feedAll LP.feed LP.init [[51], [10, 97], [98, 99, 100, 111], [110, 101, 10, 88]]
    = .done [97, 98, 99] [88] := by decide

/-! ## ChunkedBodyDecoder -/

theorem ck_feed_append (s : CK) (a b : Bytes) : (s.feed a).feed b = s.feed (a ++ b) :=
  CK.feed_append s a b

theorem ck_segmentation_independent (s : CK) (segs₁ segs₂ : List Bytes)
    (h₁ : segs₁ ≠ []) (h₂ : segs₂ ≠ []) (h : segs₁.flatten = segs₂.flatten) :
    feedAll CK.feed s segs₁ = feedAll CK.feed s segs₂ :=
  segmentation_of_append CK.feed CK.feed_append s _ _ h₁ h₂ h

/-- `_send_stream` of any chunks, optionally ended by a
`FailedSmartServerResponse(args)` (an error raised mid-stream), followed by any
`rest`, delivered in any reads: the decoder yields exactly those chunks, then the
failure, and `unused_data = rest`. -/
theorem ck_roundtrip (chunks : List Bytes) (err : Option (List Bytes)) (rest : Bytes)
    (segs : List Bytes) (hne : segs ≠ []) (h : segs.flatten = ckEncode chunks err ++ rest) :
    feedAll CK.feed CK.init segs = .done (ckExpected chunks err) rest := by
  match segs, hne with
  | a :: r, _ =>
    simp only [feedAll, feedAll_eq_of_append CK.feed CK.feed_append]
    simp only [List.flatten_cons] at h
    rw [h, CK.feed_init_encode]

example : feedAll CK.feed CK.init
    [[99, 104, 117, 110, 107], [101, 100, 10, 50, 10, 97], [98, 69, 82, 82, 10, 49, 10, 120, 69],
     [78, 68, 10, 33]]
    = .done [.data [97, 98], .failure [[120]]] [33] := by decide +kernel

/-! ## ProtocolThreeDecoder -/

theorem v3_feed_append (s : V3) (a b : Bytes) : (s.feed a).feed b = s.feed (a ++ b) :=
  V3.feed_append s a b

theorem v3_segmentation_independent (s : V3) (segs₁ segs₂ : List Bytes)
    (h₁ : segs₁ ≠ []) (h₂ : segs₂ ≠ []) (h : segs₁.flatten = segs₂.flatten) :
    feedAll V3.feed s segs₁ = feedAll V3.feed s segs₂ :=
  segmentation_of_append V3.feed V3.feed_append s _ _ h₁ h₂ h

/-- Server side (the medium has consumed the version marker): headers, any
sequence of parts (`o?`, `b…`, `s…`) and the final `e`, followed by any `rest`,
in any reads: the handler receives exactly those parts in order, then
`end_received`, and `unused_data = rest`.  Each length must fit `struct.pack("!L")`. -/
theorem v3_roundtrip_server (headers : Bytes) (parts : List Part) (rest : Bytes)
    (hh : headers.length < 4294967296) (hp : V3.partsOk parts = true)
    (segs : List Bytes) (hne : segs ≠ []) (h : segs.flatten = v3EncodeBody headers parts ++ rest) :
    feedAll V3.feed (V3.init false) segs
      = .done (.headers headers :: (parts.map Part.ev ++ [.end_])) rest := by
  match segs, hne with
  | a :: r, _ =>
    simp only [feedAll, feedAll_eq_of_append V3.feed V3.feed_append]
    simp only [List.flatten_cons] at h
    rw [h]
    simp only [V3.init, Bool.false_eq_true, if_false, V3.feed_run, List.nil_append]
    rw [V3.proc_headers_encode _ _ _ _ hh hp]
    rfl

/-- Client side (`expect_version_marker=True`): the same for a whole message
including the version marker. -/
theorem v3_roundtrip_client (headers : Bytes) (parts : List Part) (rest : Bytes)
    (hh : headers.length < 4294967296) (hp : V3.partsOk parts = true)
    (segs : List Bytes) (hne : segs ≠ []) (h : segs.flatten = v3Encode headers parts ++ rest) :
    feedAll V3.feed (V3.init true) segs
      = .done (.headers headers :: (parts.map Part.ev ++ [.end_])) rest := by
  match segs, hne with
  | a :: r, _ =>
    simp only [feedAll, feedAll_eq_of_append V3.feed V3.feed_append]
    simp only [List.flatten_cons] at h
    rw [h]
    simp only [V3.init, if_true, V3.feed_run, List.nil_append]
    exact V3.proc_version_encode _ _ _ hh hp

example : V3.partsOk [.byte 83, .struct [108, 101], .bytes [1, 2, 3]] = true := by decide

/-- the bencoded argument list written by `_write_structure(args)` decodes to `args` -/
theorem v3_args_bencode_roundtrip (args : List Bytes) :
    bdecodeArgs (bencodeArgs args) = some args :=
  bdecodeArgs_bencodeArgs args

/-! ### conventional response on top of the v3 framing -/

/-- what `ConventionalResponseHandler` should hold after a response -/
def respExpected (ok : Bool) (args : Bytes) : RespBody → Resp
  | .none_ => { status := some (if ok then 83 else 69), args := some args, ended := true }
  | .body b => { status := some (if ok then 83 else 69), args := some args, parts := [b],
                 bodyStarted := true, ended := true }
  | .stream cs none => { status := some (if ok then 83 else 69), args := some args, parts := cs,
                         bodyStarted := !cs.isEmpty, ended := true }
  | .stream cs (some e) => { status := some (if ok then 83 else 69), args := some args, parts := cs,
                             bodyStarted := true, streamStatus := some 69, errArgs := some e,
                             ended := true }

/-- the input family on which the real handler fails (see `resp_stream_error_first_witness`) -/
def errorBeforeFirstChunk : RespBody → Bool
  | .stream [] (some _) => true
  | _ => false

/-- PARTIAL (the code as found, `fx = false`): status, args, body / streamed chunks and a
mid-stream error reach the response handler unchanged — except when the stream fails
before its first chunk (excluded by `hex`; that family is a real defect of the code,
witnessed below). -/
theorem resp_handler_roundtrip_partial (ok : Bool) (headers args : Bytes) (body : RespBody)
    (hex : errorBeforeFirstChunk body = false) :
    Resp.run false {} (.headers headers :: ((respParts ok args body).map Part.ev ++ [.end_]))
      = .ok (respExpected ok args body) := by
  cases body with
  | none_ => cases ok <;> simp [respParts, Resp.run, Resp.step, Part.ev, respExpected]
  | body b => cases ok <;> simp [respParts, Resp.run, Resp.step, Part.ev, respExpected]
  | stream cs err =>
    have hmap : ∀ l : List Bytes, List.map Part.ev (List.map Part.bytes l) = l.map Ev.bytes := by
      intro l; simp [Part.ev]
    cases err with
    | none =>
      cases cs with
      | nil => cases ok <;> simp [respParts, Resp.run, Resp.step, Part.ev, respExpected]
      | cons c cs' =>
        simp only [respParts, List.append_nil, List.map_append, List.map_cons, List.map_nil,
          List.cons_append, List.nil_append, Resp.run, Resp.step, Part.ev, hmap, List.append_assoc]
        cases ok <;>
        · simp only [Bool.false_eq_true, if_false, if_true]
          simp [Resp.run_append, Resp.run_bytes, Resp.run, Resp.step, respExpected]
    | some e =>
      cases cs with
      | nil => simp [errorBeforeFirstChunk] at hex
      | cons c cs' =>
        simp only [respParts, List.map_append, List.map_cons, List.map_nil,
          List.cons_append, List.nil_append, Resp.run, Resp.step, Part.ev, hmap, List.append_assoc]
        cases ok <;>
        · simp only [Bool.false_eq_true, if_false, if_true]
          simp [Resp.run_append, Resp.run_bytes, Resp.run, Resp.step, respExpected]

example : errorBeforeFirstChunk (.stream [[1, 2]] (some [108, 101])) = false := by decide

/-- WITNESS (finding F15, code as found): a successful response whose body stream fails
before yielding a chunk is written as `oS s(args) oE s(err) e`; the response handler
takes the `oE` for a second status byte and raises instead of delivering `err`. -/
theorem resp_stream_error_first_witness :
    Resp.run false {} (.headers [100, 101] ::
        ((respParts true [108, 101] (.stream [] (some [108, 101]))).map Part.ev ++ [.end_]))
      = .error .unexpectedByte := by
  simp [respParts, Resp.run, Resp.step, Part.ev]

/-- expected handler state for the handler with the proposed fix: as `respExpected`,
and a stream that failed before its first chunk delivers its error too -/
def respExpectedFixed (ok : Bool) (args : Bytes) : RespBody → Resp
  | .stream [] (some e) => { status := some (if ok then 83 else 69), args := some args,
                             streamStatus := some 69, errArgs := some e, ended := true }
  | b => respExpected ok args b

/-- With the proposed fix (`fx = true`) the round trip holds for EVERY conventional
response, including a body stream that fails before its first chunk. -/
theorem resp_handler_roundtrip_fixed (ok : Bool) (headers args : Bytes) (body : RespBody) :
    Resp.run true {} (.headers headers :: ((respParts ok args body).map Part.ev ++ [.end_]))
      = .ok (respExpectedFixed ok args body) := by
  cases body with
  | none_ => cases ok <;> simp [respParts, Resp.run, Resp.step, Part.ev, respExpected, respExpectedFixed]
  | body b => cases ok <;> simp [respParts, Resp.run, Resp.step, Part.ev, respExpected, respExpectedFixed]
  | stream cs err =>
    have hmap : ∀ l : List Bytes, List.map Part.ev (List.map Part.bytes l) = l.map Ev.bytes := by
      intro l; simp [Part.ev]
    cases err with
    | none =>
      cases cs with
      | nil => cases ok <;> simp [respParts, Resp.run, Resp.step, Part.ev, respExpected, respExpectedFixed]
      | cons c cs' =>
        simp only [respParts, List.append_nil, List.map_append, List.map_cons, List.map_nil,
          List.cons_append, List.nil_append, Resp.run, Resp.step, Part.ev, hmap, List.append_assoc]
        cases ok <;>
        · simp only [Bool.false_eq_true, if_false, if_true]
          simp [Resp.run_append, Resp.run_bytes, Resp.run, Resp.step, respExpected, respExpectedFixed]
    | some e =>
      cases cs with
      | nil => cases ok <;> simp [respParts, Resp.run, Resp.step, Part.ev, respExpectedFixed]
      | cons c cs' =>
        simp only [respParts, List.map_append, List.map_cons, List.map_nil,
          List.cons_append, List.nil_append, Resp.run, Resp.step, Part.ev, hmap, List.append_assoc]
        cases ok <;>
        · simp only [Bool.false_eq_true, if_false, if_true]
          simp [Resp.run_append, Resp.run_bytes, Resp.run, Resp.step, respExpected, respExpectedFixed]

/-! ## protocol 1 / 2 -/

/-- `_decode_tuple(_encode_tuple(args)) == args` for every non-empty tuple whose
elements do not contain the separator byte `\x01` -/
theorem tuple_roundtrip (args : List Bytes) (h : tupleOk args = true) :
    decodeTuple (encodeTuple args) = .ok args :=
  decodeTuple_encodeTuple h

example : tupleOk [[104, 105], [], [10, 0, 255]] = true := by decide

/-- the two excluded families really do not round-trip (inherent to the v1/v2 wire format) -/
theorem tuple_empty_witness : decodeTuple (encodeTuple []) = .ok [[]] := by decide
theorem tuple_separator_witness : decodeTuple (encodeTuple [[97, 1, 98]]) = .ok [[97], [98]] := by
  decide

theorem req_feed_append (w : List Bytes → Bool) (s : Req) (a b : Bytes) :
    (s.feed w a).feed w b = s.feed w (a ++ b) :=
  Req.feed_append w s a b

/-- A version 1 (or, after the marker, version 2) request — argument tuple plus
an optional length-prefixed body — followed by any `rest`, in any reads: the
server protocol dispatches exactly `args`, hands the command exactly `body`, and
keeps `rest` as `unused_data` for the next request.  `w` says whether the verb
reads a body. -/
theorem req_roundtrip (w : List Bytes → Bool) (args : List Bytes) (body : Option Bytes)
    (rest : Bytes) (hok : Req.argsOk args = true) (hw : w args = body.isSome)
    (segs : List Bytes) (hne : segs ≠ []) (h : segs.flatten = reqEncode args body ++ rest) :
    feedAll (Req.feed w) (.line []) segs = .done args body rest := by
  match segs, hne with
  | a :: r, _ =>
    simp only [feedAll, feedAll_eq_of_append (Req.feed w) (Req.feed_append w)]
    simp only [List.flatten_cons] at h
    rw [h, Req.feed_init_encode w args body rest hok hw]

example : Req.argsOk [[103, 101, 116], [47, 97]] = true := by decide

/-! ## readv offsets -/

/-- `_deserialise_offsets(_serialise_offsets(l)) == l` for EVERY list of (start, length)
pairs (any length, unbounded numbers) -/
theorem offsets_roundtrip (l : List (Nat × Nat)) :
    deserialiseOffsets (serialiseOffsets l) = some l :=
  deserialiseOffsets_serialiseOffsets l

example : deserialiseOffsets (serialiseOffsets [(0, 1), (4096, 65536), (1000000000, 0)])
    = some [(0, 1), (4096, 65536), (1000000000, 0)] := offsets_roundtrip _

/-- rejected: a line without / with two commas, a non-number -/
example : deserialiseOffsets [49, 10, 50, 44, 51] = none ∧ deserialiseOffsets [49, 44, 50, 44, 51] = none ∧
    deserialiseOffsets [49, 44, 120] = none ∧ deserialiseOffsets [10, 49, 44, 50, 10, 10] = some [(1, 2)] := by
  decide

/-! ## conventional request on top of the v3 framing (`ConventionalRequestHandler`) -/

/-- the calls `ConventionalRequestHandler` should have made on its request handler after a request -/
def rqExpected (args : Bytes) (body : RespBody) : Rq :=
  { expecting := .nothing,
    calls := [RqCall.args args] ++
      (match body with
       | .none_ => []
       | .body b => [RqCall.body b]
       | .stream cs err => cs.map RqCall.body ++
          (match err with | none => [] | some e => [RqCall.postBodyError e])) ++ [RqCall.end_],
    finished := true, responses := 1 }

/-- Every conventional request — `call`, `call_with_body_bytes`, `call_with_body_readv_array`
(a body of serialised offsets), `call_with_body_stream` with any number of chunks, complete
or cut short by an error — reaches the server's request handler unchanged: `args_received`
with the argument structure, one `accept_body` per body part in order, the error structure of
an aborted stream through `post_body_error_received`, then `end_received`; exactly one
response is sent.  `w`: the verb waits for a body (a verb that answers in `do()` gets no body). -/
theorem rq_handler_roundtrip (w : Bool) (headers args : Bytes) (body : RespBody)
    (hw : w = true ∨ body = .none_) :
    Rq.run w {} (.headers headers :: ((reqParts args body).map Part.ev ++ [.end_]))
      = .ok (rqExpected args body) := by
  have hmap : ∀ l : List Bytes, List.map Part.ev (List.map Part.bytes l) = l.map Ev.bytes := by
    intro l; simp [Part.ev]
  cases body with
  | none_ => cases w <;> simp [reqParts, Rq.run, Rq.step, Part.ev, rqExpected]
  | body b =>
    rcases hw with rfl | h
    · simp [reqParts, Rq.run, Rq.step, Part.ev, rqExpected]
    · cases h
  | stream cs err =>
    rcases hw with rfl | h
    · cases err with
      | none =>
        simp only [reqParts, List.append_nil, List.map_append, List.map_cons, List.map_nil,
          List.cons_append, List.nil_append, Rq.run, Rq.step, Part.ev, hmap]
        simp [Rq.run_append, Rq.run_bytes, Rq.run, Rq.step, rqExpected]
      | some e =>
        simp only [reqParts, List.map_append, List.map_cons, List.map_nil,
          List.cons_append, List.nil_append, Rq.run, Rq.step, Part.ev, hmap, List.append_assoc]
        simp [Rq.run_append, Rq.run_bytes, Rq.run, Rq.step, rqExpected]
    · cases h

example : Rq.run true {} (.headers [100, 101] ::
      ((reqParts [108, 101] (.stream [[1], [2, 3]] (some [108, 101]))).map Part.ev ++ [.end_]))
    = .ok { expecting := .nothing, finished := true, responses := 1,
            calls := [.args [108, 101], .body [1], .body [2, 3], .postBodyError [108, 101], .end_] } := by
  simp [reqParts, Rq.run, Rq.step, Part.ev]

/-- a body sent to a verb that answered in `do()` is a protocol error, not silently dropped -/
example : Rq.run false {} (.headers [] :: ((reqParts [108, 101] (.body [1])).map Part.ev ++ [.end_]))
    = .error .unexpectedBytes := by simp [reqParts, Rq.run, Rq.step, Part.ev]

/-- what the command finally executes with: exactly the bytes of the body parts sent -/
theorem rq_executed_body (args : Bytes) (body : RespBody) :
    executedBody (rqExpected args body).calls = some (match body with
      | .none_ => []
      | .body b => b
      | .stream cs _ => cs.flatten) := by
  cases body with
  | none_ => simp [executedBody, rqExpected]
  | body b => simp [executedBody, rqExpected]
  | stream cs err =>
    have : ∀ l : List Bytes, (l.map RqCall.body).flatMap (fun c => match c with | .body b => b | _ => [])
        = l.flatten := by
      intro l; induction l with
      | nil => rfl
      | cons a l ih => simp [List.flatMap_cons, ih]
    cases err <;> (simp [executedBody, rqExpected, List.flatMap_append]; try exact this cs)

/-- WITNESS (known finding F16, `v3-request-stream-error-ignored`): the error of an aborted
body stream reaches `post_body_error_received` (`rq_handler_roundtrip`), which is a no-op in
`SmartServerRequestHandler`: `end_received` then runs the command with the truncated body,
exactly as for a complete stream. -/
theorem req_stream_error_executed_witness :
    executedBody (rqExpected [108, 101] (.stream [[97]] (some [108, 101]))).calls = some [97] ∧
    executedBody (rqExpected [108, 101] (.stream [[97]] none)).calls = some [97] := by decide

/-! ### bytes on the wire → handler state (framing and handler composed) -/

/-- Server side, end to end: the bytes `ProtocolThreeRequester` writes for a conventional
request (after the version marker, which the medium consumes), followed by any `rest`,
delivered in ANY reads: the decoder finishes, `unused_data = rest` (kept for the next
request), and the request handler has received exactly the request. -/
theorem v3_request_roundtrip (w : Bool) (headers args : Bytes) (body : RespBody) (rest : Bytes)
    (hw : w = true ∨ body = .none_)
    (hh : headers.length < 4294967296) (hp : V3.partsOk (reqParts args body) = true)
    (segs : List Bytes) (hne : segs ≠ [])
    (h : segs.flatten = v3EncodeBody headers (reqParts args body) ++ rest) :
    (feedAll V3.feed (V3.init false) segs).finished = true ∧
    (feedAll V3.feed (V3.init false) segs).unused = rest ∧
    Rq.run w {} (feedAll V3.feed (V3.init false) segs).events = .ok (rqExpected args body) := by
  rw [v3_roundtrip_server headers _ rest hh hp segs hne h]
  exact ⟨rfl, rfl, rq_handler_roundtrip w headers args body hw⟩

/-- Client side, end to end (handler with the F15 fix, the code in /repo): the bytes
`ProtocolThreeResponder.send_response` writes, followed by any `rest`, in ANY reads:
decoder finished, `unused_data = rest`, the response handler holds exactly the response. -/
theorem v3_response_roundtrip_fixed (ok : Bool) (headers args : Bytes) (body : RespBody) (rest : Bytes)
    (hh : headers.length < 4294967296) (hp : V3.partsOk (respParts ok args body) = true)
    (segs : List Bytes) (hne : segs ≠ [])
    (h : segs.flatten = v3Encode headers (respParts ok args body) ++ rest) :
    (feedAll V3.feed (V3.init true) segs).finished = true ∧
    (feedAll V3.feed (V3.init true) segs).unused = rest ∧
    Resp.run true {} (feedAll V3.feed (V3.init true) segs).events
      = .ok (respExpectedFixed ok args body) := by
  rw [v3_roundtrip_client headers _ rest hh hp segs hne h]
  exact ⟨rfl, rfl, resp_handler_roundtrip_fixed ok headers args body⟩

/-- the same for the handler as found (before the F15 fix) — PARTIAL: excluding a stream
that fails before its first chunk (`resp_stream_error_first_witness`) -/
theorem v3_response_roundtrip_partial (ok : Bool) (headers args : Bytes) (body : RespBody) (rest : Bytes)
    (hex : errorBeforeFirstChunk body = false)
    (hh : headers.length < 4294967296) (hp : V3.partsOk (respParts ok args body) = true)
    (segs : List Bytes) (hne : segs ≠ [])
    (h : segs.flatten = v3Encode headers (respParts ok args body) ++ rest) :
    (feedAll V3.feed (V3.init true) segs).finished = true ∧
    (feedAll V3.feed (V3.init true) segs).unused = rest ∧
    Resp.run false {} (feedAll V3.feed (V3.init true) segs).events
      = .ok (respExpected ok args body) := by
  rw [v3_roundtrip_client headers _ rest hh hp segs hne h]
  exact ⟨rfl, rfl, resp_handler_roundtrip_partial ok headers args body hex⟩

example : V3.partsOk (reqParts [108, 51, 58, 103, 101, 116, 101] (.stream [[1, 2], []] (some [108, 49, 58, 101, 101])))
    = true := by decide
example : V3.partsOk (respParts true [108, 50, 58, 111, 107, 101] (.stream [] (some [108, 49, 58, 101, 101]))) = true := by
  decide

/-! ## protocol 2: the client's parsing of a response -/

/-- what the client should obtain from `_send_response(ok, args, body)` -/
def v2Expected (ok : Bool) (args : List Bytes)
    (body : Option (Sum Bytes (List Bytes × Option (List Bytes)))) : V2Resp :=
  ⟨ok, args, if ok then (match body with
      | none => .none_
      | some (.inl b) => .bytes b
      | some (.inr (cs, err)) => .stream (ckExpected cs err)) else .none_⟩

/-- how the caller reads on (`expect_body`, then `read_body_bytes` or `read_streamed_body`) -/
def v2KindOf (ok : Bool) (body : Option (Sum Bytes (List Bytes × Option (List Bytes)))) : V2Kind :=
  if ok then (match body with
    | none => .none_
    | some (.inl _) => .bytes
    | some (.inr _) => .stream) else .none_

/-- Protocol 2, server → client: the bytes `SmartServerRequestProtocolTwo._send_response`
writes — version marker, `success`/`failed`, the response tuple, then nothing, a
length-prefixed body or a chunked stream (optionally ended by a failure) — followed by
any `rest`: the client obtains exactly the status, the tuple, the body / the chunks and the
failure, and stops exactly at the end of the message (`rest` is left for the next
response).  A failed response carries no body. -/
theorem v2_response_roundtrip (ok : Bool) (args : List Bytes)
    (body : Option (Sum Bytes (List Bytes × Option (List Bytes)))) (rest : Bytes)
    (hargs : Req.argsOk args = true) (hf : ok = false → body = none) :
    v2Decode (v2KindOf ok body) (v2RespEncode ok args body ++ rest)
      = .ok (v2Expected ok args body, rest) := by
  simp only [Req.argsOk, Bool.and_eq_true] at hargs
  have hsplit : ∀ tail, splitLine (encodeTuple args ++ tail) = some (joinSoh args, tail) := by
    intro tail
    simp only [encodeTuple, List.append_assoc, List.singleton_append]
    exact splitLine_of_notMem _ (Req.joinSoh_no_nl hargs.2)
  unfold v2Decode v2RespEncode
  rw [response2_eq]
  simp only [List.append_assoc, List.singleton_append, List.cons_append, List.nil_append]
  rw [splitLine_of_notMem _ response2Line_no_nl]
  simp only [ne_eq, not_true_eq_false, if_false]
  cases ok with
  | false =>
    have hb := hf rfl
    subst hb
    simp only [Bool.false_eq_true, if_false]
    rw [splitLine_of_notMem _ failedLine_no_nl]
    simp only [hsplit, if_true, splitSoh_joinSoh hargs.1, List.nil_append, v2Expected,
      Bool.false_eq_true, if_false]
  | true =>
    simp only [if_true]
    rw [splitLine_of_notMem _ successLine_no_nl]
    simp only [hsplit, success_ne_failed, if_false, ne_eq, not_true_eq_false,
      splitSoh_joinSoh hargs.1, v2KindOf, v2Expected, if_true]
    cases body with
    | none => simp
    | some b =>
      cases b with
      | inl b => simp only [LP.feed_init_encode]
      | inr p =>
        obtain ⟨cs, err⟩ := p
        simp only [CK.feed_init_encode]

example : v2Decode .stream (v2RespEncode true [[111, 107]] (some (.inr ([[1, 2]], some [[66]]))) ++ [98, 122])
    = .ok (⟨true, [[111, 107]], .stream [.data [1, 2], .failure [[66]]]⟩, [98, 122]) :=
  v2_response_roundtrip true [[111, 107]] (some (.inr ([[1, 2]], some [[66]]))) [98, 122] (by decide) (by simp)

/-- a wrong marker / status line is rejected -/
example : (match v2Decode .none_ [98, 122, 114, 10] with | .error .badVersion => true | _ => false) = true ∧
    (match v2Decode .none_ (response2 ++ [111, 107, 10, 120, 10]) with | .error .badStatus => true | _ => false)
      = true := by decide

end BreezyVerif.C29
