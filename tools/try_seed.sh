#!/bin/bash
# tools/try_seed.sh Cxx [suffix] : run check Cxx against /var/tmp/seed-Cxx<suffix> (seed 1), print verdict and replay message
p=$1; s=$2; cd /verif
VERIF_SEED=${VERIF_SEED:-1} VERIF_REPO=/var/tmp/seed-$p$s /venv/bin/python harness/run.py $p 2>&1 | grep -E "^VIOLATION|tier=" | head -3
python3 - <<EOF
import json,glob,os
f='/verif/replays/$p-${VERIF_SEED:-1}.json'
if os.path.exists(f):
    d=json.load(open(f)); print(str(d.get('message') or d.get('others') or d)[:600])
EOF
