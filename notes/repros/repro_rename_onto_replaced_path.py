"""C17 / git: both sides make the SAME change: delete file d and rename file e to d.  Merging OTHER into THIS
(identical trees) must be a no-op without conflicts (law 3).  Instead the merge DELETES d from THIS's working tree
and returns "Text conflict in d": iter_changes(OTHER vs BASE) reports "d modified, e deleted" while
find_previous_path(BASE -> THIS, 'e') follows THIS's rename to 'd', so the element ('e', None, 'd') makes OTHER's
deletion of e delete THIS's d.
Run: /venv/bin/python repro_rename_onto_replaced_path.py   (exit 1 = defect present)"""
import os, sys, tempfile
sys.path.insert(0, os.environ.get("VERIF_REPO", "/repo"))
top = tempfile.mkdtemp(prefix="c17-replaced-", dir="/var/tmp")
os.environ["HOME"] = top; os.environ["BRZ_HOME"] = top; os.environ["BRZ_EMAIL"] = "T <t@example.com>"
import breezy; breezy.initialize()
import breezy.bzr, breezy.git
from breezy import controldir, merge as M, ui, trace
ui.ui_factory = ui.SilentUIFactory(); trace.be_quiet(True)
wt = controldir.ControlDir.create_standalone_workingtree(os.path.join(top, "this"), format=controldir.format_registry.make_controldir("git"))
X = "w\nx\nz\nx\n5\n"
open(wt.abspath("d"), "w").write("4\n"); open(wt.abspath("e"), "w").write(X); open(wt.abspath("keep"), "w").write("k\n")
wt.add(["d", "e", "keep"]); wt.commit("base")
owt = wt.controldir.sprout(os.path.join(top, "other")).open_workingtree()
for t in (owt, wt):
    t.remove(["d", "e"], keep_files=False, force=True)
    for p in ("d", "e"):
        if os.path.exists(t.abspath(p)):
            os.unlink(t.abspath(p))
    open(t.abspath("d"), "w").write(X); t.add(["d"])
    t.commit("delete d, rename e to d (in %s)" % os.path.basename(t.basedir))
with wt.lock_write():
    m = M.Merger.from_revision_ids(wt, owt.branch.last_revision(), other_branch=owt.branch)
    m.merge_type = M.Merge3Merger
    got = m.do_merge()
ok = os.path.exists(wt.abspath("d")) and open(wt.abspath("d")).read() == X
print("returned by do_merge:", got)
print("d still there with THIS's content:", ok, "| versioned:", sorted(p for p in wt.all_versioned_paths() if p))
sys.exit(0 if ok and not got else 1)
