import BreezyVerif.Lemmas.C15
/-!
C15 — per id: merging the stored entry into the entry the work transform left,
over the basis entry, gives back the entry before shelving, without conflicts.
-/
namespace BreezyVerif.C15
open BreezyVerif.C18 (threeWay Winner)

/-- content / exec part of the chunk case, isolated: the contents step yields the original chunks -/
theorem contents_chunks (bits : List Bool) (p p' po pt : Option Id) (n n' no nt : Nat) (c c' : List Nat) (e e' : Bool)
    (hl1 : bits.length = c.length) (hl2 : c.length = c'.length) :
    let b : Option Entry := some ⟨p, n, .file, c, e⟩
    let t : Option Entry := some ⟨pt, nt, .file, pickChunks bits c c', e'⟩
    let o : Option Entry := some ⟨po, no, .file, pickChunks bits c' c, e⟩
    (contentsStep b t o).2.1 = some (Kind.file, c') ∧ (contentsStep b t o).2.2 = [] ∧
    ((contentsStep b t o).1 = .unmodified ∨ (contentsStep b t o).1 = .modified) := by
  intro b t o
  have hm := mergeChunks_pick bits c c' hl1 hl2
  have h1 := pick_shelf_eq_basis bits c c' hl1 hl2
  have h2 := pick_work_eq_basis bits c c' hl1 hl2
  have h3 := pick_work_eq_shelf bits c c' hl1 hl2
  simp only [b, t, o, contentsStep, pairOf, Option.map_some]
  by_cases ho : pickChunks bits c' c = c
  · simp [ho, contentsOn, pairOf, h1 ho]
  · simp only [Option.some.injEq, Prod.mk.injEq, true_and, ho, if_false]
    by_cases ht : pickChunks bits c c' = c
    · have := h2 ht
      simp [threeWay, ht, ho, contentsOn, this]
      grind
    · by_cases hto : pickChunks bits c c' = pickChunks bits c' c
      · have := h3 hto
        simp [threeWay, ht, ho, hto, contentsOn, pairOf]
        grind
      · simp [threeWay, ht, ho, hto, contentsOn, hm]
        grind

/-- names part: the position selected (or not) on both sides merges back to the working position -/
theorem names_restore (rn : Bool) (p p' : Option Id) (n n' : Nat)
    (kb kt ko : Kind) (cb ct co : List Nat) (eb et eo : Bool) :
    namesStep (some ⟨p, n, kb, cb, eb⟩)
      (some ⟨if rn then p else p', if rn then n else n', kt, ct, et⟩)
      (some ⟨if rn then p' else p, if rn then n' else n, ko, co, eo⟩) = ([], some (p', n')) := by
  cases rn <;> by_cases hp : p = p' <;> by_cases hn : n = n' <;>
    simp_all [namesStep, namesOn, threeWay, overrideAbsent, pick] <;> grind

/-- exec part when the stored entry carries the basis bit: THIS's bit stays -/
theorem exec_restore (v : Variant) (rec : Bool) (st : Status) (b t o : Entry)
    (hst : st = .unmodified ∨ st = .modified) (hbo : o.exec = b.exec)
    (hr : recOk v rec (some t) = true) :
    execStep v rec st (some b) (some t) (some o) = t.exec := by
  rcases hst with h | h <;> subst h <;>
    simp_all [execStep, seenExec, threeWay, recOk] <;> grind

/-- the hunk case of `mergeEntry_restores` -/
theorem merge_chunks_case (v : Variant) (rec : Bool) (rn : Bool) (bits : List Bool) (p p' : Option Id) (n n' : Nat)
    (c c' : List Nat) (e e' : Bool) (hl1 : bits.length = c.length) (hl2 : c.length = c'.length)
    (hr : recOk v rec (some ⟨if rn then p else p', if rn then n else n', .file, pickChunks bits c c', e'⟩) = true) :
    mergeEntry v rec (some ⟨p, n, .file, c, e⟩)
      (some ⟨if rn then p else p', if rn then n else n', .file, pickChunks bits c c', e'⟩)
      (some ⟨if rn then p' else p, if rn then n' else n, .file, pickChunks bits c' c, e⟩)
      = ⟨some ⟨p', n', .file, c', e'⟩, []⟩ := by
  have hcs := contents_chunks bits p p' (if rn then p' else p) (if rn then p else p') n n'
    (if rn then n' else n) (if rn then n else n') c c' e e' hl1 hl2
  obtain ⟨hc1, hc2, hc3⟩ := hcs
  have hnames := names_restore rn p p' n n' .file .file .file c (pickChunks bits c c') (pickChunks bits c' c) e e' e
  have hexec := fun st hst => exec_restore v rec st ⟨p, n, .file, c, e⟩
    ⟨if rn then p else p', if rn then n else n', .file, pickChunks bits c c', e'⟩
    ⟨if rn then p' else p, if rn then n' else n, .file, pickChunks bits c' c, e⟩ hst rfl hr
  have h1 := pick_shelf_eq_basis bits c c' hl1 hl2
  by_cases hob : (some (Entry.mk (if rn then p' else p) (if rn then n' else n) .file (pickChunks bits c' c) e))
      = some ⟨p, n, .file, c, e⟩
  · rw [mergeEntry, if_pos hob]
    simp only [Option.some.injEq, Entry.mk.injEq] at hob
    obtain ⟨hp, hn, _, hcc, _⟩ := hob
    have := h1 hcc
    cases rn <;> simp_all
  · rw [mergeEntry, if_neg hob]
    simp only [hnames, hc1, hc2, List.append_nil]
    rcases hc3 with h | h <;> rw [h] <;> rw [hexec _ (by simp)] <;> simp [assemble]

theorem mergeEntry_restores (v : Variant) (rec : Bool) (s : Sel) (b w : Option Entry)
    (hb : norm b = true) (hw : norm w = true) (hs : shapeOk s b w = true) (hx : execSafe v b w = true)
    (hr : recOk v rec (shelveWork v s b w) = true) :
    mergeEntry v rec b (shelveWork v s b w) (shelveShelf v s b w) = ⟨w, []⟩ := by
  cases b with
  | none =>
    cases w with
    | none => simp [shelveWork, shelveShelf, mergeEntry]
    | some we =>
      obtain ⟨p', n', k', c', e'⟩ := we
      cases hsw : s.whole <;> cases k' <;>
        simp_all [shelveWork, shelveShelf, mergeEntry, namesStep, namesOn, contentsStep, contentsOn, execStep, assemble,
          threeWay, overrideAbsent, pick, pairOf, seenExec, recreatedExec, norm, execSafe] <;> grind
  | some be =>
    cases w with
    | none =>
      obtain ⟨p, n, k, c, e⟩ := be
      cases hsw : s.whole <;> cases hk : s.kept <;> cases k <;>
        simp_all [shelveWork, shelveShelf, mergeEntry, namesStep, namesOn, contentsStep, contentsOn, execStep, assemble,
          threeWay, overrideAbsent, pick, pairOf, seenExec, recreatedExec, norm, execSafe]
    | some we =>
      obtain ⟨p, n, k, c, e⟩ := be
      obtain ⟨p', n', k', c', e'⟩ := we
      cases hc : s.content with
      | none =>
        cases hrn : s.rename
        · simp [shelveWork, shelveShelf, mergeEntry, hc, hrn]
        · by_cases hp : p = p' <;> by_cases hn : n = n' <;>
            simp_all [shelveWork, shelveShelf, mergeEntry, namesStep, namesOn, contentsStep, contentsOn, execStep, assemble,
              threeWay, overrideAbsent, pick, pairOf, seenExec, recreatedExec, norm, execSafe, recOk] <;> grind
      | whole =>
        by_cases hff : k = .file ∧ k' = .file
        · obtain ⟨hk, hk'⟩ := hff
          subst hk hk'
          cases hrn : s.rename <;> by_cases hp : p = p' <;> by_cases hn : n = n' <;> by_cases hcc : c = c' <;>
            simp_all [shelveWork, shelveShelf, mergeEntry, namesStep, namesOn, contentsStep, contentsOn, execStep, assemble,
              threeWay, overrideAbsent, pick, pairOf, seenExec, recreatedExec, norm, execSafe, recOk] <;> grind
        · cases hrn : s.rename <;> cases k <;> cases k' <;>
            simp_all [shelveWork, shelveShelf, mergeEntry, namesStep, namesOn, contentsStep, contentsOn, execStep, assemble,
              threeWay, overrideAbsent, pick, pairOf, seenExec, recreatedExec, norm, execSafe, recOk] <;> grind
      | chunks bits =>
        simp [shapeOk, CSel.shapeOk, hc] at hs
        obtain ⟨⟨⟨hk1, hk2⟩, hl1⟩, hl2⟩ := hs
        subst hk1 hk2
        simp only [shelveWork, shelveShelf, hc] at hr ⊢
        exact merge_chunks_case v rec s.rename bits p p' n n' c c' e e' hl1 hl2 hr

end BreezyVerif.C15
