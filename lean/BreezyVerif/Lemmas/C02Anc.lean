import BreezyVerif.Lemmas.C02Check
/-
C02: revision ancestry (`ranc`) is transitive and irreflexive on repositories
built from well-formed histories (ghost parents allowed); per-file ancestry
(`fanc`) is contained in it.
-/
namespace BreezyVerif.C02

/-- ids are taken in order: a revision's id is not recorded, not named as a
parent by an older revision, and not its own parent -/
def Fresh : State → Prop
  | [] => True
  | r :: older => r.id ∉ mentioned older ∧ r.id ∉ r.parents ∧ Fresh older

theorem build_Fresh : ∀ (h : List Commit), hist h → Fresh (build h)
  | [], _ => trivial
  | _ :: older, hh => ⟨hh.2.1, hh.2.2.1, build_Fresh older hh.1⟩

/-- everything in `ranc` is named as a parent by some revision -/
theorem ranc_sub_parents {st : State} {x y : Rev} (h : y ∈ ranc st x) :
    y ∈ st.flatMap (·.parents) := by
  induction st generalizing x y with
  | nil => simp [ranc] at h
  | cons r older ih =>
    simp only [ranc] at h
    simp only [List.flatMap_cons, List.mem_append]
    by_cases e : r.id = x
    · simp only [e, if_true, List.mem_append, List.mem_flatMap] at h
      rcases h with h | ⟨p, _, h⟩
      · exact Or.inl h
      · exact Or.inr (ih h)
    · simp only [e, if_false] at h
      exact Or.inr (ih h)

theorem ranc_mem_mentioned {st : State} {x y : Rev} (h : y ∈ ranc st x) : y ∈ mentioned st :=
  List.mem_append_right _ (ranc_sub_parents h)

/-- **revision ancestry is transitive** -/
theorem ranc_trans {st : State} (hf : Fresh st) {x y z : Rev}
    (hx : x ∈ ranc st z) (hy : y ∈ ranc st x) : y ∈ ranc st z := by
  induction st generalizing x y z with
  | nil => simp [ranc] at hx
  | cons r older ih =>
    obtain ⟨h1, h2, hf'⟩ := hf
    by_cases e : r.id = z
    · subst e
      rw [ranc_cons_self] at hx ⊢
      simp only [List.mem_append, List.mem_flatMap] at hx ⊢
      rcases hx with hx | ⟨p, hp, hx⟩
      · have hne : x ≠ r.id := fun e => h2 (e ▸ hx)
        rw [ranc_cons_ne _ _ _ hne] at hy
        exact Or.inr ⟨x, hx, hy⟩
      · have hne : x ≠ r.id := fun e => h1 (e ▸ ranc_mem_mentioned hx)
        rw [ranc_cons_ne _ _ _ hne] at hy
        exact Or.inr ⟨p, hp, ih hf' hx hy⟩
    · have e' : z ≠ r.id := fun h => e h.symm
      rw [ranc_cons_ne _ _ _ e'] at hx ⊢
      have hne : x ≠ r.id := fun e => h1 (e ▸ ranc_mem_mentioned hx)
      rw [ranc_cons_ne _ _ _ hne] at hy
      exact ih hf' hx hy

/-- **no revision is its own ancestor** -/
theorem ranc_irrefl {st : State} (hf : Fresh st) (x : Rev) : x ∉ ranc st x := by
  induction st with
  | nil => simp [ranc]
  | cons r older ih =>
    obtain ⟨h1, h2, hf'⟩ := hf
    by_cases e : r.id = x
    · subst e
      rw [ranc_cons_self]
      simp only [List.mem_append, List.mem_flatMap, not_or, not_exists, not_and]
      exact ⟨h2, fun p _ h => h1 (ranc_mem_mentioned h)⟩
    · have e' : x ≠ r.id := fun h => e h.symm
      rw [ranc_cons_ne _ _ _ e']
      exact ih hf'

/-- a parent of a recorded revision, and every ancestor of that parent, is an
ancestor of the revision -/
theorem ranc_of_parent {st : State} (hf : Fresh st) {r : Rec} (hr : r ∈ st) {q : Rev}
    (hq : q ∈ r.parents) : q ∈ ranc st r.id ∧ ∀ y ∈ ranc st q, y ∈ ranc st r.id := by
  induction st with
  | nil => simp at hr
  | cons a older ih =>
    obtain ⟨h1, h2, hf'⟩ := hf
    rcases List.mem_cons.mp hr with h | h
    · subst h
      rw [ranc_cons_self]
      have hne : q ≠ r.id := fun e => h2 (e ▸ hq)
      rw [ranc_cons_ne _ _ _ hne]
      refine ⟨List.mem_append_left _ hq, fun y hy => List.mem_append_right _ ?_⟩
      exact List.mem_flatMap.mpr ⟨q, hq, hy⟩
    · have hr' : r.id ≠ a.id := fun e => h1 (e ▸ id_mem_mentioned (id_mem_ids h))
      have hq' : q ≠ a.id := fun e => h1 (e ▸ parent_mem_mentioned h hq)
      rw [ranc_cons_ne _ _ _ hr', ranc_cons_ne _ _ _ hq']
      exact ih hf' h

/-- generic induction on `fanc`: a transitive relation that contains every
stored parent edge contains per-file ancestry -/
theorem fanc_induct (A : FileId → Rev → Rev → Prop)
    (trans : ∀ f x p y, A f x p → A f p y → A f x y) :
    ∀ (g : TGraph), (∀ k ps, (k, ps) ∈ g → ∀ p ∈ ps, A k.1 k.2 p) →
      ∀ f x y, y ∈ fanc g f x → A f x y
  | [], _, _, _, _, h => by simp [fanc] at h
  | (k, ps) :: older, edge, f, x, y, h => by
    have ih := fanc_induct A trans older fun k' ps' hk' => edge k' ps' (List.mem_cons_of_mem _ hk')
    simp only [fanc] at h
    by_cases e : k = (f, x)
    · simp only [e, if_true, List.mem_append, List.mem_flatMap] at h
      have hedge := edge k ps List.mem_cons_self
      rw [e] at hedge
      rcases h with h | ⟨p, hp, h⟩
      · exact hedge y h
      · exact trans f x p y (hedge p hp) (ih f p y h)
    · simp only [e, if_false] at h
      exact ih f x y h

theorem textsOf_mem {st : State} {k : FileId × Rev} {ps : List Rev} (h : (k, ps) ∈ textsOf st) :
    ∃ r ∈ st, r.id = k.2 ∧ (k.1, ps) ∈ r.texts := by
  simp only [textsOf, List.mem_flatMap, List.mem_map] at h
  obtain ⟨r, hr, t, ht, hte⟩ := h
  have h1 : t.1 = k.1 := by have := congrArg (fun z => z.1.1) hte; simpa using this
  have h2 : r.id = k.2 := by have := congrArg (fun z => z.1.2) hte; simpa using this
  have h3 : t.2 = ps := by have := congrArg (fun z => z.2) hte; simpa using this
  refine ⟨r, hr, h2, ?_⟩
  rw [← h1, ← h3]; exact ht

/-- every stored per-file parent edge is a revision-ancestry edge -/
theorem text_edge_ranc (h : List Commit) (hh : hist h) :
    ∀ k ps, (k, ps) ∈ textsOf (build h) → ∀ p ∈ ps, p ∈ ranc (build h) k.2 := by
  intro k ps hk p hp
  have w := build_WF h hh
  have hf := build_Fresh h hh
  obtain ⟨r, hr, hid, ht⟩ := textsOf_mem hk
  have hps := parents_heads_build h hh r hr (k.1, ps) ht
  simp only at hps
  rw [hps] at hp
  obtain ⟨q, hq, e, he, hrev⟩ := candidates_entry (heads_subset hp)
  obtain ⟨r', hr', hid', hl⟩ := entryIn_mem he
  obtain ⟨hq1, hq2⟩ := ranc_of_parent hf hr hq
  rw [← hid]
  rcases w.anc r' hr' k.1 e hl with h1 | h1
  · rw [← hrev, h1, hid']; exact hq1
  · rw [← hrev]; exact hq2 _ (hid' ▸ h1)

/-- per-file ancestry is contained in revision ancestry -/
theorem fanc_sub_ranc_build (h : List Commit) (hh : hist h) (f : FileId) (x y : Rev)
    (hy : y ∈ fanc (textsOf (build h)) f x) : y ∈ ranc (build h) x :=
  fanc_induct (fun _ x y => y ∈ ranc (build h) x)
    (fun _ _ _ _ h1 h2 => ranc_trans (build_Fresh h hh) h1 h2)
    (textsOf (build h)) (text_edge_ranc h hh) f x y hy

end BreezyVerif.C02
