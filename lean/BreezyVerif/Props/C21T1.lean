import BreezyVerif.Model.C21
import BreezyVerif.Generated.C21
/-! C21 — T1 tie: the decision functions transcribed from the current source of
`breezy/branch.py` equal the model. -/
namespace BreezyVerif.C21

/-- `Branch._revision_relations` as transcribed from the source = model -/
theorem revision_relations_gen_eq (hs : List Tip) (a b : Tip) :
    revisionRelationsGen hs a b = revisionRelations hs a b := by
  unfold revisionRelationsGen revisionRelations
  grind

/-- `Branch._check_if_descendant_or_diverged` as transcribed from the source = model -/
theorem check_relation_gen_eq (r : Relation) : checkRelationGen r = checkRelation r := by
  unfold checkRelationGen checkRelation
  cases r <;> simp

end BreezyVerif.C21
