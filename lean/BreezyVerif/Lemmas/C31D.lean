import BreezyVerif.Lemmas.C31C
/-
Helper lemmas for C31, part 4: a transport built from a URL.  For a URL path in
normal form (`normalisedUrl`) the `.base` the jail looks at, the path handed
to the local transport and the location the OS resolves all have the same
"kept" segments (non-empty, not "."), so a jail prefix on `.base` is a prefix
of the location.
-/
namespace BreezyVerif.C31

/-- segments that survive OS resolution / chroot combination when no ".." is present -/
def keep (s : Seg) : Bool := decide (s ≠ [] ∧ s ≠ dotSeg)

def segsK (b : Bytes) : List Seg := (splitSl b).filter keep

/-! ### splitting -/

theorem splitSl_append_sl_gen (a b : Bytes) : splitSl (a ++ SL :: b) = splitSl a ++ splitSl b := by
  induction a with
  | nil => simp [splitSl_cons_sl, splitSl]
  | cons c r ih =>
    by_cases hc : c = SL
    · subst hc
      simp only [List.cons_append, splitSl_cons_sl, ih]
    · obtain ⟨s, ss, h1, h2⟩ := splitSl_cons_ne hc r
      simp only [List.cons_append]
      have h3 : splitSl (r ++ SL :: b) = s :: (ss ++ splitSl b) := by rw [ih, h1]; rfl
      rw [splitSl_cons_ne' hc h3, h2]
      rfl

theorem segsK_nil : segsK [] = [] := by decide

theorem segsK_append_sl (a b : Bytes) : segsK (a ++ SL :: b) = segsK a ++ segsK b := by
  unfold segsK
  rw [splitSl_append_sl_gen, List.filter_append]

theorem segsK_snoc_sl (a : Bytes) : segsK (a ++ [SL]) = segsK a := by
  rw [segsK_append_sl, segsK_nil, List.append_nil]

theorem withSlash_cases (p : Bytes) : withSlash p = p ++ [SL] ∨ (withSlash p = p ∧ ∃ q, p = q ++ [SL]) := by
  unfold withSlash
  split
  · rename_i h
    right
    refine ⟨rfl, ?_⟩
    obtain ⟨q, hq⟩ := List.getLast?_eq_some_iff.mp h
    exact ⟨q, hq⟩
  · exact Or.inl rfl

theorem segsK_withSlash (p : Bytes) : segsK (withSlash p) = segsK p := by
  rcases withSlash_cases p with h | ⟨h, _⟩
  · rw [h, segsK_snoc_sl]
  · rw [h]

theorem segsK_withSlash_append (p rel : Bytes) : segsK (withSlash p ++ rel) = segsK p ++ segsK rel := by
  rcases withSlash_cases p with h | ⟨h, q, hq⟩
  · rw [h, List.append_assoc, List.singleton_append, segsK_append_sl]
  · rw [h, hq, List.append_assoc, List.singleton_append, segsK_append_sl, segsK_snoc_sl]

theorem segsK_rawJoin (p rel : Bytes) : segsK (rawJoin p rel) = segsK p ++ segsK rel := by
  unfold rawJoin
  split
  · rename_i h; subst h; simp [segsK_nil]
  · exact segsK_withSlash_append p rel

theorem mem_splitSl_snoc {q : Bytes} {s : Seg} (h : s ∈ splitSl q) : s ∈ splitSl (q ++ [SL]) := by
  rw [splitSl_append_sl_gen]
  exact List.mem_append_left _ h

theorem mem_splitSl_rawJoin {p rel : Bytes} {s : Seg} (h : s ∈ splitSl (rawJoin p rel)) :
    s ∈ splitSl p ∨ s ∈ splitSl rel := by
  unfold rawJoin at h
  split at h
  · exact Or.inr h
  · rcases withSlash_cases p with hw | ⟨hw, q, hq⟩
    · rw [hw, List.append_assoc, List.singleton_append, splitSl_append_sl_gen] at h
      exact List.mem_append.mp h
    · rw [hw, hq, List.append_assoc, List.singleton_append, splitSl_append_sl_gen] at h
      rcases List.mem_append.mp h with h' | h'
      · left; rw [hq]; exact mem_splitSl_snoc h'
      · exact Or.inr h'

/-- splitting the join of slash-free segments gives the kept ones back -/
theorem segsK_joinSl (segs : List Seg) (h : ∀ s ∈ segs, SL ∉ s) : segsK (joinSl segs) = segs.filter keep := by
  cases segs with
  | nil => simp [joinSl, segsK_nil]
  | cons x t =>
    unfold segsK
    rw [splitSl_joinSl _ (by simp) h]

/-! ### resolution without ".." -/

theorem foldl_osStep_nodotdot : ∀ (segs : List Seg) (stk : List Seg),
    (∀ s ∈ segs, s ≠ dotdot) → segs.foldl osStep stk = (segs.filter keep).reverse ++ stk
  | [], stk, _ => by simp
  | x :: xs, stk, h => by
    have hx : x ≠ dotdot := h x (by simp)
    have ih := foldl_osStep_nodotdot xs (osStep stk x) (fun s hs => h s (List.mem_cons_of_mem _ hs))
    simp only [List.foldl_cons]
    rw [ih]
    unfold osStep keep
    by_cases h1 : x = []
    · simp [h1]
    · by_cases h2 : x = dotSeg
      · simp [h2]
      · simp [h1, h2, hx]

theorem cmbStep_eq_osStep : cmbStep = osStep := rfl

theorem osResolve_nodotdot {root : List Seg} {u : Bytes} (h : ∀ s ∈ splitSl u, s ≠ dotdot) :
    osResolve root u = root ++ segsK u := by
  unfold osResolve segsK
  rw [foldl_osStep_nodotdot _ _ h]
  simp

/-- the chroot combination of a mild path without ".." keeps exactly the kept segments -/
theorem combine_nil_nodotdot {x : Bytes} (hm : Mild x) (h : ∀ s ∈ splitSl x, s ≠ dotdot) :
    combine [] x = (segsK x).reverse := by
  unfold combine segsK
  simp only []
  rw [mild_normPct hm, cmbStep_eq_osStep]
  have : (if x.head? = some SL then ([] : List Seg) else []) = [] := by split <;> rfl
  rw [this, foldl_osStep_nodotdot _ _ h]
  simp

theorem keep_noSl_of_mem_segsK {x : Bytes} {s : Seg} (h : s ∈ segsK x) : s ∈ splitSl x ∧ keep s = true := by
  unfold segsK at h
  exact List.mem_filter.mp h

theorem filter_keep_segsK (x : Bytes) : (segsK x).filter keep = segsK x := by
  unfold segsK
  rw [List.filter_filter]
  simp

/-- behind a chroot layer: kept segments, mildness and absence of ".." are preserved -/
theorem stkPath_combine_nodotdot {x : Bytes} (hm : Mild x) (h : ∀ s ∈ splitSl x, s ≠ dotdot) :
    segsK (stkPath (combine [] x)) = segsK x
      ∧ Mild (stkPath (combine [] x))
      ∧ ∀ s ∈ splitSl (stkPath (combine [] x)), s ≠ dotdot := by
  rw [combine_nil_nodotdot hm h]
  unfold stkPath
  rw [List.reverse_reverse]
  have hsl : ∀ s ∈ segsK x, SL ∉ s := fun s hs => splitSl_noSl x s (keep_noSl_of_mem_segsK hs).1
  refine ⟨?_, ?_, ?_⟩
  · rw [segsK_joinSl _ hsl, filter_keep_segsK]
  · exact mild_joinSl _ (fun s hs => mild_splitSl hm s (keep_noSl_of_mem_segsK hs).1)
  · intro s hs
    cases hk : segsK x with
    | nil => rw [hk] at hs; simp [joinSl, splitSl] at hs; subst hs; simp [dotdot]
    | cons a t =>
      rw [splitSl_joinSl _ (by rw [hk]; simp) hsl] at hs
      exact h s (keep_noSl_of_mem_segsK hs).1

/-! ### decoding -/

theorem mild_decode_dot {s : Bytes} (h : Mild s) (hd : pctDecode s = dotSeg) : s = dotSeg := by
  obtain ⟨r1, rfl, h1, d1⟩ := mild_decode_head h hd isSafe_DOT
  rw [mild_decode_nil h1 d1]
  rfl

theorem keep_decode {s : Seg} (h : Mild s) : keep (pctDecode s) = keep s := by
  unfold keep
  by_cases h1 : s = []
  · subst h1; simp [pctDecode]
  · by_cases h2 : s = dotSeg
    · subst h2; decide
    · have e1 : pctDecode s ≠ [] := fun e => h1 (mild_decode_nil h e)
      have e2 : pctDecode s ≠ dotSeg := fun e => h2 (mild_decode_dot h e)
      simp [h1, h2, e1, e2]

theorem segsK_decode {b : Bytes} (h : Mild b) : segsK (pctDecode b) = (segsK b).map pctDecode := by
  unfold segsK
  rw [mild_split_decode h, List.filter_map]
  congr 1
  apply List.filter_congr
  intro s hs
  exact keep_decode (mild_splitSl h s hs)

/-- what the OS resolves for a mild relpath without "..": the kept segments, decoded — or, when
the decoded bytes are not UTF-8 and `unescape` hands its input back, the kept segments as written -/
theorem osRel_locate_nodotdot {root : List Seg} {b u : Bytes} (hm : Mild b)
    (hnd : ∀ s ∈ splitSl b, s ≠ dotdot) (h : osRel b = .ok u) :
    osResolve root u = root ++ (segsK b).map pctDecode
      ∨ (validUtf8 (pctDecode b) = false ∧ osResolve root u = root ++ segsK b) := by
  unfold osRel at h
  cases hu : unescape b with
  | error e => rw [hu] at h; cases h
  | ok v =>
    rw [hu] at h
    simp only [] at h
    split at h
    · cases h
    · cases h
      unfold unescape at hu
      split at hu
      · cases hu
      · simp only [] at hu
        split at hu
        · cases hu
          left
          rw [osResolve_nodotdot, segsK_decode hm]
          rw [mild_split_decode hm]
          intro s hs
          obtain ⟨t, ht, rfl⟩ := List.mem_map.mp hs
          intro hd
          exact hnd t ht (mild_decode_dotdot (mild_splitSl hm t ht) hd)
        · rename_i hv
          cases hu
          right
          exact ⟨by simpa using hv, osResolve_nodotdot hnd⟩

/-! ### `.base` of a transport built from a URL in normal form -/

theorem foldl_baseStep_normal : ∀ (segs : List Seg) (stk : List Seg),
    (∀ s ∈ segs, Mild s ∧ s ≠ dotdot) →
    segs.foldl baseStep stk = (segs.filter (fun s => s != dotSeg)).reverse ++ stk
  | [], stk, _ => by simp
  | x :: xs, stk, h => by
    obtain ⟨hm, hx⟩ := h x (by simp)
    have ih := foldl_baseStep_normal xs (baseStep stk x) (fun s hs => h s (List.mem_cons_of_mem _ hs))
    simp only [List.foldl_cons]
    rw [ih]
    unfold baseStep
    rw [mild_normPct hm]
    by_cases h2 : x = dotSeg
    · simp [h2]
    · simp [h2, hx]

theorem keep_imp_ne_dot (s : Seg) : (keep s && (s != dotSeg)) = keep s := by
  unfold keep
  by_cases h : s = dotSeg
  · simp [h]
  · simp [h]

/-- `.base` of a URL in normal form has the same kept segments as the URL path -/
theorem segsK_urlBase {p : Bytes} (hm : Mild p) (hnd : ∀ s ∈ splitSl p, s ≠ dotdot) :
    segsK (urlBase p) = segsK p := by
  unfold urlBase
  simp only []
  -- the segment list that is folded: splitSl p, possibly with an extra empty segment
  have key : ∀ segs : List Seg, (segs = splitSl p ∨ segs = splitSl p ++ [[]]) →
      segsK (if joinSl (segs.foldl baseStep []).reverse = [] then []
        else withSlash (joinSl (segs.foldl baseStep []).reverse)) = segsK p := by
    intro segs hs
    have hall : ∀ s ∈ segs, Mild s ∧ s ≠ dotdot := by
      intro s hm'
      rcases hs with e | e
      · rw [e] at hm'; exact ⟨mild_splitSl hm s hm', hnd s hm'⟩
      · rw [e] at hm'
        rcases List.mem_append.mp hm' with h' | h'
        · exact ⟨mild_splitSl hm s h', hnd s h'⟩
        · simp only [List.mem_singleton] at h'; subst h'; exact ⟨.nil, by simp [dotdot]⟩
    have hsl : ∀ s ∈ segs, SL ∉ s := by
      intro s hm'
      rcases hs with e | e
      · rw [e] at hm'; exact splitSl_noSl p s hm'
      · rw [e] at hm'
        rcases List.mem_append.mp hm' with h' | h'
        · exact splitSl_noSl p s h'
        · simp only [List.mem_singleton] at h'; subst h'; simp
    rw [foldl_baseStep_normal segs [] hall]
    simp only [List.append_nil, List.reverse_reverse]
    have hk : segsK (joinSl (segs.filter (fun s => s != dotSeg))) = segsK p := by
      rw [segsK_joinSl _ (fun s h' => hsl s (List.mem_filter.mp h').1), List.filter_filter]
      simp only [keep_imp_ne_dot]
      unfold segsK
      rcases hs with e | e
      · rw [e]
      · have hk0 : List.filter keep [[]] = [] := by decide
        rw [e, List.filter_append, hk0, List.append_nil]
    split
    · rename_i hr
      rw [hr] at hk
      exact hk
    · rw [segsK_withSlash]; exact hk
  split
  · rename_i l hl
    split
    · exact key _ (Or.inr rfl)
    · exact key _ (Or.inl rfl)
  · exact key _ (Or.inl rfl)

/-! ### the jail prefix test on `.base` -/

/-- segments a jail root cloned from the backing transport consists of -/
def JailSeg (s : Seg) : Prop := Canon s ∧ SL ∉ s ∧ keep s = true

theorem jailSeg_of_good {s : Seg} (h : goodJailSeg s = true) : JailSeg s := by
  unfold goodJailSeg at h
  simp only [Bool.and_eq_true, Bool.not_eq_eq_eq_not, Bool.not_true] at h
  obtain ⟨⟨⟨h1, h2⟩, h3⟩, _⟩ := h
  refine ⟨canon_of_isCanon h1, ?_, h3⟩
  intro hm
  have : s.contains SL = true := List.contains_iff_mem.mpr hm
  rw [this] at h2
  cases h2

theorem normalisedUrl_spec {p : Bytes} (h : normalisedUrl p = true) :
    Canon p ∧ ∀ s ∈ splitSl p, s ≠ dotdot := by
  unfold normalisedUrl at h
  simp only [Bool.and_eq_true, List.all_eq_true, bne_iff_ne, ne_eq] at h
  exact ⟨canon_of_isCanon h.1, h.2⟩

theorem isChildUrl_cloneBase {pfx ub : Bytes} {J : List Seg}
    (h : isChildUrl (pfx ++ cloneBase J) (pfx ++ ub) = true) : cloneBase J <+: ub ++ [SL] := by
  unfold cloneBase at h ⊢
  split
  · exact List.nil_prefix
  · rename_i hJ
    simp only [hJ, if_false] at h
    unfold isChildUrl at h
    simp only [Bool.or_eq_true, beq_iff_eq] at h
    rcases h with h | h
    · have e : pfx ++ (stkPath J ++ [SL]) = (pfx ++ stkPath J) ++ [SL] := by simp
      rw [e, List.dropLast_concat] at h
      have : ub = stkPath J := List.append_cancel_left h
      rw [this]
      exact List.prefix_refl _
    · have := List.isPrefixOf_iff_prefix.mp h
      have h2 : stkPath J ++ [SL] <+: ub := (List.prefix_append_right_inj pfx).mp this
      exact h2.trans (List.prefix_append _ _)

/-- a jail base that is a string prefix of X is a segment prefix of the kept segments of X -/
theorem jail_prefix_segs {J : List Seg} (hJ : ∀ s ∈ J, JailSeg s) {X : Bytes}
    (h : cloneBase J <+: X) : J.reverse <+: segsK X := by
  unfold cloneBase at h
  split at h
  · rename_i e; subst e; exact List.nil_prefix
  · rename_i hne
    obtain ⟨t, ht⟩ := h
    unfold stkPath at ht
    have hsl : ∀ s ∈ J.reverse, SL ∉ s := fun s hs => (hJ s (List.mem_reverse.mp hs)).2.1
    have hk : J.reverse.filter keep = J.reverse :=
      List.filter_eq_self.mpr (fun s hs => (hJ s (List.mem_reverse.mp hs)).2.2)
    rw [← ht, List.append_assoc, List.singleton_append, segsK_append_sl, segsK_joinSl _ hsl, hk]
    exact List.prefix_append _ _

end BreezyVerif.C31
