import BreezyVerif.Model.C18
/-!
C18 — theorems.  All values of any type with decidable equality, any number of
LCAs (unbounded — stronger than the property's "up to a bound").
-/
namespace BreezyVerif.C18
variable {α : Type} [DecidableEq α]

/-- Exchanging THIS and OTHER exchanges the winner, except for the documented
tie-break: when both sides agree the answer is `this` both ways. -/
theorem three_way_swap (b o t : α) (h : o ≠ t) :
    threeWay b t o = (threeWay b o t).swap := by
  unfold threeWay Winner.swap
  grind

theorem three_way_tie (b v : α) : threeWay b v v = .this := by
  unfold threeWay; grind

theorem lca_tie (b : α) (ls : List α) (v : α) (a : Bool) : lcaMultiWay b ls v v a = .this := by
  unfold lcaMultiWay; simp

theorem lca_swap (b : α) (ls : List α) (o t : α) (a : Bool) (h : o ≠ t) :
    lcaMultiWay b ls t o a = (lcaMultiWay b ls o t a).swap := by
  unfold lcaMultiWay
  have h' : t ≠ o := fun e => h e.symm
  simp only [h, h', if_false]
  split
  · exact three_way_swap b o t h
  · split
    · exact three_way_swap _ o t h
    · cases a <;> simp only [Winner.swap, Bool.false_eq_true, if_false, if_true] <;>
        (repeat' split) <;> simp_all

/-- all LCAs carry the same value `v` ⇒ plain three-way on `v` (or on `base`
when that value is the base value itself / there are no LCAs) -/
theorem lca_eq_three_way_of_const (b v : α) (ls : List α) (o t : α) (a : Bool)
    (hne : ls ≠ []) (hall : ∀ x ∈ ls, x = v) :
    lcaMultiWay b ls o t a = threeWay v o t := by
  unfold lcaMultiWay
  by_cases hot : o = t
  · subst hot; simp [three_way_tie]
  · simp only [hot, if_false]
    by_cases hv : v = b
    · have : ls.filter (fun x => decide (x ≠ b)) = [] := by
        simp only [List.filter_eq_nil_iff]; intro x hx; simp [hall x hx, hv]
      rw [this, hv]
    · have hf : ls.filter (fun x => decide (x ≠ b)) = ls := by
        simp only [List.filter_eq_self]; intro x hx; simp [hall x hx, hv]
      rw [hf]
      match ls, hne, hall with
      | x :: rest, _, hall =>
        have hx : x = v := hall x (by simp)
        subst hx
        have : rest.all (fun w => decide (w = x)) = true := by
          simp only [List.all_eq_true, decide_eq_true_eq]
          intro w hw; exact hall w (by simp [hw])
        simp [this]

theorem lca_nil_eq_three_way (b o t : α) (a : Bool) :
    lcaMultiWay b [] o t a = threeWay b o t := by
  unfold lcaMultiWay
  by_cases hot : o = t
  · subst hot; simp [three_way_tie]
  · simp [hot]

/-- A side whose value is one of the ancestors' values (it did not change)
never wins against a side whose value is new (for `_lca_multi_way`: with either
value of `allow_overriding_lca`). -/
theorem three_way_unchanged_never_wins (b o t : α) (ht : t = b) (ho : o ≠ b) :
    threeWay b o t = .other := by
  unfold threeWay; grind

theorem three_way_unchanged_never_wins' (b o t : α) (ho : o = b) (_ht : t ≠ b) :
    threeWay b o t = .this := by
  unfold threeWay; grind

/-- flag monotonicity: without `allow_overriding_lca` the verdict is either a
conflict or exactly the verdict with the flag — switching the flag off never
turns one winner into the other, it only withholds verdicts. -/
theorem lca_allow_false_conflict_or_eq (b : α) (ls : List α) (o t : α) :
    lcaMultiWay b ls o t false = .conflict ∨
      lcaMultiWay b ls o t false = lcaMultiWay b ls o t true := by
  unfold lcaMultiWay
  split
  · exact Or.inr rfl
  · split
    · exact Or.inr rfl
    · split
      · exact Or.inr rfl
      · exact Or.inl (by simp)

theorem lca_unchanged_never_wins (b : α) (ls : List α) (o t : α) (a : Bool)
    (ht : t ∈ b :: ls) (ho : o ∉ b :: ls) :
    lcaMultiWay b ls o t a ≠ .this := by
  have hot : o ≠ t := fun e => ho (e ▸ ht)
  have hob : o ≠ b := fun e => ho (by simp [e])
  have htrue : lcaMultiWay b ls o t true ≠ .this := by
    unfold lcaMultiWay
    simp only [hot, if_false]
    have hsub : ∀ x ∈ ls.filter (fun v => decide (v ≠ b)), x ∈ ls := fun x hx => (List.mem_filter.mp hx).1
    split
    · rename_i hnil
      unfold threeWay; grind
    · rename_i v rest hf
      have hvmem : v ∈ ls := hsub v (by rw [hf]; simp)
      have hov : o ≠ v := fun e => ho (by simp [e, hvmem])
      have honot : o ∉ v :: rest := fun hm => ho (by
        have := hsub o (by rw [hf]; exact hm); simp [this])
      split
      · unfold threeWay; grind
      · simp only [if_true]
        split <;> simp
  cases a with
  | true => exact htrue
  | false =>
    rcases lca_allow_false_conflict_or_eq b ls o t with h | h
    · rw [h]; simp
    · rw [h]; exact htrue

theorem lca_unchanged_never_wins' (b : α) (ls : List α) (o t : α) (a : Bool)
    (ho : o ∈ b :: ls) (ht : t ∉ b :: ls) :
    lcaMultiWay b ls o t a ≠ .other := by
  have hot : o ≠ t := fun e => ht (e ▸ ho)
  have := lca_unchanged_never_wins b ls t o a ho ht
  rw [lca_swap b ls o t a hot] at this
  intro h; rw [h] at this; exact this rfl

/-- the decision as a function of the filtered LCA values only: it looks at
them through "is it empty", "are they all one value" and membership -/
def lcaOn (b o t : α) (a : Bool) (f : List α) : Winner :=
  if f = [] then threeWay b o t
  else if ∃ v, v ∈ f ∧ ∀ w ∈ f, w = v then
    (match f with | [] => threeWay b o t | v :: _ => threeWay v o t)
  else if a then
    (if o ∈ f then (if t ∈ f then .conflict else .this)
     else if t ∈ f then .other else .conflict)
  else .conflict

theorem lca_eq_lcaOn (b : α) (ls : List α) (o t : α) (a : Bool) (h : o ≠ t) :
    lcaMultiWay b ls o t a = lcaOn b o t a (ls.filter (fun v => v ≠ b)) := by
  unfold lcaMultiWay lcaOn
  rw [if_neg h]
  cases hf : ls.filter (fun v => decide (v ≠ b)) with
  | nil => rw [if_pos rfl]
  | cons v rest =>
    rw [if_neg (List.cons_ne_nil v rest)]
    by_cases hall : rest.all (fun w => decide (w = v)) = true
    · have hex : ∃ v', v' ∈ v :: rest ∧ ∀ w ∈ v :: rest, w = v' := by
        refine ⟨v, List.mem_cons_self, ?_⟩
        intro w hw
        rcases List.mem_cons.mp hw with rfl | hw
        · rfl
        · exact of_decide_eq_true ((List.all_eq_true.mp hall) w hw)
      show (if rest.all (fun w => decide (w = v)) = true then _ else _) = _
      rw [if_pos hall, if_pos hex]
    · have hnex : ¬ ∃ v', v' ∈ v :: rest ∧ ∀ w ∈ v :: rest, w = v' := by
        rintro ⟨v', _, hv'⟩
        apply hall
        have hv : v = v' := hv' v List.mem_cons_self
        subst hv
        rw [List.all_eq_true]
        intro w hw
        exact decide_eq_true (hv' w (List.mem_cons_of_mem _ hw))
      show (if rest.all (fun w => decide (w = v)) = true then _ else _) = _
      rw [if_neg hall, if_neg hnex]

theorem lcaOn_perm (b o t : α) (a : Bool) (f f' : List α) (hp : f.Perm f') :
    lcaOn b o t a f = lcaOn b o t a f' := by
  have hmem : ∀ x, x ∈ f ↔ x ∈ f' := fun x => hp.mem_iff
  unfold lcaOn
  by_cases hn : f = []
  · have hn' : f' = [] := by subst hn; exact List.Perm.eq_nil hp.symm
    rw [if_pos hn, if_pos hn']
  · have hn' : ¬ f' = [] := fun h => hn (by subst h; exact List.Perm.eq_nil hp)
    rw [if_neg hn, if_neg hn']
    have hex : (∃ v, v ∈ f ∧ ∀ w ∈ f, w = v) ↔ (∃ v, v ∈ f' ∧ ∀ w ∈ f', w = v) := by
      constructor
      · rintro ⟨v, hv, hall⟩
        exact ⟨v, (hmem v).mp hv, fun w hw => hall w ((hmem w).mpr hw)⟩
      · rintro ⟨v, hv, hall⟩
        exact ⟨v, (hmem v).mpr hv, fun w hw => hall w ((hmem w).mp hw)⟩
    by_cases he : ∃ v, v ∈ f ∧ ∀ w ∈ f, w = v
    · rw [if_pos he, if_pos (hex.mp he)]
      obtain ⟨v, hv, hall⟩ := he
      have hall' : ∀ w ∈ f', w = v := fun w hw => hall w ((hmem w).mpr hw)
      match f, f', hn, hn', hall, hall' with
      | x :: _, y :: _, _, _, hall, hall' =>
        have hx : x = v := hall x List.mem_cons_self
        have hy : y = v := hall' y List.mem_cons_self
        show threeWay x o t = threeWay y o t
        rw [hx, hy]
    · rw [if_neg he, if_neg (fun h => he (hex.mpr h))]
      by_cases ha : a = true
      · rw [if_pos ha, if_pos ha]
        by_cases ho : o ∈ f <;> by_cases ht : t ∈ f
        · rw [if_pos ho, if_pos ht, if_pos ((hmem o).mp ho), if_pos ((hmem t).mp ht)]
        · rw [if_pos ho, if_neg ht, if_pos ((hmem o).mp ho), if_neg (fun h => ht ((hmem t).mpr h))]
        · rw [if_neg ho, if_pos ht, if_neg (fun h => ho ((hmem o).mpr h)), if_pos ((hmem t).mp ht)]
        · rw [if_neg ho, if_neg ht, if_neg (fun h => ho ((hmem o).mpr h)), if_neg (fun h => ht ((hmem t).mpr h))]
      · rw [if_neg ha, if_neg ha]

/-- The verdict does not depend on the order of the LCA values: permuting the
LCA list never changes it (any number of LCAs, any values). -/
theorem lca_perm (b : α) (ls ls' : List α) (o t : α) (a : Bool) (hp : ls.Perm ls') :
    lcaMultiWay b ls o t a = lcaMultiWay b ls' o t a := by
  by_cases hot : o = t
  · subst hot; rw [lca_tie, lca_tie]
  · rw [lca_eq_lcaOn b ls o t a hot, lca_eq_lcaOn b ls' o t a hot]
    exact lcaOn_perm b o t a _ _ (hp.filter _)

/-- Two different ancestor values conflict: if THIS and OTHER each carry a
(different) non-base LCA value and the LCAs do not all agree, the verdict is a
conflict — whatever the number or order of LCAs. -/
theorem lca_two_lca_values_conflict (b : α) (ls : List α) (o t : α)
    (ho : o ∈ ls) (ht : t ∈ ls) (hob : o ≠ b) (htb : t ≠ b) (hot : o ≠ t) :
    lcaMultiWay b ls o t true = .conflict := by
  rw [lca_eq_lcaOn b ls o t true hot]
  have hof : o ∈ ls.filter (fun v => decide (v ≠ b)) := List.mem_filter.mpr ⟨ho, decide_eq_true hob⟩
  have htf : t ∈ ls.filter (fun v => decide (v ≠ b)) := List.mem_filter.mpr ⟨ht, decide_eq_true htb⟩
  generalize ls.filter (fun v => decide (v ≠ b)) = f at hof htf
  unfold lcaOn
  have hn : ¬ f = [] := fun h => by subst h; cases hof
  have hne : ¬ ∃ v, v ∈ f ∧ ∀ w ∈ f, w = v := by
    rintro ⟨v, _, hall⟩
    exact hot ((hall o hof).trans (hall t htf).symm)
  rw [if_neg hn, if_neg hne, if_pos rfl, if_pos hof, if_pos htf]

/-- what the flag withholds, exactly (1): where the non-base LCA values all
agree the flag is irrelevant … -/
theorem lca_allow_false_agree (b : α) (ls : List α) (o t v : α)
    (h : ∀ w ∈ ls.filter (fun x => x ≠ b), w = v) :
    lcaMultiWay b ls o t false = lcaMultiWay b ls o t true := by
  by_cases hot : o = t
  · subst hot; rw [lca_tie, lca_tie]
  · rw [lca_eq_lcaOn b ls o t false hot, lca_eq_lcaOn b ls o t true hot]
    generalize ls.filter (fun x => decide (x ≠ b)) = f at h
    unfold lcaOn
    by_cases hn : f = []
    · rw [if_pos hn, if_pos hn]
    · rw [if_neg hn, if_neg hn]
      have hex : ∃ v, v ∈ f ∧ ∀ w ∈ f, w = v := by
        cases f with
        | nil => exact absurd rfl hn
        | cons x xs => exact ⟨x, List.mem_cons_self, fun w hw => (h w hw).trans (h x List.mem_cons_self).symm⟩
      rw [if_pos hex, if_pos hex]

/-- … (2): where two different non-base LCA values exist and the sides differ,
the verdict without the flag is a conflict whatever THIS and OTHER are. -/
theorem lca_allow_false_disagree (b : α) (ls : List α) (o t x y : α) (hot : o ≠ t)
    (hx : x ∈ ls) (hy : y ∈ ls) (hxb : x ≠ b) (hyb : y ≠ b) (hxy : x ≠ y) :
    lcaMultiWay b ls o t false = .conflict := by
  rw [lca_eq_lcaOn b ls o t false hot]
  have hxf : x ∈ ls.filter (fun v => decide (v ≠ b)) := List.mem_filter.mpr ⟨hx, decide_eq_true hxb⟩
  have hyf : y ∈ ls.filter (fun v => decide (v ≠ b)) := List.mem_filter.mpr ⟨hy, decide_eq_true hyb⟩
  generalize ls.filter (fun v => decide (v ≠ b)) = f at hxf hyf
  unfold lcaOn
  have hn : ¬ f = [] := fun h => by subst h; cases hxf
  have hne : ¬ ∃ v, v ∈ f ∧ ∀ w ∈ f, w = v := by
    rintro ⟨v, _, hall⟩
    exact hxy ((hall x hxf).trans (hall y hyf).symm)
  rw [if_neg hn, if_neg hne]
  simp

/-- LCA values equal to the base value are "not interesting": dropping them from
the LCA list never changes the verdict (so an LCA list consisting of base values
only behaves like no LCA at all: `lca_nil_eq_three_way`). -/
theorem lca_base_values_irrelevant (b : α) (ls : List α) (o t : α) (a : Bool) :
    lcaMultiWay b (ls.filter (fun v => v ≠ b)) o t a = lcaMultiWay b ls o t a := by
  unfold lcaMultiWay
  rw [List.filter_filter]
  simp only [Bool.and_self]

/-- non-vacuity: concrete instances of the hypotheses -/
example : lcaMultiWay 0 [1, 2] 1 3 true = .this ∧ (1 : Nat) ∈ [0, 1, 2] ∧ (3 : Nat) ∉ [0, 1, 2] := by decide
example : lcaMultiWay 0 [1, 1] 1 3 false = threeWay 1 1 3 := by decide
/-- the flag matters (so `lca_allow_false_conflict_or_eq` is not `rfl`), and
`lca_unchanged_never_wins` has instances for both flag values -/
example : lcaMultiWay 0 [1, 2] 1 3 false = .conflict ∧ lcaMultiWay 0 [1, 2] 1 3 true = .this := by decide
example : lcaMultiWay 0 [1, 2] 3 1 false = .conflict ∧ lcaMultiWay 0 [1, 2] 3 1 true = .other
    ∧ (1 : Nat) ∈ [0, 1, 2] ∧ (3 : Nat) ∉ [0, 1, 2] := by decide
example : (∀ w ∈ [0, 1, 1].filter (fun x => x ≠ 0), w = 1) ∧ lcaMultiWay 0 [0, 1, 1] 1 3 false = .this := by decide

end BreezyVerif.C18
