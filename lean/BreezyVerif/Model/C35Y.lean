import BreezyVerif.Model.C35
/-
C35 — which git objects `_tree_to_objects(tree, parent_trees, idmap)` *yields*
for a revision (the objects a push sends for it), with the dirty-directory
bookkeeping.  This part of the model is file-id based, like the code:
`InterTree.iter_changes` reports an entry when its parent directory (by file
id), name, kind, content or executable flag changed — an entry below a renamed
directory is *not* reported —, the directories to rebuild are the parents of
the old and new paths of the reported entries, the new location of the
directory an entry left (`find_target_path`, fix 9095241), all their
ancestors, and the root.
-/
namespace BreezyVerif.C35

mutual
/-- a versioned tree with file ids on directories too -/
inductive FNode where
  | file (k : Key) (content : Bytes) (exec : Bool)
  | link (k : Key) (target : Bytes)
  | dir (fid : Bytes) (cs : FChildren)
inductive FChildren where
  | nil
  | cons (name : Bytes) (n : FNode) (rest : FChildren)
end

structure FTree where
  rootFid : Bytes
  cs : FChildren

mutual
/-- forget the directory file ids (native histories record no unusual modes) -/
def eraseN : FNode → Node
  | .file k c x => .file k c x none
  | .link k t => .link k t none
  | .dir _ cs => .dir (eraseC cs)
def eraseC : FChildren → Children
  | .nil => .nil
  | .cons name n rest => .cons name (eraseN n) (eraseC rest)
end

def FNode.fid : FNode → Bytes
  | .file k _ _ => k.fid
  | .link k _ => k.fid
  | .dir f _ => f

/-- an inventory entry: file id, path, file id of the parent directory, name -/
structure Ent where
  fid : Bytes
  path : Path
  parent : Bytes
  name : Bytes
  node : FNode

mutual
def entsN (parent : Bytes) (path : Path) (name : Bytes) : FNode → List Ent
  | .file k c x => [⟨k.fid, path, parent, name, .file k c x⟩]
  | .link k t => [⟨k.fid, path, parent, name, .link k t⟩]
  | .dir f cs => ⟨f, path, parent, name, .dir f cs⟩ :: entsC f path cs
def entsC (parent : Bytes) (pre : Path) : FChildren → List Ent
  | .nil => []
  | .cons name n rest => entsN parent (pre ++ [name]) name n ++ entsC parent pre rest
end

/-- every entry of a tree, the root first (its parent and name are empty) -/
def FTree.ents (t : FTree) : List Ent :=
  ⟨t.rootFid, [], [], [], .dir t.rootFid t.cs⟩ :: entsC t.rootFid [] t.cs

def findEnt (es : List Ent) (fid : Bytes) : Option Ent := es.find? fun e => e.fid == fid

def entAtPath (es : List Ent) (p : Path) : Option Ent := es.find? fun e => e.path == p

/-- same kind, content / target and executable flag -/
def sameInfo : FNode → FNode → Bool
  | .file _ c x, .file _ c' x' => c == c' && x == x'
  | .link _ t, .link _ t' => t == t'
  | .dir .., .dir .. => true
  | _, _ => false

/-- `changed_content` of a reported change -/
def contentChanged : FNode → FNode → Bool
  | .file _ c _, .file _ c' _ => c != c'
  | .link _ t, .link _ t' => t != t'
  | .dir .., .dir .. => false
  | _, _ => true

structure Change where
  old : Option Ent
  new : Option Ent
  changedContent : Bool

/-- is the entry reported by `iter_changes(base)`, and with which old entry -/
def entChange (es0 : List Ent) (e1 : Ent) : Option Change :=
  match findEnt es0 e1.fid with
  | none => some ⟨none, some e1, true⟩
  | some e0 =>
    if e0.parent == e1.parent && e0.name == e1.name && sameInfo e0.node e1.node then none
    else some ⟨some e0, some e1, contentChanged e0.node e1.node⟩

/-- `tree.iter_changes(base_tree)`; no base = the empty tree of `null:` -/
def changes (base : Option FTree) (t : FTree) : List Change :=
  let es0 := match base with | some b => b.ents | none => []
  t.ents.filterMap (entChange es0) ++
    es0.filterMap fun e0 => if (findEnt t.ents e0.fid).isSome then none else some ⟨some e0, none, true⟩

/-- `change.name[1] in BANNED_FILENAMES`: the whole change is skipped -/
def Change.skipped (c : Change) : Bool :=
  match c.new with
  | some e => banned e.name
  | none => false

/-- which code is modelled: as found (`false`, `false`) or with the repairs of the
two findings about entries called `.git`:
`fixBanned` — a symlink renamed from `.git` to a legal name is sent
(symlink-renamed-from-banned-name);
`fixRen` — an entry renamed *to* `.git` still marks the directory it left dirty
(entry-renamed-to-banned-name; as found the whole change is skipped, the old
directory keeps its stale tree and a revision with no other change re-uses its
parent's root tree). -/
structure Variant where
  fixBanned : Bool
  fixRen : Bool

/-- same kind and same content / target: the key of the parent's text -/
def hitKey : FNode → FNode → Option Key
  | .file k c _, .file _ c' _ => if c == c' then some k else none
  | .link k t, .link _ t' => if t == t' then some k else none
  | _, _ => none

/-- `find_unchanged_parent_ie`: the key of the same file id in the first other
parent that holds it with the same kind and content / target -/
def otherHit (others : List FTree) (fid : Bytes) (n : FNode) : Option Key :=
  match others with
  | [] => none
  | o :: rest =>
    match (findEnt o.ents fid).bind fun e => hitKey e.node n with
    | some k => some k
    | none => otherHit rest fid n

/-- was the entry called `.git` in the base (never exported) -/
def Change.oldBanned (c : Change) : Bool :=
  match c.old with
  | some e => banned e.name
  | none => false

/-- the blob yielded for a reported file / symlink, if any.  A file is sent
whenever it is reported (unless another parent has the text and the SHA map
knows it); a symlink only when its target changed — `fixBanned = false` is the
code as found: a symlink that is merely *renamed* is assumed to be in the
target already, which is wrong when its old name was `.git` (never exported:
family symlink-renamed-from-banned-name); `fixBanned = true` also sends it
then. -/
def changeBlob (v : Variant) (H : GObj → Sha) (cache : Cache) (others : List FTree) (c : Change) :
    Option (Path × Sha) :=
  if c.skipped then none else
  match c.new with
  | some ⟨fid, path, _, _, .file _ content _⟩ =>
    match otherHit others fid (.file ⟨[], []⟩ content false) with
    | some pk =>
      -- the text exists in another parent: nothing to send when the SHA map knows it, or when the
      -- content did not change against the base either
      if (cache.get pk).isSome then none
      else if c.changedContent then some (path, H (.blob content)) else none
    | none => some (path, H (.blob content))
  | some ⟨fid, path, _, _, .link _ target⟩ =>
    if (c.changedContent || (v.fixBanned && c.oldBanned)) && (otherHit others fid (.link ⟨[], []⟩ target)).isNone then
      some (path, H (.blob target))
    else none
  | _ => none

/-- the directory an entry left, at its old path and where it is now (`find_target_path`) -/
def leftDirs (es0 es1 : List Ent) (c : Change) : List Path :=
  match c.old with
  | some e0 =>
    if (c.new.map (·.path)) != some e0.path then
      match entAtPath es0 e0.path.dropLast with
      | some d => (match findEnt es1 d.fid with | some d1 => [d1.path] | none => [])
      | none => []
    else []
  | none => []

/-- the directories one reported change marks dirty -/
def changeDirty (v : Variant) (es0 es1 : List Ent) (c : Change) : List Path :=
  if c.skipped then
    -- as found nothing at all; repaired: the directory the entry left
    if v.fixRen then
      (match c.old with
        | some e0 => if (c.new.map (·.path)) != some e0.path then [e0.path.dropLast] else []
        | none => []) ++ leftDirs es0 es1 c
    else []
  else
  (match c.old with | some e => [e.path.dropLast] | none => []) ++
  (match c.new with | some e => [e.path.dropLast] | none => []) ++
  leftDirs es0 es1 c

def prefixes : Path → List Path
  | [] => [[]]
  | x :: xs => [] :: (prefixes xs).map (x :: ·)

/-- dirty directories: closed upwards; empty when nothing was reported -/
def dirtyDirs (v : Variant) (base : Option FTree) (t : FTree) : List Path :=
  let es0 := match base with | some b => b.ents | none => []
  ((changes base t).flatMap (changeDirty v es0 t.ents)).flatMap prefixes |>.eraseDups

mutual
/-- mode and id `directory_to_tree` / `ie_to_hexsha` give an entry while the
dirty directories are rebuilt: a reported leaf has the id computed for the
change, any other leaf the SHA map's id (fall-back: its blob), a directory is
recomputed -/
def yExpN (H : GObj → Sha) (cache : Cache) (es0 : List Ent) (others : List FTree)
    (parent name : Bytes) : FNode → Option (Nat × Sha)
  | .file k c x =>
    let reported := (entChange es0 ⟨k.fid, [], parent, name, .file k c x⟩).isSome
    let id :=
      if reported then
        match otherHit others k.fid (.file k c x) with
        | some pk => (match cache.get pk with | some s => s | none => H (.blob c))
        | none => H (.blob c)
      else match cache.get k with | some s => s | none => H (.blob c)
    some (objectMode .file x, id)
  | .link k t =>
    let reported := (entChange es0 ⟨k.fid, [], parent, name, .link k t⟩).isSome
    let id := if reported then H (.blob t) else match cache.get k with | some s => s | none => H (.blob t)
    some (objectMode .symlink false, id)
  | .dir f cs =>
    let es := yExpC H cache es0 others f cs
    if es.isEmpty then none else some (S_IFDIR, H (.tree (sortEntries es)))
def yExpC (H : GObj → Sha) (cache : Cache) (es0 : List Ent) (others : List FTree)
    (parent : Bytes) : FChildren → List Entry
  | .nil => []
  | .cons name n rest =>
    if banned name then yExpC H cache es0 others parent rest else
    match yExpN H cache es0 others parent name n with
    | some (m, s) => ⟨m, name, s⟩ :: yExpC H cache es0 others parent rest
    | none => yExpC H cache es0 others parent rest
end

/-- the tree object yielded for a dirty directory (only the root may be empty) -/
def dirtyTree (H : GObj → Sha) (cache : Cache) (es0 : List Ent) (others : List FTree) (t : FTree)
    (p : Path) : Option (Path × Sha) :=
  match entAtPath t.ents p with
  | some ⟨_, _, _, _, .dir f cs⟩ =>
    let es := yExpC H cache es0 others f cs
    if p.isEmpty then some (p, H (.tree (sortEntries es)))
    else if es.isEmpty then none else some (p, H (.tree (sortEntries es)))
  | _ => none

/-- **`_tree_to_objects(tree, [base] + others, idmap)`**: path and id of every object yielded -/
def yielded (v : Variant) (H : GObj → Sha) (cache : Cache) (base : Option FTree) (others : List FTree)
    (t : FTree) : List (Path × Sha) :=
  let es0 := match base with | some b => b.ents | none => []
  (changes base t).filterMap (changeBlob v H cache others) ++
    (dirtyDirs v base t).filterMap (dirtyTree H cache es0 others t)

/-- the root tree id of the revision: the yielded root, or (nothing reported) the base's -/
def yieldedRoot (v : Variant) (H : GObj → Sha) (cache : Cache) (base : Option FTree) (others : List FTree)
    (t : FTree) : Option Sha :=
  ((yielded v H cache base others t).find? fun x => x.1.isEmpty).map (·.2)

/-- **the root tree id `_revision_to_objects` records**: the yielded root, or —
nothing was yielded ("pointless commit") — the root recorded for the first
parent (the empty tree without parents) -/
def recordedRoot (v : Variant) (H : GObj → Sha) (cache : Cache) (base : Option (FTree × Sha)) (others : List FTree)
    (t : FTree) : Sha :=
  match yieldedRoot v H cache (base.map (·.1)) others t with
  | some s => s
  | none =>
    match base with
    | some (_, bsha) => bsha
    | none => H (.tree [])

/-- one revision of a file-id history (see `Rev`) -/
structure FRev where
  parents : List Nat
  evict : List Key
  tree : FTree

structure FHState where
  trees : List FTree
  roots : List Sha
  cache : Cache

/-- `stepRev` with the recorded root taken from the file-id model of the code
(`recordedRoot`), so that the variants of the code as found are reproduced
exactly; the SHA map is updated as in `stepRev` -/
def stepRevF (v : Variant) (H : GObj → Sha) (s : FHState) (r : FRev) : FHState :=
  let cache := s.cache.filter fun e => !r.evict.contains e.1
  let present := r.parents.filterMap fun i =>
    match s.trees[i]?, s.roots[i]? with
    | some t, some x => some (t, x)
    | _, _ => none
  let base := present.head?
  let others := present.tail.map (·.1)
  let root := recordedRoot v H cache base others r.tree
  let new := incrEntriesC H cache (base.map fun b => eraseC b.1.cs) (others.map fun o => eraseC o.cs) [] (eraseC r.tree.cs)
  ⟨s.trees ++ [r.tree], s.roots ++ [root], new ++ cache⟩

def runHistF (v : Variant) (H : GObj → Sha) (h : List FRev) : FHState := h.foldl (stepRevF v H) ⟨[], [], []⟩


end BreezyVerif.C35
