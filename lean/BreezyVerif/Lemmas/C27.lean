import BreezyVerif.Lemmas.C26
import BreezyVerif.Model.C27
/-!
C27 — invariants over all event lists (no restriction on who breaks what).
-/
namespace BreezyVerif.C27
open BreezyVerif.C26

section
variable (id : Nat) (cfg : Nat → Cfg) (crashed : Nat → Bool) (me : Locker) (held : Option Dir)

/-- the pending directory carries exactly our current nonce whenever it may be renamed into place -/
theorem lstep_pend_exact (h : me.pc.hasPend = true → me.pend = okDir ⟨id, me.nonce⟩) :
    (lstep id cfg crashed me held).1.pc.hasPend = true →
      (lstep id cfg crashed me held).1.pend = okDir ⟨id, (lstep id cfg crashed me held).1.nonce⟩ := by
  revert h; lstep_cases

/-- `_lock_held` becomes true only through a confirming peek that reads our own nonce -/
theorem lstep_flag :
    (lstep id cfg crashed me held).1.held = true →
      me.held = true ∨ (me.pc = .aConfirm ∧ held = okDir ⟨id, me.nonce⟩ ∧
        (lstep id cfg crashed me held).2.1 = held) := by
  lstep_cases

/-- `_lock_held` is cleared only by the rename in `unlock`, which removes `held/` -/
theorem lstep_unflag :
    me.held = true → (lstep id cfg crashed me held).1.held = false →
      me.pc = .uRename ∧ (lstep id cfg crashed me held).2.1 = none := by
  lstep_cases

/-- a locker leaves `aConfirm` holding the lock, or with `held/` not being its own directory -/
theorem lstep_confirm (h : me.pc = .aConfirm) :
    (lstep id cfg crashed me held).2.1 = held ∧ (lstep id cfg crashed me held).1.pc = .idle ∧
      (held = okDir ⟨id, me.nonce⟩ → (lstep id cfg crashed me held).1.held = true) := by
  revert h; lstep_cases

/-- entering `aConfirm` -/
theorem lstep_to_confirm :
    (lstep id cfg crashed me held).1.pc = .aConfirm →
      me.pc = .aRename ∧ (lstep id cfg crashed me held).2.1 = me.pend ∧
        (lstep id cfg crashed me held).1.nonce = me.nonce := by
  lstep_cases

theorem lstep_nonce_confirm (h : me.pc ≠ .aMkdir) : (lstep id cfg crashed me held).1.nonce = me.nonce := by
  revert h; lstep_cases

end

section
variable (k : FaultKind) (me : Locker) (op : Op)
theorem lfault_pend_exact (id : Nat) (h : me.pc.hasPend = true → me.pend = okDir ⟨id, me.nonce⟩) :
    (lfault k me).pc.hasPend = true → (lfault k me).pend = okDir ⟨id, (lfault k me).nonce⟩ := by
  revert h; lfault_cases
theorem lfault_not_confirm : (lfault k me).pc ≠ .aConfirm := by lfault_cases
theorem start_not_confirm : (startOp me op).pc ≠ .aConfirm := by
  unfold startOp; cases op <;> cases hh : me.held <;> simp [Locker.done]
end

theorem ownerOf_okDir' (x : Nonce) : ownerOf (okDir x) = some x.owner := rfl
theorem recoverable_none : recoverable none = true := rfl
theorem recoverable_okDir (x : Nonce) : recoverable (okDir x) = true := rfl

/-- every pending directory that may be renamed into place carries its owner's current nonce -/
def PendOk (s : Sys) : Prop :=
  ∀ i, (s.lk i).pc.hasPend = true → (s.lk i).pend = okDir ⟨i, (s.lk i).nonce⟩

theorem PendOk.step {s : Sys} (hp : PendOk s) (e : Ev) : PendOk (s.step e) := by
  cases e with
  | crash i => exact hp
  | fault i k =>
    simp only [Sys.step]; split
    · exact hp
    · intro j; by_cases hj : j = i
      · subst hj; simpa using lfault_pend_exact k (s.lk j) j (hp j)
      · simpa [upd, hj] using hp j
  | start i op =>
    simp only [Sys.step]; split
    · exact hp
    · split
      · intro j; by_cases hj : j = i
        · subst hj; simp [start_hasPend]
        · simpa [upd, hj] using hp j
      · exact hp
  | step i =>
    simp only [Sys.step]; split
    · exact hp
    · intro j; by_cases hj : j = i
      · subst hj; simpa using lstep_pend_exact j s.cfg s.crashed (s.lk j) s.held (hp j)
      · simpa [upd, hj] using hp j

theorem PendOk.run {s : Sys} (hp : PendOk s) (evs : List Ev) : PendOk (s.run evs) := by
  induction evs generalizing s with
  | nil => exact hp
  | cons e es ih => simp only [Sys.run, List.foldl_cons]; exact ih (hp.step e)

theorem PendOk.init (cfg : Nat → Cfg) (h0 : Option Dir) : PendOk (Sys.init cfg h0) :=
  fun _ hp => by simp [Sys.init, Pc.hasPend] at hp

/-- invariant of C27: the lock on disk is free or readable, and pending directories are complete -/
structure RInv (s : Sys) : Prop where
  disk : recoverable s.held = true
  pend : PendOk s

theorem RInv.step {s : Sys} (inv : RInv s) (e : Ev) : RInv (s.step e) := by
  refine ⟨?_, inv.pend.step e⟩
  cases e with
  | crash i => exact inv.disk
  | fault i k => simp only [Sys.step]; split <;> exact inv.disk
  | start i op => simp only [Sys.step]; split <;> (try split) <;> exact inv.disk
  | step i =>
    simp only [Sys.step]; split
    · exact inv.disk
    · rcases lstep_held i s.cfg s.crashed (s.lk i) s.held with h | ⟨h1, _, h3, _⟩ | ⟨_, h, _⟩ |
        ⟨_, h, _⟩ | ⟨_, h, _⟩
      · simp only [h]; exact inv.disk
      · simp only [h3, inv.pend i (by simp [h1, Pc.hasPend])]; exact recoverable_okDir _
      · simp only [h]; rfl
      · simp only [h]; rfl
      · simp only [h]; rfl

theorem RInv.run {s : Sys} (inv : RInv s) (evs : List Ev) : RInv (s.run evs) := by
  induction evs generalizing s with
  | nil => exact inv
  | cons e es ih => simp only [Sys.run, List.foldl_cons]; exact ih (inv.step e)

/-- "the lock on disk is locker `i`'s" is explained by that locker's own state -/
structure OInv (i : Nat) (s : Sys) : Prop where
  pend : PendOk s
  own : ownerOf s.held = some i →
    (s.lk i).held = true ∨ s.orphan i = true ∨ ((s.lk i).pc = .aConfirm ∧ s.held = okDir ⟨i, (s.lk i).nonce⟩)

theorem OInv.step {i : Nat} {s : Sys} (inv : OInv i s) (e : Ev) : OInv i (s.step e) := by
  refine ⟨inv.pend.step e, ?_⟩
  cases e with
  | crash a => exact inv.own
  | fault a k =>
    simp only [Sys.step]; split
    · exact inv.own
    · intro ho
      by_cases hj : i = a
      · subst hj
        rcases inv.own ho with h | h | ⟨h, _⟩
        · left; simpa [lfault_held] using h
        · right; left; simp only []; split <;> simp [upd, h]
        · right; left; simp [h]
      · rcases inv.own ho with h | h | h
        · left; simpa [upd, hj] using h
        · right; left; simp only []; split <;> simp [upd, h, hj]
        · right; right; simpa [upd, hj] using h
  | start a op =>
    simp only [Sys.step]; split
    · exact inv.own
    · split
      · rename_i hidle
        intro ho
        by_cases hj : i = a
        · subst hj
          rcases inv.own ho with h | h | ⟨h, _⟩
          · left; simpa [start_held] using h
          · right; left; exact h
          · simp [hidle] at h
        · simpa [upd, hj] using inv.own ho
      · exact inv.own
  | step a =>
    simp only [Sys.step]; split
    · exact inv.own
    · intro ho
      have hheld := lstep_held a s.cfg s.crashed (s.lk a) s.held
      by_cases hj : i = a
      · subst hj
        simp only [upd_same]
        rcases hheld with h | ⟨h1, _, h3, h4⟩ | ⟨_, h, _⟩ | ⟨_, h, _⟩ | ⟨_, h, _⟩
        · rw [h] at ho
          rcases inv.own ho with hh | hh | ⟨hh, hh2⟩
          · cases hf : (lstep i s.cfg s.crashed (s.lk i) s.held).1.held
            · have := (lstep_unflag i s.cfg s.crashed (s.lk i) s.held hh hf).2
              rw [h] at this; simp [this, ownerOf] at ho
            · left; rfl
          · right; left; exact hh
          · left; exact (lstep_confirm i s.cfg s.crashed (s.lk i) s.held hh).2.2 hh2
        · right; right
          refine ⟨h4, ?_⟩
          rw [h3, inv.pend i (by simp [h1, Pc.hasPend]),
            (lstep_to_confirm i s.cfg s.crashed (s.lk i) s.held h4).2.2]
        · simp [h, ownerOf] at ho
        · simp [h, ownerOf] at ho
        · simp [h, ownerOf] at ho
      · simp only [upd, hj, if_false]
        rcases hheld with h | ⟨h1, _, h3, _⟩ | ⟨_, h, _⟩ | ⟨_, h, _⟩ | ⟨_, h, _⟩
        · rw [h] at ho ⊢; exact inv.own ho
        · rw [h3, inv.pend a (by simp [h1, Pc.hasPend]), ownerOf_okDir'] at ho
          exact absurd (Option.some.inj ho).symm hj
        · simp [h, ownerOf] at ho
        · simp [h, ownerOf] at ho
        · simp [h, ownerOf] at ho

theorem OInv.run {i : Nat} {s : Sys} (inv : OInv i s) (evs : List Ev) : OInv i (s.run evs) := by
  induction evs generalizing s with
  | nil => exact inv
  | cons e es ih => simp only [Sys.run, List.foldl_cons]; exact ih (inv.step e)

end BreezyVerif.C27
