import BreezyVerif.Model.C12
import BreezyVerif.Lemmas.C12
/-!
C12 — tree-changing commands never silently discard uncommitted work:
per-file decision theorems (every combination of the attributes the code reads).
-/
namespace BreezyVerif.C12

/-! ### revert -/

def fixedFlags : Flags := { keepWhenNoBasis := true }
def pinnedFlags : Flags := { keepWhenNoBasis := false }

/-- **revert keeps user content** (variant that keeps content absent from the basis):
a working file that differs from the basis — or that the basis does not have —
and that was not written by a merge is never deleted by a revert with backups:
its bytes stay in place or move to a numbered backup.  All inputs. -/
theorem revert_keeps_user_content (i : RevertIn) (hu : userEdited i = true) (hb : i.backups = true) :
    revertFate fixedFlags i ≠ .gone := by
  obtain ⟨cc, wk, bk, tk, tv, mm, bp, bi⟩ := i
  simp only [userEdited, revertFate, revertAction, keepContent, fixedFlags] at *
  subst hb
  cases cc <;> cases mm <;> cases bp <;> cases bi <;> cases tk <;> simp_all

example : userEdited { changedContent := true, wtKind := some .file, backups := true, targetKind := some .file,
                       targetVersioned := true, mergeModifiedIsWt := false, basisPresent := false, basisIsWt := false } = true := by decide

/-- **partial, pinned source**: the same holds for the code as pinned when the basis
has the file, or the target has nothing at all for it. -/
theorem revert_keeps_user_content_partial (i : RevertIn) (hu : userEdited i = true) (hb : i.backups = true)
    (hx : i.basisPresent = true ∨ (i.targetKind = none ∧ i.targetVersioned = false)) :
    revertFate pinnedFlags i ≠ .gone := by
  obtain ⟨cc, wk, bk, tk, tv, mm, bp, bi⟩ := i
  simp only [userEdited, revertFate, revertAction, keepContent, pinnedFlags] at *
  subst hb
  cases cc <;> cases mm <;> cases bp <;> cases bi <;> cases tk <;> cases tv <;> simp_all

/-- **witness (pinned source)**: `revert -r OLD f` with backups, where the working
file `f` is user-edited, its file id is absent from the basis and OLD has it as a
file: the content is deleted, no backup is made. -/
theorem revert_no_basis_witness :
    let i : RevertIn := { changedContent := true, wtKind := some .file, backups := true, targetKind := some .file,
                          targetVersioned := true, mergeModifiedIsWt := false, basisPresent := false, basisIsWt := false }
    userEdited i = true ∧ revertFate pinnedFlags i = .gone ∧ revertFate fixedFlags i = .backup := by
  decide

/-- without backups, content that the target does not have at all is still kept in
place (it only becomes unversioned): `--no-backup` discards modifications, not added files -/
theorem revert_no_backup_keeps_added (fl : Flags) (i : RevertIn) (hu : userEdited i = true)
    (ht : i.targetKind = none) (hv : i.targetVersioned = false) :
    revertFate fl i = .kept := by
  obtain ⟨cc, wk, bk, tk, tv, mm, bp, bi⟩ := i
  obtain ⟨k⟩ := fl
  simp only [userEdited, revertFate, revertAction, keepContent] at *
  subst ht hv
  cases cc <;> cases mm <;> cases bp <;> cases bi <;> cases bk <;> cases k <;> simp_all

/-- content written by a merge and not edited since, or equal to the basis, is not "user content" -/
theorem revert_deletes_only_unedited_or_on_request (i : RevertIn) (h : revertFate fixedFlags i = .gone) :
    userEdited i = false ∨ i.backups = false := by
  obtain ⟨cc, wk, bk, tk, tv, mm, bp, bi⟩ := i
  simp only [userEdited, revertFate, revertAction, keepContent, fixedFlags] at *
  cases cc <;> cases mm <;> cases bp <;> cases bi <;> cases tk <;> cases bk <;> cases wk <;> simp_all <;>
    (rename_i k; cases k <;> simp_all)

/-- **scope of the revert clause (what the code does not keep)**: only regular files are ever kept
or backed up.  A working-tree symlink or directory whose entry changed is handed to
`tt.delete_contents` whatever the other inputs are - backups on, target absent, not in the basis:
a retargeted symlink is not "content" for `_alter_files`.  (What is inside a directory is decided
per file and by the conflict resolution of the transform, which the oracle observes.) -/
theorem revert_nonfile_never_kept (fl : Flags) (i : RevertIn) (k : Kind) (hk : i.wtKind = some k) (hn : k ≠ .file)
    (hc : i.changedContent = true) : revertFate fl i = .gone := by
  obtain ⟨cc, wk, bk, tk, tv, mm, bp, bi⟩ := i
  simp only at hk hc
  subst hk hc
  cases k <;> simp_all [revertFate, revertAction, keepContent]

example : revertFate fixedFlags { changedContent := true, wtKind := some .symlink, backups := true, targetKind := some .file,
                                  targetVersioned := true, mergeModifiedIsWt := false, basisPresent := true, basisIsWt := false } = .gone := by
  decide

/-! ### backup names -/

/-- the loop only returns a name that does not exist -/
theorem firstFree_sound {α : Type} [DecidableEq α] (cand : Nat → α) (taken : List α) (fuel k r : Nat)
    (h : firstFree cand taken fuel k = some r) : cand r ∉ taken ∧ k ≤ r ∧ ∀ j, k ≤ j → j < r → cand j ∈ taken := by
  induction fuel generalizing k with
  | zero => simp [firstFree] at h
  | succ n ih =>
    unfold firstFree at h
    split at h
    · rename_i hc
      obtain ⟨h1, h2, h3⟩ := ih (k + 1) h
      refine ⟨h1, by omega, ?_⟩
      intro j hj1 hj2
      by_cases hjk : j = k
      · subst hjk; simpa using hc
      · exact h3 j (by omega) hj2
    · rename_i hc
      cases h
      exact ⟨by simpa using hc, Nat.le_refl _, fun j h1 h2 => by omega⟩

/-- membership of later candidates is what the loop looks at -/
theorem firstFree_congr {α : Type} [DecidableEq α] (cand : Nat → α) (t1 t2 : List α) (fuel k : Nat)
    (h : ∀ j, k ≤ j → (cand j ∈ t1 ↔ cand j ∈ t2)) : firstFree cand t1 fuel k = firstFree cand t2 fuel k := by
  induction fuel generalizing k with
  | zero => rfl
  | succ n ih =>
    unfold firstFree
    have hk := h k (Nat.le_refl _)
    by_cases hc : cand k ∈ t1
    · have hc2 := hk.mp hc
      simp only [List.contains_eq_mem, hc, hc2, decide_true, if_true]
      exact ih (k + 1) (fun j hj => h j (by omega))
    · have hc2 : cand k ∉ t2 := fun x => hc (hk.mpr x)
      simp [hc, hc2]

/-- **the loop always finds a name**: with distinct candidates, `taken.length + 1`
steps suffice whatever exists already (pigeonhole) -/
theorem firstFree_total {α : Type} [DecidableEq α] (cand : Nat → α) (hinj : ∀ a b, cand a = cand b → a = b)
    (taken : List α) (fuel k : Nat) (hf : taken.length < fuel) : (firstFree cand taken fuel k).isSome = true := by
  induction fuel generalizing taken k with
  | zero => omega
  | succ n ih =>
    unfold firstFree
    by_cases hc : cand k ∈ taken
    · simp only [List.contains_eq_mem, hc, decide_true, if_true]
      -- drop `cand k`: later candidates are different, so the loop cannot tell
      have hcongr := firstFree_congr cand taken (taken.erase (cand k)) n (k + 1) (by
        intro j hj
        have hne : cand j ≠ cand k := fun e => by have := hinj _ _ e; omega
        exact (List.mem_erase_of_ne hne).symm)
      rw [hcongr]
      apply ih
      have h1 := List.length_erase_of_mem hc
      have h2 := List.length_pos_of_mem hc
      omega
    · simp [hc]

/-- **backup names are fresh**: `available_backup_name` returns `base.~k~` for the
least `k ≥ 1` that is not taken; it never returns an existing name and never fails. -/
theorem backup_name_fresh (base : String) (taken : List String) :
    ∃ n, availableBackupName base taken = some n ∧ n ∉ taken := by
  unfold availableBackupName
  have ht := firstFree_total (backupCand base) (backupCand_injective base) taken (taken.length + 1) 1 (by omega)
  cases hr : firstFree (backupCand base) taken (taken.length + 1) 1 with
  | none => simp [hr] at ht
  | some r =>
    exact ⟨backupCand base r, by simp, (firstFree_sound _ _ _ _ _ hr).1⟩

example : availableBackupName "f" ["f.~1~", "f.~2~", "f"] = some "f.~3~" := by decide +kernel

/-! ### the backup action on a directory listing -/

theorem names_renamed {β : Type} (d : Listing β) (name b : String) :
    names (d.map (fun e => if e.1 = name then (b, e.2) else e)) = (names d).map (fun n => if n = name then b else n) := by
  simp only [names, List.map_map]
  apply List.map_congr_left
  intro e _
  by_cases h : e.1 = name <;> simp [h]

/-- **the backup rename clobbers nothing and loses nothing**: if the directory has an entry `name`
holding `c`, `renameToBackup` succeeds with a name `b` that no entry of the directory had (so no
existing file - in particular no older `name.~k~` - is overwritten), `c` is stored under `b`
afterwards, no entry is called `name` any more, every other entry is exactly as before, nothing
new appears, the list of stored contents is unchanged, and distinct names stay distinct.  All
listings, all names: no bound. -/
theorem rename_to_backup_spec {β : Type} (d : Listing β) (name : String) (c : β) (h : (name, c) ∈ d) :
    ∃ b d', renameToBackup d name = some (b, d') ∧ b ∉ names d ∧ b ≠ name ∧ (b, c) ∈ d' ∧ name ∉ names d' ∧
      (∀ e ∈ d, e.1 ≠ name → e ∈ d') ∧ (∀ e ∈ d', e.1 ≠ b → e ∈ d) ∧ contents d' = contents d ∧
      ((names d).Nodup → (names d').Nodup) := by
  obtain ⟨b, hb, hfresh⟩ := backup_name_fresh name (names d)
  have hname : name ∈ names d := List.mem_map.mpr ⟨(name, c), h, rfl⟩
  have hne : b ≠ name := fun e => hfresh (e ▸ hname)
  refine ⟨b, d.map (fun e => if e.1 = name then (b, e.2) else e), by simp [renameToBackup, hb], hfresh, hne, ?_, ?_, ?_, ?_, ?_, ?_⟩
  · exact List.mem_map.mpr ⟨(name, c), h, by simp⟩
  · rw [names_renamed]
    intro hm
    obtain ⟨n, _, hn⟩ := List.mem_map.mp hm
    by_cases hnn : n = name
    · exact hne (by simpa [hnn] using hn)
    · exact hnn (by simpa [hnn] using hn)
  · intro e he hen
    exact List.mem_map.mpr ⟨e, he, by simp [hen]⟩
  · intro e he heb
    obtain ⟨e0, he0, hee⟩ := List.mem_map.mp he
    by_cases h0 : e0.1 = name
    · simp [h0] at hee; subst hee; exact absurd rfl heb
    · simp [h0] at hee; subst hee; exact he0
  · simp only [contents, List.map_map]
    apply List.map_congr_left
    intro e _
    by_cases h0 : e.1 = name <;> simp [h0]
  · intro hnd
    rw [names_renamed]
    rw [List.Nodup, List.pairwise_map]
    apply List.Pairwise.imp_of_mem _ hnd
    intro x y hx hy hxy
    by_cases h1 : x = name <;> by_cases h2 : y = name
    · subst h1 h2; exact absurd rfl hxy
    · simp only [h1, h2, if_true, if_false]; intro e; exact hfresh (e ▸ hy)
    · simp only [h1, h2, if_true, if_false]; intro e; exact hfresh (e ▸ hx)
    · simpa [h1, h2] using hxy

/-- **revert's backup-and-replace keeps the old bytes**: the old contents end up under a name that
did not exist before, the new contents under the old name, every sibling (older numbered backups
included) is untouched, and the contents stored in the directory afterwards are exactly the old
ones plus the new one. -/
theorem backup_and_replace_spec {β : Type} (d : Listing β) (name : String) (c new : β) (h : (name, c) ∈ d) :
    ∃ b d', backupAndReplace d name new = some d' ∧ b ∉ names d ∧ (b, c) ∈ d' ∧ (name, new) ∈ d' ∧
      (∀ e ∈ d, e.1 ≠ name → e ∈ d') ∧ contents d' = new :: contents d ∧
      ((names d).Nodup → (names d').Nodup) := by
  obtain ⟨b, d1, h1, h2, _, h4, h5, h6, _, h8, h9⟩ := rename_to_backup_spec d name c h
  refine ⟨b, (name, new) :: d1, by simp [backupAndReplace, h1], h2, List.mem_cons_of_mem _ h4, List.mem_cons_self, ?_, ?_, ?_⟩
  · intro e he hen; exact List.mem_cons_of_mem _ (h6 e he hen)
  · simp [contents] at h8 ⊢; exact h8
  · intro hnd
    have := h9 hnd
    simp only [names, List.map_cons, List.nodup_cons] at this ⊢
    exact ⟨h5, this⟩

example : backupAndReplace [("f", "old"), ("f.~1~", "older"), ("g", "x")] "f" "new"
    = some [("f", "new"), ("f.~2~", "old"), ("f.~1~", "older"), ("g", "x")] := by decide +kernel

/-- **revert keeps the user's bytes in the directory** (decision and backup action composed):
for a user-edited working file `name` holding `c`, a revert with backups leaves `c` stored in the
directory - under `name` or under a fresh backup name - and leaves every sibling entry as it was,
whatever the other inputs of the decision are. -/
theorem revert_dir_keeps_user_bytes {β : Type} (i : RevertIn) (d : Listing β) (name : String) (c new : β)
    (hu : userEdited i = true) (hb : i.backups = true) (h : (name, c) ∈ d) :
    ∃ d', revertDir fixedFlags i d name new = some d' ∧ c ∈ contents d' ∧ (∀ e ∈ d, e.1 ≠ name → e ∈ d') := by
  have hf := revert_keeps_user_content i hu hb
  unfold revertDir
  unfold revertFate at hf
  cases ha : revertAction fixedFlags i with
  | nothing => exact ⟨d, rfl, List.mem_map.mpr ⟨(name, c), h, rfl⟩, fun e he _ => he⟩
  | keepInPlace => exact ⟨d, rfl, List.mem_map.mpr ⟨(name, c), h, rfl⟩, fun e he _ => he⟩
  | deleteContents => simp [ha] at hf
  | backupAndReplace =>
    obtain ⟨b, d', h1, _, h3, _, h5, _, _⟩ := backup_and_replace_spec d name c new h
    exact ⟨d', h1, List.mem_map.mpr ⟨(b, c), h3, rfl⟩, h5⟩

def editedIn : RevertIn :=
  { changedContent := true, wtKind := some .file, backups := true, targetKind := some .file,
    targetVersioned := true, mergeModifiedIsWt := false, basisPresent := true, basisIsWt := false }

example : userEdited editedIn = true ∧
    revertDir fixedFlags editedIn [("f", "edited"), ("f.~1~", "older")] "f" "target"
      = some [("f", "target"), ("f.~2~", "edited"), ("f.~1~", "older")] := by
  decide +kernel

/-- what revert deletes from a directory is only the entry it was asked about, and only when the
decision says so: siblings are never touched, by any action, for any flags -/
theorem revert_dir_siblings_untouched {β : Type} (fl : Flags) (i : RevertIn) (d d' : Listing β) (name : String) (new : β)
    (h : revertDir fl i d name new = some d') : ∀ e ∈ d, e.1 ≠ name → e ∈ d' := by
  intro e he hen
  unfold revertDir at h
  cases ha : revertAction fl i <;> simp only [ha] at h
  · cases h; exact he
  · cases h
    have : e ∈ d.filter (fun e => e.1 ≠ name) := List.mem_filter.mpr ⟨he, by simpa using hen⟩
    split
    · exact List.mem_cons_of_mem _ this
    · exact this
  · unfold backupAndReplace renameToBackup at h
    cases hb : availableBackupName name (names d) with
    | none => simp [hb] at h
    | some b =>
      simp [hb] at h
      subst h
      exact List.mem_cons_of_mem _ (List.mem_map.mpr ⟨e, he, by simp [hen]⟩)
  · cases h; exact he

/-- **remove keeps the bytes of unsafe files in the directory**: without `force`, a selected file that
is unknown / newly added or changed is still stored in its directory afterwards (in place with
`keep`, else under a fresh backup name), and no sibling is touched. -/
theorem remove_dir_keeps_unsafe_bytes {β : Type} (i : RemoveIn) (d : Listing β) (name : String) (c : β)
    (hf : i.force = false) (hu : i.inBasis = false ∨ i.changedContent = true) (h : (name, c) ∈ d) :
    ∃ d', removeDir i d name = some d' ∧ c ∈ contents d' ∧ (∀ e ∈ d, e.1 ≠ name → e ∈ d') := by
  unfold removeDir
  by_cases hk : i.keep = true
  · exact ⟨d, by simp [hk], List.mem_map.mpr ⟨(name, c), h, rfl⟩, fun e he _ => he⟩
  · have htb : toBackup i = true := by
      obtain ⟨k, f, r, wv, ib, ch⟩ := i
      simp only [toBackup] at *
      subst hf
      cases k <;> cases ib <;> cases ch <;> simp_all
    obtain ⟨b, d', h1, _, _, h4, _, h6, _, _, _⟩ := rename_to_backup_spec d name c h
    exact ⟨d', by simp [hk, htb, h1], List.mem_map.mpr ⟨(b, c), h4, rfl⟩, h6⟩

example : removeDir { keep := false, force := false, role := .selected, wtVersioned := false, inBasis := false, changedContent := false }
    [("u", "unknown"), ("u.~1~", "x")] "u" = some [("u.~2~", "unknown"), ("u.~1~", "x")] := by decide +kernel

/-! ### remove -/

/-- **remove is safe**: without `force`, a file that is unknown / newly added (not in
the basis), or whose content differs from the basis, is never deleted — it is kept
or renamed to a numbered backup; with `keep_files` nothing is touched. -/
theorem remove_safe (i : RemoveIn) (hf : i.force = false) (hu : i.inBasis = false ∨ i.changedContent = true) :
    removeFate i ≠ .gone := by
  obtain ⟨k, f, r, wv, ib, ch⟩ := i
  simp only [removeFate, removeFateV, toBackup] at *
  subst hf
  cases k <;> cases r <;> cases ib <;> cases ch <;> simp_all

theorem remove_keep (i : RemoveIn) (hk : i.keep = true) : removeFate i = .kept := by
  simp [removeFate, removeFateV, hk]

example : removeFate { keep := false, force := false, role := .selected, wtVersioned := false, inBasis := false, changedContent := false } = .backup := by decide

/-- what `remove` deletes without `force` is in the basis and unchanged -/
theorem remove_deletes_only_clean (i : RemoveIn) (hf : i.force = false) (h : removeFate i = .gone) :
    i.inBasis = true ∧ i.changedContent = false ∧ i.role = .selected := by
  obtain ⟨k, f, r, wv, ib, ch⟩ := i
  simp only [removeFate, removeFateV, toBackup] at *
  subst hf
  cases k <;> cases r <;> cases ib <;> cases ch <;> simp_all

/-- **witness (finding, bzr trees)**: the safety of `remove` rests on the attributes `iter_changes`
reports.  For an unknown file at a path that is removed in the working tree but still in the basis
(`brz rm f; echo new > f; brz rm f`) no record names the working path, so `remove` reads it as
"in the basis, unchanged" - and for these inputs the decision is to delete: the unknown file is
lost without `--force` (reproduced on the real command by the oracle, family
`bzr-remove-deletes-unknown-file-at-removed-path`).  `remove_safe` does not apply: its hypothesis is
about the attributes the code reads, and they misdescribe this state. -/
theorem remove_trusts_reported_attributes_witness :
    removeFate { keep := false, force := false, role := .selected, wtVersioned := false, inBasis := true, changedContent := false } = .gone ∧
    removeFate { keep := false, force := false, role := .selected, wtVersioned := false, inBasis := false, changedContent := false } = .backup := by
  decide

/-- **remove never deletes an unversioned file without force (variant with the guard in the deletion
step)**: whatever the `iter_changes` records say - in particular when no record names the path -
a selected path that is not versioned in the working tree is kept or backed up. -/
theorem remove_never_deletes_unversioned_fixed (i : RemoveIn) (hf : i.force = false) (hv : i.wtVersioned = false) :
    removeFateV { backupUnversioned := true } i ≠ .gone := by
  obtain ⟨k, f, r, wv, ib, ch⟩ := i
  simp only [removeFateV, toBackup] at *
  subst hf hv
  cases k <;> cases r <;> cases ib <;> cases ch <;> simp_all

/-- for paths that are versioned in the working tree the two variants decide alike -/
theorem remove_variants_agree_on_versioned (fl : RemoveFlags) (i : RemoveIn) (hv : i.wtVersioned = true) :
    removeFateV fl i = removeFate i := by
  obtain ⟨k, f, r, wv, ib, ch⟩ := i
  obtain ⟨b⟩ := fl
  simp only [removeFate, removeFateV] at *
  subst hv
  cases b <;> simp

/-! ### merge -/

/-- **merge keeps local changes**: a THIS text that differs from BASE is never lost — it
stays, is written to `name.THIS`, or the file holds the clean three-way merge -/
theorem merge_keeps_local (i : MergeIn) (h : i.thisChanged = true) :
    mergeFate i = .kept ∨ mergeFate i = .helper ∨ mergeFate i = .merged := by
  obtain ⟨a, b, c, d, e⟩ := i
  simp only [mergeFate] at *
  subst h
  cases b <;> cases c <;> cases d <;> cases e <;> simp

/-- helper files are written exactly when both sides changed the text differently and the
changes overlap -/
theorem merge_helper_iff (i : MergeIn) :
    mergeFate i = .helper ↔ (i.thisChanged = true ∧ i.otherDeleted = false ∧ i.otherChanged = true ∧
                             i.sameChange = false ∧ i.textConflict = true) := by
  obtain ⟨a, b, c, d, e⟩ := i
  simp only [mergeFate]
  cases a <;> cases b <;> cases c <;> cases d <;> cases e <;> simp

/-! ### merge-like command, then revert -/

/-- a path is recorded as "written by merge" only if the merge wrote its contents; a file the
incoming revision merely renames or moves is not recorded -/
theorem merge_records_only_written (r : RecordIn) (h : r.otherChangedContent = false) (ha : r.otherAdded = false) :
    mergeRecords r = false := by
  simp [mergeRecords, h, ha]

/-- **two-step sequence**: a locally edited file that a merge-like command (pull, update, merge,
switch) only renames or moves keeps being user content — a later revert with backups does not
delete it (it is moved to a numbered backup or kept), whatever the other inputs are -/
theorem move_only_merge_then_revert_keeps (r : RecordIn) (e : Bool) (i : RevertIn)
    (hr : r.otherChangedContent = false) (ha : r.otherAdded = false)
    (hf : i.wtKind = some .file) (hd : i.basisPresent = false ∨ i.basisIsWt = false) (hb : i.backups = true) :
    revertFate fixedFlags (afterMerge r e i) ≠ .gone := by
  apply revert_keeps_user_content
  · obtain ⟨cc, wk, bk, tk, tv, mm, bp, bi⟩ := i
    simp only [afterMerge, userEdited, mergeRecords] at *
    subst hf
    rcases hd with h | h <;> simp [hr, ha, h]
  · simpa [afterMerge] using hb

example : revertFate fixedFlags (afterMerge { otherChangedContent := false, otherAdded := false, onlyMoved := true } false
    { changedContent := true, wtKind := some .file, backups := true, targetKind := some .file, targetVersioned := true,
      mergeModifiedIsWt := true, basisPresent := true, basisIsWt := false }) = .backup := by decide

/-- content the merge did write and that was not edited since is not backed up by revert (it is
not user content any more): the exemption of the property -/
theorem merge_written_then_revert_may_discard :
    revertFate fixedFlags (afterMerge { otherChangedContent := true, otherAdded := false, onlyMoved := false } false
      { changedContent := true, wtKind := some .file, backups := true, targetKind := some .file, targetVersioned := true,
        mergeModifiedIsWt := false, basisPresent := true, basisIsWt := false }) = .gone := by decide

end BreezyVerif.C12
