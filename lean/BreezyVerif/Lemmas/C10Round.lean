import BreezyVerif.Lemmas.C10Loop
/-!
C10 — one round of the `_handle_precise_ids` loop as a function, and the loop as
its iteration.
-/
namespace BreezyVerif.C10

/-- the ids the loop still has to look at: `precise_file_ids - changed_file_ids` -/
def pending (st : PState) : List Id := st.precise.filter fun i => !st.changed.contains i

/-- the source entries sitting at the target paths of the pending ids -/
def occupants (src tgt : Tree) (st : PState) : List Id :=
  (pending st).filterMap fun i => (pathOf tgt i).bind (idAt src)

/-- one pass of the `while` body; `none` when the loop is finished -/
def preciseRound (src tgt : Tree) (st : PState) : Option PState :=
  if (pending st).isEmpty then none
  else some ((unionNew (pending st) (occupants src tgt st)).foldl (examine src tgt) { st with precise := [] })

theorem preciseLoop_succ (src tgt : Tree) (n : Nat) (st : PState) :
    preciseLoop src tgt (n + 1) st =
      match preciseRound src tgt st with
      | none => some st.out
      | some st' => preciseLoop src tgt n st' := by
  unfold preciseRound
  rw [preciseLoop]
  by_cases h : (pending st).isEmpty = true
  · have h' : (st.precise.filter fun i => !st.changed.contains i).isEmpty = true := h
    simp only [h, h', if_true]
  · have h' : ¬ (st.precise.filter fun i => !st.changed.contains i).isEmpty = true := h
    simp only [h, h', Bool.false_eq_true, if_false]
    rfl

theorem preciseLoop_done {src tgt : Tree} {st : PState} (h : preciseRound src tgt st = none) (n : Nat) :
    preciseLoop src tgt (n + 1) st = some st.out := by
  rw [preciseLoop_succ, h]

theorem preciseLoop_step {src tgt : Tree} {st st' : PState} (h : preciseRound src tgt st = some st') (n : Nat) :
    preciseLoop src tgt (n + 1) st = preciseLoop src tgt n st' := by
  rw [preciseLoop_succ, h]

/-- the state `iter_changes(specific_files=filt)` hands to `_handle_precise_ids` -/
def startState (src tgt : Tree) (filt : List Path) : PState :=
  { precise := tgtParents (baseTgt src tgt (selectIds src tgt filt) false),
    changed := (baseTgt src tgt (selectIds src tgt filt) false ++ baseRemoved src tgt (selectIds src tgt filt)).map (·.id),
    out := [] }

end BreezyVerif.C10
