import BreezyVerif.Model.C52
/-!
C52 — lemmas about the layout reached by `reconfigure` and about `upgrade`.
-/
namespace BreezyVerif.C52

/-! ### layouts -/

/-- `apply` ran to its end -/
theorem applyFlags_ok (v : Variant) (l : Loc) (f : Flags) (force : Bool) (h : (applyFlags v l f force).2 = none) :
    (applyFlags v l f force).1 =
      stDropRepo f l.sharedAbove (stBind f (stUnbind f (stTree f (stBranch f (stRepo f l))))) := by
  unfold applyFlags at h ⊢
  repeat' split
  all_goals first
    | rfl
    | (rename_i c; simp [c] at h; done)
    | (rename_i c1 c; simp [c1, c] at h; done)
    | (rename_i c2 c1 c; simp [c2, c1, c] at h; done)
    | (rename_i c3 c2 c1 c; simp [c3, c2, c1, c] at h; done)
    | (rename_i c4 c3 c2 c1 c; simp [c4, c3, c2, c1, c] at h; done)
    | (rename_i c5 c4 c3 c2 c1 c; simp [c5, c4, c3, c2, c1, c] at h; done)
    | (rename_i c6 c5 c4 c3 c2 c1 c; simp [c6, c5, c4, c3, c2, c1, c] at h; done)

theorem applyFlags_err (v : Variant) (l : Loc) (f : Flags) (force : Bool) :
    (applyFlags v l f force).2 ≠ some .already ∧ (applyFlags v l f force).2 ≠ some .notSupported ∧
    (((applyFlags v l f force).2 = some .uncommittedChanges ∨ (applyFlags v l f force).2 = some .unsyncedBranches) →
      (applyFlags v l f force).1 = l) := by
  unfold applyFlags
  repeat' split
  all_goals simp

theorem factory_never_unsupported (l : Loc) (t : Target) : ∃ f, factory l t = .ok f := by
  cases t <;> simp [factory, plan]

/-- the flags a factory plans are empty exactly when the location has the layout -/
theorem factory_any_iff (l : Loc) (t : Target) (f : Flags) (h : factory l t = .ok f) :
    f.any = false ↔ layoutIs t l = true := by
  cases t <;> simp only [factory, plan, planShared] at h
  all_goals
    cases hb : l.branch <;> cases hr : l.repo <;> cases ht : l.tree <;> simp_all <;> (subst h; simp [Flags.any, layoutIs, hb, hr, ht]) <;> decide

theorem final_layout (l : Loc) (t : Target) (f : Flags) (h : factory l t = .ok f) :
    layoutIs t (stDropRepo f l.sharedAbove (stBind f (stUnbind f (stTree f (stBranch f (stRepo f l)))))) = true := by
  cases t <;> simp only [factory, plan, planShared] at h
  all_goals
    cases hb : l.branch <;> cases hr : l.repo <;> cases ht : l.tree <;> cases ha : l.sharedAbove <;> simp_all <;>
      (subst h; simp [layoutIs, stDropRepo, stBind, stUnbind, stTree, stBranch, stRepo, hb, hr, ht, ha])

theorem layout_ok (v : Variant) (t : Target) (force : Bool) (l : Loc) (h : (reconfigure v t force l).2 = none) :
    layoutIs t (reconfigure v t force l).1 = true := by
  unfold reconfigure at h ⊢
  cases hf : factory l t with
  | error e => simp [hf] at h
  | ok f =>
    simp only [hf] at h ⊢
    by_cases ha : f.any = true
    · simp only [ha, if_true] at h ⊢
      rw [applyFlags_ok v l f force h]
      exact final_layout l t f hf
    · simp [ha] at h

theorem layout_already (v : Variant) (t : Target) (force : Bool) (l : Loc) :
    (reconfigure v t force l).2 = some .already ↔ layoutIs t l = true := by
  obtain ⟨f, hf⟩ := factory_never_unsupported l t
  have hiff := factory_any_iff l t f hf
  unfold reconfigure
  simp only [hf]
  by_cases ha : f.any = true
  · simp only [ha, if_true]
    constructor
    · intro h; exact absurd h (applyFlags_err v l f force).1
    · intro h; rw [← hiff] at h; rw [ha] at h; cases h
  · have ha' : f.any = false := by simpa using ha
    simp only [ha', Bool.false_eq_true, if_false, true_iff]
    exact hiff.mp ha'

theorem refusal_same (v : Variant) (t : Target) (force : Bool) (l : Loc) (e : Err) (h : (reconfigure v t force l).2 = some e)
    (he : e = .already ∨ e = .notSupported ∨ e = .uncommittedChanges ∨ e = .unsyncedBranches) :
    (reconfigure v t force l).1 = l := by
  unfold reconfigure at h ⊢
  cases hf : factory l t with
  | error e' => rfl
  | ok f =>
    simp only [hf] at h ⊢
    by_cases ha : f.any = true
    · simp only [ha, if_true] at h ⊢
      have := applyFlags_err v l f force
      rcases he with he | he | he | he <;> subst he
      · exact absurd h this.1
      · exact absurd h this.2.1
      · exact this.2.2 (Or.inl h)
      · exact this.2.2 (Or.inr h)
    · simp [ha]

/-! ### upgrade -/

theorem stepBranch_info (s : Step) (b : UBranch) (h : branchStep b.fmt new = some s) :
    (stepBranch s b).info = b.info ∧ (stepBranch s b).tagsSeen = b.tagsSeen ∧
    (stepBranch s b).parent = b.parent ∧ (stepBranch s b).bound = b.bound ∧ (stepBranch s b).push = b.push := by
  unfold branchStep at h
  split at h
  · rename_i c
    have h5 : b.fmt = 5 := by simp at c; exact c.1
    simp only [Option.some.injEq] at h; subst h
    simp [stepBranch, UBranch.info, UBranch.tagsSeen, h5]
  · split at h
    · rename_i c
      have h6 : b.fmt = 6 := by simp at c; exact c.1
      simp only [Option.some.injEq] at h; subst h
      simp [stepBranch, UBranch.info, UBranch.tagsSeen, h6]
    · split at h
      · rename_i c
        have h7 : b.fmt = 7 := by simp at c; exact c.1
        simp only [Option.some.injEq] at h; subst h
        simp [stepBranch, UBranch.info, UBranch.tagsSeen, h7]
      · cases h

def bobs (b : UBranch) : (Nat × Nat) × Tags × Option Nat × Option Nat × Option Nat :=
  (b.info, b.tagsSeen, b.parent, b.bound, b.push)

theorem branchLoop_obs (fuel new : Nat) (b b' : UBranch) (ss : List Step) (h : branchLoop fuel new b = .ok (b', ss)) :
    bobs b' = bobs b := by
  induction fuel generalizing b b' ss with
  | zero =>
    simp only [branchLoop] at h
    split at h
    · simp only [Except.ok.injEq, Prod.mk.injEq] at h; rw [← h.1]
    · cases h
  | succ fuel ih =>
    simp only [branchLoop] at h
    split at h
    · simp only [Except.ok.injEq, Prod.mk.injEq] at h; rw [← h.1]
    · cases hs : branchStep b.fmt new with
      | none => simp [hs] at h
      | some s =>
        simp only [hs] at h
        cases hr : branchLoop fuel new (stepBranch s b) with
        | error e => simp [hr] at h
        | ok p =>
          obtain ⟨b2, ss2⟩ := p
          simp only [hr, Except.ok.injEq, Prod.mk.injEq] at h
          have := ih (stepBranch s b) b2 ss2 hr
          have hi := stepBranch_info s b hs
          rw [← h.1, this]
          simp [bobs, hi]

def tobs (t : UTree) : List Nat × Nat := (t.parents, t.inv)

theorem treeSteps_obs (t : UTree) (target : Nat) :
    tobs ((treeSteps t.fmt target).foldl (fun t s => stepTree s t) t) = tobs t := by
  unfold treeSteps
  by_cases h3 : t.fmt = 3
  · simp only [h3]
    by_cases hd : (target == 4 || target == 5 || target == 6) = true
    · simp [hd, stepTree, tobs, UTree.parents, h3]
    · simp [hd]
  · by_cases h4 : t.fmt = 4
    · simp only [h4]
      by_cases t5 : target = 5
      · simp [t5, stepTree, tobs, UTree.parents, h4]
      · by_cases t6 : target = 6
        · simp [t6, stepTree, tobs, UTree.parents, h4]
        · simp [t5, t6]
    · by_cases h5 : t.fmt = 5
      · simp only [h5]
        by_cases t6 : target = 6
        · simp [t6, stepTree, tobs, UTree.parents, h5]
        · simp [t6]
      · by_cases h6 : t.fmt = 6
        · simp only [h6]
          by_cases t5 : target = 5
          · simp [t5, stepTree, tobs, UTree.parents, h6]
          · simp [t5]
        · simp [h3, h4, h5, h6]

theorem uobs_eq (u u' : ULoc) (hr : u'.revs = u.revs)
    (hb : u'.branch.map bobs = u.branch.map bobs) (ht : u'.tree.map tobs = u.tree.map tobs) : uobs u' = uobs u := by
  unfold uobs
  rw [hr]
  cases hb1 : u.branch <;> cases hb2 : u'.branch <;> cases ht1 : u.tree <;> cases ht2 : u'.tree <;>
    simp_all [bobs, tobs]

theorem passRepo_same (tg : UTarget) (u : ULoc) :
    (passRepo tg u).1.revs = u.revs ∧ (passRepo tg u).1.branch = u.branch ∧ (passRepo tg u).1.tree = u.tree ∧
    (passRepo tg u).1.repo = u.repo.map (fun _ => tg.repo) := by
  unfold passRepo
  cases hr : u.repo with
  | none => simp [hr]
  | some r =>
    simp only
    split
    · rename_i c
      have : r = tg.repo := by simpa using c
      simp [hr, this]
    · simp

theorem passBranch_obs (tg : UTarget) (b b' : Option UBranch) (ss : List Step) (h : passBranch tg b = .ok (b', ss)) :
    b'.map bobs = b.map bobs := by
  cases b with
  | none => simp only [passBranch, Except.ok.injEq, Prod.mk.injEq] at h; rw [← h.1]
  | some b0 =>
    simp only [passBranch] at h
    cases hl : branchLoop 3 tg.branch b0 with
    | error e => simp [hl] at h
    | ok p =>
      obtain ⟨b1, s1⟩ := p
      simp only [hl, Except.ok.injEq, Prod.mk.injEq] at h
      rw [← h.1]
      simp [branchLoop_obs 3 tg.branch b0 b1 s1 hl]

theorem passBranch_err (tg : UTarget) (b : Option UBranch) (e : UErr) (h : passBranch tg b = .error e) :
    e = .badConversionTarget := by
  cases b with
  | none => simp [passBranch] at h
  | some b0 =>
    simp only [passBranch] at h
    cases hl : branchLoop 3 tg.branch b0 with
    | ok p => simp [hl] at h
    | error e2 =>
      simp only [hl, Except.error.injEq] at h
      subst h
      generalize 3 = fuel at hl
      induction fuel generalizing b0 with
      | zero => simp only [branchLoop] at hl; split at hl <;> simp_all
      | succ fuel ih2 =>
        simp only [branchLoop] at hl
        split at hl
        · cases hl
        · cases hs : branchStep b0.fmt tg.branch with
          | none => simp [hs] at hl; exact hl.symm
          | some s =>
            simp only [hs] at hl
            cases hr : branchLoop fuel tg.branch (stepBranch s b0) with
            | error e3 => simp [hr] at hl; subst hl; exact ih2 _ hr
            | ok p => simp [hr] at hl

theorem passTree_obs (tg : UTarget) (t : Option UTree) : (passTree tg t).1.map tobs = t.map tobs := by
  cases t with
  | none => rfl
  | some t0 => simp [passTree, treeSteps_obs]

theorem upgradePass_obs (tg : UTarget) (u : ULoc) : uobs (upgradePass tg u).1 = uobs u := by
  obtain ⟨r1, r2, r3, _⟩ := passRepo_same tg u
  unfold upgradePass
  cases hb : passBranch tg (passRepo tg u).1.branch with
  | error e => exact uobs_eq u _ r1 (by rw [r2]) (by rw [r3])
  | ok p =>
    obtain ⟨b', s2⟩ := p
    refine uobs_eq u _ r1 ?_ ?_
    · have := passBranch_obs tg _ b' s2 hb
      rw [r2] at this
      exact this
    · have := passTree_obs tg (passRepo tg u).1.tree
      rw [r3] at this ⊢
      exact this

theorem upgradeLoop_obs (fuel : Nat) (tg : UTarget) (u : ULoc) : uobs (upgradeLoop fuel tg u).1 = uobs u := by
  induction fuel generalizing u with
  | zero => rfl
  | succ fuel ih =>
    simp only [upgradeLoop]
    split
    · rfl
    · have hp := upgradePass_obs tg u
      generalize upgradePass tg u = r at *
      obtain ⟨u', ss, e⟩ := r
      cases e with
      | some e => exact hp
      | none => simp only; rw [ih u']; exact hp

theorem upgrade_obs (tg : UTarget) (u : ULoc) : uobs (upgrade tg u).1 = uobs u := by
  unfold upgrade
  split
  · rfl
  · exact upgradeLoop_obs 4 tg u

theorem upgradeLoop_not_uptodate (fuel : Nat) (tg : UTarget) (u : ULoc) :
    (upgradeLoop fuel tg u).2.2 ≠ some .upToDate := by
  induction fuel generalizing u with
  | zero => simp [upgradeLoop]
  | succ fuel ih =>
    simp only [upgradeLoop]
    split
    · simp
    · have hp : (upgradePass tg u).2.2 ≠ some .upToDate := by
        unfold upgradePass
        cases hb : passBranch tg (passRepo tg u).1.branch with
        | error e => have := passBranch_err tg _ e hb; subst this; simp
        | ok p => simp
      generalize upgradePass tg u = r at *
      obtain ⟨u', ss, e⟩ := r
      cases e with
      | some e => simpa using hp
      | none => simp only; exact ih u'

theorem upgrade_uptodate (tg : UTarget) (u : ULoc) :
    (upgrade tg u).2.2 = some .upToDate ↔ needsConversion tg u = false := by
  unfold upgrade
  cases hn : needsConversion tg u
  · simp
  · simp only [Bool.not_true, Bool.false_eq_true, if_false]
    constructor
    · intro h; exact absurd h (upgradeLoop_not_uptodate 4 tg u)
    · intro h; cases h

/-- the combinations `ConvertMetaToMeta` has converters for -/
def Supported (tg : UTarget) (u : ULoc) : Prop :=
  (tg.branch = 6 ∨ tg.branch = 7 ∨ tg.branch = 8) ∧ (tg.tree = 4 ∨ tg.tree = 5 ∨ tg.tree = 6) ∧
  (∀ b, u.branch = some b → 5 ≤ b.fmt ∧ b.fmt ≤ tg.branch) ∧
  (∀ t, u.tree = some t → 3 ≤ t.fmt ∧ t.fmt ≤ 6 ∧ (t.fmt ≤ tg.tree ∨ tg.tree = 5))

def supportedB (tg : UTarget) (u : ULoc) : Bool :=
  (tg.branch == 6 || tg.branch == 7 || tg.branch == 8) && (tg.tree == 4 || tg.tree == 5 || tg.tree == 6) &&
  (match u.branch with | none => true | some b => decide (5 ≤ b.fmt) && decide (b.fmt ≤ tg.branch)) &&
  (match u.tree with
   | none => true
   | some t => decide (3 ≤ t.fmt) && decide (t.fmt ≤ 6) && (decide (t.fmt ≤ tg.tree) || tg.tree == 5))

theorem supportedB_iff (tg : UTarget) (u : ULoc) : supportedB tg u = true ↔ Supported tg u := by
  unfold supportedB Supported
  cases u.branch <;> cases u.tree <;> simp [and_assoc, or_assoc]

instance (tg : UTarget) (u : ULoc) : Decidable (Supported tg u) := decidable_of_iff _ (supportedB_iff tg u)

theorem branchLoop_reaches (b : UBranch) (new : Nat) (hn : new = 6 ∨ new = 7 ∨ new = 8) (h5 : 5 ≤ b.fmt)
    (hle : b.fmt ≤ new) : ∃ b' ss, branchLoop 3 new b = .ok (b', ss) ∧ b'.fmt = new := by
  have hf : b.fmt = 5 ∨ b.fmt = 6 ∨ b.fmt = 7 ∨ b.fmt = 8 := by omega
  rcases hn with rfl | rfl | rfl <;> rcases hf with h | h | h | h <;> (try omega) <;>
    simp [branchLoop, branchStep, stepBranch, h]

/-- the tree format after one pass: a format 3 tree only gets to 4 -/
def passFmt (old target : Nat) : Nat := if old = 3 then 4 else target

theorem treeSteps_fmt (t : UTree) (target : Nat) (h3 : 3 ≤ t.fmt) (h6 : t.fmt ≤ 6)
    (htg : target = 4 ∨ target = 5 ∨ target = 6) (hs : t.fmt ≤ target ∨ target = 5) :
    ((treeSteps t.fmt target).foldl (fun t s => stepTree s t) t).fmt = passFmt t.fmt target := by
  have hf : t.fmt = 3 ∨ t.fmt = 4 ∨ t.fmt = 5 ∨ t.fmt = 6 := by omega
  rcases htg with rfl | rfl | rfl <;> rcases hf with h | h | h | h <;> (try omega) <;>
    simp [treeSteps, stepTree, passFmt, h]

def needsF (tg : UTarget) (r b t : Option Nat) : Bool :=
  (match r with | some r => r != tg.repo | none => false) ||
  (match b with | some b => b != tg.branch | none => false) ||
  (match t with | some t => t != tg.tree | none => false)

theorem needs_eq (tg : UTarget) (u : ULoc) :
    needsConversion tg u = needsF tg u.repo (u.branch.map (·.fmt)) (u.tree.map (·.fmt)) := by
  unfold needsConversion needsF
  cases u.repo <;> cases u.branch <;> cases u.tree <;> rfl

theorem upgradePass_fmts (tg : UTarget) (u : ULoc) (h : Supported tg u) :
    (upgradePass tg u).2.2 = none ∧
    (upgradePass tg u).1.repo = u.repo.map (fun _ => tg.repo) ∧
    (upgradePass tg u).1.branch.map (·.fmt) = u.branch.map (fun _ => tg.branch) ∧
    (upgradePass tg u).1.tree.map (·.fmt) = u.tree.map (fun t => passFmt t.fmt tg.tree) := by
  obtain ⟨hb, ht, hbs, hts⟩ := h
  obtain ⟨r1, r2, r3, r4⟩ := passRepo_same tg u
  have hbr : ∃ b' ss, passBranch tg (passRepo tg u).1.branch = .ok (b', ss) ∧
      b'.map (·.fmt) = u.branch.map (fun _ => tg.branch) := by
    rw [r2]
    cases hub : u.branch with
    | none => exact ⟨none, [], rfl, rfl⟩
    | some b =>
      have hb' := hbs b hub
      obtain ⟨b', ss, hl, hf⟩ := branchLoop_reaches b tg.branch hb hb'.1 hb'.2
      exact ⟨some b', ss, by simp [passBranch, hl], by simp [hf]⟩
  obtain ⟨b', ss, hpb, hbf⟩ := hbr
  have htr : (passTree tg (passRepo tg u).1.tree).1.map (·.fmt) = u.tree.map (fun t => passFmt t.fmt tg.tree) := by
    rw [r3]
    cases hut : u.tree with
    | none => rfl
    | some t =>
      have := hts t hut
      simp [passTree, treeSteps_fmt t tg.tree this.1 this.2.1 ht this.2.2]
  unfold upgradePass
  simp only [hpb]
  exact ⟨trivial, r4, hbf, htr⟩

theorem upgradeLoop_step (n : Nat) (tg : UTarget) (u u' : ULoc) (ss : List Step) (hn : needsConversion tg u = true)
    (hp : upgradePass tg u = (u', ss, none)) :
    upgradeLoop (n + 1) tg u = ((upgradeLoop n tg u').1, ss :: (upgradeLoop n tg u').2.1, (upgradeLoop n tg u').2.2) := by
  simp [upgradeLoop, hn, hp]

theorem upgradeLoop_stop (n : Nat) (tg : UTarget) (u : ULoc) (hn : needsConversion tg u = false) :
    upgradeLoop n tg u = (u, [], none) := by
  cases n <;> simp [upgradeLoop, hn]

theorem upgrade_reaches (tg : UTarget) (u : ULoc) (h : Supported tg u) (hn : needsConversion tg u = true) :
    (upgrade tg u).2.2 = none ∧ needsConversion tg (upgrade tg u).1 = false ∧ (upgrade tg u).2.1.length ≤ 2 := by
  have hp1 := upgradePass_fmts tg u h
  obtain ⟨hb, ht, hbs, hts⟩ := h
  unfold upgrade
  simp only [hn, Bool.not_true, Bool.false_eq_true, if_false]
  generalize hr1 : upgradePass tg u = r1 at *
  obtain ⟨u1, ss1, e1⟩ := r1
  obtain ⟨p1, p2, p3, p4⟩ := hp1
  simp only at p1 p2 p3 p4
  subst p1
  rw [show (4 : Nat) = 3 + 1 from rfl, upgradeLoop_step 3 tg u u1 ss1 hn hr1]
  -- the location after the first pass is supported as well
  have hsup1 : Supported tg u1 := by
    refine ⟨hb, ht, ?_, ?_⟩
    · intro b hbb
      rw [hbb] at p3
      cases hub : u.branch with
      | none => simp [hub] at p3
      | some b0 =>
        simp [hub] at p3
        have := hbs b0 hub
        omega
    · intro t htt
      rw [htt] at p4
      cases hut : u.tree with
      | none => simp [hut] at p4
      | some t0 =>
        simp [hut] at p4
        have := hts t0 hut
        unfold passFmt at p4
        split at p4 <;> omega
  cases hn1 : needsConversion tg u1
  · rw [upgradeLoop_stop 3 tg u1 hn1]
    simp [hn1]
  · have hp2 := upgradePass_fmts tg u1 hsup1
    generalize hr2 : upgradePass tg u1 = r2 at *
    obtain ⟨u2, ss2, e2⟩ := r2
    obtain ⟨q1, q2, q3, q4⟩ := hp2
    simp only at q1 q2 q3 q4
    subst q1
    rw [show (3 : Nat) = 2 + 1 from rfl, upgradeLoop_step 2 tg u1 u2 ss2 hn1 hr2]
    have hn2 : needsConversion tg u2 = false := by
      rw [needs_eq, q2, q3, q4, p2]
      unfold needsF
      cases hur : u.repo <;> cases hub : u1.branch <;> cases hut : u1.tree <;> simp
      all_goals
        rename_i t1
        rw [hut] at p4
        cases hut0 : u.tree with
        | none => simp [hut0] at p4
        | some t0 =>
          simp [hut0] at p4
          unfold passFmt at *
          split <;> split at p4 <;> omega
    rw [upgradeLoop_stop 2 tg u2 hn2]
    simp [hn2]

end BreezyVerif.C52
