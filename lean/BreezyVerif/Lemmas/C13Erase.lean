import BreezyVerif.Model.C13
import BreezyVerif.Lemmas.C13
/-! helper lemmas for C13: `os.rename` neither reads nor writes the executable
bit — it commutes with erasing all bits -/
namespace BreezyVerif.C13

def Node.erase : Node → Node
  | .file c _ => .file c false
  | n => n

theorem eraseExec_eq (fs : FS) : eraseExec fs = fs.map fun e => (e.1, e.2.erase) := by
  unfold eraseExec
  apply List.map_congr_left
  intro e _
  obtain ⟨k, n⟩ := e
  cases n <;> rfl

theorem eraseExec_cons (e : Path × Node) (fs : FS) :
    eraseExec (e :: fs) = (e.1, e.2.erase) :: eraseExec fs := by
  simp [eraseExec_eq]

theorem get_eraseExec (fs : FS) (p : Path) : get (eraseExec fs) p = (get fs p).map Node.erase := by
  induction fs with
  | nil => simp [eraseExec, get]
  | cons e fs ih =>
    rw [eraseExec_cons, get_cons, get_cons, ih]
    by_cases h : e.1 = p <;> simp [h]

theorem erase_eq_dir {n : Node} : n.erase = .dir ↔ n = .dir := by
  cases n <;> simp [Node.erase]

theorem get_eraseExec_dir (fs : FS) (p : Path) :
    (get (eraseExec fs) p = some .dir) ↔ (get fs p = some .dir) := by
  rw [get_eraseExec]
  cases get fs p with
  | none => simp
  | some n => simp [erase_eq_dir]

theorem keysUnder_eraseExec (fs : FS) (b : Path) : keysUnder (eraseExec fs) b = keysUnder fs b := by
  simp [keysUnder, eraseExec_eq, List.any_map, Function.comp_def]

theorem hasChildren_eraseExec (fs : FS) (b : Path) :
    hasChildren (eraseExec fs) b = hasChildren fs b := by
  simp [hasChildren, eraseExec_eq, List.any_map, Function.comp_def]

theorem moveL_eraseExec (fs : FS) (a b : Path) : moveL (eraseExec fs) a b = eraseExec (moveL fs a b) := by
  simp only [moveL, eraseExec_eq, List.map_map]
  apply List.map_congr_left
  intro e _
  simp only [Function.comp]
  by_cases h : a.isPrefixOf e.1 = true <;> simp [h]

theorem deleteAny_eraseExec (fs : FS) (p : Path) : deleteAny (eraseExec fs) p = eraseExec (deleteAny fs p) := by
  simp only [deleteAny, eraseExec_eq, List.filter_map]
  rfl

theorem parentErr_eraseExec (fs : FS) (p : Path) : parentErr (eraseExec fs) p = parentErr fs p := by
  unfold parentErr
  congr 2
  funext i
  rw [get_eraseExec]
  cases get fs (p.take i) with
  | none => rfl
  | some n => cases n <;> rfl

/-- **`os.rename` is blind to the executable bit.** -/
theorem rename_eraseExec (fs : FS) (a b : Path) :
    rename (eraseExec fs) a b = (rename fs a b).map eraseExec := by
  unfold rename
  by_cases hroot : a = [] ∨ b = []
  · simp [hroot, Except.map]
  · simp only [hroot, if_false]
    by_cases hpa : get fs a.dropLast = some .dir
    · have hpa' := (get_eraseExec_dir fs a.dropLast).mpr hpa
      simp only [hpa, hpa', ne_eq, not_true_eq_false, if_false]
      by_cases hpb : get fs b.dropLast = some .dir
      · have hpb' := (get_eraseExec_dir fs b.dropLast).mpr hpb
        simp only [hpb, hpb', not_true_eq_false, if_false]
        rw [get_eraseExec]
        cases hga : get fs a with
        | none => simp [Except.map]
        | some na =>
          simp only [Option.map_some]
          by_cases hab : a = b
          · simp [hab, Except.map]
          · simp only [hab, if_false]
            by_cases hpre : a.isPrefixOf b = true
            · simp [hpre, Except.map]
            · simp only [hpre, if_false]
              by_cases hpre2 : b.isPrefixOf a = true
              · simp [hpre2, Except.map]
              · simp only [hpre2, if_false]
                rw [get_eraseExec]
                cases hgb : get fs b with
                | none =>
                  simp only [Option.map_none, keysUnder_eraseExec]
                  by_cases hk : keysUnder fs b = true
                  · simp [hk, Except.map]
                  · simp [hk, Except.map, moveL_eraseExec]
                | some nb =>
                  simp only [Option.map_some]
                  cases na <;> cases nb <;>
                    simp [Node.erase, Except.map, hasChildren_eraseExec, moveL_eraseExec, deleteAny_eraseExec] <;>
                    (by_cases hc : hasChildren fs b = true <;> simp [hc])
      · have hpb' : ¬ get (eraseExec fs) b.dropLast = some .dir :=
          fun h => hpb ((get_eraseExec_dir fs b.dropLast).mp h)
        simp [hpb, hpb', parentErr_eraseExec, Except.map]
    · have hpa' : ¬ get (eraseExec fs) a.dropLast = some .dir :=
        fun h => hpa ((get_eraseExec_dir fs a.dropLast).mp h)
      simp [hpa, hpa', parentErr_eraseExec, Except.map]

theorem eraseExec_setExec (fs : FS) (p : Path) (x : Bool) : eraseExec (setExec fs p x) = eraseExec fs := by
  induction fs with
  | nil => rfl
  | cons e fs ih =>
    unfold setExec
    by_cases he : e.1 = p
    · simp only [he, if_true]
      obtain ⟨k, n⟩ := e
      simp only at he
      subst he
      cases n <;> simp [eraseExec_eq, Node.erase]
    · simp only [he, if_false, eraseExec_cons, ih]

/-- two file systems that differ in executable bits only answer a rename alike -/
theorem rename_erase_congr {fs1 fs2 : FS} (h : eraseExec fs1 = eraseExec fs2) (a b : Path) :
    (rename fs1 a b).map eraseExec = (rename fs2 a b).map eraseExec := by
  rw [← rename_eraseExec, ← rename_eraseExec, h]

end BreezyVerif.C13
