import BreezyVerif.Lemmas.C32
/-
Helper lemmas for C32, part 2: well-formedness predicates of operations, the
locked-verb pattern, the as-found get_parent_map client, preservation of the
wire-safety of the stored graph.
-/
namespace BreezyVerif.C32

open BreezyVerif.C33 (toDec parseDec parseDec_toDec)

/-- the operations whose arguments travel through the line format -/
def OpOK : Op → Prop
  | .parentMap keys => ∀ k ∈ keys, RevOK k
  | _ => True

/-- the remote step with the as-found client differs only on get_parent_map
requests that name null: together with another key -/
def NullAlone : Op → Prop
  | .parentMap keys => nullRev ∉ keys ∨ ∀ k ∈ keys, k = nullRev
  | _ => True

theorem rLocked_eq (src : Graph) (st : St) (ex : List RevId) (mk : Nat → Req) (f : St → St)
    (hmk : ∀ t s, s.lock = some t → serve src s ex (mk t) = ({ okay := true, args := (serve src s ex (mk t)).1.args }, f s)) :
    rLocked src st ex mk =
      (match primLock st none with
       | .error e => (.err e, st)
       | .ok (t, s1) =>
         match primRelease (f s1) t with
         | .error e => (.err e, f s1)
         | .ok s3 => (.ok, s3)) := by
  unfold rLocked
  rw [rLock_eq]
  cases h : primLock st none with
  | error e => rfl
  | ok p =>
    obtain ⟨t, s1⟩ := p
    simp only []
    have hl := primLock_none_ok h
    rw [hmk t s1 hl]
    simp only [if_true, rUnlock_eq]
    first
      | rfl
      | (cases primRelease (f s1) t <;> rfl)

/-- the as-found and the fixed client agree unless null: is requested together with another key -/
theorem remoteParentMap_as_found (src : Graph) (st : St) (ex keys : List RevId)
    (h : nullRev ∉ keys ∨ ∀ k ∈ keys, k = nullRev) :
    remoteParentMap false src st ex keys = remoteParentMap true src st ex keys := by
  unfold remoteParentMap
  simp only []
  split
  · rfl
  · rename_i hne
    apply filterMap_congr'
    intro k hk
    by_cases hn : k = nullRev
    · exfalso
      rcases h with h | h
      · apply h; rw [← hn]; exact mem_dedupKeys.mp hk
      · apply hne
        have : (dedupKeys keys).filter (· ≠ nullRev) = [] := by
          apply List.filter_eq_nil_iff.mpr
          intro x hx
          simp [h x (mem_dedupKeys.mp hx)]
        rw [this]; rfl
    · simp [hn]

theorem lookup_mem_graph {k : RevId} {ps : List RevId} {g : Graph} (h : lookup k g = some ps) : (k, ps) ∈ g :=
  lookup_mem h

theorem addRevs_ok (src : Graph) (hs : GraphOK src) (st : St) (rs : List RevId) (hg : GraphOK st.revs) :
    GraphOK (addRevs src st rs).revs := by
  unfold addRevs
  simp only []
  generalize st.revs = g at hg
  induction rs generalizing g with
  | nil => simpa using hg
  | cons r rest ih =>
    simp only [List.foldl_cons]
    apply ih
    cases h1 : lookup r g with
    | some _ => simpa [h1] using hg
    | none =>
      cases h2 : lookup r src with
      | none => simpa [h1, h2] using hg
      | some ps =>
        simp only []
        intro e he
        rcases List.mem_append.mp he with h | h
        · exact hg e h
        · simp only [List.mem_singleton] at h
          subst h
          exact hs _ (lookup_mem h2)

/-- the stored graph stays wire-safe along every script when the source graph is -/
theorem localStep_graphOK (src : Graph) (hs : GraphOK src) (st : St) (op : Op) (hg : GraphOK st.revs) :
    GraphOK (localStep src st op).2.revs := by
  cases op with
  | fetch r =>
    simp only [localStep]
    split
    · exact hg
    · split
      · exact hg
      · exact addRevs_ok src hs st _ hg
  | parentMap keys => exact hg
  | tagDict => exact hg
  | confGet name => exact hg
  | tip => exact hg
  | tipSet n r =>
    simp only [localStep, primLock, primRelease]
    cases st.lock <;> simp <;> exact hg
  | tagSet name r =>
    simp only [localStep, primLock, primRelease]
    cases st.lock <;> simp <;> exact hg
  | confSet name v =>
    simp only [localStep, primLock, primRelease]
    cases st.lock <;> simp <;> exact hg
  | tagDel name =>
    simp only [localStep, primLock, primRelease]
    cases st.lock <;> simp
    · cases lookup name st.tags <;> simp <;> exact hg
    · exact hg
  | lockLeave =>
    simp only [localStep, primLock]
    cases st.lock <;> simp <;> exact hg
  | relockRelease good =>
    simp only [localStep]
    cases h : primLock st (some ((presented st good).getD st.nextTok)) with
    | error e => exact hg
    | ok p =>
      obtain ⟨t, s1⟩ := p
      obtain ⟨_, hs1, _⟩ := primLock_some_ok h
      subst hs1
      by_cases hlk : s1.lock = some t
      · simp only [primRelease, hlk, if_true]; exact hg
      · simp only [primRelease, hlk, if_false]; exact hg
  | tipSetTok good n r =>
    simp only [localStep]
    cases h : primLock st (some ((presented st good).getD st.nextTok)) with
    | error e => exact hg
    | ok p =>
      obtain ⟨t, s1⟩ := p
      obtain ⟨_, hs1, _⟩ := primLock_some_ok h
      subst hs1
      exact hg

end BreezyVerif.C32
