"""Lean side: build (serialised with flock), driver client, axiom audit."""
import fcntl
import os
import re
import subprocess
import time

from . import env

LEAN_DIR = os.path.join(env.VERIF, "lean")
ALLOWED_AXIOMS = {"propext", "Classical.choice", "Quot.sound"}
FORBIDDEN = re.compile(
    r"\bsorry\b|\badmit\b|^\s*axiom\s|native_decide|bv_decide|implemented_by|\bunsafe\s|maxHeartbeats\s+0\b",
    re.M)


class LakeLock:
    def __enter__(self):
        self.f = open(os.path.join(LEAN_DIR, ".lake.lock"), "w")
        fcntl.flock(self.f, fcntl.LOCK_EX)
        return self

    def __exit__(self, *a):
        fcntl.flock(self.f, fcntl.LOCK_UN)
        self.f.close()


def _strip_comments(src):
    # remove /- ... -/ (nested not handled beyond one level, sufficient here) and -- comments
    out = []
    depth = 0
    i = 0
    n = len(src)
    while i < n:
        if src.startswith("/-", i):
            depth += 1
            i += 2
        elif src.startswith("-/", i) and depth:
            depth -= 1
            i += 2
        elif depth:
            if src[i] == "\n":
                out.append("\n")
            i += 1
        elif src.startswith("--", i):
            while i < n and src[i] != "\n":
                i += 1
        else:
            out.append(src[i])
            i += 1
    return "".join(out)


def build(targets, timeout=1500):
    """lake build the given targets.  Returns (ok, output)."""
    with LakeLock():
        t0 = time.time()
        r = subprocess.run(["lake", "build"] + list(targets), cwd=LEAN_DIR,
                           capture_output=True, text=True, timeout=timeout)
        return r.returncode == 0, (r.stdout + r.stderr), time.time() - t0


def _module_closure(pid):
    """files of the property's own modules and everything they import inside BreezyVerif"""
    roots = ["BreezyVerif.Props.%s" % pid, "BreezyVerif.Props.%sT1" % pid, "BreezyVerif.Driver.%s" % pid,
             "BreezyVerif.Model.%s" % pid]
    seen, todo, files = set(), list(roots), []
    while todo:
        m = todo.pop()
        if m in seen:
            continue
        seen.add(m)
        f = os.path.join(LEAN_DIR, *m.split(".")) + ".lean"
        if not os.path.exists(f):
            continue
        files.append(f)
        for imp in re.findall(r"^\s*import\s+(BreezyVerif\.[A-Za-z0-9_.]+)", open(f).read(), re.M):
            todo.append(imp)
    return sorted(files)


def grep_forbidden(pid):
    """Forbidden tokens in the sources of the property's modules and their
    BreezyVerif imports (comments stripped).  Returns list of (file, token)."""
    hits = []
    for f in _module_closure(pid):
        src = _strip_comments(open(f).read())
        for m in FORBIDDEN.finditer(src):
            hits.append((os.path.relpath(f, LEAN_DIR), m.group(0).strip()))
    return hits


def audit(pid, theorems, imports=None):
    """#print axioms for every theorem.  Returns dict name -> (ok, detail)."""
    imports = imports or ["BreezyVerif.Props.%s" % pid]
    src = "".join("import %s\n" % i for i in imports)
    for t in theorems:
        src += "#print axioms BreezyVerif.%s.%s\n" % (pid, t)
    path = os.path.join(env.subdir("audit"), "Audit_%s.lean" % pid)
    with open(path, "w") as f:
        f.write(src)
    with LakeLock():
        r = subprocess.run(["lake", "env", "lean", path], cwd=LEAN_DIR,
                           capture_output=True, text=True, timeout=900)
    out = r.stdout + r.stderr
    res = {}
    flat = re.sub(r"\s+", " ", out)
    for t in theorems:
        full = "BreezyVerif.%s.%s" % (pid, t)
        m = re.search(r"'%s' depends on axioms: \[([^\]]*)\]" % re.escape(full), flat)
        if m:
            axs = {a.strip() for a in m.group(1).split(",") if a.strip()}
            bad = axs - ALLOWED_AXIOMS
            res[t] = (not bad, "axioms=" + ",".join(sorted(axs)))
        elif re.search(r"'%s' does not depend on any axioms" % re.escape(full), flat):
            res[t] = (True, "axioms=")
        else:
            res[t] = (False, "not found / not checked")
    return res, out


def declared_theorems(pid):
    """Names of theorems declared in Props/<pid>.lean (comments stripped)."""
    p = os.path.join(LEAN_DIR, "BreezyVerif", "Props", "%s.lean" % pid)
    if not os.path.exists(p):
        return []
    src = _strip_comments(open(p).read())
    return re.findall(r"^\s*(?:@\[[^\]]*\]\s*)?theorem\s+([A-Za-z0-9_'.?!]+)", src, re.M)


class Driver:
    """Batch client of the compiled line-protocol driver."""

    def __init__(self, pid):
        self.exe = os.path.join(LEAN_DIR, ".lake", "build", "bin", "vd_%s" % pid)
        if not os.path.exists(self.exe):
            raise env.InfraError("%s not built: run setup (lake build)" % self.exe)

    def ask(self, lines, timeout=1200):
        if not lines:
            return []
        data = "\n".join(lines) + "\n"
        for l in lines:
            if "\n" in l:
                raise ValueError("newline inside protocol line: %r" % l)
        r = subprocess.run([self.exe], input=data.encode(), capture_output=True, timeout=timeout)
        if r.returncode != 0:
            raise env.InfraError("vdriver failed: %s" % r.stderr.decode()[-2000:])
        out = r.stdout.decode().split("\n")
        if out and out[-1] == "":
            out.pop()
        if len(out) != len(lines):
            raise env.InfraError("vdriver answered %d lines for %d requests" % (len(out), len(lines)))
        return out


def hexb(b):
    return b.hex() if b else "-"


def unhex(s):
    return b"" if s == "-" else bytes.fromhex(s)
