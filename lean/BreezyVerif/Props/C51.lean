import BreezyVerif.Lemmas.C51
/-!
C51 — theorems.  All parent maps (any size, with ghosts), all onto / stop
revisions, all topological orders `topo_sort` may return, any `generate_revid`.

`g` is the revision graph, `order` the output of `topo_sort` on the todo set,
`Reach g [] [k] a` (Lemmas/C33) says `a` is `k` or an ancestor of `k`.
-/
namespace BreezyVerif.C51
open BreezyVerif.C33

/-- `anc` computes ancestry: `a ∈ anc g k` iff `a` is reachable from `k` by parent steps -/
theorem anc_spec (g : PMap) (k a : Key) : a ∈ anc g k ↔ Reach g [] [k] a := mem_anc g k a

/-! ### the plan loop rewrites exactly `todo`, in order (no skipping) -/

theorem planLoop_domain (g : PMap) (gen : Key → Key) (onto : Key) :
    ∀ (todo : List Key) (plan plan' : Plan), planLoop g gen onto false plan todo = .ok plan' →
      plan'.map (·.old) = plan.map (·.old) ++ todo ∧ ∀ e ∈ plan', e ∈ plan ∨ e.new = gen e.old := by
  intro todo
  induction todo with
  | nil =>
    intro plan plan' h
    simp only [planLoop] at h
    cases h
    exact ⟨by simp, fun e he => Or.inl he⟩
  | cons old todo ih =>
    intro plan plan' h
    simp only [planLoop] at h
    split at h
    · cases h
    · rename_i plan1 hstep
      obtain ⟨p0, rest, _, hp1⟩ := planStep_noskip hstep
      obtain ⟨h1, h2⟩ := ih plan1 plan' h
      subst hp1
      refine ⟨by simp [h1], ?_⟩
      intro e he
      rcases h2 e he with h3 | h3
      · rcases List.mem_append.mp h3 with h4 | h4
        · exact Or.inl h4
        · simp only [List.mem_singleton] at h4
          subst h4
          exact Or.inr rfl
      · exact Or.inr h3

theorem indexOf?_head (x : Key) (l : List Key) : indexOf? (x :: l) x = some 0 := by
  simp [indexOf?, List.findIdx_cons]

theorem findIdx_getLast : ∀ (l : List Key) (s : Key), l.Nodup → l.getLast? = some s →
    l.findIdx (· == s) = l.length - 1 := by
  intro l
  induction l with
  | nil => intro s _ h; simp at h
  | cons x l ih =>
    intro s hnd h
    cases l with
    | nil =>
      simp at h
      subst h
      simp [List.findIdx_cons]
    | cons y r =>
      have hl : (y :: r).getLast? = some s := by simpa [List.getLast?_cons_cons] using h
      have hnd' := (List.nodup_cons.mp hnd)
      have hs : s ∈ y :: r := List.mem_of_getLast? hl
      have hx : x ≠ s := fun e => hnd'.1 (e ▸ hs)
      have hxs : (x == s) = false := by simpa using hx
      rw [List.findIdx_cons, hxs, cond_false, ih s hnd'.2 hl]
      simp only [List.length_cons]
      omega

theorem indexOf?_getLast (l : List Key) (s : Key) (hnd : l.Nodup) (h : l.getLast? = some s) :
    indexOf? l s = some (l.length - 1) := by
  unfold indexOf?
  simp only [findIdx_getLast l s hnd h]
  have : l ≠ [] := by intro e; subst e; simp at h
  have : 0 < l.length := List.length_pos_iff.mpr this
  have h2 : l.length - 1 < l.length := by omega
  simp [h2]

/-- what a successful `generate_simple_plan(…, start=None, …)` did: it ran the
loop over a slice of `order` -/
theorem simplePlan_ok {g : PMap} {gen : Key → Key} {todoS order : List Key} {stop : Option Key}
    {onto : Key} {skip : Bool} {plan : Plan}
    (h : simplePlan g gen todoS order none stop onto skip = .ok plan) :
    ∃ stopK startK i j, (stop = some stopK ∨ (stop = none ∧ order.getLast? = some stopK)) ∧
      order.head? = some startK ∧ indexOf? order startK = some i ∧ indexOf? order stopK = some j ∧
      unrelated g stopK onto = false ∧
      planLoop g gen onto skip [] ((order.drop i).take (j + 1 - i)) = .ok plan := by
  unfold simplePlan at h
  have hany : (none : Option Key).any (fun x => decide (x ∉ todoS)) = false := rfl
  simp only [hany, Bool.false_eq_true, if_false] at h
  split at h
  · cases h
  · cases hs : pickStop order stop with
    | error e => simp [hs] at h
    | ok stopK =>
      simp only [hs] at h
      have hstopK : stop = some stopK ∨ (stop = none ∧ order.getLast? = some stopK) := by
        unfold pickStop at hs
        cases stop with
        | some s => simp at hs; exact Or.inl (by rw [hs])
        | none =>
          cases hl : order.getLast? with
          | some s => simp [hl] at hs; exact Or.inr ⟨rfl, by rw [hs]⟩
          | none => simp [hl] at hs
      cases hst : pickStart g order onto stopK none with
      | error e => simp [hst] at h
      | ok startK =>
        simp only [hst] at h
        unfold pickStart at hst
        by_cases hu : unrelated g stopK onto = true
        · simp [hu] at hst
        · simp only [hu, Bool.false_eq_true, if_false] at hst
          cases hh : order.head? with
          | none => simp [hh] at hst
          | some s0 =>
            simp only [hh, Except.ok.injEq] at hst
            subst hst
            cases hi : indexOf? order s0 with
            | none => simp [hi] at h
            | some i =>
              cases hj : indexOf? order stopK with
              | none => simp [hi, hj] at h
              | some j =>
                simp only [hi, hj] at h
                exact ⟨stopK, s0, i, j, hstopK, rfl, hi, hj, by simpa using hu, h⟩

/-- the whole `order` is the slice when `stop` is `None` or the last revision of `order` -/
theorem simplePlan_loop {g : PMap} {gen : Key → Key} {todoS order : List Key} {stop : Option Key}
    {onto : Key} {skip : Bool} {plan : Plan} (hnd : order.Nodup)
    (hstop : ∀ s, stop = some s → order.getLast? = some s)
    (h : simplePlan g gen todoS order none stop onto skip = .ok plan) :
    planLoop g gen onto skip [] order = .ok plan := by
  obtain ⟨stopK, startK, i, j, hs, hh, hi, hj, _, hl⟩ := simplePlan_ok h
  have hlast : order.getLast? = some stopK := by
    rcases hs with h1 | ⟨_, h2⟩
    · exact hstop stopK h1
    · exact h2
  cases order with
  | nil => simp at hh
  | cons x l =>
    simp only [List.head?_cons, Option.some.injEq] at hh
    subst hh
    rw [indexOf?_head] at hi
    rw [indexOf?_getLast _ _ hnd hlast] at hj
    cases hi; cases hj
    simpa using hl

/-- `plan_domain`: with `skip_full_merged=False`, `start=None` and `stop` either
`None` or the last revision in topological order (the `rebase` command's case),
the plan has exactly one entry per revision of `order`, in that order, and each
new id is `generate_revid(old)`. -/
theorem plan_domain (g : PMap) (gen : Key → Key) (todoS order : List Key) (stop : Option Key)
    (onto : Key) (plan : Plan) (hnd : order.Nodup)
    (hstop : ∀ s, stop = some s → order.getLast? = some s)
    (h : simplePlan g gen todoS order none stop onto false = .ok plan) :
    plan.map (·.old) = order := by
  have := (planLoop_domain g gen onto order [] plan (simplePlan_loop hnd hstop h)).1
  simpa using this

/-- `plan_new_ids`: every entry's new id is `generate_revid` of its old id (so new
ids are distinct and fresh whenever `generate_revid` is injective and fresh) -/
theorem plan_new_ids (g : PMap) (gen : Key → Key) (todoS order : List Key) (stop : Option Key)
    (onto : Key) (plan : Plan) (hnd : order.Nodup)
    (hstop : ∀ s, stop = some s → order.getLast? = some s)
    (h : simplePlan g gen todoS order none stop onto false = .ok plan) :
    ∀ e ∈ plan, e.new = gen e.old ∧ e.new ≠ e.old := by
  have hl := simplePlan_loop hnd hstop h
  intro e he
  have h1 : e.new = gen e.old := by
    rcases (planLoop_domain g gen onto order [] plan hl).2 e he with h2 | h2
    · cases h2
    · exact h2
  refine ⟨h1, ?_⟩
  -- the loop raises AssertionError when gen old = old
  have key : ∀ (todo : List Key) (p p' : Plan), planLoop g gen onto false p todo = .ok p' →
      ∀ e ∈ p', e ∈ p ∨ gen e.old ≠ e.old := by
    intro todo
    induction todo with
    | nil => intro p p' h e he; simp only [planLoop] at h; cases h; exact Or.inl he
    | cons old todo ih =>
      intro p p' h e he
      simp only [planLoop] at h
      split at h
      · cases h
      · rename_i p1 hstep
        rcases ih p1 p' h e he with h3 | h3
        · have hstep' := hstep
          unfold planStep at hstep'
          cases hp : parentsOf g old with
          | none => simp [hp] at hstep'
          | some l =>
            cases l with
            | nil => simp [hp] at hstep'
            | cons p0 rest =>
              simp only [hp, Bool.and_false, Bool.false_eq_true, if_false] at hstep'
              by_cases hg : gen old = old
              · simp [hg] at hstep'
              · simp only [hg, if_false] at hstep'
                cases hstep'
                rcases List.mem_append.mp h3 with h4 | h4
                · exact Or.inl h4
                · simp only [List.mem_singleton] at h4
                  subst h4
                  exact Or.inr hg
        · exact Or.inr h3
  rcases key order [] plan hl e he with h2 | h2
  · cases h2
  · rw [h1]; exact h2

/-- `plan_domain_todo`: if `order` enumerates the present revisions of
`find_difference(tip, onto)[0]`, the plan rewrites exactly the revisions that
are in the history of `tip` but not in the history of `onto`. -/
theorem plan_domain_todo (g : PMap) (gen : Key → Key) (todoS order : List Key) (stop : Option Key)
    (tip onto : Key) (plan : Plan) (hnd : order.Nodup)
    (hstop : ∀ s, stop = some s → order.getLast? = some s)
    (hmem : ∀ k, k ∈ order ↔ (k ∈ todoSet g tip onto ∧ present g k = true))
    (h : simplePlan g gen todoS order none stop onto false = .ok plan) (k : Key) :
    k ∈ plan.map (·.old) ↔
      (Reach g [] [tip] k ∧ ¬ Reach g [] [onto] k ∧ ∃ ps, parentsOf g k = some ps) := by
  rw [plan_domain g gen todoS order stop onto plan hnd hstop h, hmem]
  unfold todoSet
  simp only [List.mem_filter, decide_eq_true_eq, mem_anc, present_iff, and_assoc]

/-! ### every new parent is the new base, an earlier new id, or a ghost -/

/-- walking the plan in order with the new ids seen so far -/
def PlanClosed (g : PMap) (onto : Key) : List Key → Plan → Prop
  | _, [] => True
  | news, e :: rest =>
    (∀ p ∈ e.parents, p = onto ∨ p ∈ news ∨ parentsOf g p = none) ∧
      PlanClosed g onto (news ++ [e.new]) rest

theorem planClosed_append (g : PMap) (onto : Key) : ∀ (plan : Plan) (news : List Key) (e : Entry),
    PlanClosed g onto news plan →
    (∀ p ∈ e.parents, p = onto ∨ p ∈ news ++ plan.map (·.new) ∨ parentsOf g p = none) →
    PlanClosed g onto news (plan ++ [e]) := by
  intro plan
  induction plan with
  | nil => intro news e _ h; simpa [PlanClosed] using h
  | cons x plan ih =>
    intro news e hc h
    simp only [List.cons_append, PlanClosed] at hc ⊢
    refine ⟨hc.1, ih _ e hc.2 ?_⟩
    simpa [List.append_assoc] using h

/-- no revision's parent appears at or after it (`topo_sort` output) -/
def topoFrom (g : PMap) : List Key → Bool
  | [] => true
  | old :: rest => (parentsL g old).all (fun p => p != old && !(rest.contains p)) && topoFrom g rest

theorem planLoop_closed (g : PMap) (gen : Key → Key) (tip onto : Key) :
    ∀ (todo done : List Key) (plan plan' : Plan),
      (∀ k, k ∈ done ++ todo ↔ (k ∈ todoSet g tip onto ∧ present g k = true)) →
      topoFrom g todo = true → plan.map (·.old) = done →
      PlanClosed g onto [] plan →
      planLoop g gen onto false plan todo = .ok plan' → PlanClosed g onto [] plan' := by
  intro todo
  induction todo with
  | nil =>
    intro done plan plan' _ _ _ hc h
    simp only [planLoop] at h
    cases h
    exact hc
  | cons old todo ih =>
    intro done plan plan' hmem htopo hdone hc h
    simp only [planLoop] at h
    split at h
    · cases h
    · rename_i plan1 hstep
      obtain ⟨p0, rest, hps, hp1⟩ := planStep_noskip hstep
      simp only [topoFrom, Bool.and_eq_true, List.all_eq_true, bne_iff_ne, Bool.not_eq_true',
        List.contains_eq_mem, decide_eq_false_iff_not] at htopo
      have hold : old ∈ todoSet g tip onto := ((hmem old).mp (by simp)).1
      have holdA : old ∈ anc g tip := by
        unfold todoSet at hold
        exact (List.mem_filter.mp hold).1
      apply ih (done ++ [old]) plan1 plan' (by simpa [List.append_assoc] using hmem) htopo.2
        (by subst hp1; simp [hdone]) _ h
      subst hp1
      apply planClosed_append g onto plan [] _ hc
      intro p hp
      rcases newParents_src g onto plan p0 rest p hp with h1 | ⟨e, he, h1⟩ | ⟨h1, h2, h3⟩
      · exact Or.inl h1
      · exact Or.inr (Or.inl (by simp only [List.nil_append]; exact List.mem_map.mpr ⟨e, he, h1⟩))
      · -- an old parent kept: it is not merged into onto and has no entry, so it is a ghost
        right; right
        have hpA : p ∈ anc g tip := anc_parent holdA hps h1
        have hnm : p ∉ anc g onto := by
          intro hm
          unfold mergedInto at h2
          simp [hm] at h2
        cases hpp : parentsOf g p with
        | none => rfl
        | some pps =>
          exfalso
          have hin : p ∈ done ++ old :: todo := (hmem p).mpr
            ⟨by unfold todoSet; simp [List.mem_filter, hpA, hnm], present_iff.mpr ⟨pps, hpp⟩⟩
          have hpl : p ∈ parentsL g old := mem_parentsL.mpr ⟨_, hps, h1⟩
          have := htopo.1 p hpl
          rcases List.mem_append.mp hin with h4 | h4
          · exact h3 (hdone ▸ h4)
          · rcases List.mem_cons.mp h4 with h5 | h5
            · exact this.1 h5
            · exact this.2 h5

/-- `plan_parents_closed_partial`: with `skip_full_merged=False`, `start=None`,
`stop` = `None` or the tip, `order` a topological order of the present revisions
of `find_difference(tip, onto)[0]`: walking the plan in its own order, every new
parent is the new base `onto`, the new id of a revision rewritten earlier, or a
ghost (which cannot be rewritten).

PARTIAL: proved only for `skip_full_merged=False`.  With `True` (the `rebase`
command's default) the statement is false — see `plan_skip_witness`. -/
theorem plan_parents_closed_partial (g : PMap) (gen : Key → Key) (todoS order : List Key)
    (stop : Option Key) (tip onto : Key) (plan : Plan) (hnd : order.Nodup)
    (hstop : ∀ s, stop = some s → order.getLast? = some s)
    (hmem : ∀ k, k ∈ order ↔ (k ∈ todoSet g tip onto ∧ present g k = true))
    (htopo : topoFrom g order = true)
    (h : simplePlan g gen todoS order none stop onto false = .ok plan) :
    PlanClosed g onto [] plan :=
  planLoop_closed g gen tip onto order [] [] plan (by simpa using hmem) htopo rfl trivial
    (simplePlan_loop hnd hstop h)

/-! ### skipping fully merged merges (the command's default) -/

/-- with skipping, the plan still only rewrites revisions of `todo`, and every
revision left out is a merge (it has at least two parents) -/
theorem plan_skip_domain (g : PMap) (gen : Key → Key) (onto : Key) (skip : Bool) :
    ∀ (todo : List Key) (plan plan' : Plan), planLoop g gen onto skip plan todo = .ok plan' →
      (∀ k ∈ plan'.map (·.old), k ∈ plan.map (·.old) ∨ k ∈ todo) ∧
      (∀ k ∈ todo, k ∈ plan'.map (·.old) ∨
        ∃ p0 p1 rest, parentsOf g k = some (p0 :: p1 :: rest)) := by
  intro todo
  induction todo with
  | nil =>
    intro plan plan' h
    simp only [planLoop] at h
    cases h
    exact ⟨fun k hk => Or.inl hk, fun k hk => by cases hk⟩
  | cons old todo ih =>
    intro plan plan' h
    simp only [planLoop] at h
    split at h
    · cases h
    · rename_i plan1 hstep
      obtain ⟨h1, h2⟩ := ih plan1 plan' h
      obtain ⟨p0, rest, hps, hc | hc⟩ := planStep_cases hstep
      · obtain ⟨hp, hr, _⟩ := hc
        subst hp
        refine ⟨fun k hk => ?_, fun k hk => ?_⟩
        · rcases h1 k hk with h3 | h3
          · exact Or.inl h3
          · exact Or.inr (List.mem_cons_of_mem _ h3)
        · rcases List.mem_cons.mp hk with h3 | h3
          · subst h3
            cases rest with
            | nil => exact absurd rfl hr
            | cons p1 r => exact Or.inr ⟨p0, p1, r, hps⟩
          · exact h2 k h3
      · subst hc
        have hmap : ∀ k, k ∈ (plan ++ [(⟨old, gen old, (newParents g onto plan p0 rest).1 ::
            (newParents g onto plan p0 rest).2⟩ : Entry)]).map (·.old) ↔ k ∈ plan.map (·.old) ∨ k = old := by
          intro k; simp
        refine ⟨fun k hk => ?_, fun k hk => ?_⟩
        · rcases h1 k hk with h3 | h3
          · rcases (hmap k).mp h3 with h4 | h4
            · exact Or.inl h4
            · exact Or.inr (by simp [h4])
          · exact Or.inr (List.mem_cons_of_mem _ h3)
        · rcases List.mem_cons.mp hk with h3 | h3
          · subst h3
            left
            -- entries are never removed
            have keep : ∀ (todo : List Key) (p p' : Plan), planLoop g gen onto skip p todo = .ok p' →
                ∀ k ∈ p.map (·.old), k ∈ p'.map (·.old) := by
              intro todo
              induction todo with
              | nil => intro p p' h k hk; simp only [planLoop] at h; cases h; exact hk
              | cons o t iht =>
                intro p p' h k hk
                simp only [planLoop] at h
                split at h
                · cases h
                · rename_i p1 hs
                  apply iht p1 p' h
                  obtain ⟨_, _, _, hc | hc⟩ := planStep_cases hs
                  · rw [hc.1]; exact hk
                  · rw [hc]; simp only [List.map_append, List.mem_append]; exact Or.inl hk
            exact keep todo _ plan' h k ((hmap k).mpr (Or.inr rfl))
          · exact h2 k h3

/-- F12 graph: `1 ← 2 ← 3 (onto)`, `1 ← 4 ← 5 = merge(4, 2) ← 6`;
`order = [4, 5, 6]` -/
def f12G : PMap := [(0, []), (1, [0]), (2, [1]), (3, [2]), (4, [1]), (5, [4, 2]), (6, [5])]

/-- `plan_skip_witness` (DESIGN §7-F12): with `skip_full_merged=True` the merge
`5` is skipped and its child `6` is planned with parents `(onto, 5)`: the OLD
merge revision, which is present (not a ghost), is not the new base and is not
the new id of any entry.  The closure statement of
`plan_parents_closed_partial` fails on this input, all of whose other
hypotheses hold; with `False` the plan is closed. -/
theorem plan_skip_witness :
    (simplePlan f12G (· + 100) [4, 5, 6] [4, 5, 6] none (some 6) 3 true).toOption =
        some [⟨4, 104, [3]⟩, ⟨6, 106, [3, 5]⟩] ∧
      parentsOf f12G 5 = some [4, 2] ∧ (5 : Key) ≠ 3 ∧ (5 : Key) ∉ [104, 106] ∧
      (simplePlan f12G (· + 100) [4, 5, 6] [4, 5, 6] none (some 6) 3 false).toOption =
        some [⟨4, 104, [3]⟩, ⟨5, 105, [104]⟩, ⟨6, 106, [105]⟩] ∧
      (∀ k, k ∈ [4, 5, 6] ↔ (k ∈ todoSet f12G 6 3 ∧ present f12G k = true)) ∧
      topoFrom f12G [4, 5, 6] = true := by
  refine ⟨by decide, by decide, by decide, by decide, by decide, ?_, by decide⟩
  intro k
  have h : todoSet f12G 6 3 = [6, 5, 4] := by decide
  rw [h]
  constructor
  · intro hk
    simp only [List.mem_cons, List.not_mem_nil, or_false] at hk
    rcases hk with rfl | rfl | rfl <;> decide
  · rintro ⟨hk, _⟩
    simp only [List.mem_cons, List.not_mem_nil, or_false] at hk ⊢
    rcases hk with rfl | rfl | rfl <;> simp

/-! ### the plan file -/

/-- `marshal_roundtrip`: `unmarshall_rebase_plan(marshall_rebase_plan(info, plan))
== (info, plan)` for every revno, every revid without newline, and every plan
(any number of entries and parents) whose ids contain no space / newline and
whose old ids are distinct (a dict). -/
theorem marshal_roundtrip (p : WPlan) (hrev : NL ∉ p.revid)
    (hids : ∀ e ∈ p.entries, (SP ∉ e.old ∧ NL ∉ e.old) ∧ (SP ∉ e.new ∧ NL ∉ e.new) ∧
      ∀ q ∈ e.parents, SP ∉ q ∧ NL ∉ q)
    (hnd : (p.entries.map (·.old)).Nodup) :
    unmarshal (marshal p) = .ok p := by
  have hhdr : NL ∉ header := by decide
  have hl1 : NL ∉ toDec p.revno ++ SP :: p.revid := by
    intro h
    rcases List.mem_append.mp h with h | h
    · exact nl_not_mem_toDec _ h
    · rcases List.mem_cons.mp h with h | h
      · simp [NL, SP] at h
      · exact hrev h
  have hlines : ∀ e ∈ p.entries, NL ∉ entryLine e := fun e he =>
    nl_not_mem_entryLine e (hids e he).1.2 (hids e he).2.1.2 (fun q hq => ((hids e he).2.2 q hq).2)
  unfold unmarshal marshal
  have hshape : header ++ [NL] ++ (toDec p.revno ++ SP :: p.revid ++ [NL]) ++
      p.entries.flatMap (fun e => entryLine e ++ [NL]) =
      header ++ NL :: ((toDec p.revno ++ SP :: p.revid) ++ NL ::
        p.entries.flatMap (fun e => entryLine e ++ [NL])) := by
    simp [List.append_assoc]
  rw [hshape, split_append_sep hhdr, split_append_sep hl1, split_body p.entries hlines]
  simp only [ne_eq, not_true_eq_false, if_false]
  rw [split1_append_sep (sp_not_mem_toDec _)]
  simp only [parseDec_toDec]
  rw [parseLines_entries p.entries []
    (fun e he => ⟨(hids e he).1.1, (hids e he).2.1.1, fun q hq => ((hids e he).2.2 q hq).1⟩)
    (by simpa using hnd)]
  simp

/-! ### `rebase_todo` -/

/-- `todo_is_unrewritten`: `rebase_todo` lists exactly the old ids whose new
revision is not yet in the repository -/
theorem todo_is_unrewritten (revs : List Key) (plan : Plan) (k : Key) :
    k ∈ rebaseTodo revs plan ↔ ∃ e ∈ plan, e.old = k ∧ e.new ∉ revs := by
  unfold rebaseTodo
  simp only [List.mem_map, List.mem_filter, decide_eq_true_eq]
  constructor
  · rintro ⟨e, ⟨he, hn⟩, hk⟩; exact ⟨e, he, hk, hn⟩
  · rintro ⟨e, he, hk, hn⟩; exact ⟨e, ⟨he, hn⟩, hk⟩

/-! ### `generate_transpose_plan` -/

/-- PARTIAL: only the last step of `generate_transpose_plan` is proved here —
the renamed revisions themselves never appear in the returned plan.  That every
descendant is rewritten with substituted parents is covered by the
correspondence run and the oracle, not by a theorem (the worklist loop is
modelled with fuel). -/
theorem transpose_excludes_renames_partial (ancestry : List (Key × Option (List Key)))
    (renames : List (Key × Key)) (g : PMap) (gen : Key → Key) (fuel : Nat) (plan : Plan)
    (h : transposePlan ancestry renames g gen fuel = .ok plan) :
    ∀ e ∈ plan, e.old ∉ renames.map (·.1) := by
  unfold transposePlan at h
  simp only at h
  split at h
  · cases h
  · split at h
    · cases h
    · cases h
      intro e he hm
      simp only [List.mem_filter, Bool.not_eq_true', List.any_eq_false, beq_iff_eq] at he
      obtain ⟨rv, hrv, heq⟩ := List.mem_map.mp hm
      exact he.2 rv hrv heq

/-! ### non-vacuity -/

example : [4, 5, 6].Nodup ∧ (∀ s, some 6 = some s → [4, 5, 6].getLast? = some s) := by decide
example : todoSet f12G 6 3 = [6, 5, 4] ∧ topoFrom f12G [4, 5, 6] = true := by decide
example : rebaseTodo [104] [⟨4, 104, [3]⟩, ⟨5, 105, [104]⟩] = [5] := by decide
/-- a plan with two entries, 0–2 parents, revid containing a space -/
def exW : WPlan := ⟨12, [98, 32, 99], [⟨[97], [65], [[120], [121]]⟩, ⟨[98], [66], []⟩]⟩
example : NL ∉ exW.revid ∧ (exW.entries.map (·.old)).Nodup ∧
    (∀ e ∈ exW.entries, (SP ∉ e.old ∧ NL ∉ e.old) ∧ (SP ∉ e.new ∧ NL ∉ e.new) ∧
      ∀ q ∈ e.parents, SP ∉ q ∧ NL ∉ q) := by decide
example : (unmarshal (marshal exW)).toOption = some exW := by decide
example : (transposePlan [(3, some [2]), (2, some [1]), (1, some [0])] [(2, 9)] [(9, [1])] (· + 100) 50).toOption =
    some [⟨3, 103, [9]⟩] := by decide

end BreezyVerif.C51
