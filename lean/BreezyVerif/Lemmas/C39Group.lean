import BreezyVerif.Model.C39
import BreezyVerif.Lemmas.C39Apply
import BreezyVerif.Lemmas.C39Wf
import BreezyVerif.Lemmas.C39Bytes
/-! C39 helper lemmas: difflib's `get_opcodes` / `get_grouped_opcodes` applied to
valid matching blocks give a valid grouped-opcode list, whose hunks contain
exactly the lines outside the matching blocks. -/
namespace BreezyVerif.C39

/-! ### pointwise form of "equal content" -/

theorem getElem?_slice {α : Type} (l : List α) (i j k : Nat) :
    (slice l i j)[k]? = if k < j - i then l[i + k]? else none := by
  unfold slice
  rw [List.getElem?_take]
  split
  · rw [List.getElem?_drop]
  · rfl

/-- `a[i+k] = b[j+k]` for `k < m` -/
def eqR (a b : List Line) (i j m : Nat) : Prop := ∀ k, k < m → a[i + k]? = b[j + k]?

theorem slice_eq_of_eqR (a b : List Line) (i j i2 j2 : Nat) (hi : i ≤ i2) (hl : i2 - i = j2 - j)
    (h : eqR a b i j (i2 - i)) : slice a i i2 = slice b j j2 := by
  apply List.ext_getElem?
  intro k
  rw [getElem?_slice, getElem?_slice, ← hl]
  split
  · exact h k ‹_›
  · rfl

theorem eqR_of_slice_eq (a b : List Line) (i i2 j j2 : Nat) (h : slice a i i2 = slice b j j2)
    (hl : i2 - i = j2 - j) : eqR a b i j (i2 - i) := by
  intro k hk
  have := congrArg (·[k]?) h
  simp only [getElem?_slice] at this
  rw [if_pos hk, if_pos (by omega)] at this
  exact this

/-- the two texts agree from `(i, j)` to their ends -/
def tailEq (a b : List Line) (i j : Nat) : Prop := ∀ k, a[i + k]? = b[j + k]?

theorem drop_eq_of_tailEq (a b : List Line) (i j : Nat) (h : tailEq a b i j) : a.drop i = b.drop j := by
  apply List.ext_getElem?
  intro k
  rw [List.getElem?_drop, List.getElem?_drop]
  exact h k

theorem tailEq_of_drop_eq (a b : List Line) (i j : Nat) (h : a.drop i = b.drop j) : tailEq a b i j := by
  intro k
  have := congrArg (·[k]?) h
  simpa [List.getElem?_drop] using this

/-- equal content between the end of the previous group `(pi, pj)` and `(i, j)` -/
structure Gap (a b : List Line) (pi pj i j : Nat) : Prop where
  hi : pi ≤ i
  hj : pj ≤ j
  len : i - pi = j - pj
  eq : eqR a b pi pj (i - pi)

theorem Gap.refl (a b : List Line) (i j : Nat) : Gap a b i j i j :=
  ⟨Nat.le_refl _, Nat.le_refl _, by omega, fun k hk => by omega⟩

theorem Gap.extend {a b : List Line} {pi pj i j : Nat} (g : Gap a b pi pj i j) (m : Nat)
    (h : eqR a b i j m) : Gap a b pi pj (i + m) (j + m) := by
  refine ⟨by have := g.hi; omega, by have := g.hj; omega, by have := g.hi; have := g.hj; have := g.len; omega, ?_⟩
  intro k hk
  by_cases hk' : k < i - pi
  · exact g.eq k hk'
  · have := h (k - (i - pi)) (by have := g.hi; omega)
    rwa [show i + (k - (i - pi)) = pi + k by have := g.hi; omega,
      show j + (k - (i - pi)) = pj + k by have := g.hi; have := g.hj; have := g.len; omega] at this

theorem Gap.tail {a b : List Line} {pi pj i j : Nat} (g : Gap a b pi pj i j) (t : tailEq a b i j) :
    tailEq a b pi pj := by
  intro k
  by_cases hk' : k < i - pi
  · exact g.eq k hk'
  · have := t (k - (i - pi))
    rwa [show i + (k - (i - pi)) = pi + k by have := g.hi; omega,
      show j + (k - (i - pi)) = pj + k by have := g.hi; have := g.hj; have := g.len; omega] at this

theorem Gap.bool {a b : List Line} {pi pj i j : Nat} (g : Gap a b pi pj i j) :
    (decide (pi ≤ i) && decide (pj ≤ j) && decide (slice a pi i = slice b pj j) && decide (i - pi = j - pj)) = true := by
  simp only [Bool.and_eq_true, decide_eq_true_eq]
  exact ⟨⟨⟨g.hi, g.hj⟩, slice_eq_of_eqR a b pi pj i j g.hi g.len g.eq⟩, g.len⟩

/-! ### opcodes -/

theorem validOp_bounds (a b : List Line) (o : Op) (h : validOp a b o = true) :
    o.i1 ≤ o.i2 ∧ o.j1 ≤ o.j2 ∧ o.i2 ≤ a.length ∧ o.j2 ≤ b.length := by
  simp only [validOp, Bool.and_eq_true, decide_eq_true_eq] at h
  obtain ⟨⟨⟨⟨h1, h2⟩, h3⟩, h4⟩, _⟩ := h
  exact ⟨h1, h2, h3, h4⟩

theorem validOp_equal (a b : List Line) (o : Op) (ht : o.tag = .equal) (h : validOp a b o = true) :
    o.i2 - o.i1 = o.j2 - o.j1 ∧ eqR a b o.i1 o.j1 (o.i2 - o.i1) := by
  simp only [validOp, ht, Bool.and_eq_true, decide_eq_true_eq] at h
  exact ⟨h.2.2, eqR_of_slice_eq a b _ _ _ _ h.2.1 h.2.2⟩

/-- a sub-range of a valid `equal` opcode is a valid `equal` opcode -/
theorem validOp_equal_sub (a b : List Line) (o : Op) (ht : o.tag = .equal) (hv : validOp a b o = true)
    (i1' i2' j1' j2' : Nat) (h1 : o.i1 ≤ i1') (h2 : i1' ≤ i2') (h3 : i2' ≤ o.i2)
    (hj1 : o.j1 ≤ j1') (hj1' : j1' - o.j1 = i1' - o.i1) (hj2 : j1' ≤ j2') (hj2' : j2' - j1' = i2' - i1') :
    validOp a b ⟨.equal, i1', i2', j1', j2'⟩ = true := by
  obtain ⟨b1, b2, b3, b4⟩ := validOp_bounds a b o hv
  obtain ⟨hl, he⟩ := validOp_equal a b o ht hv
  simp only [validOp, Bool.and_eq_true, decide_eq_true_eq]
  refine ⟨⟨⟨⟨h2, hj2⟩, by omega⟩, by omega⟩, ?_, by omega⟩
  apply slice_eq_of_eqR a b i1' j1' i2' j2' h2 (by omega)
  intro k hk
  have := he (i1' - o.i1 + k) (by omega)
  rwa [show o.i1 + (i1' - o.i1 + k) = i1' + k by omega, show o.j1 + (i1' - o.i1 + k) = j1' + k by omega] at this

theorem validChain_cons (a b : List Line) (i j : Nat) (o : Op) (os : List Op) (e : Nat × Nat) :
    validChain a b i j (o :: os) = some e ↔
      o.i1 = i ∧ o.j1 = j ∧ validOp a b o = true ∧ validChain a b o.i2 o.j2 os = some e := by
  simp only [validChain]
  split
  · rename_i h; simp [h]
  · rename_i h
    simp only [reduceCtorEq, false_iff]
    intro ⟨h1, h2, h3, _⟩
    exact h ⟨h1, h2, h3⟩

theorem validChain_append (a b : List Line) (xs ys : List Op) (i j mi mj : Nat)
    (h : validChain a b i j xs = some (mi, mj)) :
    validChain a b i j (xs ++ ys) = validChain a b mi mj ys := by
  induction xs generalizing i j with
  | nil =>
    simp only [validChain, Option.some.injEq, Prod.mk.injEq] at h
    obtain ⟨rfl, rfl⟩ := h
    rfl
  | cons x xs ih =>
    obtain ⟨h1, h2, h3, h4⟩ := (validChain_cons a b i j x xs _).mp h
    simp only [List.cons_append, validChain, h1, h2, h3, and_self, if_true]
    exact ih _ _ h4

theorem validChain_all (a b : List Line) (ops : List Op) (i j : Nat) (e : Nat × Nat)
    (h : validChain a b i j ops = some e) : ∀ o ∈ ops, validOp a b o = true := by
  induction ops generalizing i j with
  | nil => simp
  | cons x xs ih =>
    obtain ⟨_, _, h3, h4⟩ := (validChain_cons a b i j x xs _).mp h
    intro o ho
    rcases List.mem_cons.mp ho with rfl | ho
    · exact h3
    · exact ih _ _ h4 o ho

theorem validOp_mk (a b : List Line) (t : Tag) (i1 i2 j1 j2 : Nat) (h1 : i1 ≤ i2) (h2 : j1 ≤ j2)
    (h3 : i2 ≤ a.length) (h4 : j2 ≤ b.length)
    (ht : match t with
      | .equal => slice a i1 i2 = slice b j1 j2 ∧ i2 - i1 = j2 - j1
      | .delete => j1 = j2
      | .insert => i1 = i2
      | .replace => True) : validOp a b ⟨t, i1, i2, j1, j2⟩ = true := by
  simp only [validOp, Bool.and_eq_true, decide_eq_true_eq]
  refine ⟨⟨⟨⟨h1, h2⟩, h3⟩, h4⟩, ?_⟩
  cases t <;> simp_all

/-- `get_opcodes` on valid matching blocks: a chain from `(i, j)` to the ends of both texts -/
theorem opcodesFrom_chain (a b : List Line) (ks : List Block) (i j : Nat)
    (hv : validBlocksFrom a b i j ks = true) :
    validChain a b i j (opcodesFrom a.length b.length i j ks) = some (a.length, b.length) := by
  induction ks generalizing i j with
  | nil =>
    simp only [validBlocksFrom, Bool.and_eq_true, decide_eq_true_eq] at hv
    unfold opcodesFrom
    split
    · exact (validChain_cons ..).mpr ⟨rfl, rfl, validOp_mk a b _ _ _ _ _ (by omega) (by omega) (by omega) (by omega) trivial, rfl⟩
    · split
      · exact (validChain_cons ..).mpr ⟨rfl, rfl,
          validOp_mk a b .delete _ _ _ _ (by omega) (by omega) (by omega) (by omega) (by show j = b.length; omega), rfl⟩
      · split
        · exact (validChain_cons ..).mpr ⟨rfl, rfl,
            validOp_mk a b .insert _ _ _ _ (by omega) (by omega) (by omega) (by omega) (by show i = a.length; omega), rfl⟩
        · simp only [validChain, Option.some.injEq, Prod.mk.injEq]; omega
  | cons k ks ih =>
    simp only [validBlocksFrom, Bool.and_eq_true, decide_eq_true_eq] at hv
    obtain ⟨⟨⟨⟨⟨⟨hi, hj⟩, hn⟩, heq⟩, hia⟩, hjb⟩, hrest⟩ := hv
    have hrec := ih _ _ hrest
    have heqop : validChain a b k.i k.j
        ((⟨.equal, k.i, k.i + k.n, k.j, k.j + k.n⟩ : Op) ::
          opcodesFrom a.length b.length (k.i + k.n) (k.j + k.n) ks) = some (a.length, b.length) := by
      exact (validChain_cons ..).mpr ⟨rfl, rfl,
        validOp_mk a b .equal _ _ _ _ (by omega) (by omega) hia hjb ⟨heq, by omega⟩, hrec⟩
    unfold opcodesFrom
    simp only [gt_iff_lt, hn, if_true, List.append_assoc, List.cons_append, List.nil_append]
    split
    · exact (validChain_cons ..).mpr ⟨rfl, rfl,
        validOp_mk a b .replace _ _ _ _ (by omega) (by omega) (by omega) (by omega) trivial, heqop⟩
    · split
      · exact (validChain_cons ..).mpr ⟨rfl, rfl,
          validOp_mk a b .delete _ _ _ _ (by omega) (by omega) (by omega) (by omega) (by show j = k.j; omega), heqop⟩
      · split
        · exact (validChain_cons ..).mpr ⟨rfl, rfl,
            validOp_mk a b .insert _ _ _ _ (by omega) (by omega) (by omega) (by omega) (by show i = k.i; omega), heqop⟩
        · have h1 : i = k.i := by omega
          have h2 : j = k.j := by omega
          subst h1; subst h2
          exact heqop

end BreezyVerif.C39
