import BreezyVerif.Common
import BreezyVerif.Model.C04
/-
C04 driver.

  commit <chk T|F> <names> <files> <torn> <viewNames> <viewAtLoad> <counts> <tmp0,new0,tmp1,new1>
  pack   <chk T|F> <names> <files> <torn> <viewNames> <viewAtLoad> <hint ~|names> <optimal T|F> <clean T|F> <tmp1,new1>

names / viewNames / viewAtLoad = comma separated pack numbers (`-` = none)
files / torn = comma separated `<d><stem>.<ext>` with d ∈ u p i o (`-` = none)
counts = `name:count` comma separated (all packs after allocate, new0 included), in the
         order Python's sort processes equal counts

reply: `<op>;<op>;… <state>/<state>/…` — the operation list and the directory
state after every prefix (including the empty one); state =
`names|files|torn|L or U`, each list sorted.
-/
namespace BreezyVerif.C04

def showDir : Dir → String
  | .upload => "u" | .packs => "p" | .indices => "i" | .obsolete => "o"

def showExt : Ext → String
  | .pack => "pack" | .autopack => "autopack" | .rix => "rix" | .iix => "iix"
  | .tix => "tix" | .six => "six" | .cix => "cix"

def parseExt (s : String) : Option Ext :=
  if s == "pack" then some .pack else if s == "autopack" then some .autopack
  else if s == "rix" then some .rix else if s == "iix" then some .iix
  else if s == "tix" then some .tix else if s == "six" then some .six
  else if s == "cix" then some .cix else none

def showFile (f : File) : String := s!"{showDir f.dir}{f.stem}.{showExt f.ext}"

def parseFile (s : String) : Option File :=
  match s.toList with
  | [] => none
  | c :: rest =>
    let d : Option Dir := if c == 'u' then some .upload else if c == 'p' then some .packs
      else if c == 'i' then some .indices else if c == 'o' then some .obsolete else none
    match d, (String.ofList rest).splitOn "." with
    | some d, [n, e] => do pure ⟨d, ← n.toNat?, ← parseExt e⟩
    | _, _ => none

def parseFiles (s : String) : Option (List File) := (splitList s).mapM parseFile

def sortStr (l : List String) : List String := l.mergeSort (fun a b => decide (a ≤ b))
def sortNat (l : List Nat) : List Nat := l.mergeSort (fun a b => decide (a ≤ b))

def showNats (l : List Nat) : String := joinList ((sortNat l).map toString)
def showNatsRaw (l : List Nat) : String := joinList (l.map toString)

def showOp : Op → String
  | .beginWrite f => s!"bw:{showFile f}"
  | .endWrite f => s!"ew:{showFile f}"
  | .move a b => s!"mv:{showFile a}>{showFile b}"
  | .delete f => s!"rm:{showFile f}"
  | .lock => "lk"
  | .unlock => "ul"
  | .putNames ns => s!"pn:{showNats ns}"

def showDisk (d : Disk) : String :=
  s!"{showNats d.names}|{joinList (sortStr (d.files.map showFile))}|{joinList (sortStr (d.torn.map showFile))}|{if d.locked then "L" else "U"}"

def prefixes (d : Disk) : List Op → List Disk
  | [] => [d]
  | op :: rest => d :: prefixes (step d op) rest

def showRun (d : Disk) (ops : List Op) : String :=
  let o := if ops.isEmpty then "-" else ";".intercalate (ops.map showOp)
  s!"{o} {"/".intercalate ((prefixes d ops).map showDisk)}"

def parseCounts (s : String) : Option (List (Nat × Nat)) :=
  (splitList s).mapM fun t => match t.splitOn ":" with
    | [a, b] => do pure (← a.toNat?, ← b.toNat?)
    | _ => none

def showPlan : Plan → String
  | .noAutopack => "none"
  | .error => "error"
  | .combine s => s!"combine:{showNatsRaw s}"

def handle : List String → String
  | ["commit", chk, names, files, torn, vn, va, counts, fresh] =>
    match parseBool chk, parseNatList names, parseFiles files, parseFiles torn, parseNatList vn, parseNatList va,
          parseCounts counts, parseNatList fresh with
    | some chk, some names, some files, some torn, some vn, some va, some counts, some [t0, n0, t1, n1] =>
      let d : Disk := ⟨names, files, torn, false⟩
      showRun d (commitOps chk d ⟨vn, va⟩ counts t0 n0 t1 n1)
    | _, _, _, _, _, _, _, _ => "bad-op"
  | ["pack", chk, names, files, torn, vn, va, hint, optimal, clean, fresh] =>
    match parseBool chk, parseNatList names, parseFiles files, parseFiles torn, parseNatList vn, parseNatList va,
          (if hint == "~" then some none else (parseNatList hint).map some),
          parseBool optimal, parseBool clean, parseNatList fresh with
    | some chk, some names, some files, some torn, some vn, some va, some hint, some optimal, some clean, some [t1, n1] =>
      let d : Disk := ⟨names, files, torn, false⟩
      showRun d (packOps chk d ⟨vn, va⟩ hint optimal clean t1 n1)
    | _, _, _, _, _, _, _, _, _, _ => "bad-op"
  | ["plan", counts] =>
    match parseCounts counts with
    | some c => showPlan (planAutopack c)
    | none => "bad-op"
  | ["merge", disk, atLoad, mine] =>
    match parseNatList disk, parseNatList atLoad, parseNatList mine with
    | some a, some b, some c => showNats (mergeNames a b c)
    | _, _, _ => "bad-op"
  | _ => "bad-op"

end BreezyVerif.C04

def main : IO Unit := BreezyVerif.runDriver BreezyVerif.C04.handle
