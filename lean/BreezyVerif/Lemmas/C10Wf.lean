import BreezyVerif.Lemmas.C10Term
/-!
C10 — tools for showing that a tree given by its lookup function is well
formed: the fuel of `pathOf` is always enough (pigeonhole on the chain of
ancestors), applying records keeps ids unique, `wf` from a specification in
terms of `get`.
-/
namespace BreezyVerif.C10

/-! ### the fuel of `pathOf` is enough -/

/-- two computations of the path of the same id agree -/
theorem pathFuel_det {t : Tree} {n m : Nat} {i : Id} {p q : Path} (hp : pathFuel t n i = some p)
    (hq : pathFuel t m i = some q) : p = q := by
  have h1 := pathFuel_le hp (max n m) (by omega)
  have h2 := pathFuel_le hq (max n m) (by omega)
  rw [h1] at h2; cases h2; rfl

/-- the ids visited by `pathFuel` -/
def chain (t : Tree) : Nat → Id → List Id
  | 0, _ => []
  | n + 1, i =>
    match get t i with
    | none => []
    | some e =>
      match e.parent with
      | none => [i]
      | some p => i :: chain t n p

theorem chain_spec {t : Tree} : ∀ {n : Nat} {i : Id} {path : Path}, pathFuel t n i = some path →
    (chain t n i).length = path.length + 1 ∧ (∀ j ∈ chain t n i, j ∈ ids t) ∧
    (∀ j ∈ chain t n i, ∃ m q, pathFuel t m j = some q ∧ q.length ≤ path.length) := by
  intro n
  induction n with
  | zero => intro i path h; simp [pathFuel] at h
  | succ n ih =>
    intro i path h
    obtain ⟨e, ge, c⟩ := pathFuel_cases h
    rcases c with ⟨hnone, hnil⟩ | ⟨q, pp, hq, fq, hpath⟩
    · subst hnil
      have hc : chain t (n + 1) i = [i] := by simp [chain, ge, hnone]
      rw [hc]
      refine ⟨rfl, ?_, ?_⟩
      · intro j hj; simp at hj; subst hj; exact mem_ids_of_get ge
      · intro j hj; simp at hj; subst hj; exact ⟨n + 1, [], h, by simp⟩
    · subst hpath
      have hc : chain t (n + 1) i = i :: chain t n q := by simp [chain, ge, hq]
      rw [hc]
      obtain ⟨i1, i2, i3⟩ := ih fq
      refine ⟨by simp [i1], ?_, ?_⟩
      · intro j hj
        rcases List.mem_cons.mp hj with h' | h'
        · subst h'; exact mem_ids_of_get ge
        · exact i2 j h'
      · intro j hj
        rcases List.mem_cons.mp hj with h' | h'
        · subst h'; exact ⟨n + 1, _, h, by simp⟩
        · obtain ⟨m, q', hm, hl⟩ := i3 j h'
          exact ⟨m, q', hm, by simp; omega⟩

theorem chain_nodup {t : Tree} : ∀ {n : Nat} {i : Id} {path : Path}, pathFuel t n i = some path →
    (chain t n i).Nodup := by
  intro n
  induction n with
  | zero => intro i path h; simp [pathFuel] at h
  | succ n ih =>
    intro i path h
    obtain ⟨e, ge, c⟩ := pathFuel_cases h
    rcases c with ⟨hnone, hnil⟩ | ⟨q, pp, hq, fq, hpath⟩
    · have hc : chain t (n + 1) i = [i] := by simp [chain, ge, hnone]
      rw [hc]; simp
    · have hc : chain t (n + 1) i = i :: chain t n q := by simp [chain, ge, hq]
      rw [hc, List.nodup_cons]
      refine ⟨?_, ih fq⟩
      intro hmem
      obtain ⟨m, q', hm, hl⟩ := (chain_spec fq).2.2 i hmem
      have := pathFuel_det hm h
      rw [this, hpath] at hl
      simp at hl
      omega

/-- a path is never longer than the tree has entries -/
theorem pathFuel_short {t : Tree} {n : Nat} {i : Id} {path : Path} (h : pathFuel t n i = some path) :
    path.length + 1 ≤ t.length := by
  obtain ⟨h1, h2, _⟩ := chain_spec h
  have := List.Nodup.length_le_of_subset (chain_nodup h) (fun j hj => h2 j hj)
  rw [h1] at this
  simpa [ids] using this

/-- the least fuel that finds a path is its length plus one -/
theorem pathFuel_exact {t : Tree} : ∀ {n : Nat} {i : Id} {path : Path}, pathFuel t n i = some path →
    pathFuel t (path.length + 1) i = some path := by
  intro n
  induction n with
  | zero => intro i path h; simp [pathFuel] at h
  | succ n ih =>
    intro i path h
    obtain ⟨e, ge, c⟩ := pathFuel_cases h
    rcases c with ⟨hnone, hnil⟩ | ⟨q, pp, hq, fq, hpath⟩
    · subst hnil; simp [pathFuel, ge, hnone]
    · subst hpath
      have := ih fq
      simp only [List.length_append, List.length_cons, List.length_nil]
      unfold pathFuel
      simp [ge, hq, this]

/-- **whatever fuel finds a path, the fuel of `pathOf` finds it** -/
theorem pathOf_of_pathFuel {t : Tree} {n : Nat} {i : Id} {path : Path} (h : pathFuel t n i = some path) :
    pathOf t i = some path := by
  have h1 := pathFuel_exact h
  have h2 := pathFuel_short h
  exact pathFuel_le h1 _ (by omega)

/-! ### unique ids -/

theorem ids_erase (t : Tree) (i : Id) : ids (erase t i) = (ids t).filter (fun j => j != i) := by
  induction t with
  | nil => rfl
  | cons x rest ih =>
    obtain ⟨k, e⟩ := x
    by_cases hk : k = i
    · subst hk
      simp [erase, ids] at ih ⊢
      exact ih
    · simp only [erase, hk, if_false, ids, List.map_cons, List.filter_cons]
      have : (k != i) = true := by simpa using hk
      simp only [this, if_true]
      congr 1

theorem nodup_erase {t : Tree} (h : (ids t).Nodup) (i : Id) : (ids (erase t i)).Nodup := by
  rw [ids_erase]
  exact List.Pairwise.filter _ h

theorem nodup_set {t : Tree} (h : (ids t).Nodup) (i : Id) (e : Entry) : (ids (set t i e)).Nodup := by
  unfold set
  simp only [ids, List.map_cons]
  rw [List.nodup_cons]
  refine ⟨?_, nodup_erase h i⟩
  have := ids_erase t i
  unfold ids at this
  rw [this]
  simp

theorem applyList_nodup {src tgt : Tree} : ∀ (cs : List Change) (t t' : Tree), (ids t).Nodup →
    applyList src tgt t cs = some t' → (ids t').Nodup := by
  intro cs
  induction cs with
  | nil => intro t t' h ha; simp [applyList] at ha; subst ha; exact h
  | cons c rest ih =>
    intro t t' h ha
    unfold applyList at ha
    cases h1 : applyOne src tgt t c with
    | none => simp [h1] at ha
    | some t1 =>
      simp only [h1] at ha
      refine ih t1 t' ?_ ha
      unfold applyOne at h1
      split at h1
      · cases h1; exact nodup_erase h _
      · split at h1
        · split at h1
          · cases h1; exact nodup_set h _ _
          · cases h1
        · split at h1
          · cases h1; exact nodup_set h _ _
          · cases h1

/-! ### `wf` from a specification in terms of `get` -/

theorem get_of_mem {t : Tree} (hnd : (ids t).Nodup) {i : Id} {e : Entry} (h : (i, e) ∈ t) : get t i = some e := by
  induction t with
  | nil => cases h
  | cons x rest ih =>
    obtain ⟨k, e'⟩ := x
    simp only [ids, List.map_cons, List.nodup_cons] at hnd
    rcases List.mem_cons.mp h with h' | h'
    · cases h'; simp [get]
    · have hki : k ≠ i := by
        intro hk; subst hk
        exact hnd.1 (List.mem_map.mpr ⟨(k, e), h', rfl⟩)
      simp only [get, hki, if_false]
      exact ih hnd.2 h'

theorem wf_of_spec (t : Tree) (r : Id)
    (hnd : (ids t).Nodup)
    (hroot : ∃ e, get t r = some e ∧ e.parent = none)
    (honly : ∀ i e, get t i = some e → e.parent = none → i = r ∧ e.node.kind = .dir)
    (hpar : ∀ i e p, get t i = some e → e.parent = some p → ∃ pe, get t p = some pe ∧ pe.node.kind = .dir)
    (hsib : ∀ i j ei ej, get t i = some ei → get t j = some ej → ei.parent = ej.parent → ei.name = ej.name → i = j)
    (hreach : ∀ i e, get t i = some e → ∃ n path, pathFuel t n i = some path) :
    wf t = true := by
  unfold wf
  simp only [Bool.and_eq_true, beq_iff_eq, decide_eq_true_eq]
  refine ⟨⟨⟨⟨?_, hnd⟩, ?_⟩, ?_⟩, ?_⟩
  · -- exactly one root
    obtain ⟨er, ger, hper⟩ := hroot
    have hsub : (rootsOf t).Nodup := by
      unfold rootsOf
      exact List.Nodup.sublist (List.Sublist.map _ List.filter_sublist) hnd
    have hall : ∀ j ∈ rootsOf t, j = r := by
      intro j hj
      unfold rootsOf at hj
      rw [List.mem_map] at hj
      obtain ⟨x, hx, hxj⟩ := hj
      rw [List.mem_filter] at hx
      obtain ⟨k, e⟩ := x
      simp only at hxj; subst hxj
      exact (honly k e (get_of_mem hnd hx.1) (by simpa using hx.2)).1
    have hmem : r ∈ rootsOf t := by
      unfold rootsOf
      rw [List.mem_map]
      exact ⟨(r, er), List.mem_filter.mpr ⟨get_mem ger, by simp [hper]⟩, rfl⟩
    cases hl : rootsOf t with
    | nil => rw [hl] at hmem; cases hmem
    | cons a rest =>
      cases rest with
      | nil => rfl
      | cons b rest' =>
        exfalso
        rw [hl] at hsub hall
        have ha := hall a (by simp)
        have hb := hall b (by simp)
        rw [List.nodup_cons] at hsub
        apply hsub.1
        rw [ha, hb]; simp
  · rw [List.all_eq_true]
    intro x hx
    obtain ⟨i, e⟩ := x
    have ge := get_of_mem hnd hx
    cases hp : e.parent with
    | none => simp only; simpa using (honly i e ge hp).2
    | some p =>
      obtain ⟨pe, gpe, hpd⟩ := hpar i e p ge hp
      simp only [gpe]; simpa using hpd
  · rw [List.all_eq_true]
    intro x hx
    rw [List.all_eq_true]
    intro y hy
    obtain ⟨i, ei⟩ := x
    obtain ⟨j, ej⟩ := y
    simp only [Bool.or_eq_true, beq_iff_eq, Bool.not_eq_true', Bool.and_eq_false_iff]
    by_cases hij : i = j
    · exact Or.inl hij
    · right
      by_cases hp : ei.parent = ej.parent
      · by_cases hn : ei.name = ej.name
        · exact absurd (hsib i j ei ej (get_of_mem hnd hx) (get_of_mem hnd hy) hp hn) hij
        · right; simpa using hn
      · left; simpa using hp
  · rw [List.all_eq_true]
    intro x hx
    obtain ⟨i, e⟩ := x
    obtain ⟨n, path, hpf⟩ := hreach i e (get_of_mem hnd hx)
    simp [pathOf_of_pathFuel hpf]

end BreezyVerif.C10
