import BreezyVerif.Common
/-!
C39 — unified diffs and their application.

* `breezy/diff.py: unified_diff_bytes, internal_diff`: rendering of the
  sequence matcher's grouped opcodes into hunks and into the diff text
  (`-0,0` / `+0,0` work-around, `\ No newline at end of file`, final blank line).
  The matcher (patiencediff, external) is a parameter: either its grouped
  opcodes directly (`validGroups`, checked at run time on the real output) or
  its matching blocks (`validBlocks`) through a specification of difflib's
  `get_opcodes` / `get_grouped_opcodes`.
* `breezy/patches.py` + `crates/patch/src/parse.rs`: `iter_lines_handle_nl`,
  `get_patch_names`, `parse_range`, `hunk_from_header`, `parse_line`,
  `iter_hunks`, `iter_patched_from_hunks`, `Hunk.as_bytes`, `Patch.stats_values`.

A text is a list of lines; a line is a byte string.
-/
namespace BreezyVerif.C39

deriving instance DecidableEq for Except

abbrev Line := Bytes

inductive Tag where
  | equal | replace | delete | insert
  deriving DecidableEq, Repr

structure Op where
  tag : Tag
  i1 : Nat
  i2 : Nat
  j1 : Nat
  j2 : Nat
  deriving DecidableEq, Repr

abbrev Group := List Op

inductive HLine where
  | ctx (l : Line)
  | ins (l : Line)
  | rem (l : Line)
  deriving DecidableEq, Repr

structure Hunk where
  origPos : Nat
  origRange : Nat
  modPos : Nat
  modRange : Nat
  tail : Option Bytes
  lines : List HLine
  deriving DecidableEq, Repr

/-- Python `l[i:j]` for `i ≤ j` -/
def slice {α : Type} (l : List α) (i j : Nat) : List α := (l.drop i).take (j - i)

/-! ## the matcher's output (specification of difflib) -/

structure Block where
  i : Nat
  j : Nat
  n : Nat
  deriving DecidableEq, Repr

/-- `get_matching_blocks()` without the final sentinel: strictly increasing,
in range, equal content -/
def validBlocksFrom (a b : List Line) (pi pj : Nat) : List Block → Bool
  | [] => pi ≤ a.length && pj ≤ b.length
  | k :: ks => pi ≤ k.i && pj ≤ k.j && 0 < k.n && slice a k.i (k.i + k.n) = slice b k.j (k.j + k.n)
      && k.i + k.n ≤ a.length && k.j + k.n ≤ b.length && validBlocksFrom a b (k.i + k.n) (k.j + k.n) ks

def validBlocks (a b : List Line) (ks : List Block) : Bool := validBlocksFrom a b 0 0 ks

/-- difflib `get_opcodes`: `i j` = position reached; `la lb` = lengths (the sentinel block) -/
def opcodesFrom (la lb : Nat) (i j : Nat) : List Block → List Op
  | [] =>
    if i < la ∧ j < lb then [⟨.replace, i, la, j, lb⟩]
    else if i < la then [⟨.delete, i, la, j, lb⟩]
    else if j < lb then [⟨.insert, i, la, j, lb⟩]
    else []
  | k :: ks =>
    let gap :=
      if i < k.i ∧ j < k.j then [⟨.replace, i, k.i, j, k.j⟩]
      else if i < k.i then [⟨.delete, i, k.i, j, k.j⟩]
      else if j < k.j then [⟨.insert, i, k.i, j, k.j⟩]
      else []
    let eq := if k.n > 0 then [⟨.equal, k.i, k.i + k.n, k.j, k.j + k.n⟩] else []
    gap ++ eq ++ opcodesFrom la lb (k.i + k.n) (k.j + k.n) ks

def opcodes (la lb : Nat) (ks : List Block) : List Op := opcodesFrom la lb 0 0 ks

def trimHead (n : Nat) : List Op → List Op
  | o :: os => if o.tag = .equal then ⟨o.tag, max o.i1 (o.i2 - n), o.i2, max o.j1 (o.j2 - n), o.j2⟩ :: os else o :: os
  | [] => []

def trimLast (n : Nat) : List Op → List Op
  | [] => []
  | [o] => if o.tag = .equal then [⟨o.tag, o.i1, min o.i2 (o.i1 + n), o.j1, min o.j2 (o.j1 + n)⟩] else [o]
  | o :: os => o :: trimLast n os

/-- the grouping loop; `cur` is the current group in reverse -/
def groupLoop (n : Nat) (cur : List Op) : List Op → List Group
  | [] => if cur = [] ∨ (cur.length = 1 ∧ (cur.head?.map (·.tag)) = some .equal) then [] else [cur.reverse]
  | o :: os =>
    if o.tag = .equal ∧ o.i2 - o.i1 > n + n then
      (⟨o.tag, o.i1, min o.i2 (o.i1 + n), o.j1, min o.j2 (o.j1 + n)⟩ :: cur).reverse ::
        groupLoop n [⟨o.tag, max o.i1 (o.i2 - n), o.i2, max o.j1 (o.j2 - n), o.j2⟩] os
    else groupLoop n (o :: cur) os

/-- difflib `get_grouped_opcodes(n)` -/
def grouped (n : Nat) (codes : List Op) : List Group :=
  let codes := if codes = [] then [⟨.equal, 0, 1, 0, 1⟩] else codes
  groupLoop n [] (trimLast n (trimHead n codes))

/-- what breezy needs of a grouped-opcode list: groups are non-empty chains of
in-range opcodes, `equal` opcodes and the gaps between groups cover equal
content.  `pi pj` = end of the previous group. -/
def validOp (a b : List Line) (o : Op) : Bool :=
  o.i1 ≤ o.i2 && o.j1 ≤ o.j2 && o.i2 ≤ a.length && o.j2 ≤ b.length &&
  match o.tag with
  | .equal => slice a o.i1 o.i2 = slice b o.j1 o.j2 && o.i2 - o.i1 = o.j2 - o.j1
  | .delete => o.j1 = o.j2
  | .insert => o.i1 = o.i2
  | .replace => true

/-- opcodes of one group chain from `(i, j)`; returns the end position -/
def validChain (a b : List Line) (i j : Nat) : List Op → Option (Nat × Nat)
  | [] => some (i, j)
  | o :: os => if o.i1 = i ∧ o.j1 = j ∧ validOp a b o then validChain a b o.i2 o.j2 os else none

def validGroupsFrom (a b : List Line) (pi pj : Nat) : List Group → Bool
  | [] => a.drop pi = b.drop pj
  | g :: gs =>
    match g with
    | [] => false
    | o :: os =>
      pi ≤ o.i1 && pj ≤ o.j1 && slice a pi o.i1 = slice b pj o.j1 && o.i1 - pi = o.j1 - pj &&
      match validChain a b o.i1 o.j1 (o :: os) with
      | some (ei, ej) => validGroupsFrom a b ei ej gs
      | none => false

def validGroups (a b : List Line) (gs : List Group) : Bool := validGroupsFrom a b 0 0 gs

/-! ## `unified_diff_bytes` / `internal_diff` -/

/-- the hunk lines one opcode contributes -/
def opLines (a b : List Line) (o : Op) : List HLine :=
  match o.tag with
  | .equal => (slice a o.i1 o.i2).map .ctx
  | .replace => (slice a o.i1 o.i2).map .rem ++ (slice b o.j1 o.j2).map .ins
  | .delete => (slice a o.i1 o.i2).map .rem
  | .insert => (slice b o.j1 o.j2).map .ins

/-- `i1, i2, j1, j2 = group[0][1], group[-1][2], group[0][3], group[-1][4]`; an empty group is an IndexError -/
def groupHunk (a b : List Line) (g : Group) : Option Hunk :=
  match g.head?, g.getLast? with
  | some f, some l => some ⟨f.i1 + 1, l.i2 - f.i1, f.j1 + 1, l.j2 - f.j1, none, g.flatMap (opLines a b)⟩
  | _, _ => none

/-- `internal_diff`: `ud[2].replace(b"-1,0", b"-0,0")` when the old text is empty,
else `replace(b"+1,0", b"+0,0")` when the new text is empty — on the first hunk header only -/
def fixFirst (a b : List Line) : List Hunk → List Hunk
  | [] => []
  | h :: hs =>
    if a = [] then (if h.origPos = 1 ∧ h.origRange = 0 then { h with origPos := 0 } else h) :: hs
    else if b = [] then (if h.modPos = 1 ∧ h.modRange = 0 then { h with modPos := 0 } else h) :: hs
    else h :: hs

/-- the hunks `internal_diff` writes for the given grouped opcodes -/
def mkHunks (a b : List Line) (gs : List Group) : Option (List Hunk) :=
  (gs.mapM (groupHunk a b)).map (fixFirst a b)

/-! ## text of a diff -/

def nlB : UInt8 := 10
def spB : UInt8 := 32
def atB : UInt8 := 64
def plusB : UInt8 := 43
def minusB : UInt8 := 45
def commaB : UInt8 := 44
def tabB : UInt8 := 9

/-- `b"\\ No newline at end of file\n"` -/
def noNl : Bytes :=
  [92, 32, 78, 111, 32, 110, 101, 119, 108, 105, 110, 101, 32, 97, 116, 32, 101, 110, 100, 32, 111, 102, 32,
   102, 105, 108, 101, 10]

def digitB (n : Nat) : UInt8 :=
  match n with
  | 0 => 48 | 1 => 49 | 2 => 50 | 3 => 51 | 4 => 52 | 5 => 53 | 6 => 54 | 7 => 55 | 8 => 56 | _ => 57

def digitV (c : UInt8) : Option Nat :=
  if c = 48 then some 0 else if c = 49 then some 1 else if c = 50 then some 2 else if c = 51 then some 3
  else if c = 52 then some 4 else if c = 53 then some 5 else if c = 54 then some 6 else if c = 55 then some 7
  else if c = 56 then some 8 else if c = 57 then some 9 else none

/-- `b"%d" % n` -/
def natB (n : Nat) : Bytes :=
  if n < 10 then [digitB n] else natB (n / 10) ++ [digitB (n % 10)]

def digitsV (acc : Nat) : Bytes → Option Nat
  | [] => some acc
  | c :: cs => match digitV c with
    | some d => digitsV (acc * 10 + d) cs
    | none => none

/-- `str::parse::<i32>()`, non-negative results only (`none` otherwise) -/
def parseNatB (s : Bytes) : Option Nat :=
  let ds := match s with
    | 43 :: r => r
    | r => r
  if ds = [] then none else
  match digitsV 0 ds with
  | some v => if v ≤ 2147483647 then some v else none
  | none => none

def endsNl (l : Bytes) : Bool := l.getLast? = some nlB

/-- one written diff line: `to_file.write(line)`, plus the marker if it has no newline -/
def writeLine (l : Bytes) : List Bytes := if endsNl l then [l] else [l ++ [nlB], noNl]

def hlineBytes : HLine → Bytes
  | .ctx l => spB :: l
  | .ins l => plusB :: l
  | .rem l => minusB :: l

/-- `b"@@ -%d,%d +%d,%d @@\n"` (`unified_diff_bytes`; always both numbers) -/
def headerFull (h : Hunk) : Bytes :=
  [atB, atB, spB, minusB] ++ natB h.origPos ++ [commaB] ++ natB h.origRange ++ [spB, plusB] ++ natB h.modPos
    ++ [commaB] ++ natB h.modRange ++ [spB, atB, atB, nlB]

def oldLabel : Bytes := [45, 45, 45, 32, 111, 108, 100, 10]   -- "--- old\n"
def newLabel : Bytes := [43, 43, 43, 32, 110, 101, 119, 10]   -- "+++ new\n"

/-- the lines `internal_diff('old', a, 'new', b, f)` writes (empty when there are no hunks) -/
def diffLines (hs : List Hunk) : List Bytes :=
  if hs = [] then [] else
  [oldLabel, newLabel] ++ hs.flatMap (fun h => headerFull h :: h.lines.flatMap (fun l => writeLine (hlineBytes l)))
    ++ [[nlB]]

/-- `Hunk.range_str` -/
def rangeStr (pos range : Nat) : Bytes :=
  if range = 1 then natB pos else natB pos ++ [commaB] ++ natB range

/-- `Hunk.get_header` -/
def headerShort (h : Hunk) : Bytes :=
  [atB, atB, spB, minusB] ++ rangeStr h.origPos h.origRange ++ [spB, plusB] ++ rangeStr h.modPos h.modRange
    ++ [spB, atB, atB] ++ (match h.tail with | some t => spB :: t | none => []) ++ [nlB]

/-- `HunkLine.get_str` (one or two text lines) -/
def getStr (l : HLine) : List Bytes := writeLine (hlineBytes l)

/-- `Patch.as_bytes()` as text lines -/
def patchLines (hs : List Hunk) : List Bytes :=
  [oldLabel, newLabel] ++ hs.flatMap (fun h => headerShort h :: h.lines.flatMap getStr)

/-! ## parsing -/

inductive PErr where
  | noInput | header | syntax | hunkHeader | negRange | malformedLine | truncated | noNlFirst | unsupported
  deriving DecidableEq, Repr

/-- `iter_lines_handle_nl`; `last` = the pending line -/
def handleNlAux (last : Option Bytes) : List Bytes → Except PErr (List Bytes)
  | [] => .ok (match last with | some l => [l] | none => [])
  | line :: rest =>
    if line = noNl then
      match last with
      | some l => if endsNl l then handleNlAux (some l.dropLast) rest else .error .noNlFirst  -- assert
      | none => .error .noNlFirst                                                               -- panic
    else
      match last with
      | some l => (handleNlAux (some line) rest).map (l :: ·)
      | none => handleNlAux (some line) rest

def handleNl (ls : List Bytes) : Except PErr (List Bytes) := handleNlAux none ls

def stripPrefix (p s : Bytes) : Option Bytes := if p.isPrefixOf s then some (s.drop p.length) else none

def splitOnB (sep : UInt8) : Bytes → List Bytes
  | [] => [[]]
  | c :: cs => if c = sep then [] :: splitOnB sep cs else
    match splitOnB sep cs with
    | [] => [[c]]
    | f :: fs => (c :: f) :: fs

/-- one name line of `get_patch_names` (binary-files lines are not modelled) -/
def nameLine (pre : Bytes) (line : Bytes) (missing : PErr) : Except PErr Unit :=
  match stripPrefix pre line with
  | none => .error missing
  | some r =>
    if endsNl r then
      (if (splitOnB tabB r.dropLast).length ≤ 2 then .ok () else .error (if pre = [45, 45, 45, 32] then .header else .syntax))
    else .error .syntax

/-- `get_patch_names`: consumes two lines -/
def patchNames : List Bytes → Except PErr (List Bytes)
  | [] => .error .noInput
  | l1 :: rest =>
    if ([66, 105, 110, 97, 114, 121, 32, 102, 105, 108, 101, 115, 32] : Bytes).isPrefixOf l1 then .error .unsupported else
    match nameLine [45, 45, 45, 32] l1 .header with
    | .error e => .error e
    | .ok () =>
      match rest with
      | [] => .error .noInput
      | l2 :: rest2 =>
        match nameLine [43, 43, 43, 32] l2 .header with
        | .error e => .error e
        | .ok () => .ok rest2

/-- `parse_range`: `"p"` ↦ (p, 1); `"p,r[,…]"` ↦ (p, r); negative numbers are reported as such -/
inductive RangeRes where
  | ok (pos range : Nat) | negRange | negPos | bad
  deriving DecidableEq, Repr

def parseIntSign (s : Bytes) : Option (Bool × Nat) :=
  match s with
  | 45 :: r => if r = [] then none else (digitsV 0 r).map (fun v => (true, v))
  | 43 :: r => if r = [] then none else (digitsV 0 r).map (fun v => (false, v))
  | r => if r = [] then none else (digitsV 0 r).map (fun v => (false, v))

def parseRange (s : Bytes) : RangeRes :=
  let parts := splitOnB commaB s
  let p := parts.head?.getD []
  let r : Bytes := match parts with
    | [_] => [49]
    | _ :: r :: _ => r
    | [] => []
  match parseIntSign p, parseIntSign r with
  | some (pn, pv), some (rn, rv) =>
    if pv > 2147483648 ∨ rv > 2147483648 ∨ (¬ pn ∧ pv = 2147483648) ∨ (¬ rn ∧ rv = 2147483648) then .bad
    else if rn ∧ rv ≠ 0 then .negRange
    else if pn ∧ pv ≠ 0 then .negPos
    else .ok pv rv
  | _, _ => .bad

/-- the regex `\@\@ ([^@]*) \@\@( (.*))?\n` applied with `re.match`: returns (group 1, group 3) -/
def matchHeader (line : Bytes) : Option (Bytes × Option Bytes) :=
  match stripPrefix [atB, atB, spB] line with
  | none => none
  | some r =>
    let body := r.takeWhile (· ≠ atB)
    let after := r.dropWhile (· ≠ atB)
    if body.getLast? ≠ some spB then none else
    match stripPrefix [atB, atB] after with
    | none => none
    | some t =>
      match t with
      | 10 :: _ => some (body.dropLast, none)
      | 32 :: t' =>
        if nlB ∈ t' then some (body.dropLast, some (t'.takeWhile (· ≠ nlB))) else none
      | _ => none

/-- `hunk_from_header` -/
def hunkFromHeader (line : Bytes) : Except PErr Hunk :=
  match matchHeader line with
  | none => .error .hunkHeader
  | some (body, tail) =>
    match splitOnB spB body with
    | [orig, mod] =>
      match orig, mod with
      | 45 :: o, 43 :: m =>
        match parseRange o, parseRange m with
        | .ok op orr, .ok mp mr => .ok ⟨op, orr, mp, mr, tail, []⟩
        | .negRange, .ok _ _ => .error .negRange
        | .ok _ _, .negRange => .error .negRange
        | .negRange, .negRange => .error .negRange
        | .bad, _ => .error .hunkHeader
        | _, .bad => .error .hunkHeader
        | _, _ => .error .unsupported
      | _, _ => .error .hunkHeader
    | _ => .error .hunkHeader

/-- `parse_line` -/
def parseLine (line : Bytes) : Except PErr HLine :=
  match line with
  | 10 :: _ => .ok (.ctx line)
  | 32 :: r => .ok (.ctx r)
  | 43 :: r => .ok (.ins r)
  | 45 :: r => .ok (.rem r)
  | _ => .error .malformedLine

def cOrig : HLine → Nat
  | .ins _ => 0
  | _ => 1

def cMod : HLine → Nat
  | .rem _ => 0
  | _ => 1

/-- the `while orig_size < hunk.orig_range or mod_size < hunk.mod_range` loop -/
def readLines (oR mR : Nat) : Nat → Nat → List Bytes → Except PErr (List HLine × List Bytes)
  | oS, mS, [] => if oS < oR ∨ mS < mR then .error .truncated else .ok ([], [])
  | oS, mS, l :: ls =>
    if oS < oR ∨ mS < mR then
      match parseLine l with
      | .error e => .error e
      | .ok hl =>
        match readLines oR mR (oS + cOrig hl) (mS + cMod hl) ls with
        | .error e => .error e
        | .ok (hls, rest) => .ok (hl :: hls, rest)
    else .ok ([], l :: ls)

theorem readLines_rest_le (oR mR oS mS : Nat) (ls : List Bytes) (hls : List HLine) (rest : List Bytes)
    (h : readLines oR mR oS mS ls = .ok (hls, rest)) : rest.length ≤ ls.length := by
  induction ls generalizing oS mS hls rest with
  | nil =>
    unfold readLines at h
    split at h
    · simp at h
    · simp only [Except.ok.injEq, Prod.mk.injEq] at h; rw [← h.2]; simp
  | cons l ls ih =>
    unfold readLines at h
    split at h
    · cases hp : parseLine l with
      | error e => simp [hp] at h
      | ok hl =>
        simp only [hp] at h
        cases hr : readLines oR mR (oS + cOrig hl) (mS + cMod hl) ls with
        | error e => simp [hr] at h
        | ok pr =>
          obtain ⟨hls', rest'⟩ := pr
          simp only [hr, Except.ok.injEq, Prod.mk.injEq] at h
          have := ih _ _ _ _ hr
          rw [← h.2]; simp; omega
    · simp only [Except.ok.injEq, Prod.mk.injEq] at h; rw [← h.2]; simp

/-- `iter_hunks` (allow_dirty=False) -/
def iterHunks (ls : List Bytes) : Except PErr (List Hunk) :=
  match ls with
  | [] => .ok []
  | line :: rest =>
    if line = [nlB] then iterHunks rest
    else
      match hunkFromHeader line with
      | .error e => .error e
      | .ok h =>
        match hr : readLines h.origRange h.modRange 0 0 rest with
        | .error e => .error e
        | .ok (hls, rest') =>
          match iterHunks rest' with
          | .error e => .error e
          | .ok hs => .ok ({ h with lines := hls } :: hs)
termination_by ls.length
decreasing_by
  · simp
  · have := readLines_rest_le _ _ _ _ _ _ _ hr
    simp; omega

/-- `parse_patch(lines).hunks` -/
def parsePatch (ls : List Bytes) : Except PErr (List Hunk) :=
  match handleNl ls with
  | .error e => .error e
  | .ok ls' =>
    match patchNames ls' with
    | .error e => .error e
    | .ok body => iterHunks body

/-- `Patch.stats_values()` -/
def stats (hs : List Hunk) : Nat × Nat × Nat :=
  ((hs.map (fun h => (h.lines.filter (fun l => match l with | .ins _ => true | _ => false)).length)).sum,
   (hs.map (fun h => (h.lines.filter (fun l => match l with | .rem _ => true | _ => false)).length)).sum,
   hs.length)

/-! ## texts and diffs as byte strings -/

/-- reading a binary file line by line (`readlines()`, `BytesIO(data).readlines()`,
`osutils.split_lines`): split after every `\n`, only there -/
def splitNL : Bytes → List Bytes
  | [] => []
  | c :: cs =>
    if c = nlB then [c] :: splitNL cs else
    match splitNL cs with
    | [] => [[c]]
    | l :: ls => (c :: l) :: ls

/-! ## application -/

/-- `PatchConflict(line_no, …)`: the only way `iter_patched_from_hunks` fails.  A
mismatching line and an old text that ends before or inside a hunk (`next()`
raising `StopIteration`, reported with `orig_line = b""`) both raise it, with the
1-based number of the old line that was expected at that point. -/
inductive ApplyErr where
  | conflict (lineNo : Nat)
  deriving DecidableEq, Repr

/-- the inner loop of `iter_patched_from_hunks` over one hunk's lines:
(emitted lines, new line number, remaining original lines) -/
def applyLines : Nat → List Line → List HLine → Except ApplyErr (List Line × Nat × List Line)
  | ln, rest, [] => .ok ([], ln, rest)
  | ln, rest, .ins l :: hl =>
    match applyLines ln rest hl with
    | .ok (e, ln', r) => .ok (l :: e, ln', r)
    | .error e => .error e
  | ln, rest, .ctx l :: hl =>
    match rest with
    | [] => .error (.conflict ln)                   -- the text ends inside the hunk
    | x :: xs =>
      if x = l then
        match applyLines (ln + 1) xs hl with
        | .ok (e, ln', r) => .ok (x :: e, ln', r)
        | .error e => .error e
      else .error (.conflict ln)
  | ln, rest, .rem l :: hl =>
    match rest with
    | [] => .error (.conflict ln)
    | x :: xs =>
      if x = l then applyLines (ln + 1) xs hl
      else .error (.conflict ln)

/-- `iter_patched_from_hunks(orig_lines, hunks)` collected into a list; `ln` = `line_no` -/
def applyFrom : Nat → List Line → List Hunk → Except ApplyErr (List Line)
  | _, rest, [] => .ok rest
  | ln, rest, h :: hs =>
    let k := h.origPos - ln                         -- `while line_no < hunk.orig_pos`
    if k ≤ rest.length then
      match applyLines (ln + k) (rest.drop k) h.lines with
      | .error e => .error e
      | .ok (e, ln', rest') =>
        match applyFrom ln' rest' hs with
        | .error e => .error e
        | .ok r => .ok (rest.take k ++ e ++ r)
    else .error (.conflict (ln + rest.length))      -- the text ends before the hunk starts

def applyHunks (orig : List Line) (hs : List Hunk) : Except ApplyErr (List Line) := applyFrom 1 orig hs

inductive PatchedErr where
  | parse (e : PErr)
  | apply (e : ApplyErr)
  deriving DecidableEq, Repr

/-- `iter_patched(orig_lines, patch_lines)` -/
def iterPatched (orig : List Line) (patch : List Bytes) : Except PatchedErr (List Line) :=
  match parsePatch patch with
  | .error e => .error (.parse e)
  | .ok hs =>
    match applyHunks orig hs with
    | .error e => .error (.apply e)
    | .ok r => .ok r

end BreezyVerif.C39
