"""C41 -- testaments are deterministic and sensitive to every attested field
(breezy/bzr/testament.py: Testament, StrictTestament, StrictTestament3).

Model: lean/BreezyVerif/Model/C41.lean (literal text generation over a revision
record).  Theorems: Props/C41.lean.

Every run:

* T2 -- generated revision records (metadata + inventory, entries and revprops
  in shuffled storage order) are turned into real `Revision`/`Inventory`
  objects, stored in a fresh 2a and a fresh pack-0.92 repository (and kept
  in memory as an InventoryRevisionTree), the three testament classes are
  produced with the real code and `as_text()` is compared byte for byte with
  the model's text (or the exception kind).  Pure streams tie `str.splitlines`,
  `_escape_path` and the `list_files` order to the model on alphabets aimed at
  every delimiter; `msgCanon` / `joinNl` (hypothesis and inverse of
  splitlines_injective_canon) are tied to `str.splitlines` / `"\n".join` the same
  way.  `as_short_text()` of every class is compared with the model's `shortText`
  (sha := digest of the real text).  Wild (in-memory) records also hold
  tree-reference entries; `timezone=None` occurs in every stream.  A dozen records
  per run (80 thorough) are built through a REAL `WorkingTree.commit()` in 2a and
  pack-0.92 (first commit or on top of another one, timestamps with more than 3
  decimals): the stored revision + inventory are read back and tied like the
  others, the "commit rounds to 3 decimals" assumption is checked, the testament
  must equal the one of the same data rebuilt in memory and must attest the
  committed contents / exec bits / timestamp.  ~10 % malformed records (whitespace in ids, linebreaks in
  committer/paths/targets, missing sha1/target) are compared on error kind.
* Oracle (model independent) -- (a) the same record gives byte-identical
  testaments in 2a, pack-0.92, in memory and under a second storage order
  (entries, revprops AND parents: every merge is also rebuilt with its parents
  reversed - "recorded from the other side" - in every mode;
  testament_parent_order_independent; seed C41b dropped the `sorted()`), and
  `as_short_text()` is header + revision id + sha1(as_text()); (b) every
  single-field perturbation of an attested field (path, content, exec bit,
  symlink target, file id, message, committer, timestamp, timezone, parents,
  revision properties, revision id, added/removed entry ...) and two two-field
  swaps (two entries exchange their file ids / their paths) must change the
  testament (long AND short form) of every class.

Findings (see `_classify`): collisions that the frozen text format has by
construction are reported with a family slug computed from the concrete pair of
records (message-line-boundaries, revprop-line-boundaries, path-backslash,
symlink-target-backslash, timestamp-subsecond, parents-order,
v1-exec-bit-not-attested); any other collision has family None and is shrunk.
Each family has a universally quantified `_witness` / `_collision` theorem.

Besides single-field perturbations two *aimed* multi-field perturbations move
field boundaries (`resplit`: `symlink <p> <fid> <x y>` -> `symlink <p fid> <x> <y>`;
`resplit_prop`: a value line `<n>0:` becomes a property of its own): the pairs
are told apart only by the escaping of spaces / the 4-space indent, which is
exactly what the injectivity proof relies on.

Mutants this was built against (scratch worktree, breezy/bzr/testament.py):
  M1  `sorted(self.parent_ids)` -> `self.parent_ids` ............ T2 (text differs)
  M2  `_escape_path`: `.replace(" ", "\\ ")` dropped ............. oracle: resplit collision
        symlink p (id f) -> "x y"  ==  symlink "p f" (id x) -> "y"   (shrunk to one entry)
  M3  StrictTestament `" yes\n"` / `" no\n"` swapped ............. T2
  M4  revprop value indent 4 -> 2 spaces ........................ oracle: resplit_prop collision
  M5  `elif ie.kind == "symlink"` never taken (target dropped) .. oracle: target perturbation
  M6  `"timestamp: %d" % (self.timestamp % 86400)` .............. oracle: ts + 1 day collision
  M7  StrictTestament3 `path == ""` -> "." dropped .............. T2
  M8  `message.splitlines()` -> `message.split("\n")` ........... T2
  M9  `contains_whitespace(ie.file_id)` check dropped ........... T2 (malformed stream)
  M10 the two `.replace` calls of `_escape_path` swapped ........ T2
  harmless: message loop as list comprehension; `sorted(set(parent_ids))` -> clean
Improvement round:
  M11 as_short_text: `short_header` -> `long_header` .............. oracle (short form) + T2 (short)
  M12 as_short_text: digest of `as_text_lines()[:-1]` ............. oracle (short form) + T2 (short)
  M13 `rev.timezone or 0` -> `rev.timezone` (None) ................ oracle: "producing the testament raised TypeError"
        (timezone=None is generated in every stream; unexpected exceptions are violations, not crashes)
  M14 tree-reference entries skipped in `_get_entries` ............ oracle (perturbation of a tree-reference entry) + T2
  harmless: repository.py CommitBuilder `round(timestamp, 3)` dropped -> clean: the 2a and pack-0.92
        serialisers round to 3 decimals themselves (a Revision object holding 1.9996 has "timestamp: 1"
        before it is stored and "timestamp: 2" after; testaments are only ever made from stored revisions)
"""
import hashlib

from vlib import env

THEOREMS = [
    "testament_storage_order_independent",
    "testament_parent_order_independent",
    "testament_injective_partial",
    "testament_sensitive_partial",
    "testament_sensitive_scalars",
    "testament_sensitive_raw_partial",
    "splitlines_injective_canon",
    "short_text_determines_text",
    "short_text_injective_partial",
    "short_text_sensitive_partial",
    "short_text_storage_order_independent",
    "splitlines_no_newline",
    "escape_inj_iff",
    "entryLine_inj",
    "message_line_boundaries_collision",
    "message_trailing_newline_witness",
    "message_separator_witness",
    "revprop_line_boundaries_witness",
    "path_backslash_witness",
    "symlink_target_backslash_witness",
    "timestamp_subsecond_witness",
    "parents_order_witness",
    "v1_exec_witness",
    "rec0_ok",
]
RULE = ("records drawn from a grammar over ids/names/messages containing every delimiter the code "
        "looks at; a case is one (record, class-set) evaluation; non-trivial = the record has at "
        "least one inventory entry or parent or property, or is a perturbation pair")
ASSUMPTIONS = [
    "ids are valid UTF-8 and text_sha1 is ASCII (decode() of ids is outside the model)",
    "timestamps have at most 3 decimals (Commit rounds to 3), so '%d' is truncation of integer milliseconds",
    "SHA-1 is collision free on the texts explored (as_short_text carries only the digest)",
    "inventory paths are produced by bzrformats' Inventory.iter_entries (external); its order is "
    "compared with the model's sort on every case",
]
TRUSTED = [
    "Python str.splitlines / str.replace / '%d' formatting and UTF-8 codecs are modelled (tied by the pure T2 streams), not verified",
    "osutils.contains_whitespace / contains_linebreaks (Rust) are modelled from source and tied by the malformed stream",
]

LS, PS, NEL = chr(0x2028), chr(0x2029), chr(0x85)
BREAKS_SAFE = ["\n", NEL, LS, PS]                     # survive XML and bencode storage
BREAKS_WILD = ["\r", "\r\n", "\x0b", "\x0c", "\x1c", "\x1d", "\x1e"]
EACUTE, SNOW = chr(0xe9), chr(0x2603)
NAME_ALPH = ["a", "b", "c", "-", ".", " ", "+", "\\", "~", "Z", "0", ":", EACUTE, SNOW, "!"]
ID_ALPH = ["a", "b", "r", "-", "_", "0", "9", ":", "%", "@", ".", EACUTE]
MSG_ALPH = ["a", "b", " ", " ", ":", "\t", "\\", EACUTE, "x"]
VARIANTS = ("1", "2", "3")


def _classes():
    from breezy.bzr.testament import StrictTestament, StrictTestament3, Testament
    return {"1": Testament, "2": StrictTestament, "3": StrictTestament3}


# --------------------------------------------------------------------------
# record generation
# --------------------------------------------------------------------------

def _word(rng, alph, lo, hi):
    return "".join(rng.choice(alph) for _ in range(rng.randint(lo, hi)))


def _name(rng, wild):
    while True:
        alph = NAME_ALPH + (["\t", "\x0b"] if wild else [])
        n = _word(rng, alph, 1, 4)
        if n not in (".", ".."):
            return n


def _ident(rng, prefix):
    # ids ending in ":" are reserved revision ids (refused by the serialisers)
    while True:
        s = prefix + _word(rng, ID_ALPH, 1, 6)
        if not s.endswith(":"):
            return s


def _text(rng, wild, maxlines=4):
    """message / property value: lines joined by assorted line boundaries"""
    n = rng.choice([0, 1, 1, 2, 2, 3, maxlines])
    out = []
    for i in range(n):
        out.append(_word(rng, MSG_ALPH, 0, 5))
        if i < n - 1 or rng.random() < 0.4:
            br = "\n" if rng.random() < 0.6 else rng.choice(BREAKS_SAFE + (BREAKS_WILD if wild else []))
            out.append(br)
    return "".join(out)


def gen_record(rng, wild=False):
    """A well-formed revision record.  `wild` records use characters that the
    XML formats do not store faithfully and are only built in memory."""
    rid = _ident(rng, "rev-")
    entries = []
    dirs = [""]
    used = set()
    fid_used = set()
    for _ in range(rng.choice([0, 1, 2, 3, 4, 5, 6, 8])):
        parent = rng.choice(dirs)
        name = _name(rng, wild)
        path = (parent + "/" + name) if parent else name
        if path in used:
            continue
        used.add(path)
        fid = _ident(rng, "f")
        if fid in fid_used:
            continue
        fid_used.add(fid)
        k = rng.choice("fffddlt" if wild else "fffddl")   # tree references: in memory only (2a / pack-0.92 refuse them)
        e = dict(path=path, kind=k, fid=fid, content="", target="",
                 rev=rid if rng.random() < 0.5 else _ident(rng, "rev-"), exec=False)
        if k == "f":
            e["content"] = _word(rng, ["a", "b", "\n"], 0, 4)
            e["exec"] = rng.random() < 0.3
        elif k == "l":
            e["target"] = _word(rng, NAME_ALPH + ["/", "/", " "], 1, 5)
        elif k == "d":
            dirs.append(path)
        entries.append(e)
    props = []
    for _ in range(rng.choice([0, 0, 1, 2, 3])):
        n = _word(rng, ID_ALPH + ["k", "p"], 1 if rng.random() < 0.95 else 0, 4)
        if n in [p[0] for p in props]:
            continue
        val = _text(rng, wild, 3)
        if n and rng.random() < 0.3:
            # last line "<name>0:" looks like the header line of a following property
            val = (val if (not val or val.endswith("\n")) else val + "\n") + n + "0:"
        if not wild and val and not val.strip():
            val += "x"      # pack-0.92 (XML) does not store whitespace-only values faithfully
        props.append([n, val])
    ts = rng.choice([0, 1, -1, 999, 1000, 1001, -999, -1000, -1500, 1700,
                     rng.randint(-10**7, 10**7), rng.randint(0, 2 * 10**12)])
    tz = rng.choice([0, 3600, -3600, 19800, -34200, rng.randint(-50000, 50000)])
    if rng.random() < (0.2 if wild else 0.08):
        tz = None               # `rev.timezone or 0`; both formats store None
    parents = []
    for _ in range(rng.choice([0, 1, 1, 2, 2, 3])):
        p = _ident(rng, rng.choice(["rev-", "p", ""]))
        if p not in parents:
            parents.append(p)
    message = _text(rng, wild)
    if not wild and message and not message.strip():
        message += "x"          # whitespace-only messages are not stored faithfully by pack-0.92 (XML)
    return dict(rid=rid, committer=_word(rng, MSG_ALPH + ["<", ">", "@"], 0, 8), ts_ms=ts, tz=tz,
                parents=parents, message=message, root_id=_ident(rng, "root-"),
                root_rev=rid, entries=entries, props=props, wild=wild)


def shuffle_storage(rng, rec):
    """another storage order of the same data: entries in a random
    parent-before-child order, revprops dict built in another order"""
    r = dict(rec)
    pending = list(rec["entries"])
    placed = {""}
    out = []
    while pending:
        ready = [e for e in pending if (e["path"].rsplit("/", 1)[0] if "/" in e["path"] else "") in placed]
        e = rng.choice(ready)
        pending.remove(e)
        out.append(e)
        if e["kind"] == "d":
            placed.add(e["path"])
    r["entries"] = out
    p = list(rec["props"])
    rng.shuffle(p)
    r["props"] = p
    # the same merge recorded from the other side: the parents in another stored order (never the same
    # order when there are two or more; which parent is left-hand is not attested, the parent SET is)
    ps = list(rec["parents"])
    if len(ps) >= 2:
        k = rng.randrange(1, len(ps))
        ps = list(reversed(ps)) if rng.random() < 0.5 else ps[k:] + ps[:k]
    r["parents"] = ps
    return r


# --------------------------------------------------------------------------
# real objects
# --------------------------------------------------------------------------

def _sha(content):
    return hashlib.sha1(content.encode("utf-8")).hexdigest()


def _b(s):
    return s.encode("utf-8")


def build_inventory(rec, with_root_rev=True):
    from bzrformats.inventory import Inventory, InventoryDirectory, InventoryFile, InventoryLink, TreeReference
    rid = _b(rec["rid"])
    inv = Inventory(root_id=None, revision_id=rid)
    inv.add(InventoryDirectory(_b(rec["root_id"]), "", None, revision=_b(rec["root_rev"])))
    ids = {"": _b(rec["root_id"])}
    for e in rec["entries"]:
        parent, _, name = e["path"].rpartition("/")
        pid = ids[parent]
        fid = _b(e["fid"])
        rev = _b(e["rev"])
        if e["kind"] == "d":
            ie = InventoryDirectory(fid, name, pid, revision=rev)
            ids[e["path"]] = fid
        elif e["kind"] == "f":
            sha = e.get("sha")
            if sha is None:
                sha = _sha(e["content"])
            ie = InventoryFile(fid, name, pid, revision=rev, text_sha1=_b(sha) if sha != "" else None,
                               text_size=len(_b(e["content"])), executable=bool(e["exec"]))
        elif e["kind"] == "t":
            ie = TreeReference(fid, name, pid, revision=rev, reference_revision=b"nested-" + rev)
        else:
            ie = InventoryLink(fid, name, pid, revision=rev,
                               symlink_target=e["target"] if e["target"] != "" else None)
        inv.add(ie)
    return inv


def build_revision(rec):
    from breezy.revision import Revision
    return Revision(_b(rec["rid"]), committer=rec["committer"], timestamp=rec["ts_ms"] / 1000.0,
                    timezone=rec["tz"], message=rec["message"],
                    parent_ids=[_b(p) for p in rec["parents"]],
                    properties=dict((k, v) for k, v in rec["props"]), inventory_sha1=b"")


_mem_repo = []


def _new_repo(fmt):
    from breezy.controldir import ControlDir, format_registry
    d = env.fresh_dir("r")
    return ControlDir.create(d, format=format_registry.make_controldir(fmt)).create_repository()


def _stub_tree(rec):
    """a Tree whose list_files() yields plain objects: lets the malformed stream
    reach the defensive checks of _entry_to_line that bzrformats' inventory
    classes already refuse at construction time (whitespace in file ids ...)"""
    import types
    from breezy.tree import Tree

    class StubTree(Tree):
        def __init__(self, items):
            self._items = items

        def list_files(self, include_root=False, from_dir=None, recursive=True, recurse_nested=False):
            for path, ie in self._items:
                if path == "" and not include_root:
                    continue
                yield path, "V", ie.kind, ie

    kinds = {"f": "file", "d": "directory", "l": "symlink", "t": "tree-reference"}
    items = [("", types.SimpleNamespace(kind="directory", file_id=_b(rec["root_id"]), revision=_b(rec["root_rev"]),
                                        executable=False, text_sha1=None, symlink_target=None))]
    for e in rec["entries"]:
        sha = e.get("sha")
        if sha is None:
            sha = _sha(e["content"])
        items.append((e["path"], types.SimpleNamespace(
            kind=kinds[e["kind"]], file_id=_b(e["fid"]), revision=_b(e["rev"]), executable=bool(e["exec"]),
            text_sha1=(_b(sha) if sha != "" else None) if e["kind"] == "f" else None,
            symlink_target=(e["target"] if e["target"] != "" else None) if e["kind"] == "l" else None)))
    items.sort(key=lambda pe: pe[0].split("/") if pe[0] else [])
    return StubTree(items)


def make_testaments(rec, mode):
    """{variant: Testament object or exception} for one record in one mode"""
    from breezy.bzr.inventorytree import InventoryRevisionTree
    classes = _classes()
    rid = _b(rec["rid"])
    out = {}
    if mode == "stub":
        import types
        tree = _stub_tree(rec)
        # a plain object: breezy.revision.Revision already refuses bad property names
        rev = types.SimpleNamespace(
            revision_id=rid, committer=rec["committer"], timestamp=rec["ts_ms"] / 1000.0, timezone=rec["tz"],
            message=rec["message"], parent_ids=[_b(p) for p in rec["parents"]],
            properties=dict((k, v) for k, v in rec["props"]))
        for v, cls in classes.items():
            try:
                out[v] = cls(rev, tree)
            except Exception as e:   # noqa: BLE001 - classified by render()
                out[v] = e
        return out, None
    rev = build_revision(rec)
    inv = build_inventory(rec)
    if mode == "mem":
        if not _mem_repo:
            _mem_repo.append(_new_repo("2a"))
        tree = InventoryRevisionTree(_mem_repo[0], inv, rid)
        for v, cls in classes.items():
            try:
                out[v] = cls(rev, tree)
            except Exception as e:   # noqa: BLE001 - classified by render()
                out[v] = e
        return out, None
    repo = _new_repo(mode)
    with repo.lock_write():
        repo.start_write_group()
        try:
            for p, ie in inv.iter_entries():
                if p == "" and not repo.supports_rich_root():
                    continue
                lines = []
                if ie.kind == "file":
                    e = next(x for x in rec["entries"] if _b(x["fid"]) == ie.file_id)
                    lines = _b(e["content"]).splitlines(True)
                repo.texts.add_lines((ie.file_id, ie.revision), [], lines)
            repo.add_revision(rid, rev, inv)
            repo.commit_write_group()
        except BaseException:
            repo.abort_write_group()
            raise
    repo.lock_read()
    for v, cls in classes.items():
        try:
            out[v] = cls.from_revision(repo, rid)
        except Exception as e:   # noqa: BLE001 - classified by render()
            out[v] = e
    stored = repo.get_revision(rid)
    faithful = True
    for what, ok in (("message", stored.message == rec["message"]),
                     ("committer", stored.committer == rec["committer"]),
                     ("timestamp", abs(stored.timestamp * 1000 - rec["ts_ms"]) < 0.25),
                     ("timezone", (stored.timezone or 0) == (rec["tz"] or 0)),
                     ("parents", list(stored.parent_ids) == [_b(p) for p in rec["parents"]]),
                     ("props", dict(stored.properties) == dict((k, v) for k, v in rec["props"]))):
        if not ok:
            faithful = what
            break
    if faithful is True:
        sinv = repo.get_inventory(rid)

        def sig(i):
            return sorted((p, ie.kind, ie.file_id, ie.revision, getattr(ie, "text_sha1", None),
                           getattr(ie, "symlink_target", None), getattr(ie, "executable", False))
                          for p, ie in i.iter_entries())
        if sig(inv) != sig(sinv):
            faithful = "inventory"
    repo.unlock()
    return out, faithful


def render(t):
    """canonical observable of one testament object: (text bytes | error kind, short text)"""
    if isinstance(t, ValueError):
        return "E:Value", None
    if isinstance(t, AssertionError):
        return "E:Assert", None
    if isinstance(t, Exception):
        return "E:Unexpected:" + type(t).__name__, None
    try:
        txt = t.as_text()
        short = t.as_short_text()
    except ValueError:
        return "E:Value", None
    except AssertionError:
        return "E:Assert", None
    except Exception as e:   # noqa: BLE001 - no other exception is an outcome of the model: reported by _tie
        return "E:Unexpected:" + type(e).__name__, None
    return txt, short


# --------------------------------------------------------------------------
# model lines
# --------------------------------------------------------------------------

def x(s):
    return "x" + s.encode("utf-8").hex()


def xl(items):
    return ",".join(items) if items else "-"


def model_entries(rec, variant):
    es = []
    if variant == "3":
        es.append("d:%s:%s:x:x:%s:F" % (x(""), x(rec["root_id"]), x(rec["root_rev"])))
    for e in rec["entries"]:
        sha = ""
        if e["kind"] == "f":
            sha = e.get("sha")
            if sha is None:
                sha = _sha(e["content"])
        es.append("%s:%s:%s:%s:%s:%s:%s" % (e["kind"], x(e["path"]), x(e["fid"]), x(sha), x(e["target"]),
                                            x(e["rev"]), "T" if e["exec"] else "F"))
    return es


def model_line(rec, variant):
    return "text %s %s %s %d %s %s %s %s %s" % (
        variant, x(rec["rid"]), x(rec["committer"]), rec["ts_ms"],
        "~" if rec["tz"] is None else str(rec["tz"]),
        xl([x(p) for p in rec["parents"]]), x(rec["message"]),
        xl(model_entries(rec, variant)),
        xl(["%s:%s" % (x(k), x(v)) for k, v in rec["props"]]))


def impl_out(rendered):
    txt, _ = rendered
    if isinstance(txt, bytes):
        return "ok x" + txt.hex()
    return txt


# --------------------------------------------------------------------------
# perturbations (exactly one attested field changes)
# --------------------------------------------------------------------------

ALL = ("1", "2", "3")
STRICT = ("2", "3")


def _edit(rng, s, alph):
    """a random single-character edit that really changes the string"""
    for _ in range(20):
        i = rng.randint(0, len(s))
        op = rng.choice("idr") if s else "i"
        if op == "i":
            t = s[:i] + rng.choice(alph) + s[i:]
        elif op == "d" and i < len(s):
            t = s[:i] + s[i + 1:]
        elif op == "r" and i < len(s):
            t = s[:i] + rng.choice(alph) + s[i + 1:]
        else:
            continue
        if t != s:
            return t
    return s + alph[0]


def _text_perturb(rng, s, wild):
    """message-like edit: either generic, or aimed at the line-boundary normalisation"""
    r = rng.random()
    brk = BREAKS_SAFE + (BREAKS_WILD if wild else [])
    if r < 0.15:
        return s + "\n"
    if r < 0.3 and any(b in s for b in brk):
        present = [b for b in brk if b in s]
        b = rng.choice(present)
        nb = rng.choice([c for c in brk if c != b])
        i = s.index(b)
        return s[:i] + nb + s[i + len(b):]
    if r < 0.4 and s.endswith("\n"):
        return s[:-1]
    return _edit(rng, s, MSG_ALPH + ["\n"])


def _storable(r):
    """ids the repository layers accept as keys (non-empty, not reserved)"""
    ids = [r["rid"], r["root_id"], r["root_rev"]] + r["parents"] + \
        [e["fid"] for e in r["entries"]] + [e["rev"] for e in r["entries"]]
    return all(i and not i.endswith(":") for i in ids)


def perturb(rng, rec):
    """(field, attesting classes, new record) or None"""
    import copy
    r = copy.deepcopy(rec)
    wild = rec["wild"]
    kinds = ["rid", "committer", "ts", "ts", "tz", "parents", "parents", "message", "message", "message",
             "prop", "prop", "root_id", "add_entry"]
    if rec["entries"]:
        kinds += ["path", "path", "content", "exec", "target", "fid", "entry_rev", "remove_entry", "kind"] * 2
    if len(rec["entries"]) >= 2:
        kinds += ["swap_fid", "swap_path"] * 3
    resplit = [e for e in rec["entries"] if e["kind"] == "l" and " " in e["target"].strip(" ")
               and not any(o["path"].startswith(e["path"] + "/") for o in rec["entries"])]
    if resplit:
        kinds += ["resplit"] * 6
    names = [p[0] for p in rec["props"]]
    resplit_p = [p for p in rec["props"] if p[1].splitlines() and p[1].splitlines()[-1] == p[0] + "0:"
                 and p[0] + "0" not in names
                 and not any(p[0] < o < p[0] + "0" for o in names)]
    if resplit_p:
        kinds += ["resplit_prop"] * 6
    k = rng.choice(kinds)
    cls = ALL
    if k == "resplit_prop":
        # NOT a single-field change: the last value line "<n>0:" becomes a property of its own
        #   {n: "...\n<n>0:"}  ->  {n: "...", n0: ""}   (told apart only by the 4-space indent)
        pick = rng.choice(resplit_p)[0]
        pr = next(q for q in r["props"] if q[0] == pick)
        lines = pr[1].splitlines()
        pr[1] = "".join(l + "\n" for l in lines[:-1])
        r["props"].append([pick + "0", ""])
        return k, cls, r
    if k == "resplit":
        # NOT a single-field change: move the field boundaries of a symlink line
        #   symlink <path> <fid> <x y>   ->   symlink <path fid> <x> <y>
        # the two records are told apart only by the escaping of spaces
        pick = rng.choice(resplit)["path"]
        e = next(o for o in r["entries"] if o["path"] == pick)
        head, _, tail = e["target"].strip(" ").partition(" ")
        tail = tail.strip(" ")
        newpath = e["path"] + " " + e["fid"]
        if not head or not tail or newpath in [o["path"] for o in r["entries"]] or \
                head in [o["fid"] for o in r["entries"]] + [r["root_id"]] or "/" in head or "\\" in head \
                or "/" in e["fid"]:
            return None
        e.update(path=newpath, fid=head, target=tail)
        return (k, cls, r) if _storable(r) else None
    if k == "rid":
        old = r["rid"]
        r["rid"] = _edit(rng, r["rid"], ID_ALPH)
        # entries / root whose last-changed revision is this revision keep pointing at it
        if r["root_rev"] == old:
            r["root_rev"] = r["rid"]
        for e in r["entries"]:
            if e["rev"] == old:
                e["rev"] = r["rid"]
    elif k == "committer":
        r["committer"] = _edit(rng, r["committer"], MSG_ALPH + ["<", "@"])
    elif k == "ts":
        r["ts_ms"] += rng.choice([1, -1, 300, -300, 999, -999, 1000, -1000, 2000, 86400000, rng.randint(-5000, 5000) or 7])
    elif k == "tz":
        old = r["tz"] or 0
        r["tz"] = old + rng.choice([1, -1, 3600, -3600, 60])
    elif k == "parents":
        op = rng.choice(["add", "remove", "replace", "reorder", "reorder"])
        ps = r["parents"]
        if op == "reorder" and len(ps) >= 2:
            i, j = rng.sample(range(len(ps)), 2)
            ps[i], ps[j] = ps[j], ps[i]
        elif op == "remove" and ps:
            ps.pop(rng.randrange(len(ps)))
        elif op == "replace" and ps:
            i = rng.randrange(len(ps))
            n = _edit(rng, ps[i], ID_ALPH)
            if n in ps:
                return None
            ps[i] = n
        else:
            n = _ident(rng, "rev-")
            if n in ps:
                return None
            ps.insert(rng.randint(0, len(ps)), n)
    elif k == "message":
        r["message"] = _text_perturb(rng, r["message"], wild)
    elif k == "prop":
        op = rng.choice(["add", "remove", "value", "value", "name"])
        ps = r["props"]
        if op == "remove" and ps:
            ps.pop(rng.randrange(len(ps)))
        elif op == "value" and ps:
            i = rng.randrange(len(ps))
            ps[i][1] = _text_perturb(rng, ps[i][1], wild)
        elif op == "name" and ps:
            i = rng.randrange(len(ps))
            n = _edit(rng, ps[i][0], ID_ALPH)
            if n in [p[0] for p in ps]:
                return None
            ps[i][0] = n
        else:
            n = _word(rng, ID_ALPH, 1, 3)
            if n in [p[0] for p in ps]:
                return None
            ps.append([n, _text(rng, wild, 2)])
    elif k in ("swap_fid", "swap_path"):
        # two fields at once: two entries exchange their file ids / their paths (every other field stays)
        pool = r["entries"] if k == "swap_fid" else \
            [o for o in r["entries"] if not any(q["path"].startswith(o["path"] + "/") for q in r["entries"])]
        if len(pool) < 2:
            return None
        a, b = rng.sample(pool, 2)
        key = "fid" if k == "swap_fid" else "path"
        a[key], b[key] = b[key], a[key]
        if k == "swap_path":
            # keep the parent-before-child storage order: the two records trade places in the list
            i, j = [n for n, o in enumerate(r["entries"]) if o is a or o is b]
            r["entries"][i], r["entries"][j] = r["entries"][j], r["entries"][i]
    elif k == "root_id":
        r["root_id"] = _edit(rng, r["root_id"], ID_ALPH)
        if r["root_id"] in [e["fid"] for e in r["entries"]]:
            return None
        cls = ("3",)
    elif k == "add_entry":
        dirs = [""] + [e["path"] for e in r["entries"] if e["kind"] == "d"]
        parent = rng.choice(dirs)
        name = _name(rng, wild)
        path = (parent + "/" + name) if parent else name
        fid = _ident(rng, "n")
        if path in [e["path"] for e in r["entries"]] or fid in [e["fid"] for e in r["entries"]] + [r["root_id"]]:
            return None
        r["entries"].append(dict(path=path, kind="f", fid=fid, content="new", target="", rev=r["rid"], exec=False))
    else:
        i = rng.randrange(len(r["entries"]))
        e = r["entries"][i]
        if k == "path":
            leafs = [o for o in r["entries"] if "/" in o["path"]
                     and not any(q["path"].startswith(o["path"] + "/") for q in r["entries"])]
            rr = rng.random()
            if rr < 0.3 and leafs:
                # d/f -> a file literally named "d\f" next to d (aimed at the backslash normalisation)
                e = rng.choice(leafs)
                head, _, name = e["path"].rpartition("/")
                newpath = head + "\\" + name
            else:
                parent, _, name = e["path"].rpartition("/")
                if rr < 0.5 and "\\" in name:
                    n = name.replace("\\", "|", 1)
                elif rr < 0.6 and " " in name:
                    n = name.replace(" ", "\\ ", 1)
                else:
                    n = _edit(rng, name, NAME_ALPH)
                if n in (".", "..", "") or "/" in n:
                    return None
                newpath = (parent + "/" + n) if parent else n
            if newpath in [o["path"] for o in r["entries"]]:
                return None
            oldp = e["path"]
            for o in r["entries"]:
                if o["path"].startswith(oldp + "/"):
                    o["path"] = newpath + o["path"][len(oldp):]
            e["path"] = newpath
        elif k == "content":
            fs = [o for o in r["entries"] if o["kind"] == "f"]
            if not fs:
                return None
            e = rng.choice(fs)
            e["content"] = _edit(rng, e["content"], ["a", "b", "\n", "c"])
        elif k == "exec":
            fs = [o for o in r["entries"] if o["kind"] == "f"]
            if not fs:
                return None
            e = rng.choice(fs)
            e["exec"] = not e["exec"]
        elif k == "target":
            ls = [o for o in r["entries"] if o["kind"] == "l"]
            if not ls:
                return None
            e = rng.choice(ls)
            t = e["target"]
            rr = rng.random()
            if rr < 0.3 and "\\" in t:
                e["target"] = t.replace("\\", "/", 1)
            elif rr < 0.3 and "/" in t:
                e["target"] = t.replace("/", "\\", 1)
            else:
                e["target"] = _edit(rng, t, NAME_ALPH + ["/"])
            if e["target"] == "":
                return None
        elif k == "fid":
            e["fid"] = _edit(rng, e["fid"], ID_ALPH)
            if [o["fid"] for o in r["entries"]].count(e["fid"]) > 1 or e["fid"] == r["root_id"]:
                return None
        elif k == "entry_rev":
            e["rev"] = _edit(rng, e["rev"], ID_ALPH)
            cls = STRICT
        elif k == "remove_entry":
            if any(o["path"].startswith(e["path"] + "/") for o in r["entries"]):
                return None
            r["entries"].pop(i)
        elif k == "kind":
            if e["kind"] == "f":
                e.update(kind="l", target="tgt", content="", exec=False)
            elif e["kind"] == "l":
                e.update(kind="f", target="", content="c")
            else:
                if any(o["path"].startswith(e["path"] + "/") for o in r["entries"]):
                    return None
                if wild and rng.random() < 0.5:
                    e.update(kind="t" if e["kind"] == "d" else "d")     # directory <-> tree-reference
                else:
                    e.update(kind="f", content="c")
    if r == rec or not _storable(r):
        return None
    return k, cls, r


def _classify(field, a, b, variant):
    """family slug of a collision, computed from the concrete pair of records
    (a, b differ in `field` only and have the same testament of class `variant`).
    None = not one of the collisions the text format has by construction."""
    def rest_equal(*skip):
        return all(a[k] == b[k] for k in a if k not in skip and k != "wild")

    if field == "message" and rest_equal("message") and a["message"].splitlines() == b["message"].splitlines():
        return "message-line-boundaries"
    if field == "prop" and rest_equal("props") and [p[0] for p in a["props"]] == [p[0] for p in b["props"]] \
            and [p[1].splitlines() for p in a["props"]] == [p[1].splitlines() for p in b["props"]]:
        return "revprop-line-boundaries"
    if field == "ts" and rest_equal("ts_ms") and int(a["ts_ms"] / 1000.0) == int(b["ts_ms"] / 1000.0):
        return "timestamp-subsecond"
    if field == "parents" and rest_equal("parents") and sorted(a["parents"]) == sorted(b["parents"]):
        return "parents-order"

    def strip(rec, key, norm):
        return [dict(e, **{key: norm(e[key])}) for e in rec["entries"]]

    def bs(s):
        return s.replace("\\", "/")
    if field == "path" and rest_equal("entries") and \
            sorted(map(repr, strip(a, "path", bs))) == sorted(map(repr, strip(b, "path", bs))):
        return "path-backslash"
    if field == "target" and rest_equal("entries") and strip(a, "target", bs) == strip(b, "target", bs):
        return "symlink-target-backslash"
    if field == "exec" and variant == "1" and rest_equal("entries") and \
            strip(a, "exec", lambda _: 0) == strip(b, "exec", lambda _: 0):
        return "v1-exec-bit-not-attested"
    return None


# --------------------------------------------------------------------------
# malformed records
# --------------------------------------------------------------------------

def malform(rng, rec):
    import copy
    r = copy.deepcopy(rec)
    r["wild"] = True
    bad_ws = rng.choice([" ", "\t", "\n", "\r", "\x0b", "\x0c"])
    bad_lb = rng.choice(["\n", "\r", "\x0c"])
    near = rng.choice(["\x0b", "\t", NEL, LS, "\x1c"])       # NOT rejected by contains_linebreaks
    k = rng.choice(["rid", "committer", "committer_ok", "parent", "fid", "sha", "target_none", "target_lb",
                    "path_lb", "path_ok", "propname", "two"])
    def ins(s, c):
        i = rng.randint(0, len(s))
        return s[:i] + c + s[i:]
    if k == "rid":
        r["rid"] = ins(r["rid"], bad_ws)
        r["root_rev"] = r["rid"]
    elif k == "committer":
        r["committer"] = ins(r["committer"], bad_lb)
    elif k == "committer_ok":
        r["committer"] = ins(r["committer"], near)
    elif k == "parent":
        r["parents"].append(ins("par", bad_ws))
    elif k == "propname":
        r["props"].append([ins("nm", bad_ws), "v"])
    elif not r["entries"]:
        r["parents"].append(ins("par", bad_ws))
    else:
        e = rng.choice(r["entries"])
        leaf = not any(o["path"].startswith(e["path"] + "/") for o in r["entries"])
        if k == "fid":
            e["fid"] = ins(e["fid"], bad_ws)
        elif k == "sha":
            if e["kind"] != "f":
                return None
            e["sha"] = ""
        elif k == "target_none":
            if e["kind"] != "l":
                return None
            e["target"] = ""
        elif k == "target_lb":
            if e["kind"] != "l":
                return None
            e["target"] = ins(e["target"], bad_lb)
        elif k in ("path_lb", "path_ok"):
            if not leaf:
                return None
            parent, _, name = e["path"].rpartition("/")
            name = ins(name, bad_lb if k == "path_lb" else near)
            e["path"] = (parent + "/" + name) if parent else name
        elif k == "two":
            # two different errors: the first in list_files order must win
            for o in r["entries"]:
                if o["kind"] == "f" and rng.random() < 0.5:
                    o["sha"] = ""
                elif rng.random() < 0.5:
                    o["fid"] = ins(o["fid"], bad_ws)
    if len(set(e["path"] for e in r["entries"])) != len(r["entries"]):
        return None
    return k, r


# --------------------------------------------------------------------------
# run
# --------------------------------------------------------------------------

class _Batch:
    """collect model lines; diff at the end in one driver call"""

    def __init__(self, ctx):
        self.ctx = ctx
        self.cases, self.lines, self.outs = [], [], []

    def add(self, case, line, out):
        self.cases.append(case)
        self.lines.append(line)
        self.outs.append(out)

    def flush(self):
        if self.lines:
            self.ctx.diff(self.cases, self.lines, self.outs)
        self.cases, self.lines, self.outs = [], [], []


def _observe(ctx, batch, rec, mode, tag):
    """build `rec` in `mode`, add the T2 lines, return {variant: (text|err, short)}"""
    ts, faithful = make_testaments(rec, mode)
    if faithful not in (None, True):
        # the format did not store the record as given (an XML serialiser limitation, not a
        # testament matter): the precondition "same attested data" does not hold
        ctx.count("storage-not-faithful:%s:%s" % (mode, faithful))
        return None
    return _tie(ctx, batch, rec, mode, tag, ts)


def _tie(ctx, batch, rec, mode, tag, ts, case_extra=None):
    """T2 lines (as_text and as_short_text of the three classes against the model run on `rec`) + the
    short-form oracle for the testament objects `ts`"""
    res = {}
    for v in VARIANTS:
        res[v] = render(ts[v])
        case = dict(kind=tag, mode=mode, variant=v, rec=rec)
        if case_extra:
            case.update(case_extra)
        batch.add(case, model_line(rec, v), impl_out(res[v]))
        txt, short = res[v]
        if isinstance(txt, bytes):
            # observe_at: as_short_text() must be header + revision id + sha1 of the text
            hdr = {"1": b"bazaar-ng testament short form 1\n", "2": b"bazaar-ng testament short form 2.1\n",
                   "3": b"bazaar testament short form 3 strict\n"}[v]
            want = hdr + b"revision-id: " + _b(rec["rid"]) + b"\nsha1: " + hashlib.sha1(txt).hexdigest().encode() + b"\n"
            if short != want:
                ctx.violation(dict(case, kind="short"),
                              "as_short_text() is not header+revision-id+sha1(as_text()): %r" % (short,))
            # T2 for the model's shortText (sha := the digest of the real text; the text itself is tied above)
            batch.add(dict(case, kind=tag + "/short"),
                      "short %s %s %s" % (v, x(hashlib.sha1(txt).hexdigest()), model_line(rec, v).split(" ", 2)[2]),
                      "ok x" + short.hex())
            ctx.count("ok:v" + v)
        else:
            ctx.count(txt + ":v" + v)
            if txt.startswith("E:Unexpected"):
                ctx.violation(dict(case, kind="raise"), "producing the class-%s testament raised %s" % (v, txt[13:]))
    return res


# --------------------------------------------------------------------------
# records built through a real commit
# --------------------------------------------------------------------------

TS_EXTRA = [0.0, 0.0004, 0.0006, 0.00049999, 1e-7, 0.9996, 0.4995]


def rec_from_repo(repo, rid):
    """the record (same shape as gen_record's) of what the repository stores for `rid`"""
    stored = repo.get_revision(rid)
    inv = repo.get_inventory(rid)
    rec = dict(rid=rid.decode("utf-8"), committer=stored.committer, ts_ms=int(round(stored.timestamp * 1000)),
               tz=stored.timezone, parents=[p.decode("utf-8") for p in stored.parent_ids], message=stored.message,
               root_id=None, root_rev=None, entries=[], props=[[k, v] for k, v in stored.properties.items()], wild=False)
    kinds = {"file": "f", "directory": "d", "symlink": "l", "tree-reference": "t"}
    for path, ie in inv.iter_entries():
        if path == "":
            rec["root_id"] = ie.file_id.decode("utf-8")
            rec["root_rev"] = ie.revision.decode("utf-8")
            continue
        e = dict(path=path, kind=kinds[ie.kind], fid=ie.file_id.decode("utf-8"), content="", target="",
                 rev=ie.revision.decode("utf-8"), exec=False)
        if ie.kind == "file":
            e["sha"] = (ie.text_sha1 or b"").decode("ascii")
            e["exec"] = bool(ie.executable)
        elif ie.kind == "symlink":
            e["target"] = ie.symlink_target or ""
        rec["entries"].append(e)
    return rec, stored


def commit_case(ctx, batch, case):
    """build case['rec'] in a working tree of format case['fmt'], commit it for real (optionally on top of a
    first commit), read the stored revision back and tie / check its testaments"""
    import os
    import shutil
    from breezy.controldir import ControlDir, format_registry
    rec, fmt = case["rec"], case["fmt"]
    d = env.fresh_dir("wt")
    wt = ControlDir.create_standalone_workingtree(d, format=format_registry.make_controldir(fmt))
    try:
        if case["two"]:
            with open(os.path.join(d, "zz-first"), "wb") as f:
                f.write(b"first\n")
            wt.add(["zz-first"], ids=[b"zz-first-id"])
            wt.commit("first", rev_id=b"first-rev", committer="F <f@x>", timestamp=5.0, timezone=0)
        paths, ids = [], []
        for e in rec["entries"]:
            full = os.path.join(d, e["path"])
            if e["kind"] == "d":
                os.mkdir(full)
            elif e["kind"] == "l":
                os.symlink(e["target"], full)
            else:
                with open(full, "wb") as f:
                    f.write(_b(e["content"]))
                os.chmod(full, 0o755 if e["exec"] else 0o644)
            paths.append(e["path"])
            ids.append(_b(e["fid"]))
        if paths:
            wt.add(paths, ids=ids)
        rid = _b(rec["rid"])
        ts_in = rec["ts_ms"] / 1000.0 + case["extra"]
        wt.commit(message=rec["message"], committer=rec["committer"], timestamp=ts_in, timezone=rec["tz"],
                  revprops=dict((k, v) for k, v in rec["props"] if k), rev_id=rid, allow_pointless=True)
        repo = wt.branch.repository
        with repo.lock_read():
            rec2, stored = rec_from_repo(repo, rid)
            # the assumption behind the integer-millisecond model of "%d" % timestamp
            if stored.timestamp != round(stored.timestamp, 3):
                ctx.mismatch(dict(case, kind="commit-rounding"), repr(stored.timestamp),
                             "commit stores timestamps rounded to 3 decimals (%r given)" % ts_in)
            ts = {}
            for v, cls in _classes().items():
                try:
                    ts[v] = cls.from_revision(repo, rid)
                except Exception as e:   # noqa: BLE001 - classified by render()
                    ts[v] = e
            res = _tie(ctx, batch, rec2, "commit:" + fmt, "commit", ts, case_extra=dict(commit=case))
        ctx.count("commit:%s:%s" % (fmt, "second" if case["two"] else "first"))
        # oracle 1: same attested data rebuilt in memory -> identical testaments
        mem = make_testaments(rec2, "mem")[0]
        for v in VARIANTS:
            if render(mem[v]) != res[v]:
                ctx.violation(dict(case, kind="commit-det", variant=v),
                              "testament of the committed revision differs from the testament of the same data built "
                              "in memory (class %s): %r != %r" % (v, res[v][0], render(mem[v])[0]))
        # oracle 2: what was committed is what is attested (content digests, exec bits, targets, metadata)
        for v in VARIANTS:
            txt = res[v][0]
            if not isinstance(txt, bytes):
                ctx.violation(dict(case, kind="commit-raise", variant=v), "testament of a committed revision raised %s" % txt)
                continue
            lines = txt.split(b"\n")
            for e in rec["entries"]:
                if e["kind"] == "f":
                    want = b" " + _b(e["fid"]) + b" " + _sha(e["content"]).encode()
                    tail = (b" yes" if e["exec"] else b" no") if v != "1" else b""
                    ok = any(want in l and l.endswith(tail) for l in lines)
                elif e["kind"] == "l":
                    ok = any((b" " + _b(e["fid"]) + b" ") in l and l.startswith(b"  symlink ") for l in lines)
                else:
                    ok = any(l.startswith(b"  directory ") and (b" " + _b(e["fid"])) in l for l in lines)
                if not ok:
                    ctx.violation(dict(case, kind="commit-attest", variant=v),
                                  "committed entry %r (%s) is not attested by the class-%s testament" % (e["path"], e["kind"], v))
                    break
            if (b"timestamp: %d" % int(round(ts_in, 3))) not in lines:
                ctx.violation(dict(case, kind="commit-attest", variant=v),
                              "commit timestamp %r is attested as %r" % (ts_in, [l for l in lines if l.startswith(b"timestamp")]))
        return res
    finally:
        shutil.rmtree(d, ignore_errors=True)


def one_commit(ctx, batch, rng, i):
    rec = gen_record(rng, wild=False)
    if not rec["committer"].strip():
        rec["committer"] = "C <c@x>"
    rec["props"] = [p for p in rec["props"] if p[0]]
    rec["parents"] = []
    case = dict(kind="commit", fmt=("2a", "pack-0.92")[i % 2], two=bool(i % 4 >= 2), extra=rng.choice(TS_EXTRA), rec=rec)
    ctx.case(case, nontrivial=True)
    try:
        commit_case(ctx, batch, case)
    except Exception as e:   # noqa: BLE001 - commit refusing a generated record is not a testament matter
        ctx.count("commit-refused:" + type(e).__name__)


def _det_oracle(ctx, rec, what, ref, other, mode_a, mode_b, base=None):
    for v in VARIANTS:
        if ref[v] != other[v]:
            case = dict(kind="det", modes=[mode_a, mode_b], variant=v, rec=rec, what=what)
            if base is not None and base != rec:
                case["base"] = base         # the record `ref` was made from (same data, other storage order)
            ctx.violation(case, "same attested data, different testament (class %s): %s vs %s: %r != %r"
                          % (v, mode_a, mode_b, ref[v][0], other[v][0]))


def one_base(ctx, batch, rng, rec):
    nontriv = bool(rec["entries"] or rec["parents"] or rec["props"])
    ctx.case(dict(kind="base", rec=rec), nontrivial=nontriv)
    ctx.count("entries:%d" % len(rec["entries"]))
    ctx.count("parents:%d" % len(rec["parents"]))
    ctx.count("props:%d" % len(rec["props"]))
    ctx.count("msg-lines:%d" % len(rec["message"].splitlines()))
    modes = ["mem"] if rec["wild"] else ["2a", "pack-0.92", "mem"]
    ref = None
    ref_mode = None
    for m in modes:
        res = _observe(ctx, batch, rec, m, "base")
        if res is None:
            continue
        if ref is None:
            ref, ref_mode = res, m
        else:
            _det_oracle(ctx, rec, "format", ref, res, ref_mode, m)
    if ref is None:
        return None
    # another storage order of the same data
    rec2 = shuffle_storage(rng, rec)
    m2 = rng.choice(modes)
    res2 = _observe(ctx, batch, rec2, m2, "reorder")
    if res2 is not None:
        _det_oracle(ctx, rec2, "storage-order", ref, res2, ref_mode, m2 + "/reordered", base=rec)
        ctx.count("reordered")
    if len(rec["parents"]) >= 2:
        # a merge: the parents-reversed record (the merge as recorded from the other side) in every mode
        rec3 = dict(rec, parents=list(reversed(rec["parents"])))
        for m3 in modes:
            res3 = _observe(ctx, batch, rec3, m3, "merge-other-side")
            if res3 is not None:
                _det_oracle(ctx, rec3, "parent-order", ref, res3, ref_mode, m3 + "/parents-reversed", base=rec)
                ctx.count("merge-other-side:" + m3)
    return ref


def one_pair(ctx, batch, rng, rec, ref):
    p = perturb(rng, rec)
    if p is None:
        return
    field, classes, rec2 = p
    modes = ["mem"] if rec2["wild"] else ["2a", "pack-0.92", "mem", "mem"]
    mode = rng.choice(modes)
    res = _observe(ctx, batch, rec2, mode, "pert:" + field)
    if res is None:
        return
    ctx.case(dict(kind="pair", field=field, base=rec, pert=rec2), nontrivial=True)
    ctx.count("perturb:" + field)
    check_pair(ctx, field, classes, rec, rec2, ref, res, mode)


def _collide(a, b, v):
    """do records a != b give the same class-v testament (in memory)?"""
    if a == b:
        return False
    try:
        ta = render(make_testaments(a, "mem")[0][v])
        tb = render(make_testaments(b, "mem")[0][v])
    except Exception:
        return False
    return isinstance(ta[0], bytes) and ta == tb


def _shrink_pair(a, b, v):
    """greedy: drop the parts both records share while they still collide"""
    import copy
    a, b = copy.deepcopy(a), copy.deepcopy(b)
    changed = True
    while changed:
        changed = False
        for key in ("entries", "props", "parents"):
            for item in list(a[key]):
                if item not in b[key]:
                    continue
                if key == "entries" and any(o["path"].startswith(item["path"] + "/") for o in a["entries"] + b["entries"]):
                    continue
                a2, b2 = copy.deepcopy(a), copy.deepcopy(b)
                a2[key].remove(item)
                b2[key].remove(item)
                if _collide(a2, b2, v):
                    a, b, changed = a2, b2, True
        for key, val in (("message", ""), ("committer", ""), ("ts_ms", 0), ("tz", 0)):
            if a[key] == b[key] and a[key] != val:
                a2, b2 = dict(a, **{key: val}), dict(b, **{key: val})
                if _collide(a2, b2, v):
                    a, b, changed = a2, b2, True
    return a, b


_shrunk = [0]


def check_pair(ctx, field, classes, rec, rec2, ref, res, mode):
    for v in classes:
        a, b = ref[v], res[v]
        if not isinstance(a[0], bytes) or not isinstance(b[0], bytes):
            continue
        if a[0] == b[0] or a[1] == b[1]:
            fam = _classify(field, rec, rec2, v)
            ctx.count("collision:" + str(fam))
            if fam is None and _shrunk[0] < 3 and _collide(rec, rec2, v):
                _shrunk[0] += 1
                rec, rec2 = _shrink_pair(rec, rec2, v)
                mode = "mem"
            ctx.violation(dict(kind="pair", field=field, variant=v, mode=mode, base=rec, pert=rec2),
                          "attested field %r changed but the class-%s testament did not (%s)" % (
                              field, v, fam or "unclassified"),
                          family=fam)


def pure_streams(ctx, rng, n):
    classes = _classes()
    from bzrformats.inventory import Inventory
    from breezy.bzr.inventorytree import InventoryRevisionTree
    from breezy.revision import Revision
    if not _mem_repo:
        _mem_repo.append(_new_repo("2a"))
    rev = Revision(b"r", committer="c", timestamp=0, timezone=0, message="", parent_ids=[], properties={},
                   inventory_sha1=b"")
    tree = InventoryRevisionTree(_mem_repo[0], Inventory(root_id=b"root", revision_id=b"r"), b"r")
    objs = {v: c(rev, tree) for v, c in classes.items()}
    cases, lines, outs = [], [], []
    alph = ["a", "b", " ", "\n", "\n", "\r", "\r\n", "\x0b", "\x0c", "\x1c", "\x1d", "\x1e", "\x1f", NEL, LS, PS,
            "\t", chr(0xa0), chr(0x2027)]
    for i in range(n):
        s = "".join(rng.choice(alph) for _ in range(rng.randint(0, 7)))
        cases.append(dict(kind="splitlines", s=s))
        lines.append("lines " + x(s))
        outs.append(xl([x(l) for l in s.splitlines()]))
        ctx.case(cases[-1], nontrivial=len(s.splitlines()) != 1)
        ctx.count("pure:splitlines")
    calph = ["a", "b", " ", "\n", "\n", "\n", "", "", "\r", "\x0b", NEL, LS, "\x1c", "\t"]
    for i in range(n // 2):
        s = "".join(rng.choice(calph) for _ in range(rng.randint(0, 7)))
        if i % 3:
            s = s.replace("\r", "").replace("\x0b", "").replace(NEL, "").replace(LS, "").replace("\x1c", "").rstrip("\n")
        canon = all(c == "\n" or len(("a" + c + "b").splitlines()) == 1 for c in s) and not s.endswith("\n")
        cases.append(dict(kind="canon", s=s))
        lines.append("canon " + x(s))
        outs.append("T" if canon else "F")
        cases.append(dict(kind="join", s=s))
        lines.append("join " + xl([x(l) for l in s.splitlines()]))
        outs.append(x("\n".join(s.splitlines())))
        ctx.case(cases[-1], nontrivial=canon and "\n" in s)
        ctx.count("pure:canon:%s" % canon)
        # theorem splitlines_injective_canon on the real str.splitlines: nothing is lost on canonical texts
        if canon and "\n".join(s.splitlines()) != s:
            ctx.violation(cases[-1], "canonical text %r is not recovered from its splitlines()" % s)
    palph = ["a", " ", "\\", "/", ".", "b", "\t", EACUTE]
    for i in range(n):
        s = "".join(rng.choice(palph) for _ in range(rng.randint(0, 6)))
        v = rng.choice(VARIANTS)
        cases.append(dict(kind="esc", v=v, s=s))
        lines.append("esc %s %s" % (v, x(s)))
        outs.append(x(objs[v]._escape_path(s)))
        ctx.case(cases[-1], nontrivial=(" " in s or "\\" in s or s == ""))
        ctx.count("pure:esc")
    ctx.diff(cases, lines, outs)


def run(ctx):
    rng = ctx.rng
    batch = _Batch(ctx)
    n_base = ctx.pick(160, 1000)
    n_pert = ctx.pick(7, 10)
    pure_streams(ctx, rng, ctx.pick(400, 4000))
    for i in range(n_base):
        wild = rng.random() < 0.25
        rec = gen_record(rng, wild)
        ref = one_base(ctx, batch, rng, rec)
        if ref is None:
            continue
        for _ in range(n_pert):
            one_pair(ctx, batch, rng, rec, ref)
        if rng.random() < 0.6:
            m = malform(rng, rec)
            if m is not None:
                k, bad = m
                res = _observe(ctx, batch, bad, "stub", "malformed:" + k)
                ctx.case(dict(kind="malformed", how=k, rec=bad), nontrivial=True)
                ctx.count("malformed:" + k)
        if len(batch.lines) > 3000:
            batch.flush()
    for i in range(ctx.pick(12, 80)):
        one_commit(ctx, batch, rng, i)
    batch.flush()


def replay(ctx, case):
    batch = _Batch(ctx)
    out = dict(case_kind=case.get("kind"))
    if case.get("kind") == "pair":
        a, b = case["base"], case["pert"]
        mode = case.get("mode", "mem")
        ref = _observe(ctx, batch, a, "mem" if a.get("wild") else "2a", "base")
        res = _observe(ctx, batch, b, mode, "pert")
        field = case["field"]
        check_pair(ctx, field, [case["variant"]] if "variant" in case else ALL, a, b, ref, res, mode)
        out["impl"] = {v: [repr(ref[v][0]), repr(res[v][0])] for v in VARIANTS}
    elif case.get("kind") == "det":
        rec = case["rec"]
        modes = ["mem"] if rec.get("wild") else ["2a", "pack-0.92", "mem"]
        obs = {m: _observe(ctx, batch, rec, m, "base") for m in modes}
        ms = [m for m in modes if obs[m] is not None]
        for m in ms[1:]:
            _det_oracle(ctx, rec, "format", obs[ms[0]], obs[m], ms[0], m)
        out["impl"] = {m: {v: repr(obs[m][v][0]) for v in VARIANTS} for m in ms}
        if case.get("base") is not None and ms:
            # same data in another storage order (entries / revprops / parents): compare with the base record
            base = case["base"]
            bm = "mem" if base.get("wild") else "2a"
            bobs = _observe(ctx, batch, base, bm, "base")
            if bobs is not None:
                for m in ms:
                    _det_oracle(ctx, rec, case.get("what", "storage-order"), bobs, obs[m], bm + "/base", m, base=base)
                out["impl"]["base:" + bm] = {v: repr(bobs[v][0]) for v in VARIANTS}
    elif case.get("kind") in ("splitlines", "esc", "canon", "join"):
        pass
    elif "commit" in case or str(case.get("kind", "")).startswith("commit"):
        res = commit_case(ctx, batch, case.get("commit", case))
        out["impl"] = {v: repr(res[v][0]) for v in VARIANTS} if res else None
    else:
        rec = case["rec"]
        mode = case.get("mode", "mem")
        res = _observe(ctx, batch, rec, mode, "replay")
        out["impl"] = {v: repr(res[v][0]) for v in VARIANTS} if res else None
    lines = list(batch.lines)
    impl = list(batch.outs)
    model = ctx.model(lines) if lines else []
    out["model_agrees"] = [i == m for i, m in zip(impl, model)]
    out["model"] = model[:6]
    out["oracle_failures"] = [dict(what=v["what"], family=v["family"]) for v in ctx.violations]
    return out
