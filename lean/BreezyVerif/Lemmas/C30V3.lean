import BreezyVerif.Lemmas.C30Generic
import BreezyVerif.Lemmas.C29V3
/-! the five laws for ProtocolThreeDecoder -/
namespace BreezyVerif.C30
open BreezyVerif.C29

/-- states in which the decoder waits for bytes, with the `_number_needed_bytes` it then has -/
def v3Wf : V3 → Prop
  | .run .version buf _ needed =>
      buf.length < marker3.length ∧ (needed = marker3.length ∨ (buf = [] ∧ needed = marker3.length + 4))
  | .run .part buf _ needed => buf = [] ∧ needed = 1
  | .run .oneByte buf _ needed => buf = [] ∧ needed = 1
  | .run _ buf _ needed => extractLP buf = .inl needed
  | _ => True

theorem v3Wf_lp {tag : V3Tag} (ht : V3.isLP tag = true) (buf : Bytes) (evs : List Ev) (n : Nat) :
    v3Wf (.run tag buf evs n) ↔ extractLP buf = .inl n := by
  cases tag <;> simp [V3.isLP] at ht <;> rfl

theorem v3Wf_proc (tag : V3Tag) (b : Bytes) (evs : List Ev) : v3Wf (V3.proc tag b evs) := by
  induction hn : b.length using Nat.strongRecOn generalizing tag b evs with
  | _ n ih =>
    subst hn
    by_cases hlp : V3.isLP tag = true
    · cases h : extractLP b with
      | inl m => rw [V3.proc_lp_inl hlp evs h, v3Wf_lp hlp]; exact h
      | inr pr =>
        obtain ⟨p, r⟩ := pr
        rw [V3.proc_lp_inr hlp evs h]
        exact ih _ (extractLP_length h) _ _ _ rfl
    · cases tag with
      | headers => simp [V3.isLP] at hlp
      | bytes => simp [V3.isLP] at hlp
      | struct => simp [V3.isLP] at hlp
      | part =>
        cases b with
        | nil => rw [V3.proc_part_nil]; exact ⟨rfl, rfl⟩
        | cons k r =>
          rw [V3.proc_part_cons]
          have ihr : ∀ t e, v3Wf (V3.proc t r e) := fun t e => ih _ (by simp) t r e rfl
          split
          · exact ihr _ _
          · split
            · exact ihr _ _
            · split
              · exact ihr _ _
              · split <;> trivial
      | oneByte =>
        cases b with
        | nil => rw [V3.proc_oneByte_nil]; exact ⟨rfl, rfl⟩
        | cons k r => rw [V3.proc_oneByte_cons]; exact ih _ (by simp) _ r _ rfl
      | version =>
        rw [V3.proc_version]
        split
        · rename_i hl
          split
          · exact ⟨hl, Or.inl rfl⟩
          · trivial
        · rename_i hl
          split
          · exact ih _ (by simp [marker3] at hl ⊢; omega) _ _ _ rfl
          · trivial

theorem v3Wf_feed (s : V3) (x : Bytes) (_h : v3Wf s) : v3Wf (s.feed x) := by
  cases s with
  | run tag buf evs n => rw [V3.feed_run]; exact v3Wf_proc _ _ _
  | done evs u => trivial
  | failed evs e => trivial

/-- least length of a buffer from which state `tag` can reach the end of a message -/
def minNeed : V3Tag → Bytes → Nat
  | .version, _ => marker3.length + 5
  | .part, _ => 1
  | .oneByte, _ => 2
  | _, b => if b.length < 4 then 5 else 4 + unbe32 b + 1

theorem minNeed_lp {tag : V3Tag} (ht : V3.isLP tag = true) (b : Bytes) :
    minNeed tag b = if b.length < 4 then 5 else 4 + unbe32 b + 1 := by
  cases tag <;> simp [V3.isLP] at ht <;> rfl

theorem extractLP_inr_len {b p r : Bytes} (h : extractLP b = .inr (p, r)) :
    4 ≤ b.length ∧ b.length = 4 + unbe32 b + r.length := by
  unfold extractLP at h
  by_cases h4 : b.length < 4
  · simp [h4] at h
  · simp only [h4, if_false] at h
    by_cases hn : b.length < 4 + unbe32 b
    · simp [hn] at h
    · simp only [hn, if_false, Sum.inr.injEq, Prod.mk.injEq] at h
      obtain ⟨_, rfl⟩ := h
      simp only [List.length_drop]
      omega

theorem v3_proc_fin (tag : V3Tag) (b : Bytes) (evs : List Ev)
    (h : (V3.proc tag b evs).finished = true) :
    minNeed tag b + (V3.proc tag b evs).unused.length ≤ b.length := by
  induction hn : b.length using Nat.strongRecOn generalizing tag b evs with
  | _ n ih =>
    subst hn
    by_cases hlp : V3.isLP tag = true
    · cases he : extractLP b with
      | inl m => rw [V3.proc_lp_inl hlp evs he] at h; simp [V3.finished] at h
      | inr pr =>
        obtain ⟨p, r⟩ := pr
        rw [V3.proc_lp_inr hlp evs he] at h ⊢
        have := ih _ (extractLP_length he) .part r _ h rfl
        obtain ⟨h4, hl⟩ := extractLP_inr_len he
        rw [minNeed_lp hlp]
        simp only [minNeed] at this
        have : ¬ b.length < 4 := by omega
        simp only [this, if_false]
        omega
    · cases tag with
      | headers => simp [V3.isLP] at hlp
      | bytes => simp [V3.isLP] at hlp
      | struct => simp [V3.isLP] at hlp
      | part =>
        cases b with
        | nil => rw [V3.proc_part_nil] at h; simp [V3.finished] at h
        | cons k r =>
          rw [V3.proc_part_cons] at h ⊢
          have ihr : ∀ t e, (V3.proc t r e).finished = true →
              minNeed t r + (V3.proc t r e).unused.length ≤ r.length :=
            fun t e hh => ih _ (by simp) t r e hh rfl
          simp only [minNeed, List.length_cons]
          by_cases h1 : k = 111
          · simp only [h1, if_true] at h ⊢
            have := ihr _ _ h; simp only [minNeed] at this; omega
          · by_cases h2 : k = 115
            · subst h2
              simp only [show (115 : UInt8) ≠ 111 by decide, if_true, if_false] at h ⊢
              have := ihr _ _ h; omega
            · by_cases h3 : k = 98
              · subst h3
                simp only [show (98 : UInt8) ≠ 111 by decide, show (98 : UInt8) ≠ 115 by decide,
                  if_true, if_false] at h ⊢
                have := ihr _ _ h; omega
              · by_cases h4 : k = 101
                · subst h4
                  simp only [show (101 : UInt8) ≠ 111 by decide, show (101 : UInt8) ≠ 115 by decide,
                    show (101 : UInt8) ≠ 98 by decide, if_true, if_false, V3.unused]
                  omega
                · simp [h1, h2, h3, h4, V3.finished] at h
      | oneByte =>
        cases b with
        | nil => rw [V3.proc_oneByte_nil] at h; simp [V3.finished] at h
        | cons k r =>
          rw [V3.proc_oneByte_cons] at h ⊢
          have := ih _ (by simp) .part r _ h rfl
          simp only [minNeed, List.length_cons] at this ⊢
          omega
      | version =>
        rw [V3.proc_version] at h ⊢
        by_cases hl : b.length < marker3.length
        · simp only [hl, if_true] at h
          split at h <;> simp [V3.finished] at h
        · simp only [hl, if_false] at h ⊢
          by_cases hp : marker3.isPrefixOf b = true
          · simp only [hp, if_true] at h ⊢
            have hlt : (b.drop marker3.length).length < b.length := by
              simp [marker3] at hl ⊢; omega
            have := ih _ hlt .headers _ _ h rfl
            have hm : 5 ≤ minNeed .headers (b.drop marker3.length) := by
              simp only [minNeed]; split <;> omega
            simp only [List.length_drop] at this
            simp only [minNeed]
            omega
          · simp [hp, V3.finished] at h

theorem v3Laws : Laws v3Machine v3Wf where
  append := V3.feed_append
  wf_feed := v3Wf_feed
  fin_feed := by
    intro s x h
    cases s <;> simp [v3Machine, V3.finished] at h
    simp [v3Machine, V3.feed, V3.finished, V3.unused]
  fin_stop := by
    intro s h
    cases s <;> simp [v3Machine, V3.finished] at h
    simp [v3Machine, V3.nextReadSize]
  hint := by
    intro s q hwf hnf hfin
    cases s with
    | run tag buf evs needed =>
      simp only [v3Machine, V3.feed_run] at hfin ⊢
      have hV := v3_proc_fin tag (buf ++ q) evs hfin
      simp only [List.length_append] at hV
      have key : buf.length < needed ∧ needed ≤ minNeed tag (buf ++ q) := by
        by_cases hlp : V3.isLP tag = true
        · rw [v3Wf_lp hlp] at hwf
          rw [minNeed_lp hlp]
          have hlt := extractLP_inl_lt hwf
          refine ⟨hlt, ?_⟩
          unfold extractLP at hwf
          by_cases h4 : buf.length < 4
          · simp only [h4, if_true, Sum.inl.injEq] at hwf
            subst hwf
            split <;> omega
          · simp only [h4, if_false] at hwf
            by_cases hn : buf.length < 4 + unbe32 buf
            · simp only [hn, if_true, Sum.inl.injEq] at hwf
              have : ¬ (buf ++ q).length < 4 := by simp; omega
              simp only [this, if_false, unbe32_append q (by omega : 4 ≤ buf.length)]
              omega
            · simp [hn] at hwf
        · cases tag with
          | headers => simp [V3.isLP] at hlp
          | bytes => simp [V3.isLP] at hlp
          | struct => simp [V3.isLP] at hlp
          | part => obtain ⟨rfl, rfl⟩ := hwf; simp [minNeed]
          | oneByte => obtain ⟨rfl, rfl⟩ := hwf; simp [minNeed]
          | version =>
            obtain ⟨hl, hn | ⟨rfl, hn⟩⟩ := hwf
            · subst hn; simp only [minNeed]; omega
            · subst hn; simp [minNeed, marker3]
      obtain ⟨k1, k2⟩ := key
      have h1 : (1 : Int) ≤ V3.nextReadSize (.run tag buf evs needed) := by
        simp only [V3.nextReadSize]; omega
      refine ⟨?_, h1, ?_⟩
      · simp only [beq_eq_false_iff_ne, ne_eq]; omega
      · simp only [V3.nextReadSize]; omega
    | done evs u => simp [v3Machine, V3.finished] at hnf
    | failed evs e => simp [v3Machine, V3.feed, V3.finished] at hfin

theorem v3Wf_init (m : Bool) : v3Wf (V3.init m) := by
  cases m
  · simp only [V3.init, Bool.false_eq_true, if_false]; show extractLP [] = .inl 4; rfl
  · simp only [V3.init, if_true]; exact ⟨by decide, Or.inr ⟨rfl, rfl⟩⟩

end BreezyVerif.C30
