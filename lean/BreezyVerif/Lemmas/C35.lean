import BreezyVerif.Model.C35
/-
Helper lemmas for Props/C35.lean.
-/
namespace BreezyVerif.C35

/-! ### cache and incremental export -/

theorem cacheOK_get {H : GObj → Sha} {cache : Cache} {ls : List (Key × Bytes)}
    (h : cacheOK H cache ls = true) {k : Key} {p : Bytes} {s : Sha}
    (hm : (k, p) ∈ ls) (hg : cache.get k = some s) : s = H (.blob p) := by
  unfold cacheOK at h
  rw [List.all_eq_true] at h
  have := h (k, p) hm
  simp only [hg] at this
  simpa using this

mutual
theorem findFid_mem (f : Bytes) : (n : Node) → ∀ k c x um, findFid f n = some (.file k c x um) → (k, c) ∈ leaves n
  | .file k' c' x' um', k, c, x, um, h => by
    simp only [findFid] at h
    split at h
    · simp only [Option.some.injEq, Node.file.injEq] at h
      obtain ⟨rfl, rfl, _, _⟩ := h
      simp [leaves]
    · simp at h
  | .link k' t' um', k, c, x, um, h => by
    simp only [findFid] at h
    split at h <;> simp at h
  | .dir cs, k, c, x, um, h => by
    simp only [findFid] at h
    simp only [leaves]
    exact findFidC_mem f cs k c x um h
theorem findFidC_mem (f : Bytes) : (cs : Children) → ∀ k c x um, findFidC f cs = some (.file k c x um) → (k, c) ∈ leavesC cs
  | .nil, k, c, x, um, h => by simp [findFidC] at h
  | .cons _ n rest, k, c, x, um, h => by
    simp only [findFidC] at h
    simp only [leavesC, List.mem_append]
    cases hn : findFid f n with
    | some r =>
      simp only [hn, Option.some.injEq] at h
      subst h
      exact Or.inl (findFid_mem f n k c x um hn)
    | none =>
      simp only [hn] at h
      exact Or.inr (findFidC_mem f rest k c x um h)
end

theorem reuseKey_mem (others : List Children) (fid c : Bytes) (pk : Key)
    (h : reuseKey others fid c = some pk) : (pk, c) ∈ others.flatMap leavesC := by
  induction others with
  | nil => simp [reuseKey] at h
  | cons o rest ih =>
    simp only [List.flatMap_cons, List.mem_append]
    unfold reuseKey at h
    split at h
    · rename_i k c' x um hf
      split at h
      · rename_i hc
        simp only [Option.some.injEq] at h
        subst h
        subst hc
        exact Or.inl (findFidC_mem fid o k c' x um hf)
      · exact Or.inr (ih h)
    · exact Or.inr (ih h)

theorem incrFile_eq (H : GObj → Sha) (cache : Cache) (base : Option Children) (others : List Children)
    (ls : List (Key × Bytes)) (hc : cacheOK H cache ls = true)
    (ho : ∀ x ∈ others.flatMap leavesC, x ∈ ls)
    (path : Path) (k : Key) (c : Bytes) (n : Node) (hk : (k, c) ∈ ls) :
    incrFile H cache base others path k c n = H (.blob c) := by
  unfold incrFile
  split
  · split
    · rename_i pk hr
      split
      · rename_i s hs
        exact cacheOK_get hc (ho _ (reuseKey_mem others k.fid c pk hr)) hs
      · rfl
    · rfl
  · split
    · rename_i s hs
      exact cacheOK_get hc hk hs
    · rfl

theorem incrLink_eq (H : GObj → Sha) (cache : Cache) (base : Option Children)
    (ls : List (Key × Bytes)) (hc : cacheOK H cache ls = true)
    (path : Path) (k : Key) (t : Bytes) (n : Node) (hk : (k, t) ∈ ls) :
    incrLink H cache base path k t n = H (.blob t) := by
  unfold incrLink
  split
  · rfl
  · split
    · rename_i s hs
      exact cacheOK_get hc hk hs
    · rfl

mutual
theorem incrNode_eq (H : GObj → Sha) (cache : Cache) (base : Option Children) (others : List Children)
    (ls : List (Key × Bytes)) (hc : cacheOK H cache ls = true)
    (ho : ∀ x ∈ others.flatMap leavesC, x ∈ ls) :
    (n : Node) → (path : Path) → (∀ x ∈ leaves n, x ∈ ls) →
      incrNode H cache base others path n = expNode H n
  | .file k c x um, path, hl => by
    simp only [incrNode, expNode]
    rw [incrFile_eq H cache base others ls hc ho path k c _ (hl _ (by simp [leaves]))]
  | .link k t um, path, hl => by
    simp only [incrNode, expNode]
    rw [incrLink_eq H cache base ls hc path k t _ (hl _ (by simp [leaves]))]
  | .dir cs, path, hl => by
    simp only [incrNode, expNode]
    rw [incrChildren_eq H cache base others ls hc ho cs path (by simpa [leaves] using hl)]
theorem incrChildren_eq (H : GObj → Sha) (cache : Cache) (base : Option Children) (others : List Children)
    (ls : List (Key × Bytes)) (hc : cacheOK H cache ls = true)
    (ho : ∀ x ∈ others.flatMap leavesC, x ∈ ls) :
    (cs : Children) → (path : Path) → (∀ x ∈ leavesC cs, x ∈ ls) →
      incrChildren H cache base others path cs = expChildren H cs
  | .nil, _, _ => by simp [incrChildren, expChildren]
  | .cons name n rest, path, hl => by
    have h1 : ∀ x ∈ leaves n, x ∈ ls := fun x hx => hl x (by simp [leavesC, hx])
    have h2 : ∀ x ∈ leavesC rest, x ∈ ls := fun x hx => hl x (by simp [leavesC, hx])
    simp only [incrChildren, expChildren]
    rw [incrNode_eq H cache base others ls hc ho n (path ++ [name]) h1,
      incrChildren_eq H cache base others ls hc ho rest path h2]
end

mutual
theorem sameGit_expNode (H : GObj → Sha) : (a b : Node) → sameGit a b = true → expNode H a = expNode H b
  | .file _ c x um, .file _ c' x' um', h => by
    simp only [sameGit, Bool.and_eq_true, beq_iff_eq] at h
    obtain ⟨⟨rfl, rfl⟩, rfl⟩ := h
    simp [expNode]
  | .link _ t um, .link _ t' um', h => by
    simp only [sameGit, Bool.and_eq_true, beq_iff_eq] at h
    obtain ⟨rfl, rfl⟩ := h
    simp [expNode]
  | .dir cs, .dir cs', h => by
    simp only [sameGit] at h
    simp only [expNode]
    rw [sameGit_expChildren H cs cs' h]
  | .file .., .link .., h => by simp [sameGit] at h
  | .file .., .dir .., h => by simp [sameGit] at h
  | .link .., .file .., h => by simp [sameGit] at h
  | .link .., .dir .., h => by simp [sameGit] at h
  | .dir .., .file .., h => by simp [sameGit] at h
  | .dir .., .link .., h => by simp [sameGit] at h
theorem sameGit_expChildren (H : GObj → Sha) : (a b : Children) → sameGitC a b = true → expChildren H a = expChildren H b
  | .nil, .nil, _ => rfl
  | .cons n x r, .cons n' x' r', h => by
    simp only [sameGitC, Bool.and_eq_true, beq_iff_eq] at h
    obtain ⟨⟨rfl, hx⟩, hr⟩ := h
    simp only [expChildren]
    rw [sameGit_expNode H x x' hx, sameGit_expChildren H r r' hr]
  | .nil, .cons .., h => by simp [sameGitC] at h
  | .cons .., .nil, h => by simp [sameGitC] at h
end

/-! ### object stores and import -/

mutual
theorem objsNode_wf (H : GObj → Sha) : (n : Node) → ∀ p ∈ objsNode H n, p.1 = H p.2
  | .file .., p, h => by simp only [objsNode, List.mem_singleton] at h; subst h; rfl
  | .link .., p, h => by simp only [objsNode, List.mem_singleton] at h; subst h; rfl
  | .dir cs, p, h => by
    simp only [objsNode, List.mem_append] at h
    rcases h with h | h
    · split at h
      · simp at h
      · simp only [List.mem_singleton] at h; subst h; rfl
    · exact objsChildren_wf H cs p h
theorem objsChildren_wf (H : GObj → Sha) : (cs : Children) → ∀ p ∈ objsChildren H cs, p.1 = H p.2
  | .nil, p, h => by simp [objsChildren] at h
  | .cons name n rest, p, h => by
    simp only [objsChildren] at h
    split at h
    · exact objsChildren_wf H rest p h
    · simp only [List.mem_append] at h
      rcases h with h | h
      · exact objsNode_wf H n p h
      · exact objsChildren_wf H rest p h
end

theorem store_get_of_mem {H : GObj → Sha} :
    ∀ (st : Store), (∀ p ∈ st, ∀ q ∈ st, H p.2 = H q.2 → p.2 = q.2) →
      (∀ p ∈ st, p.1 = H p.2) → ∀ o, (H o, o) ∈ st → st.get (H o) = some o
  | [], _, _, _, hm => by simp at hm
  | (k, o') :: rest, hinj, hwf, o, hm => by
    simp only [Store.get]
    by_cases hk : k = H o
    · have h1 : k = H o' := hwf (k, o') (by simp)
      have : o' = o := hinj (k, o') (by simp) (H o, o) hm (by rw [← h1, hk])
      simp [hk, this]
    · simp only [hk, if_false]
      have hm' : (H o, o) ∈ rest := by
        simp only [List.mem_cons, Prod.mk.injEq] at hm
        rcases hm with ⟨h1, _⟩ | h
        · exact absurd h1.symm hk
        · exact h
      exact store_get_of_mem rest (fun p hp q hq => hinj p (by simp [hp]) q (by simp [hq]))
        (fun p hp => hwf p (by simp [hp])) o hm'

theorem importClass_tree_iff (m : Nat) : importClass m = .tree ↔ sISDIR m = true := by
  unfold importClass
  split <;> simp_all
  split <;> simp_all
  split <;> simp_all

theorem impEntry_isDir (st : Store) : ∀ (f : Nat) (e : Entry) (p : PNode),
    impEntry st f e = some p → p.isDir = sISDIR e.mode
  | 0, e, p, h => by simp [impEntry] at h
  | f + 1, e, p, h => by
    simp only [impEntry] at h
    split at h
    · rename_i hc
      have hd := (importClass_tree_iff e.mode).1 hc
      split at h
      · simp only [Option.map_eq_some_iff] at h
        obtain ⟨_, _, rfl⟩ := h
        simp [PNode.isDir, hd]
      · simp at h
    · simp at h
    · rename_i hc
      have hd : sISDIR e.mode = false := by
        cases hs : sISDIR e.mode
        · rfl
        · rw [(importClass_tree_iff e.mode).2 hs] at hc; cases hc
      split at h
      · simp only [Option.some.injEq] at h; subst h; simp [PNode.isDir, hd]
      · simp at h
    · rename_i hc
      have hd : sISDIR e.mode = false := by
        cases hs : sISDIR e.mode
        · rfl
        · rw [(importClass_tree_iff e.mode).2 hs] at hc; cases hc
      split at h
      · simp only [Option.some.injEq] at h; subst h; simp [PNode.isDir, hd]
      · simp at h

theorem impEntry_key (st : Store) (f : Nat) (e : Entry) (p : PNode)
    (h : impEntry st f e = some p) : pkey (e.name, p) = e.key := by
  simp [pkey, Entry.key, impEntry_isDir st f e p h]

theorem impList_cons_some {g : Entry → Option PNode} {e : Entry} {es : List Entry} {ps : List (Bytes × PNode)}
    (h : impList g (e :: es) = some ps) :
    ∃ p qs, g e = some p ∧ impList g es = some qs ∧ ps = (e.name, p) :: qs := by
  simp only [impList] at h
  split at h
  · rename_i p qs hp hq
    simp only [Option.some.injEq] at h
    exact ⟨p, qs, hp, hq, h.symm⟩
  · simp at h

theorem impList_cons_of {g : Entry → Option PNode} {e : Entry} {es : List Entry} {p : PNode}
    {qs : List (Bytes × PNode)} (hp : g e = some p) (hq : impList g es = some qs) :
    impList g (e :: es) = some ((e.name, p) :: qs) := by
  simp [impList, hp, hq]

theorem impList_insert (g : Entry → Option PNode)
    (hkey : ∀ e p, g e = some p → pkey (e.name, p) = e.key)
    (e : Entry) (p : PNode) (he : g e = some p) :
    ∀ (l : List Entry) (ps : List (Bytes × PNode)), impList g l = some ps →
      impList g (insertBy Entry.key e l) = some (insertBy pkey (e.name, p) ps)
  | [], ps, h => by
    simp only [impList, Option.some.injEq] at h
    subst h
    simp [insertBy, impList, he]
  | y :: ys, ps, h => by
    obtain ⟨q, qs, hq, hqs, rfl⟩ := impList_cons_some h
    simp only [insertBy, hkey e p he, hkey y q hq]
    split
    · exact impList_cons_of he (impList_cons_of hq hqs)
    · exact impList_cons_of hq (impList_insert g hkey e p he ys qs hqs)

theorem impList_sort (g : Entry → Option PNode)
    (hkey : ∀ e p, g e = some p → pkey (e.name, p) = e.key) :
    ∀ (l : List Entry) (ps : List (Bytes × PNode)), impList g l = some ps →
      impList g (sortBy Entry.key l) = some (sortBy pkey ps)
  | [], ps, h => by
    simp only [impList, Option.some.injEq] at h
    subst h
    simp [sortBy, impList]
  | y :: ys, ps, h => by
    obtain ⟨q, qs, hq, hqs, rfl⟩ := impList_cons_some h
    simp only [sortBy]
    exact impList_insert g hkey y q hq _ _ (impList_sort g hkey ys qs hqs)

theorem canon_none_of_exp_none (H : GObj → Sha) (n : Node) (h : expNode H n = none) : canonNode H n = none := by
  cases n with
  | file => simp [expNode] at h
  | link => simp [expNode] at h
  | dir cs =>
    simp only [expNode] at h
    simp only [canonNode]
    split at h
    · rename_i he; simp [he]
    · simp at h

theorem depth_pos (n : Node) : 1 ≤ depth n := by
  cases n <;> simp [depth]

mutual
theorem impNode_exp (H : GObj → Sha) (st : Store)
    (hinj : ∀ p ∈ st, ∀ q ∈ st, H p.2 = H q.2 → p.2 = q.2) (hwf : ∀ p ∈ st, p.1 = H p.2) :
    (n : Node) → ∀ (f : Nat) (name : Bytes) (m : Nat) (s : Sha), expNode H n = some (m, s) →
      modesOK n = true → depth n ≤ f → (∀ p ∈ objsNode H n, p ∈ st) →
      ∃ p, canonNode H n = some p ∧ impEntry st f ⟨m, name, s⟩ = some p
  | .file k c x um, f, name, m, s, he, hm, hd, hs => by
    simp only [expNode, Option.some.injEq, Prod.mk.injEq] at he
    obtain ⟨rfl, rfl⟩ := he
    simp only [modesOK, beq_iff_eq] at hm
    obtain ⟨f', rfl⟩ : ∃ f', f = f' + 1 := ⟨f - 1, by simp [depth] at hd; omega⟩
    refine ⟨.file c (exportMode um .file x), by simp only [canonNode], ?_⟩
    have hg := store_get_of_mem st hinj hwf (.blob c) (hs _ (by simp [objsNode]))
    simp [impEntry, hm, hg]
  | .link k t um, f, name, m, s, he, hm, hd, hs => by
    simp only [expNode, Option.some.injEq, Prod.mk.injEq] at he
    obtain ⟨rfl, rfl⟩ := he
    simp only [modesOK, beq_iff_eq] at hm
    obtain ⟨f', rfl⟩ : ∃ f', f = f' + 1 := ⟨f - 1, by simp [depth] at hd; omega⟩
    refine ⟨.link t (exportMode um .symlink false), by simp only [canonNode], ?_⟩
    have hg := store_get_of_mem st hinj hwf (.blob t) (hs _ (by simp [objsNode]))
    simp [impEntry, hm, hg]
  | .dir cs, f, name, m, s, he, hm, hd, hs => by
    simp only [expNode] at he
    split at he
    · simp at he
    · rename_i hne
      simp only [Option.some.injEq, Prod.mk.injEq] at he
      obtain ⟨rfl, rfl⟩ := he
      simp only [modesOK] at hm
      obtain ⟨f', rfl⟩ : ∃ f', f = f' + 1 := ⟨f - 1, by simp [depth] at hd; omega⟩
      have hd' : depthC cs ≤ f' := by simp [depth] at hd; omega
      have hmem : (H (.tree (sortEntries (expChildren H cs))), GObj.tree (sortEntries (expChildren H cs))) ∈ st :=
        hs _ (by simp [objsNode, hne])
      have hg := store_get_of_mem st hinj hwf _ hmem
      have hch := impChildren_exp H st hinj hwf cs f' hm hd' (fun p hp => hs p (by simp [objsNode, hp]))
      have hsort := impList_sort (impEntry st f') (impEntry_key st f') _ _ hch
      refine ⟨.dir (sortBy pkey (canonChildren H cs)), by simp [canonNode, hne], ?_⟩
      have hc : importClass S_IFDIR = .tree := by decide
      simp only [impEntry, hc, hg]
      simp only [sortEntries] at hsort ⊢
      simp [hsort]
theorem impChildren_exp (H : GObj → Sha) (st : Store)
    (hinj : ∀ p ∈ st, ∀ q ∈ st, H p.2 = H q.2 → p.2 = q.2) (hwf : ∀ p ∈ st, p.1 = H p.2) :
    (cs : Children) → ∀ (f : Nat), modesOKC cs = true → depthC cs ≤ f →
      (∀ p ∈ objsChildren H cs, p ∈ st) →
      impList (impEntry st f) (expChildren H cs) = some (canonChildren H cs)
  | .nil, f, _, _, _ => by simp [expChildren, canonChildren, impList]
  | .cons name n rest, f, hm, hd, hs => by
    simp only [modesOKC, Bool.and_eq_true] at hm
    have hdn : depth n ≤ f := by simp only [depthC] at hd; omega
    have hdr : depthC rest ≤ f := by simp only [depthC] at hd; omega
    simp only [expChildren, canonChildren]
    by_cases hb : banned name = true
    · simp only [hb, if_true]
      exact impChildren_exp H st hinj hwf rest f hm.2 hdr (fun p hp => hs p (by simp [objsChildren, hb, hp]))
    · simp only [hb]
      have hsr : ∀ p ∈ objsChildren H rest, p ∈ st := fun p hp => hs p (by simp [objsChildren, hb, hp])
      have hsn : ∀ p ∈ objsNode H n, p ∈ st := fun p hp => hs p (by simp [objsChildren, hb, hp])
      have ihr := impChildren_exp H st hinj hwf rest f hm.2 hdr hsr
      cases he : expNode H n with
      | none =>
        simp only [canon_none_of_exp_none H n he]
        exact ihr
      | some ms =>
        obtain ⟨m, s⟩ := ms
        obtain ⟨p, hcp, hip⟩ := impNode_exp H st hinj hwf n f name m s he hm.1 hdn hsn
        simp only [hcp]
        exact impList_cons_of hip ihr
end

/-! ### sorting -/

theorem bytesLe_total : ∀ (a b : Bytes), bytesLe a b = false → bytesLe b a = true
  | [], _, h => by simp [bytesLe] at h
  | _ :: _, [], _ => by simp [bytesLe]
  | a :: as, b :: bs, h => by
    simp only [bytesLe] at h ⊢
    by_cases h1 : a < b
    · simp [h1] at h
    · by_cases h2 : b < a
      · simp [h2]
      · simp only [h1, h2, if_false] at h ⊢
        exact bytesLe_total as bs h

theorem sortedBy_tail {α : Type} (key : α → Bytes) (x : α) (l : List α)
    (h : sortedBy key (x :: l) = true) : sortedBy key l = true := by
  cases l with
  | nil => rfl
  | cons y r => simp only [sortedBy, Bool.and_eq_true] at h; exact h.2

theorem sortedBy_cons_insert {α : Type} (key : α → Bytes) (x : α) :
    ∀ (l : List α) (y : α), sortedBy key (y :: l) = true → bytesLe (key y) (key x) = true →
      sortedBy key (y :: insertBy key x l) = true
  | [], y, _, hyx => by simp [insertBy, sortedBy, hyx]
  | z :: r, y, hs, hyx => by
    simp only [sortedBy, Bool.and_eq_true] at hs
    simp only [insertBy]
    cases hxz : bytesLe (key x) (key z)
    · simp only [Bool.false_eq_true, if_false]
      simp only [sortedBy, Bool.and_eq_true]
      refine ⟨hs.1, ?_⟩
      have hzx : bytesLe (key z) (key x) = true := bytesLe_total _ _ hxz
      exact sortedBy_cons_insert key x r z hs.2 hzx
    · simp [sortedBy, hxz, hyx, hs.2]

theorem insertBy_sorted {α : Type} (key : α → Bytes) (x : α) (l : List α)
    (h : sortedBy key l = true) : sortedBy key (insertBy key x l) = true := by
  cases l with
  | nil => simp [insertBy, sortedBy]
  | cons y r =>
    simp only [insertBy]
    cases hxy : bytesLe (key x) (key y)
    · simp only [Bool.false_eq_true, if_false]
      exact sortedBy_cons_insert key x r y h (bytesLe_total _ _ hxy)
    · simp [sortedBy, hxy, h]

theorem sortBy_sorted' {α : Type} (key : α → Bytes) : ∀ (l : List α), sortedBy key (sortBy key l) = true
  | [] => rfl
  | x :: xs => by
    simp only [sortBy]
    exact insertBy_sorted key x _ (sortBy_sorted' key xs)

theorem sortBy_id_of_sorted' {α : Type} (key : α → Bytes) :
    ∀ (l : List α), sortedBy key l = true → sortBy key l = l
  | [], _ => rfl
  | x :: xs, h => by
    simp only [sortBy]
    rw [sortBy_id_of_sorted' key xs (sortedBy_tail key x xs h)]
    cases xs with
    | nil => rfl
    | cons y r =>
      simp only [sortedBy, Bool.and_eq_true] at h
      simp [insertBy, h.1]

theorem sortBy_idem {α : Type} (key : α → Bytes) (l : List α) :
    sortBy key (sortBy key l) = sortBy key l :=
  sortBy_id_of_sorted' key _ (sortBy_sorted' key l)

theorem mem_insertBy {α : Type} (key : α → Bytes) (x a : α) :
    ∀ (l : List α), a ∈ insertBy key x l → a = x ∨ a ∈ l
  | [], h => by simp [insertBy] at h; exact Or.inl h
  | y :: ys, h => by
    simp only [insertBy] at h
    split at h
    · simp only [List.mem_cons] at h ⊢
      exact h
    · simp only [List.mem_cons] at h ⊢
      rcases h with h | h
      · exact Or.inr (Or.inl h)
      · rcases mem_insertBy key x a ys h with h | h
        · exact Or.inl h
        · exact Or.inr (Or.inr h)

theorem mem_sortBy {α : Type} (key : α → Bytes) (a : α) : ∀ (l : List α), a ∈ sortBy key l → a ∈ l
  | [], h => by simp [sortBy] at h
  | x :: xs, h => by
    simp only [sortBy] at h
    rcases mem_insertBy key x a _ h with h | h
    · simp [h]
    · simp [mem_sortBy key a xs h]

theorem insertBy_ne_nil {α : Type} (key : α → Bytes) (x : α) (l : List α) : insertBy key x l ≠ [] := by
  cases l with
  | nil => simp [insertBy]
  | cons y ys => simp only [insertBy]; split <;> simp

theorem sortBy_isEmpty {α : Type} (key : α → Bytes) (l : List α) : (sortBy key l).isEmpty = l.isEmpty := by
  cases l with
  | nil => rfl
  | cons x xs =>
    simp only [sortBy, List.isEmpty_cons]
    cases h : insertBy key x (sortBy key xs) with
    | nil => exact absurd h (insertBy_ne_nil key x _)
    | cons _ _ => rfl

theorem map_insertBy {α β : Type} (ka : α → Bytes) (kb : β → Bytes) (f : α → β) (x : α) :
    ∀ (l : List α), (∀ a ∈ x :: l, kb (f a) = ka a) →
      (insertBy ka x l).map f = insertBy kb (f x) (l.map f)
  | [], _ => by simp [insertBy]
  | y :: ys, h => by
    have hx := h x (by simp)
    have hy := h y (by simp)
    simp only [insertBy, List.map_cons, hx, hy]
    split
    · simp
    · simp only [List.map_cons]
      rw [map_insertBy ka kb f x ys (fun a ha => h a (by
        simp only [List.mem_cons] at ha ⊢
        rcases ha with ha | ha
        · exact Or.inl ha
        · exact Or.inr (Or.inr ha)))]

theorem map_sortBy {α β : Type} (ka : α → Bytes) (kb : β → Bytes) (f : α → β) :
    ∀ (l : List α), (∀ a ∈ l, kb (f a) = ka a) → (sortBy ka l).map f = sortBy kb (l.map f)
  | [], _ => by simp [sortBy]
  | x :: xs, h => by
    simp only [sortBy, List.map_cons]
    rw [map_insertBy ka kb f x (sortBy ka xs) (fun a ha => by
      simp only [List.mem_cons] at ha
      rcases ha with ha | ha
      · exact h a (by simp [ha])
      · exact h a (by simp [mem_sortBy ka a xs ha]))]
    rw [map_sortBy ka kb f xs (fun a ha => h a (by simp [ha]))]

/-! ### re-export of an imported tree -/

/-- the entry `expPL` writes for a child that is represented -/
def entryOf (H : GObj → Sha) (x : Bytes × PNode) : Entry :=
  match expP H x.2 with
  | some (m, s) => ⟨m, x.1, s⟩
  | none => ⟨0, x.1, []⟩

/-- not banned, represented, and its key as a child equals its key as an entry -/
def goodP (H : GObj → Sha) (x : Bytes × PNode) : Prop :=
  banned x.1 = false ∧ (expP H x.2).isSome = true ∧ (entryOf H x).key = pkey x

theorem expPL_map (H : GObj → Sha) : ∀ (l : List (Bytes × PNode)), (∀ x ∈ l, goodP H x) →
    expPL H l = l.map (entryOf H)
  | [], _ => by simp [expPL]
  | (name, p) :: rest, h => by
    obtain ⟨hb, hs, _⟩ := h (name, p) (by simp)
    simp only [expPL, List.map_cons]
    simp only at hb hs
    rw [expPL_map H rest (fun x hx => h x (by simp [hx]))]
    cases he : expP H p with
    | none => simp [he] at hs
    | some ms => obtain ⟨m, s⟩ := ms; simp [hb, entryOf, he]

theorem expPL_sort (H : GObj → Sha) (l : List (Bytes × PNode)) (h : ∀ x ∈ l, goodP H x) :
    expPL H (sortBy pkey l) = sortEntries (expPL H l) := by
  rw [expPL_map H _ (fun x hx => h x (mem_sortBy pkey x l hx)), expPL_map H l h]
  exact map_sortBy pkey Entry.key (entryOf H) l (fun a ha => (h a ha).2.2)

mutual
theorem canon_expP (H : GObj → Sha) : (n : Node) → ∀ (p : PNode), modesOK n = true →
    canonNode H n = some p →
    expP H p = expNode H n ∧ (∀ m s, expNode H n = some (m, s) → p.isDir = sISDIR m)
  | .file k c x um, p, hm, hc => by
    simp only [canonNode, Option.some.injEq] at hc
    subst hc
    simp only [modesOK, beq_iff_eq] at hm
    refine ⟨by simp [expP, expNode], ?_⟩
    intro m s he
    simp only [expNode, Option.some.injEq, Prod.mk.injEq] at he
    obtain ⟨rfl, _⟩ := he
    cases hs : sISDIR (exportMode um Kind.file x)
    · simp [PNode.isDir]
    · rw [(importClass_tree_iff _).2 hs] at hm; cases hm
  | .link k t um, p, hm, hc => by
    simp only [canonNode, Option.some.injEq] at hc
    subst hc
    simp only [modesOK, beq_iff_eq] at hm
    refine ⟨by simp [expP, expNode], ?_⟩
    intro m s he
    simp only [expNode, Option.some.injEq, Prod.mk.injEq] at he
    obtain ⟨rfl, _⟩ := he
    cases hs : sISDIR (exportMode um Kind.symlink false)
    · simp [PNode.isDir]
    · rw [(importClass_tree_iff _).2 hs] at hm; cases hm
  | .dir cs, p, hm, hc => by
    simp only [canonNode] at hc
    split at hc
    · simp at hc
    · rename_i hne
      simp only [Option.some.injEq] at hc
      subst hc
      simp only [modesOK] at hm
      obtain ⟨h1, h2⟩ := canonChildren_expPL H cs hm
      have hsort := expPL_sort H (canonChildren H cs) h2
      rw [h1] at hsort
      constructor
      · simp only [expP, expNode, hsort]
        have he : (sortEntries (expChildren H cs)).isEmpty = (expChildren H cs).isEmpty :=
          sortBy_isEmpty Entry.key _
        simp only [he, hne]
        simp [sortEntries, sortBy_idem]
      · intro m s he
        simp only [expNode, hne] at he
        simp only [Bool.false_eq_true, if_false, Option.some.injEq, Prod.mk.injEq] at he
        obtain ⟨rfl, _⟩ := he
        simp only [PNode.isDir]
        decide
theorem canonChildren_expPL (H : GObj → Sha) : (cs : Children) → modesOKC cs = true →
    expPL H (canonChildren H cs) = expChildren H cs ∧ (∀ x ∈ canonChildren H cs, goodP H x)
  | .nil, _ => by simp [canonChildren, expPL, expChildren]
  | .cons name n rest, hm => by
    simp only [modesOKC, Bool.and_eq_true] at hm
    obtain ⟨ih1, ih2⟩ := canonChildren_expPL H rest hm.2
    simp only [canonChildren, expChildren]
    by_cases hb : banned name = true
    · simp only [hb, if_true]
      exact ⟨ih1, ih2⟩
    · simp only [hb]
      cases hc : canonNode H n with
      | none =>
        have he : expNode H n = none := by
          cases hn : expNode H n with
          | none => rfl
          | some ms =>
            exfalso
            cases n with
            | file => simp [canonNode] at hc
            | link => simp [canonNode] at hc
            | dir cs' =>
              simp only [canonNode] at hc
              simp only [expNode] at hn
              split at hc
              · rename_i h0; simp [h0] at hn
              · simp at hc
        simp only [he]
        exact ⟨ih1, ih2⟩
      | some p =>
        obtain ⟨hp, hk⟩ := canon_expP H n p hm.1 hc
        cases he : expNode H n with
        | none =>
          rw [canon_none_of_exp_none H n he] at hc
          cases hc
        | some ms =>
          obtain ⟨m, s⟩ := ms
          have hb' : banned name = false := by simpa using hb
          refine ⟨?_, ?_⟩
          · show expPL H ((name, p) :: canonChildren H rest) = _
            rw [expPL]
            simp [hb', hp, he, ih1]
          · intro x hx
            have hx' : x = (name, p) ∨ x ∈ canonChildren H rest := by simpa using hx
            rcases hx' with hx' | hx'
            · subst hx'
              refine ⟨hb', by simp [hp, he], ?_⟩
              simp only [entryOf, hp, he, Entry.key, pkey, hk m s he]
            · exact ih2 x hx'
end

end BreezyVerif.C35
