"""C24 — tag transfer never loses or silently rewrites tags; tag dictionaries
are stored and read back unchanged.

Anchors: breezy/tag.py (_reconcile_tags, InterTags.merge/_merge_to,
MemoryTags.merge_to), breezy/bzr/tag.py (BasicTags._serialize_tag_dict,
_deserialize_tag_dict, _set_tag_dict/get_tag_dict), breezy/git/branch.py
(InterTagsFromGitToLocalGit, InterTagsFromGitToNonGit, LocalGitTagDict).

Model (lean/BreezyVerif/Model/C24.lean): Python dicts as insertion-ordered
association lists; `reconcile` is the loop of `_reconcile_tags`, `merge` is
`InterTags.merge` with the optional master branch; a byte-level bencode model
of flat byte-string dicts with strict UTF-8 validity of the keys.

T2 levels (all on every run):
  A  `_reconcile_tags` on generated dict pairs x overwrite x selector — exact,
     order-sensitive comparison of (result, updates, conflicts);
  B  `MemoryTags.merge_to` (in-memory store);
  C  `Tags.merge_to` on real 2a branches (BasicTags), target unbound / bound to
     a master branch, ignore_master on/off, branches re-opened before reading;
  D  git stores: git->git (InterTagsFromGitToLocalGit), git->bzr
     (InterTagsFromGitToNonGit), bzr->git (generic InterTags over
     LocalGitTagDict) with lightweight tags on existing commits — compared as
     sorted maps / sets;
  E  serialisation: `_serialize_tag_dict` byte-for-byte against the model,
     `_deserialize_tag_dict` on valid, mutated and malformed byte strings
     (accept/reject + error kind), store/re-open/read on a real branch.
Oracle: the statement's laws evaluated directly on the real outputs
(`_laws`), input dicts not mutated, `deserialize(serialize(d)) == d`,
`reopen().get_tag_dict() == d`.

T1: the branch structure of the loop body of `_reconcile_tags` is regenerated
from the source (`stepKindGen`) and proved equal to the model's `stepKind`
(Props/C24T1.lean).

Mutants this was built against (see the final report for results):
  M1 `result = dest_dict` (copy dropped: destination aliasing, nothing stored)
  M2 `elif name not in result or overwrite` -> `elif name not in result`
  M3 `elif ... or overwrite` -> `and overwrite` (source-only tags dropped)
  M4 conflict tuple `(name, target, result[name])` -> `(name, result[name], target)`
  M5 `if selector and not selector(name)` -> `if selector and selector(name)`
  M6 `updates[name] = target` dropped in the take branch
  M7 InterTags.merge: master merged with `not overwrite`
  M8 `_serialize_tag_dict`: keys encoded with "latin-1"/ `_deserialize`: values dropped when empty
  M9 `_merge_to`: `if result != dest_dict` -> `if updates and conflicts == []`
  M10 git InterTagsFromGitToNonGit: `elif tag_name not in result or overwrite` -> `elif overwrite`
  H1 (harmless) loop rewritten with `dest_dict.copy()` and `in`/`[]` instead of `.get`
"""
import ast
import os
import sys

from vlib import env

THEOREMS = [
    "reconcile_result_pointwise", "reconcile_updates_pointwise", "reconcile_conflicts_exact",
    "reconcile_source_only_added", "reconcile_dest_only_kept", "reconcile_same_unchanged",
    "reconcile_conflict_keeps_dest", "reconcile_overwrite_takes_source",
    "updates_exact", "selector_respected", "reconcile_never_loses", "reconcile_keys",
    "merge_target_pointwise", "merge_master_pointwise", "merge_conflicts_exact",
    "merge_updates_pointwise", "merge_noop",
    "bencode_dict_roundtrip", "tags_roundtrip", "sortKV_same_map",
]
T1_EQUALITY_THEOREMS = ["stepKind_gen_eq"]
RULE = ("dict pairs over a per-case universe of 1..7 unicode names (each name: source-only / "
        "dest-only / same / differing / absent) x overwrite x selector (None / subset / none); "
        "non-trivial = source non-empty and at least one name is source-only, differing, "
        "or filtered by the selector; serialisation cases: non-trivial = dict non-empty")
ASSUMPTIONS = [
    "a Python str tag name is represented by its UTF-8 encoding (names with lone surrogates are "
    "outside the model; the real code raises UnicodeEncodeError before storing — run as an excluded-input stream)",
    "tag values are bytes (never None), dict keys are unique",
]
TRUSTED = [
    "fastbencode (external, compiled) is modelled for flat byte-string dicts only; every generated dict and "
    "every malformed byte string is compared with the model on this run; inputs whose decoding leaves the "
    "fragment (int/list/dict values) are counted as `unsupported` and not compared",
    "git stores are compared as sorted maps on lightweight tags that point to existing commits",
]

NAME_ATOMS = ["", "a", "b", "ab", "a b", "v1.0", "é", "日本", "😀", "\x00", "a\n", ":", ",", "e", "d1:a",
              "Ā", "́", "￿", "\U00010000", "tag-with-a-long-name-of-more-than-ten-bytes", "A", "~", "-", "."]
GIT_ATOMS = ["a", "b", "ab", "v1-0", "é", "日本", "😀", "A", "-x", "x_y", "zz9", "tag-with-a-long-name"]
VALUE_ATOMS = [b"", b"rev-1", b"rev-2", b"\x00", b"e", b"1:", b"i1e", b"a" * 10, b"b" * 100, b"\xff\xfe",
               b"joe@example.com-20200101-abcdef", b"git-v1:0123456789abcdef0123456789abcdef01234567", b"d", b"le", b":"]


# ---------------------------------------------------------------- encodings
def hx(b):
    return b.hex() if b else "."


def unhx(s):
    return b"" if s == "." else bytes.fromhex(s)


def enc_items(items):
    """[(str name, bytes value)] -> protocol dict"""
    return ",".join("%s:%s" % (hx(k.encode("utf-8")), hx(v)) for k, v in items) or "-"


def enc_items_b(items):
    return ",".join("%s:%s" % (hx(k), hx(v)) for k, v in items) or "-"


def enc_conf(c):
    return "%s:%s:%s" % (hx(c[0].encode("utf-8")), hx(c[1]), hx(c[2]))


def enc_sel(sel):
    if sel is None:
        return "~"
    return ",".join(hx(n.encode("utf-8")) for n in sel) or "-"


def parse_dict(s):
    if s == "-":
        return []
    return [tuple(x.split(":")) for x in s.split(",")]


def sort_field(s):
    if s in ("-", "~"):
        return s
    return ",".join(sorted(s.split(",")))


def mk_selector(sel):
    if sel is None:
        return None
    acc = set(sel)
    return lambda name: name in acc


def tf(b):
    return "T" if b else "F"


# ---------------------------------------------------------------- generators
def gen_name(rng, atoms=NAME_ATOMS):
    r = rng.random()
    if r < 0.6:
        return rng.choice(atoms)
    if r < 0.85:
        return rng.choice(atoms) + rng.choice(atoms)
    n = rng.randrange(1, 5)
    return "".join(chr(rng.choice([rng.randrange(0, 0x80), rng.randrange(0x80, 0x800),
                                   rng.randrange(0x800, 0xD800), rng.randrange(0xE000, 0x10000),
                                   rng.randrange(0x10000, 0x110000)])) for _ in range(n))


def gen_value(rng):
    r = rng.random()
    if r < 0.7:
        return rng.choice(VALUE_ATOMS)
    return bytes(rng.randrange(256) for _ in range(rng.choice([1, 2, 9, 10, 11, 99, 100, 101, 130])))


def gen_pair(rng, names=None, values=None, maxn=7):
    """-> (src items, dst items, sel, classes)"""
    n = rng.randrange(1, maxn + 1)
    uni = []
    while len(uni) < n:
        x = names(rng) if names else gen_name(rng)
        if x not in uni:
            uni.append(x)
    val = values or gen_value
    src, dst, classes = [], [], {}
    for name in uni:
        c = rng.choice(["src", "dst", "same", "diff", "diff", "none", "src"])
        v = val(rng)
        if c == "src":
            src.append((name, v))
        elif c == "dst":
            dst.append((name, v))
        elif c == "same":
            src.append((name, v)); dst.append((name, v))
        elif c == "diff":
            w = val(rng)
            if w == v:
                c = "same"
            src.append((name, v)); dst.append((name, w))
        classes[name] = c
    rng.shuffle(src)
    rng.shuffle(dst)
    r = rng.random()
    if r < 0.45:
        sel = None
    elif r < 0.9:
        sel = sorted(x for x in uni if rng.random() < 0.6)
    else:
        sel = []
    return src, dst, sel, classes


def nontrivial(src, dst, sel):
    d = dict(dst)
    return bool(src) and any(d.get(k) != v or (sel is not None and k not in sel) for k, v in src)


# ---------------------------------------------------------------- the oracle
def _spec(src, dst, ow, sel):
    """the statement, pointwise per tag name -> (result, updates, conflicts, why)"""
    s, d = dict(src), dict(dst)
    res, upd, conf, why = {}, {}, set(), {}
    for name in list(d) + [n for n in s if n not in d]:
        chosen = name in s and (sel is None or name in sel)
        if not chosen:
            if name in d:
                res[name] = d[name]
                why[name] = "destination-only/unselected tag must be kept unchanged and not reported"
            continue
        v = s[name]
        if name not in d:
            res[name] = v
            upd[name] = v
            why[name] = "source-only tag must be added and listed in updates"
        elif d[name] == v:
            res[name] = v
            why[name] = "identical definition must stay and not be reported"
        elif ow:
            res[name] = v
            upd[name] = v
            why[name] = "overwrite: differing definition must take the source value and be listed in updates"
        else:
            res[name] = d[name]
            conf.add((name, v, d[name]))
            why[name] = "differing definition must keep the destination value and be reported as (name, source, dest)"
    return res, upd, conf, why


def _laws(ctx, case, src, dst, ow, sel, result, updates, conflicts, what, reports=True):
    """the property's own statement checked on the stored result and, when
    `reports`, on the returned (updates, conflicts)"""
    res, upd, conf, why = _spec(src, dst, ow, sel)
    bad = None
    names = list(dict.fromkeys(list(res) + list(result) + list(updates if reports else []) + [c[0] for c in (conflicts if reports else [])]))
    for name in names:
        got = (result.get(name),) + ((updates.get(name), sorted(c for c in set(conflicts) if c[0] == name)) if reports else ())
        exp = (res.get(name),) + ((upd.get(name), sorted(c for c in conf if c[0] == name)) if reports else ())
        if got != exp:
            bad = "tag %r: %s; expected (value, update, conflicts)=%r got %r" % (
                name, why.get(name, "tag must not appear: it is in neither dict or not selected"), exp, got)
            break
    if bad:
        ctx.violation(case, "%s: %s" % (what, bad))
    return bad is None


def _raised(ctx, case, what, e):
    ctx.violation(case, "%s raised %s: %s" % (what, type(e).__name__, str(e)[:200]))
    ctx.count("raised:" + type(e).__name__)


# ---------------------------------------------------------------- level A/B
def _level_ab(ctx, n):
    from breezy import tag as _tag
    cases, lines, outs = [], [], []
    for i in range(n):
        src, dst, sel, classes = gen_pair(ctx.rng)
        ow = ctx.rng.random() < 0.5
        mem = i % 4 == 3
        case = dict(level="B" if mem else "A", src=[[k, v.hex()] for k, v in src],
                    dst=[[k, v.hex()] for k, v in dst], ow=ow, sel=sel)
        sd, dd = dict(src), dict(dst)
        try:
            if mem:
                st, dt = _tag.MemoryTags(sd), _tag.MemoryTags(dd)
                updates, conflicts = st.merge_to(dt, overwrite=ow, selector=mk_selector(sel))
                result = dt.get_tag_dict()
                if list(sd.items()) != src:
                    ctx.violation(case, "MemoryTags.merge_to mutated the source dict")
            else:
                result, updates, conflicts = _tag._reconcile_tags(sd, dd, ow, mk_selector(sel))
                if list(sd.items()) != src or list(dd.items()) != dst:
                    ctx.violation(case, "_reconcile_tags mutated its input dicts (aliasing)")
        except Exception as e:
            _raised(ctx, case, "MemoryTags.merge_to" if mem else "_reconcile_tags", e)
            continue
        conflicts = list(conflicts)
        _laws(ctx, case, src, dst, ow, sel, result, updates, conflicts, "reconcile")
        ctx.case(case, nontrivial=nontrivial(src, dst, sel))
        ctx.count("AB:size:%d" % min(len(src) + len(dst), 9))
        ctx.count("AB:sel:" + ("none" if sel is None else "empty" if not sel else "subset"))
        for c in classes.values():
            ctx.count("AB:class:" + c)
        ctx.count("AB:conflicts" if conflicts else "AB:noconflict")
        cases.append(case)
        lines.append("rec %s %s %s %s" % (tf(ow), enc_sel(sel), enc_items(src), enc_items(dst)))
        outs.append("%s|%s|%s" % (enc_items(result.items()), enc_items(updates.items()),
                                  ",".join(enc_conf(c) for c in conflicts) or "-"))
    ctx.diff(cases, lines, outs)


# ---------------------------------------------------------------- level C (BasicTags on 2a branches)
class _Stores:
    def __init__(self):
        from breezy.controldir import ControlDir, format_registry
        base = env.fresh_dir("c24")
        self.paths = {}
        fmt = format_registry.make_controldir("2a")
        for nm in ("src", "tgt", "btgt", "master"):
            p = os.path.join(base, nm)
            ControlDir.create_branch_convenience(p, format=fmt)
            self.paths[nm] = p
        self.open("btgt").bind(self.open("master"))

    def open(self, nm):
        from breezy.branch import Branch
        return Branch.open(self.paths[nm])

    def put(self, nm, items):
        b = self.open(nm)
        with b.lock_write():
            b.tags._set_tag_dict(dict(items))

    def read(self, nm):
        return self.open(nm).tags.get_tag_dict()


def usort(items):
    return sorted(items, key=lambda kv: kv[0].encode("utf-8"))


def _level_c(ctx, n):
    st = _Stores()
    cases, lines, outs = [], [], []
    for i in range(n):
        src, dst, sel, classes = gen_pair(ctx.rng)
        mst = None
        bound = ctx.rng.random() < 0.6
        ign = ctx.rng.random() < 0.3
        if bound:
            _s2, mst, _sel2, _c2 = gen_pair(ctx.rng, names=lambda r: r.choice([k for k, _ in src + dst] or ["m"]) if r.random() < 0.7 else gen_name(r))
        same = ctx.rng.random() < 0.04
        ow = ctx.rng.random() < 0.5
        case = dict(level="C", src=[[k, v.hex()] for k, v in src], dst=[[k, v.hex()] for k, v in dst],
                    master=None if mst is None else [[k, v.hex()] for k, v in mst], ow=ow, sel=sel,
                    ignore_master=ign, same=same)
        tname = "btgt" if bound else "tgt"
        st.put("src", src)
        st.put(tname, dst)
        if bound:
            st.put("master", mst)
        sb = st.open("src")
        tb = sb if same else st.open(tname)
        if same:
            dst = src
        try:
            updates, conflicts = sb.tags.merge_to(tb.tags, overwrite=ow, ignore_master=ign, selector=mk_selector(sel))
        except Exception as e:
            _raised(ctx, case, "BasicTags merge_to", e)
            continue
        after_t = st.read("src" if same else tname)
        after_m = st.read("master") if bound else None
        if st.read("src") != dict(src):
            ctx.violation(case, "merge_to changed the source branch's tags")
        # oracle on the stored state (re-opened branches)
        if not same:
            both = bound and not ign
            _laws(ctx, case, src, dst, ow, sel, after_t, updates, conflicts, "BasicTags target", reports=not both)
            if both:
                _laws(ctx, case, src, mst, ow, sel, after_m, updates, conflicts, "BasicTags master", reports=False)
                # the reported updates / conflicts are the union over target and master
                _r1, u1, c1, _w = _spec(src, dst, ow, sel)
                _r2, u2, c2, _w = _spec(src, mst, ow, sel)
                if dict(updates) != {**u1, **u2} or set(conflicts) != (c1 | c2):
                    ctx.violation(case, "bound target: reported (updates, conflicts) are not the union over target and master: "
                                  "%r %r expected %r %r" % (updates, conflicts, {**u1, **u2}, c1 | c2))
            elif bound and after_m != dict(mst):
                ctx.violation(case, "ignore_master=True but the master's tags changed")
        elif updates or conflicts or after_t != dict(src):
            ctx.violation(case, "merge_to onto the same branch reported/changed something")
        ctx.case(case, nontrivial=nontrivial(src, dst, sel))
        ctx.count("C:" + ("same" if same else ("bound-ign" if bound and ign else "bound" if bound else "unbound")))
        ctx.count("C:conflicts" if conflicts else "C:noconflict")
        cases.append(case)
        ssrc, sdst = usort(src), usort(dst)
        lines.append("merge %s T %s %s %s %s %s %s" % (
            tf(same), tf(ow), tf(ign), enc_sel(sel), enc_items(ssrc), enc_items(sdst),
            "~" if mst is None else enc_items(usort(mst))))
        outs.append("%s|%s|%s|%s" % (
            sort_field(enc_items(after_t.items())), "~" if after_m is None else sort_field(enc_items(after_m.items())),
            enc_items(updates.items()), ",".join(sorted(enc_conf(c) for c in conflicts)) or "-"))
    replies = ctx.model(lines)
    for c, l, o, m in zip(cases, lines, outs, replies):
        ctx.traces += 1
        f = m.split("|")
        if len(f) == 4:
            m = "|".join([sort_field(f[0]), sort_field(f[1]), f[2], f[3]])
        if m != o:
            ctx.mismatch(c, o, m, line=l)


# ---------------------------------------------------------------- level D (git stores)
class _GitStores:
    def __init__(self):
        from breezy.controldir import ControlDir, format_registry
        base = env.fresh_dir("c24g")
        wt = ControlDir.create_standalone_workingtree(os.path.join(base, "g1"),
                                                      format=format_registry.make_controldir("git"))
        self.revs = []
        for i in range(4):
            with open(os.path.join(base, "g1", "f%d" % i), "w") as f:
                f.write(str(i))
            wt.add(["f%d" % i])
            self.revs.append(wt.commit("c%d" % i))
        self.paths = dict(g1=os.path.join(base, "g1"), g2=os.path.join(base, "g2"), bz=os.path.join(base, "bz"))
        wt.branch.controldir.sprout(self.paths["g2"])
        ControlDir.create_branch_convenience(self.paths["bz"], format=format_registry.make_controldir("2a"))

    def open(self, nm):
        from breezy.branch import Branch
        return Branch.open(self.paths[nm])

    def put(self, nm, items):
        b = self.open(nm)
        with b.lock_write():
            b.tags._set_tag_dict(dict(items))

    def read(self, nm):
        return self.open(nm).tags.get_tag_dict()


def _level_d(ctx, n):
    gs = _GitStores()
    cases, lines, outs = [], [], []
    combos = [("g1", "g2"), ("g1", "bz"), ("bz", "g2")]
    for i in range(n):
        s, t = combos[i % 3]
        src, dst, sel, classes = gen_pair(ctx.rng, names=lambda r: r.choice(GIT_ATOMS) if r.random() < 0.8 else r.choice(GIT_ATOMS) + "-" + r.choice(GIT_ATOMS),
                                          values=lambda r: r.choice(gs.revs), maxn=5)
        ow = ctx.rng.random() < 0.5
        case = dict(level="D", kind="%s->%s" % (s, t), src=[[k, v.hex()] for k, v in src],
                    dst=[[k, v.hex()] for k, v in dst], ow=ow, sel=sel)
        gs.put(s, src)
        gs.put(t, dst)
        if gs.read(s) != dict(src) or gs.read(t) != dict(dst):
            ctx.violation(case, "git/bzr tag store did not read back what _set_tag_dict stored: %r %r" % (gs.read(s), gs.read(t)))
            continue
        sb, tb = gs.open(s), gs.open(t)
        try:
            updates, conflicts = sb.tags.merge_to(tb.tags, overwrite=ow, selector=mk_selector(sel))
        except Exception as e:
            _raised(ctx, case, "git merge_to %s->%s" % (s, t), e)
            continue
        after = gs.read(t)
        if gs.read(s) != dict(src):
            ctx.violation(case, "merge_to changed the source's tags")
        _laws(ctx, case, src, dst, ow, sel, after, updates, conflicts, "git %s->%s" % (s, t))
        ctx.case(case, nontrivial=nontrivial(src, dst, sel))
        ctx.count("D:%s->%s" % (s, t))
        ctx.count("D:conflicts" if conflicts else "D:noconflict")
        cases.append(case)
        lines.append("rec %s %s %s %s" % (tf(ow), enc_sel(sel), enc_items(usort(src)), enc_items(usort(dst))))
        outs.append("%s|%s|%s" % (sort_field(enc_items(after.items())), sort_field(enc_items(updates.items())),
                                  ",".join(sorted(enc_conf(c) for c in conflicts)) or "-"))
    replies = ctx.model(lines)
    for c, l, o, m in zip(cases, lines, outs, replies):
        ctx.traces += 1
        m2 = "|".join(sort_field(x) for x in m.split("|"))
        if m2 != o:
            ctx.mismatch(c, o, m2, line=l)


# ---------------------------------------------------------------- level E (serialisation)
def _deser(bt, content):
    """-> canonical string like the model's reply"""
    try:
        d = bt._deserialize_tag_dict(content)
    except ValueError:
        return "E:ValueError", None
    except Exception as e:  # e.g. AttributeError for a top-level list
        return "E:" + type(e).__name__, None
    if not isinstance(d, dict) or not all(isinstance(v, bytes) for v in d.values()):
        return "other", d
    return "ok " + enc_items(d.items()), d


def gen_tagdict(rng):
    n = rng.choice([0, 1, 1, 2, 3, 4, 6, 12])
    d = {}
    for _ in range(n):
        d[gen_name(rng)] = gen_value(rng)
    items = list(d.items())
    rng.shuffle(items)
    return items


def mutate(rng, b):
    b = bytearray(b)
    for _ in range(rng.choice([1, 1, 2, 3])):
        r = rng.random()
        pos = rng.randrange(len(b) + 1)
        if r < 0.3 and b:
            del b[min(pos, len(b) - 1)]
        elif r < 0.6:
            b.insert(pos, rng.choice(b"0123456789:deil-\x00\xff\xc3 "))
        elif r < 0.8 and b:
            b[min(pos, len(b) - 1)] = rng.choice(b"0123456789:deil-\x80\xed\xa0\xf4")
        elif r < 0.9:
            b = b[:pos]
        else:
            b += bytes(rng.choice(b"de0:1") for _ in range(2))
    return bytes(b)


HAND_BYTES = [b"", b"de", b"d", b"e", b"d1:a1:be", b"d1:a1:b1:a1:ce", b"d1:b1:x1:a1:ye", b"d01:a1:be", b"d1:a01:be",
              b"d0:0:e", b"d1:a1:bex", b"d1:a1:b", b"d1:a2:be", b"d1:ai5ee", b"d1:ali1eee", b"d1:ad1:x0:ee",
              b"5:hello", b"i5e", b"le", b"d+1:a1:be", b"d 1:a1:be", b"d1:a1:bee", b"d-1:a1:be", b"d1:a", b"d1:",
              b"d1", b"di1e1:ae", b"d1:a1:b0:1:ce", b"d1:a-0:e", b"d1 :a1:be", b"d1:a1:b\n", b"d00:1:be",
              b"d2:\xc3\xa91:xe", b"d1:\xc31:xe", b"d3:\xed\xa0\x801:xe", b"d2:\xc0\x801:xe", b"d4:\xf4\x90\x80\x801:xe",
              b"d4:\xf0\x90\x80\x800:e", b"d3:\xef\xbf\xbf0:e", b"d1:\xff0:e", b"d10:aaaaaaaaaa1:be", b"d1:a1:b2:aa0:e",
              b"d1:a1:b1:A0:e", b"d2:aa0:1:a0:e", b"x", b"d1:a1:b1:b", b"d9999999999999999999999:ae"]


def _level_e(ctx, n, store_n):
    from breezy.bzr.tag import BasicTags
    bt = BasicTags(None)
    cases, lines, outs = [], [], []
    blobs = list(HAND_BYTES)
    for i in range(n):
        items = gen_tagdict(ctx.rng)
        case = dict(level="E", op="ser", d=[[k, v.hex()] for k, v in items])
        try:
            ser = bt._serialize_tag_dict(dict(items))
        except Exception as e:  # generated names never contain lone surrogates
            _raised(ctx, case, "_serialize_tag_dict", e)
            continue
        # oracle: round trip
        try:
            back = bt._deserialize_tag_dict(ser)
        except Exception as e:
            back = "raised %r" % (e,)
        if back != dict(items):
            ctx.violation(case, "deserialize(serialize(d)) != d: got %r" % (back,))
        ctx.case(case, nontrivial=bool(items))
        ctx.count("E:ser:size:%d" % min(len(items), 9))
        cases.append(case)
        lines.append("ser " + enc_items(items))
        outs.append(hx(ser))
        blobs.append(ser)
        for _ in range(2):
            blobs.append(mutate(ctx.rng, ser))
    for b in blobs:
        case = dict(level="E", op="deser", bytes=b.hex())
        out, d = _deser(bt, b)
        ctx.count("E:deser:" + out.split(" ")[0])
        cases.append(case)
        lines.append("deser " + hx(b))
        outs.append(out)
        ctx.case(case, nontrivial=len(b) > 2)
    replies = ctx.model(lines)
    for c, l, o, m in zip(cases, lines, outs, replies):
        if m == "unsupported":
            ctx.count("E:model-unsupported")
            if o.startswith("ok "):
                ctx.mismatch(c, o, m, line=l)
            continue
        ctx.traces += 1
        if o != m:
            ctx.mismatch(c, o, m, line=l)
    # surrogate names: excluded input — must raise and store nothing
    # store / re-open / read on a real branch, whole dict and tag by tag
    st = _Stores()
    for i in range(store_n):
        items = gen_tagdict(ctx.rng)
        case = dict(level="E", op="store", d=[[k, v.hex()] for k, v in items], stepwise=bool(i % 2))
        b = st.open("tgt")
        try:
            if i % 2:
                with b.lock_write():
                    b.tags._set_tag_dict({})
                for k, v in items:
                    st.open("tgt").tags.set_tag(k, v)
            else:
                with b.lock_write():
                    b.tags._set_tag_dict(dict(items))
            got = st.read("tgt")
        except Exception as e:
            _raised(ctx, case, "storing / re-reading a tag dict", e)
            continue
        if got != dict(items):
            ctx.violation(case, "stored tag dict read back as %r" % (got,))
        if i % 5 == 0 and items:
            # a name that cannot be encoded must be refused without touching the store
            try:
                st.open("tgt").tags.set_tag("bad\ud800", b"x")
                ctx.count("E:surrogate-accepted")
            except UnicodeEncodeError:
                ctx.count("E:surrogate-name-rejected")
            if st.read("tgt") != dict(items):
                ctx.violation(case, "failed set_tag with an unencodable name changed the stored tags")
            k0 = items[0][0]
            st.open("tgt").tags.delete_tag(k0)
            exp = dict(items); del exp[k0]
            if st.read("tgt") != exp:
                ctx.violation(case, "delete_tag(%r) left %r" % (k0, st.read("tgt")))
        ctx.case(case, nontrivial=bool(items))
        ctx.count("E:store")


# ---------------------------------------------------------------- T1
def extract(ctx):
    sys.path.insert(0, os.path.join(env.VERIF, "tools"))
    import extract as ex
    f = ex.find_func(os.path.join(env.REPO, "breezy/tag.py"), "_reconcile_tags")
    loops = [s for s in f.body if isinstance(s, ast.For)]
    if len(loops) != 1:
        raise ex.ExtractError("expected exactly one for loop")
    loop = loops[0]
    if ast.unparse(loop.target) != "(name, target)" or ast.unparse(loop.iter) != "source_dict.items()":
        raise ex.ExtractError("unexpected loop header: %s in %s" % (ast.unparse(loop.target), ast.unparse(loop.iter)))
    pre = [ast.unparse(s) for s in f.body if isinstance(s, ast.Assign)]
    if sorted(pre) != sorted(["conflicts = []", "updates = {}", "result = dict(dest_dict)"]):
        raise ex.ExtractError("unexpected initialisation: %r" % pre)
    if ast.unparse(f.body[-1]) != "return (result, updates, conflicts)":
        raise ex.ExtractError("unexpected return: %s" % ast.unparse(f.body[-1]))

    atoms = {"selector": "hasSel", "selector(name)": "selOk", "result.get(name) == target": "same",
             "name in result": "present", "overwrite": "overwrite"}

    class Rw(ast.NodeTransformer):
        def generic_visit(self, node):
            if isinstance(node, ast.expr):
                src = ast.unparse(node)
                if src in atoms:
                    return ast.Name(id=atoms[src], ctx=ast.Load())
                if src == "name not in result":
                    return ast.UnaryOp(op=ast.Not(), operand=ast.Name(id="present", ctx=ast.Load()))
            return super().generic_visit(node)

    def ret(kind):
        return ast.Return(value=ast.Constant(value=kind))

    def stmts(body):
        out = []
        i = 0
        while i < len(body):
            s = body[i]
            src = ast.unparse(s)
            if isinstance(s, ast.Continue):
                out.append(ret("skip")); break
            if isinstance(s, ast.Pass):
                out.append(ret("same")); break
            if isinstance(s, ast.If):
                out.append(ast.If(test=Rw().visit(s.test), body=stmts(s.body), orelse=stmts(s.orelse) if s.orelse else []))
                i += 1
                continue
            if src in ("updates[name] = target", "result[name] = target"):
                other = {"updates[name] = target": "result[name] = target",
                         "result[name] = target": "updates[name] = target"}[src]
                if i + 1 < len(body) and ast.unparse(body[i + 1]) == other:
                    out.append(ret("take")); break
                raise ex.ExtractError("take branch does not update both dicts")
            if src == "conflicts.append((name, target, result[name]))":
                out.append(ret("conflict")); break
            raise ex.ExtractError("unsupported statement: %s" % src)
        return out

    body = stmts(loop.body)
    # falling off the end of the loop body without an action
    tr = ex.DecisionTranslator(const=lambda v: "Kind." + v)
    term = tr.block(body + [ret("same")])
    text = ("-- GENERATED by harness/checks/c24.py from breezy/tag.py:_reconcile_tags — do not edit\n"
            "import BreezyVerif.Model.C24\nnamespace BreezyVerif.C24\n"
            "def stepKindGen (hasSel selOk same present overwrite : Bool) : Kind :=\n  "
            + term + "\nend BreezyVerif.C24\n")
    ex.write_if_changed(os.path.join(env.VERIF, "lean/BreezyVerif/Generated/C24.lean"), text)
    return "regenerated stepKindGen from the loop body of _reconcile_tags"


# ---------------------------------------------------------------- entry points
def _corpus(ctx):
    import glob
    import json
    for p in sorted(glob.glob(os.path.join(env.VERIF, "corpus", "C24", "*.json"))):
        case = json.load(open(p))
        r = replay(ctx, case.get("case", case))
        ctx.count("corpus")
        if r.get("impl") != r.get("model"):
            ctx.mismatch(case, r.get("impl"), r.get("model"))


def run(ctx, scale=1):
    _corpus(ctx)
    _level_ab(ctx, ctx.pick(4000, 40000) * scale)
    _level_e(ctx, ctx.pick(600, 6000) * scale, ctx.pick(60, 400))
    _level_c(ctx, ctx.pick(500, 5000) * scale)
    _level_d(ctx, ctx.pick(300, 3000) * scale)


def widen(ctx):
    run(ctx, scale=3)


def replay(ctx, case):
    from breezy import tag as _tag
    lvl = case.get("level")
    if lvl in ("A", "B", "C", "D"):
        src = [(k, bytes.fromhex(v)) for k, v in case["src"]]
        dst = [(k, bytes.fromhex(v)) for k, v in case["dst"]]
        sel, ow = case["sel"], case["ow"]
        result, updates, conflicts = _tag._reconcile_tags(dict(src), dict(dst), ow, mk_selector(sel))
        _laws(ctx, case, src, dst, ow, sel, result, updates, list(conflicts), "reconcile")
        impl = "%s|%s|%s" % (enc_items(result.items()), enc_items(updates.items()),
                             ",".join(enc_conf(c) for c in conflicts) or "-")
        model = ctx.model(["rec %s %s %s %s" % (tf(ow), enc_sel(sel), enc_items(src), enc_items(dst))])[0]
        note = None
        if lvl in ("C", "D"):
            note = "store-level case replayed at the _reconcile_tags level; run the check for the store-level run"
        return dict(case=case, impl=impl, model=model, note=note,
                    oracle_failures=[v["what"] for v in ctx.violations])
    from breezy.bzr.tag import BasicTags
    bt = BasicTags(None)
    if case.get("op") in ("ser", "store"):
        items = [(k, bytes.fromhex(v)) for k, v in case["d"]]
        ser = bt._serialize_tag_dict(dict(items))
        back = bt._deserialize_tag_dict(ser)
        if back != dict(items):
            ctx.violation(case, "deserialize(serialize(d)) != d: got %r" % (back,))
        return dict(case=case, impl=hx(ser), model=ctx.model(["ser " + enc_items(items)])[0],
                    oracle_failures=[v["what"] for v in ctx.violations])
    b = bytes.fromhex(case["bytes"])
    out, _ = _deser(bt, b)
    return dict(case=case, impl=out, model=ctx.model(["deser " + hx(b)])[0], oracle_failures=[])
