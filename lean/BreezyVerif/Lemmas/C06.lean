import BreezyVerif.Model.C06
/-
C06 helper lemmas about `exec`, `step`, `resumeToks` and the refusal predicate.
-/
namespace BreezyVerif.C06

/-! ### helper lemmas -/

theorem exec_cons (fmt : Fmt) (r : Repo) (op : Op) (ops : List Op) :
    exec fmt r (op :: ops) = exec fmt (step fmt r op).1 ops := by
  simp only [exec, run]

theorem exec_nil (fmt : Fmt) (r : Repo) : exec fmt r [] = r := rfl

theorem exec_append (fmt : Fmt) (r : Repo) (a b : List Op) :
    exec fmt r (a ++ b) = exec fmt (exec fmt r a) b := by
  induction a generalizing r with
  | nil => rfl
  | cons op a ih => simp only [List.cons_append, exec_cons, ih]

/-- only a commit changes the listed packs -/
theorem step_packs (fmt : Fmt) (r : Repo) (op : Op) (h : op ≠ .commit) :
    (step fmt r op).1.packs = r.packs := by
  cases op with
  | commit => exact absurd rfl h
  | start => simp only [step]; split <;> rfl
  | insert rec => simp only [step]; split <;> rfl
  | abort => simp only [step]; split <;> rfl
  | suspend =>
    simp only [step]; split
    · rfl
    · split <;> rfl
  | resume toks =>
    simp only [step]; split
    · rfl
    · split
      · rfl
      · rfl
      · rfl
  | reopen => simp only [step]; split <;> rfl

/-- insertions keep the group open and touch neither `pack-names` nor `upload/` -/
theorem exec_inserts (fmt : Fmt) (recs : List Rec) (r : Repo) (g : Group) (h : r.wg = some g) :
    (exec fmt r (recs.map Op.insert)).packs = r.packs ∧
    (exec fmt r (recs.map Op.insert)).upload = r.upload ∧
    (exec fmt r (recs.map Op.insert)).wg = some { g with fresh := g.fresh ++ recs } := by
  induction recs generalizing r g with
  | nil => simp [exec_nil, h]
  | cons rec recs ih =>
    simp only [List.map_cons, exec_cons]
    have hs : (step fmt r (.insert rec)).1 =
        { r with wg := some { g with fresh := g.fresh ++ [rec] }, stale := staleAfter r g rec } := by
      simp only [step, h]
    obtain ⟨h1, h2, h3⟩ := ih (step fmt r (.insert rec)).1 { g with fresh := g.fresh ++ [rec] }
      (by rw [hs])
    refine ⟨by rw [h1, hs], by rw [h2, hs], ?_⟩
    rw [h3]; simp

theorem removeAll_nil (l : List Pack) : removeAll l [] = l := by
  simp [removeAll]

theorem any_append_mcp (own a b : Pack) :
    missingCompressionParent own (a ++ b) =
      (missingCompressionParent own a || missingCompressionParent own b) := by
  simp [missingCompressionParent, List.any_append]

theorem resumeToks_ok (up : List Pack) (ps acc : List Pack)
    (hin : ∀ p ∈ ps, p ∈ up) (hnd : (acc ++ ps).Nodup) :
    resumeToks up (ps.map Tok.pack) acc = .ok (acc ++ ps) := by
  induction ps generalizing acc with
  | nil => simp [resumeToks]
  | cons p ps ih =>
    have hp : p ∉ acc := by
      intro hm
      have := (List.nodup_append.mp hnd).2.2 p hm p List.mem_cons_self
      exact this rfl
    have hu : p ∈ up := hin p List.mem_cons_self
    simp only [List.map_cons, resumeToks, List.contains_iff_mem, hp, hu, if_true, if_false]
    have := ih (acc ++ [p]) (fun q hq => hin q (List.mem_cons_of_mem _ hq))
      (by simpa [List.append_assoc] using hnd)
    simpa [List.append_assoc] using this

theorem resumeToks_bad (up : List Pack) (toks : List Tok) (acc : List Pack)
    (hbad : ∃ t ∈ toks, t = Tok.malformed ∨ ∃ p, t = Tok.pack p ∧ p ∉ up) :
    ∃ e acc', resumeToks up toks acc = .error (e, acc') ∧ (e = .unresumable ∨ e = .assertion) := by
  induction toks generalizing acc with
  | nil => obtain ⟨t, ht, _⟩ := hbad; simp at ht
  | cons t toks ih =>
    cases t with
    | malformed => exact ⟨.unresumable, acc, by simp [resumeToks], Or.inl rfl⟩
    | pack p =>
      simp only [resumeToks, List.contains_iff_mem]
      by_cases h1 : p ∈ acc
      · exact ⟨.assertion, acc, by rw [if_pos h1], Or.inr rfl⟩
      · by_cases h2 : p ∈ up
        · rw [if_neg h1, if_pos h2]
          apply ih
          obtain ⟨t, ht, hb⟩ := hbad
          rcases List.mem_cons.mp ht with e | hm
          · subst e
            rcases hb with hb | ⟨q, hq, hnq⟩
            · cases hb
            · cases hq
              exact absurd h2 hnq
          · exact ⟨t, hm, hb⟩
        · exact ⟨.unresumable, acc, by rw [if_neg h1, if_neg h2], Or.inl rfl⟩

theorem step_commit (fmt : Fmt) (r : Repo) (g : Group) (h : r.wg = some g) :
    step fmt r .commit =
      if refuses fmt r g then (r, .err .check)
      else ({ r with packs := r.packs ++ g.resumed ++ (if g.fresh.isEmpty then [] else [g.fresh]),
                     upload := removeAll r.upload g.resumed, wg := none }, .ok) := by
  simp only [step, h]

theorem refuses_congr (fmt : Fmt) (r r' : Repo) (g : Group) (hp : r.packs = r'.packs)
    (hs : r.stale = r'.stale) : refuses fmt r g = refuses fmt r' g := by
  simp only [refuses, hp, hs]

end BreezyVerif.C06
