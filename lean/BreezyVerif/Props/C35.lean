import BreezyVerif.Model.C35
import BreezyVerif.Lemmas.C35
import BreezyVerif.Lemmas.C35Hist
import BreezyVerif.Lemmas.C35Git
import BreezyVerif.Lemmas.C35Y
/-
C35 — git object export is consistent and round-trips.

All statements are for an arbitrary object-id function `H : GObj → Sha`
(instantiated with git's SHA-1 based id in the driver); only the import round
trip needs something of `H`: no two different objects of the store share an id.
-/
namespace BreezyVerif.C35

/-! ### incremental = from scratch -/

/-- Every node and every child list: with any SHA map that is correct for the
leaves that can be asked for (`cacheOK`: a cached id of a key is the id of the
blob of the text with that key), any base tree, any other parents and at any
path, the incremental conversion yields exactly the from-scratch mode/id. -/
theorem incrNode_eq_expNode (H : GObj → Sha) (cache : Cache) (base : Option Children)
    (others : List Children) (ls : List (Key × Bytes)) (hc : cacheOK H cache ls = true)
    (ho : ∀ x ∈ others.flatMap leavesC, x ∈ ls) :
    (∀ (n : Node) (path : Path), (∀ x ∈ leaves n, x ∈ ls) →
      incrNode H cache base others path n = expNode H n) ∧
    (∀ (cs : Children) (path : Path), (∀ x ∈ leavesC cs, x ∈ ls) →
      incrChildren H cache base others path cs = expChildren H cs) :=
  ⟨incrNode_eq H cache base others ls hc ho, incrChildren_eq H cache base others ls hc ho⟩

/-- Trees that `sameGitC` does not distinguish (what "no change reported" means
in the model) have the same export. -/
theorem sameGit_export_eq (H : GObj → Sha) (a b : Children) (h : sameGitC a b = true) :
    expRoot H a = expRoot H b := by
  simp only [expRoot, rootObj, sameGit_expChildren H a b h]

/-- **incremental = scratch.**  For every tree, every first parent (with the
root tree id recorded for it, which must be that parent's export), every list
of further parents and every SHA map that is correct for the leaves of the
tree and of the further parents, the root tree id produced by the incremental
conversion is the from-scratch one. -/
theorem incr_eq_scratch (H : GObj → Sha) (cache : Cache) (base : Option (Children × Sha))
    (others : List Children) (t : Children)
    (hc : cacheOK H cache (leavesC t ++ others.flatMap leavesC) = true)
    (hb : ∀ b s, base = some (b, s) → s = expRoot H b) :
    incrRoot H cache base others t = expRoot H t := by
  have hch := incrChildren_eq H cache
  unfold incrRoot
  cases base with
  | none =>
    simp only [expRoot, rootObj]
    rw [incrChildren_eq H cache none others _ hc (fun x hx => by simp [hx]) t [] (fun x hx => by simp [hx])]
  | some bs =>
    obtain ⟨b, s⟩ := bs
    simp only
    split
    · rename_i hs
      rw [hb b s rfl]
      exact sameGit_export_eq H b t hs
    · simp only [expRoot, rootObj]
      rw [incrChildren_eq H cache (some b) others _ hc (fun x hx => by simp [hx]) t [] (fun x hx => by simp [hx])]

/-- non-vacuity: a tree with a nested directory, a merge parent holding the same
text under another revision, and a cache that knows one key and misses the
others satisfies the hypotheses (with `H` = the structural identity) -/
def exH : GObj → Sha
  | .blob d => 0 :: d
  | .tree es => 1 :: es.flatMap fun e => e.name ++ e.sha

def exTree : Children :=
  .cons [100] (.dir (.cons [102] (.file ⟨[1], [9]⟩ [104, 105] false none) .nil))
    (.cons [103] (.link ⟨[2], [8]⟩ [116] none) .nil)

def exOther : Children := .cons [120] (.file ⟨[1], [7]⟩ [104, 105] true none) .nil

example : cacheOK exH [(⟨[1], [7]⟩, 0 :: [104, 105])] (leavesC exTree ++ [exOther].flatMap leavesC) = true := by
  decide

example : incrRoot exH [(⟨[1], [7]⟩, 0 :: [104, 105])] (some (exOther, expRoot exH exOther)) [exOther] exTree
    = expRoot exH exTree := by decide

/-- the hypothesis is needed: a wrong cached id changes the result -/
example : incrRoot exH [(⟨[1], [9]⟩, [66])] (some (exTree, expRoot exH exTree)) []
    (.cons [110] (.file ⟨[5], [5]⟩ [] false none) exTree)
    ≠ expRoot exH (.cons [110] (.file ⟨[5], [5]⟩ [] false none) exTree) := by decide

/-! ### whole histories: the SHA map as an invariant -/

/-- **every recorded root id of every history is the from-scratch id.**  For
every history (revisions in topological order, any number of parents given by
position, parents that are not earlier revisions skipped), every choice of
entries that disappear from (or never reach) the SHA map between two
conversions and every `H`: if `(file_id, revision)` identifies one text
throughout the history (`keysFunctional`, the repository invariant), then
running `_update_sha_map` from an empty map records for *every* revision
exactly the root tree id of its from-scratch conversion — and the SHA map it
ends with is correct for every text of the history.  The per-step hypotheses
of `incr_eq_scratch` (`cacheOK`, the base id) are discharged here by induction
over the history. -/
theorem run_history_roots (H : GObj → Sha) (h : List Rev)
    (hk : keysFunctional (histLeaves h) = true) :
    (runHist H HState.empty h).roots = h.map (fun r => expRoot H r.tree) ∧
      cacheOK H (runHist H HState.empty h).cache (histLeaves h) = true := by
  have hall : ∀ r ∈ h, ∀ x ∈ leavesC r.tree, x ∈ histLeaves h := by
    intro r hr x hx
    simp only [histLeaves, List.mem_flatMap]
    exact ⟨r, hr, hx⟩
  have h0 : HInv H (histLeaves h) HState.empty := by
    refine ⟨rfl, ?_, ?_⟩
    · rw [cacheOK_iff]
      intro k p s _ hg
      simp [HState.empty, Cache.get] at hg
    · intro t ht
      simp [HState.empty] at ht
  obtain ⟨h1, h2, _⟩ := runHist_inv H (histLeaves h) hk h HState.empty h0 hall
  refine ⟨?_, h2⟩
  rw [h1, runHist_trees]
  simp [HState.empty]

/-- the same from any state that satisfies the invariant (a SHA map left by an
earlier run, e.g. the on-disk index of the repository) -/
theorem run_history_from (H : GObj → Sha) (s : HState) (h : List Rev)
    (hk : keysFunctional (s.trees.flatMap leavesC ++ histLeaves h) = true)
    (hr : s.roots = s.trees.map (expRoot H))
    (hc : cacheOK H s.cache (s.trees.flatMap leavesC ++ histLeaves h) = true) :
    (runHist H s h).roots = (s.trees ++ h.map (·.tree)).map (expRoot H) := by
  have hall : ∀ r ∈ h, ∀ x ∈ leavesC r.tree, x ∈ s.trees.flatMap leavesC ++ histLeaves h := by
    intro r hr x hx
    simp only [histLeaves, List.mem_append, List.mem_flatMap]
    exact Or.inr ⟨r, hr, hx⟩
  have h0 : HInv H (s.trees.flatMap leavesC ++ histLeaves h) s := by
    refine ⟨hr, hc, ?_⟩
    intro t ht x hx
    simp only [List.mem_append, List.mem_flatMap]
    exact Or.inl ⟨t, ht, hx⟩
  obtain ⟨h1, _, _⟩ := runHist_inv H _ hk h s h0 hall
  rw [h1, runHist_trees]

/-- non-vacuity: a three-revision history with a merge (revision 2 has parents
1 and 0, takes the text of revision 0 under its key), an evicted entry and a
parent position that is not present (7) -/
def exHist : List Rev :=
  [⟨[], [], exOther⟩,
   ⟨[0], [⟨[1], [7]⟩], exTree⟩,
   ⟨[1, 0, 7], [], .cons [120] (.file ⟨[1], [7]⟩ [104, 105] true none) exTree⟩]

example : keysFunctional (histLeaves exHist) = true := by decide

example : (runHist exH HState.empty exHist).roots = exHist.map (fun r => expRoot exH r.tree) := by decide

/-- the hypothesis is needed: when one key names two texts, a revision gets the
id of the wrong blob -/
theorem run_history_keys_witness :
    let h : List Rev := [⟨[], [], .cons [97] (.file ⟨[1], [1]⟩ [2] false none) .nil⟩,
      ⟨[], [], .cons [97] (.file ⟨[1], [1]⟩ [1] false none) .nil⟩,
      ⟨[0], [], .cons [97] (.file ⟨[1], [1]⟩ [2] false none) (.cons [98] (.file ⟨[2], [2]⟩ [] false none) .nil)⟩]
    keysFunctional (histLeaves h) = false ∧
      (runHist exH HState.empty h).roots ≠ h.map (fun r => expRoot exH r.tree) := by
  decide

/-! ### the objects a conversion yields (file-id based model of `_tree_to_objects`) -/

/-- **every yielded tree object is the right one.**  For every tree, base,
other parents and every SHA map that is correct for the leaves of the tree and
of the other parents: the object yielded for a dirty directory `p` is filed
under `p` and is exactly the tree object the from-scratch export builds for the
directory at `p` (whatever the SHA map held and whichever entries
`iter_changes` reported). -/
theorem yielded_tree_correct (H : GObj → Sha) (cache : Cache) (es0 : List Ent) (others : List FTree) (t : FTree)
    (ls : List (Key × Bytes)) (hc : cacheOK H cache ls = true)
    (hl : ∀ x ∈ leavesC (eraseC t.cs), x ∈ ls)
    (ho : ∀ x ∈ others.flatMap (fun o => leavesC (eraseC o.cs)), x ∈ ls)
    (p q : Path) (s : Sha) (h : dirtyTree H cache es0 others t p = some (q, s)) :
    q = p ∧ ∃ e f cs, entAtPath t.ents p = some e ∧ e.node = .dir f cs ∧
      s = H (.tree (sortEntries (expChildren H (eraseC cs)))) := by
  unfold dirtyTree at h
  split at h
  · rename_i fid path pa nm f cs hent
    have hm := (entAtPath_mem hent).1
    have hsub := ftree_dir_leaves t _ hm f cs rfl
    have heq := yExpC_eq H cache es0 others ls hc ho cs f (fun x hx => hl x (hsub x hx))
    rw [heq] at h
    dsimp only at h
    split at h
    · simp only [Option.some.injEq, Prod.mk.injEq] at h
      exact ⟨h.1.symm, _, f, cs, hent, rfl, h.2.symm⟩
    · split at h
      · simp at h
      · simp only [Option.some.injEq, Prod.mk.injEq] at h
        exact ⟨h.1.symm, _, f, cs, hent, rfl, h.2.symm⟩
  · simp at h

/-- **the yielded root is the from-scratch root.**  Whenever the conversion
against any base and any other parents yields a root tree at all, its id is the
id of the from-scratch export of the tree — the file-id based model of what is
*sent* agrees with the path based model of what is *recorded* (`incrRoot`,
`expRoot`). -/
theorem yielded_root_eq_scratch (fb : Variant) (H : GObj → Sha) (cache : Cache) (base : Option FTree)
    (others : List FTree) (t : FTree)
    (hc : cacheOK H cache (leavesC (eraseC t.cs) ++ others.flatMap (fun o => leavesC (eraseC o.cs))) = true)
    (s : Sha) (h : yieldedRoot fb H cache base others t = some s) : s = expRoot H (eraseC t.cs) := by
  unfold yieldedRoot at h
  simp only [Option.map_eq_some_iff] at h
  obtain ⟨x, hfind, rfl⟩ := h
  have hmem := List.mem_of_find?_eq_some hfind
  have hemp : x.1 = [] := by
    have := List.find?_some hfind
    simpa using this
  unfold yielded at hmem
  simp only [List.mem_append, List.mem_filterMap] at hmem
  rcases hmem with ⟨c, hcm, hx⟩ | ⟨p, _, hx⟩
  · exact absurd hemp (changeBlob_path_ne fb H cache base others t c hcm x hx)
  · obtain ⟨q, s⟩ := x
    simp only at hemp
    subst hemp
    obtain ⟨hp, e, f, cs, hent, hnode, hs⟩ := yielded_tree_correct H cache _ others t _ hc
      (fun x hx => by simp [hx]) (fun x hx => by simp only [List.mem_append]; exact Or.inr hx) p [] s hx
    subst hp
    rw [entAtPath_root] at hent
    simp only [Option.some.injEq] at hent
    subst hent
    simp only [FNode.dir.injEq] at hnode
    obtain ⟨_, rfl⟩ := hnode
    simpa [expRoot, rootObj] using hs

/-- non-vacuity: a directory is renamed and one of its children removed in the
same revision (the history of finding R2): the renamed directory is dirty at
its old path `d` (gone) *and* at its new path `z`, and the root is yielded with
the from-scratch id -/
def exFBase : FTree :=
  ⟨[0], .cons [100] (.dir [10] (.cons [102] (.file ⟨[1], [9]⟩ [104] false)
      (.cons [103] (.file ⟨[2], [9]⟩ [105] false) .nil))) .nil⟩

def exFTree : FTree :=
  ⟨[0], .cons [122] (.dir [10] (.cons [103] (.file ⟨[2], [9]⟩ [105] false) .nil)) .nil⟩

example : dirtyDirs ⟨false, false⟩ (some exFBase) exFTree = [[], [[100]], [[122]]] ∧
    (yielded ⟨false, false⟩ exH [] (some exFBase) [] exFTree).map (·.1) = [[], [[122]]] ∧
    yieldedRoot ⟨false, false⟩ exH [] (some exFBase) [] exFTree = some (expRoot exH (eraseC exFTree.cs)) := by decide

/-- **the yielded set is not complete in the code as found** (finding
symlink-renamed-from-banned-name): a symlink called `.git` — never exported —
is renamed to `l` without a change of its target; the conversion yields the
two trees but not the symlink's blob, which no parent's export contains
either.  With the repair (`fixBanned`) the blob is yielded. -/
theorem yield_incomplete_witness :
    let base : FTree := ⟨[0], .cons [103] (.dir [10] (.cons [0x2e, 0x67, 0x69, 0x74] (.link ⟨[1], [9]⟩ [120])
      (.cons [122] (.file ⟨[2], [9]⟩ [105] false) .nil))) .nil⟩
    let t : FTree := ⟨[0], .cons [103] (.dir [10] (.cons [108] (.link ⟨[1], [9]⟩ [120])
      (.cons [122] (.file ⟨[2], [9]⟩ [105] false) .nil))) .nil⟩
    (exH (.blob [120]), GObj.blob [120]) ∈ objsRoot exH (eraseC t.cs) ∧
      (exH (.blob [120]), GObj.blob [120]) ∉ objsRoot exH (eraseC base.cs) ∧
      exH (.blob [120]) ∉ (yielded ⟨false, false⟩ exH [] (some base) [] t).map (·.2) ∧
      exH (.blob [120]) ∈ (yielded ⟨true, false⟩ exH [] (some base) [] t).map (·.2) := by decide

/-- **incremental ≠ scratch in the code as found** (finding
entry-renamed-to-banned-name): the only change of a revision is that the file
`g` is renamed to `e/.git`.  The change is skipped as a whole, nothing is
yielded, and the revision records its parent's root tree — in which `g` still
exists — although the from-scratch export differs.  With the repair the root is
rebuilt and is the from-scratch one. -/
theorem recorded_root_banned_rename_witness :
    let base : FTree := ⟨[0], .cons [101] (.dir [10] (.cons [122] (.file ⟨[2], [9]⟩ [105] false) .nil))
      (.cons [103] (.file ⟨[1], [9]⟩ [120] false) .nil)⟩
    let t : FTree := ⟨[0], .cons [101] (.dir [10] (.cons [0x2e, 0x67, 0x69, 0x74] (.file ⟨[1], [9]⟩ [120] false)
      (.cons [122] (.file ⟨[2], [9]⟩ [105] false) .nil))) .nil⟩
    let b := expRoot exH (eraseC base.cs)
    yielded ⟨false, false⟩ exH [] (some base) [] t = [] ∧
      recordedRoot ⟨false, false⟩ exH [] (some (base, b)) [] t = b ∧
      b ≠ expRoot exH (eraseC t.cs) ∧
      recordedRoot ⟨false, true⟩ exH [] (some (base, b)) [] t = expRoot exH (eraseC t.cs) := by decide

/-
Full statement that is NOT proved (kept as the goal; the check evaluates it on
every generated revision through the driver's `yield` op, and the push oracle
checks its consequence on the real repository):

  theorem yield_complete (H) (cache) (base : Option FTree) (others : List FTree) (t : FTree)
      (hfid : file ids are unique in `t` and in `base`, sibling names are unique and sorted)
      (hban : no entry of `base` or `t` is called `.git`  -- or the repaired variants, see yield_incomplete_witness, recorded_root_banned_rename_witness)
      (hc : cacheOK H cache …) (hy : (yieldedRoot fb H cache base others t).isSome) :
      ∀ o ∈ objsRoot H (eraseC t.cs),
        o.1 ∈ (yielded fb H cache base others t).map (·.2) ∨
        (∃ b, base = some b ∧ o ∈ objsRoot H (eraseC b.cs)) ∨
        ∃ p ∈ others, o ∈ objsRoot H (eraseC p.cs)

What is missing is the file-id/path bookkeeping: that a directory which is not
dirty has, by file id, the same children in the base (no child entered, left,
was renamed or changed), hence the same tree object.  `yielded_tree_correct`
and `yielded_root_eq_scratch` are the parts about the objects that ARE yielded.
-/

/-! ### export / import round trip -/

/-- **import ∘ export.**  For every tree whose final modes are imported with
the kind they were exported with (`modesOKC`: true of the default modes and of
every recorded unusual mode of a file or link), every `H` and every object
store that contains the exported objects, holds every object under its own id
and holds no two different objects with the same id (`hinj`: the only thing
asked of the hash — no collision *inside the store*), importing the exported root id gives the
canonical form of the tree: file ids, banned names and directories without a
represented descendant are dropped, children are in git order, contents,
targets and modes are unchanged.  Holds for every fuel ≥ the depth. -/
theorem export_import_tree (H : GObj → Sha) (t : Children)
    (hm : modesOKC t = true) (st : Store)
    (hinj : ∀ p ∈ st, ∀ q ∈ st, H p.2 = H q.2 → p.2 = q.2) (hwf : ∀ p ∈ st, p.1 = H p.2)
    (hsub : ∀ p ∈ objsRoot H t, p ∈ st) (fuel : Nat) (hf : depthC t ≤ fuel) :
    impRoot st fuel (expRoot H t) = some (canonRoot H t) := by
  have hroot : st.get (expRoot H t) = some (rootObj H t) :=
    store_get_of_mem st hinj hwf (rootObj H t) (hsub _ (by simp [objsRoot, expRoot]))
  have hch := impChildren_exp H st hinj hwf t fuel hm hf (fun p hp => hsub p (by simp [objsRoot, hp]))
  have hsort := impList_sort (impEntry st fuel) (impEntry_key st fuel) _ _ hch
  simp only [impRoot, hroot, rootObj, impEntries, canonRoot]
  exact hsort

/-- the store made of exactly the exported objects qualifies -/
theorem objsRoot_wf (H : GObj → Sha) (t : Children) : ∀ p ∈ objsRoot H t, p.1 = H p.2 := by
  intro p hp
  simp only [objsRoot, List.mem_cons] at hp
  rcases hp with rfl | hp
  · rfl
  · exact objsChildren_wf H t p hp

/-- more fuel does not change a successful import (partial: stated for the
export of a tree, which is all the round trip needs; the general monotonicity
of `impEntry` in the fuel for arbitrary stores is not proved) -/
theorem import_fuel_mono_partial (H : GObj → Sha) (t : Children)
    (hinj : ∀ p ∈ objsRoot H t, ∀ q ∈ objsRoot H t, H p.2 = H q.2 → p.2 = q.2)
    (hm : modesOKC t = true) (f g : Nat) (hf : depthC t ≤ f) (hg : depthC t ≤ g) :
    impRoot (objsRoot H t) f (expRoot H t) = impRoot (objsRoot H t) g (expRoot H t) := by
  rw [export_import_tree H t hm _ hinj (objsRoot_wf H t) (fun _ h => h) f hf,
    export_import_tree H t hm _ hinj (objsRoot_wf H t) (fun _ h => h) g hg]

/-- **re-export reproduces the ids.**  Exporting the canonical form (what a
fetch from git stores) gives the root id the tree was exported with; together
with `export_import_tree`: `export (import (export t)) = export t`, for every
tree and every `H` without a collision among the exported objects. -/
theorem reexport_canon (H : GObj → Sha) (t : Children) (hm : modesOKC t = true) :
    expRootP H (canonRoot H t) = expRoot H t := by
  obtain ⟨h1, h2⟩ := canonChildren_expPL H t hm
  have hsort := expPL_sort H (canonChildren H t) h2
  simp only [expRootP, canonRoot, expRoot, rootObj, hsort, h1]
  simp [sortEntries, sortBy_idem]

/-- the hypotheses of the round trip hold for a tree with an empty directory, a
banned name and a directory sorting between `ab-` and `ab0` -/
def exH2 : GObj → Sha
  | .blob d => 0 :: d.length.toUInt8 :: d
  | .tree es => 1 :: es.flatMap fun e =>
      [e.mode.toUInt8, (e.mode / 256).toUInt8, (e.mode / 65536).toUInt8, e.name.length.toUInt8] ++ e.name
        ++ [e.sha.length.toUInt8] ++ e.sha

def exTree2 : Children :=
  .cons [97, 98, 48] (.file ⟨[1], [1]⟩ [1] true none)
    (.cons [97, 98] (.dir (.cons [120] (.link ⟨[2], [1]⟩ [2] none) (.cons [121] (.dir .nil) .nil)))
      (.cons [97, 98, 45] (.file ⟨[3], [1]⟩ [] false (some 0o100664))
        (.cons [0x2e, 0x67, 0x69, 0x74] (.file ⟨[4], [1]⟩ [4] false none) .nil)))

example : modesOKC exTree2 = true := by decide

example : ∀ p ∈ objsRoot exH2 exTree2, ∀ q ∈ objsRoot exH2 exTree2, exH2 p.2 = exH2 q.2 → p.2 = q.2 := by
  decide

example : (canonRoot exH2 exTree2).map (·.1) = [[97, 98, 45], [97, 98], [97, 98, 48]] := by decide

example : (impRoot (objsRoot exH2 exTree2) (depthC exTree2) (expRoot exH2 exTree2)).map (fun cs => cs.map (·.1))
    = some [[97, 98, 45], [97, 98], [97, 98, 48]] := by decide

/-! ### git-first trees reproduce their ids -/

/-- **export ∘ import, for every well-formed git tree.**  Take any object
store in which every object is filed under its own id (`hwf`) and any root id
whose tree is well-formed in the sense of `gitTreeOK` (entries in git order, no
`.git` name, no submodule, subtrees with mode `040000`, present and non-empty;
*any* file and symlink modes).  If the fetch succeeds (`impRoot … = some p`),
then exporting the fetched tree — converted to inventory entries the way
`import_git_blob` does (`nativeOfL`: kind from the mode class, executable from
the mode, non-default modes recorded as unusual) — with the from-scratch
export `expRoot` gives back exactly the original root id.  No injectivity of
`H` is needed in this direction; this is `mode_roundtrip_git` composed with the
tree export. -/
theorem import_export_git (H : GObj → Sha) (st : Store) (hwf : ∀ p ∈ st, p.1 = H p.2)
    (fuel : Nat) (root : Sha) (p : List (Bytes × PNode))
    (himp : impRoot st fuel root = some p) (hok : gitTreeOK st fuel root = true) :
    expRoot H (nativeOfL p) = root := by
  unfold impRoot at himp
  unfold gitTreeOK at hok
  split at himp
  · rename_i es hget
    simp only [hget, Bool.and_eq_true] at hok
    have hch := impList_native H (impEntry st fuel) (entryOK st fuel) (impEntry_native H st hwf fuel) es p himp hok.2
    have hid : root = H (.tree es) := hwf _ (storeGet_mem st root _ hget)
    simp only [expRoot, rootObj, hch, sortEntries, sortBy_id_of_sorted' Entry.key es hok.1, hid]
  · simp at himp

/-- non-vacuity: a store with a nested tree, an unusual file mode (`100664`), an
executable and a symlink with an odd mode -/
def exStore : Store :=
  let b1 : GObj := .blob [1]
  let b2 : GObj := .blob [2]
  let sub : GObj := .tree [⟨0o100755, [120], exH2 b1⟩, ⟨0o120777, [121], exH2 b2⟩]
  let root : GObj := .tree [⟨0o100664, [97, 98, 45], exH2 b2⟩, ⟨S_IFDIR, [97, 98], exH2 sub⟩, ⟨0o100644, [97, 98, 48], exH2 b1⟩]
  [(exH2 root, root), (exH2 sub, sub), (exH2 b1, b1), (exH2 b2, b2)]

def exStoreRoot : Sha := (exStore.head?.map (·.1)).getD []

example : (∀ p ∈ exStore, p.1 = exH2 p.2) ∧ gitTreeOK exStore 2 exStoreRoot = true ∧
    (impRoot exStore 2 exStoreRoot).isSome = true := by decide

example : (impRoot exStore 2 exStoreRoot).map (fun p => expRoot exH2 (nativeOfL p)) = some exStoreRoot := by
  decide

/-- the well-formedness hypothesis is needed: a tree whose entries are not in
git order is fetched, but re-exported (sorted) under another id -/
theorem import_export_git_unsorted_witness :
    let b : GObj := .blob [1]
    let root : GObj := .tree [⟨0o100644, [98], exH2 b⟩, ⟨0o100644, [97], exH2 b⟩]
    let st : Store := [(exH2 root, root), (exH2 b, b)]
    gitTreeOK st 1 (exH2 root) = false ∧
      (impRoot st 1 (exH2 root)).map (fun p => decide (expRoot exH2 (nativeOfL p) = exH2 root)) = some false := by
  decide

/-! ### what the round trip preserves -/

/-- **the canonical form has exactly the items of the tree.**  For every tree
without recorded unusual modes (every native history) the canonical form
`canonRoot` — which `export_import_tree` shows to be what push + fetch gives
back — has, up to order, exactly the items of the original tree as the
specification `itemsNC` lists them independently of the export: every file with
its path, content and executable bit, every symlink with its path and target,
and every directory that contains a file or symlink; nothing else.  (Entries
named `.git` are the one exclusion: git cannot hold them.) -/
theorem canon_items (H : GObj → Sha) (t : Children) (hp : plainC t = true) :
    (itemsPL [] (canonRoot H t)).Perm (itemsNC [] t) :=
  (itemsPL_sort [] _).trans (canon_items_children H t [] hp)

/-- **push + fetch preserves paths, contents, executable bits and symlink
targets**: `export_import_tree` and `canon_items` together, with the mode
hypothesis discharged for native trees. -/
theorem roundtrip_items (H : GObj → Sha) (t : Children) (hp : plainC t = true) (st : Store)
    (hinj : ∀ p ∈ st, ∀ q ∈ st, H p.2 = H q.2 → p.2 = q.2) (hwf : ∀ p ∈ st, p.1 = H p.2)
    (hsub : ∀ p ∈ objsRoot H t, p ∈ st) (fuel : Nat) (hf : depthC t ≤ fuel) :
    ∃ back, impRoot st fuel (expRoot H t) = some back ∧ (itemsPL [] back).Perm (itemsNC [] t) :=
  ⟨canonRoot H t, export_import_tree H t (plainC_modesOKC t hp) st hinj hwf hsub fuel hf, canon_items H t hp⟩

/-- non-vacuity: the tree below has an empty directory, a directory holding
only an empty directory, a `.git` entry, an executable and a symlink -/
def exTree3 : Children :=
  .cons [97, 98, 48] (.file ⟨[1], [1]⟩ [1] true none)
    (.cons [97, 98] (.dir (.cons [120] (.link ⟨[2], [1]⟩ [2] none) (.cons [121] (.dir .nil) .nil)))
      (.cons [101] (.dir (.cons [102] (.dir .nil) .nil))
        (.cons [0x2e, 0x67, 0x69, 0x74] (.file ⟨[4], [1]⟩ [4] false none) .nil)))

example : plainC exTree3 = true := by decide

example : itemsNC [] exTree3 =
    [⟨[[97, 98, 48]], .file, [1], true⟩, ⟨[[97, 98]], .dir, [], false⟩, ⟨[[97, 98], [120]], .link, [2], false⟩] := by
  decide

/-- `plainC` is needed for the executable bit: with a recorded unusual mode the
mode wins over the inventory's flag (a fetched `100664` file marked executable
by hand comes back non-executable) -/
theorem canon_items_unusual_witness :
    let t : Children := .cons [97] (.file ⟨[1], [1]⟩ [1] true (some 0o100664)) .nil
    plainC t = false ∧ itemsPL [] (canonRoot exH2 t) ≠ itemsNC [] t := by
  decide

/-! ### sorting (git order of tree entries) -/

/-- the entries of every tree object the model writes are in key order -/
theorem sortBy_sorted {α : Type} (key : α → Bytes) (l : List α) : sortedBy key (sortBy key l) = true :=
  sortBy_sorted' key l

/-- sorting does not disturb a list that is already in key order (so a tree
read from git is re-serialised unchanged) -/
theorem sortBy_id_of_sorted {α : Type} (key : α → Bytes) (l : List α) (h : sortedBy key l = true) :
    sortBy key l = l :=
  sortBy_id_of_sorted' key l h

example : sortedBy Entry.key [⟨0o100644, [97, 98, 45], []⟩, ⟨S_IFDIR, [97, 98], []⟩, ⟨0o100644, [97, 98, 48], []⟩] = true := by
  decide

/-! ### modes -/

/-- kind/executable → git mode → kind/executable, for every kind and flag -/
theorem mode_roundtrip (k : Kind) (x : Bool) :
    modeKind (objectMode k x) = some k ∧ modeIsExecutable (objectMode .file x) = x := by
  cases k <;> cases x <;> decide

/-- what the import dispatch does with an exported default mode: same kind, and
the executable flag of a file -/
theorem mode_kind_agrees_with_import (k : Kind) (x : Bool) :
    (importClass (objectMode k x)).kind = k ∧
      importExec (objectMode k x) = (decide (k = .file) && x) := by
  cases k <;> cases x <;> decide

/-- git mode → (kind, executable, recorded unusual mode) → git mode, for
**every** mode: a default mode is rebuilt by `object_mode`, any other mode is
recorded per path and written back verbatim -/
theorem mode_roundtrip_git (m : Nat) :
    exportMode (unusualOf m) (importClass m).kind (importExec m) = m := by
  unfold unusualOf
  split
  · rename_i h
    simp only [defaultModes, List.contains_cons, List.contains_nil, Bool.or_false, Bool.or_eq_true,
      beq_iff_eq] at h
    rcases h with h | h | h | h | h <;> subst h <;> decide
  · rfl

example : unusualOf 0o100664 = some 0o100664 ∧ importExec 0o100775 = true ∧ unusualOf 0o100755 = none := by
  decide

end BreezyVerif.C35
