import BreezyVerif.Common
import BreezyVerif.Model.C39
namespace BreezyVerif.C39

/-- list of byte strings: hex items separated by `,`; `~` = empty list, `-` = empty string -/
def parseBL (s : String) : Option (List Bytes) :=
  if s == "~" then some [] else (s.splitOn ",").mapM fromHex

def showBL (l : List Bytes) : String :=
  if l.isEmpty then "~" else ",".intercalate (l.map toHex)

def parseTag (s : String) : Option Tag :=
  if s == "e" then some .equal else if s == "r" then some .replace
  else if s == "d" then some .delete else if s == "i" then some .insert else none

def showTag : Tag → String
  | .equal => "e" | .replace => "r" | .delete => "d" | .insert => "i"

def parseOp (s : String) : Option Op :=
  match s.splitOn ":" with
  | [t, a, b, c, d] => do
    let t ← parseTag t
    let a ← a.toNat?; let b ← b.toNat?; let c ← c.toNat?; let d ← d.toNat?
    pure ⟨t, a, b, c, d⟩
  | _ => none

def showOp (o : Op) : String := s!"{showTag o.tag}:{o.i1}:{o.i2}:{o.j1}:{o.j2}"

/-- groups separated by `|`, opcodes by `;`; `~` = no groups, `_` = an empty group -/
def parseGroups (s : String) : Option (List Group) :=
  if s == "~" then some [] else
  (s.splitOn "|").mapM (fun g => if g == "_" then some [] else (g.splitOn ";").mapM parseOp)

def showGroups (gs : List Group) : String :=
  if gs.isEmpty then "~" else
  "|".intercalate (gs.map fun g => if g.isEmpty then "_" else ";".intercalate (g.map showOp))

def parseBlocks (s : String) : Option (List Block) :=
  if s == "~" then some [] else
  (s.splitOn ";").mapM fun b =>
    match b.splitOn ":" with
    | [i, j, n] => do
      let i ← i.toNat?; let j ← j.toNat?; let n ← n.toNat?
      pure ⟨i, j, n⟩
    | _ => none

def showPErr : PErr → String
  | .noInput => "E:NoInput" | .header => "E:Header" | .syntax => "E:Syntax" | .hunkHeader => "E:HunkHeader"
  | .negRange => "E:HunkHeader" | .malformedLine => "E:MalformedLine" | .truncated => "E:Truncated"
  | .noNlFirst => "E:NoNlPanic" | .unsupported => "unsupported"

def showAErr : ApplyErr → String
  | .conflict n => s!"E:Conflict:{n}"

def showHLine : HLine → String
  | .ctx l => "c" ++ toHex l
  | .ins l => "+" ++ toHex l
  | .rem l => "-" ++ toHex l

def showHunk (h : Hunk) : String :=
  let t := match h.tail with | some t => toHex t | none => "~"
  ";".intercalate (s!"{h.origPos}:{h.origRange}:{h.modPos}:{h.modRange}:{t}" :: h.lines.map showHLine)

def showHunks (hs : List Hunk) : String :=
  if hs.isEmpty then "~" else "|".intercalate (hs.map showHunk)

def handle : List String → String
  | ["diff", a, b, gs] =>
    match parseBL a, parseBL b, parseGroups gs with
    | some a, some b, some gs =>
      match mkHunks a b gs with
      | some hs => showBL (diffLines hs)
      | none => "E:IndexError"
    | _, _, _ => "bad-op"
  | ["hunks", a, b, gs] =>
    match parseBL a, parseBL b, parseGroups gs with
    | some a, some b, some gs =>
      match mkHunks a b gs with
      | some hs => showHunks hs
      | none => "E:IndexError"
    | _, _, _ => "bad-op"
  | ["vg", a, b, gs] =>
    match parseBL a, parseBL b, parseGroups gs with
    | some a, some b, some gs => showBool (validGroups a b gs)
    | _, _, _ => "bad-op"
  | ["vb", a, b, ks] =>
    match parseBL a, parseBL b, parseBlocks ks with
    | some a, some b, some ks => showBool (validBlocks a b ks)
    | _, _, _ => "bad-op"
  | ["grouped", la, lb, ks, n] =>
    match la.toNat?, lb.toNat?, parseBlocks ks, n.toNat? with
    | some la, some lb, some ks, some n => showGroups (grouped n (opcodes la lb ks))
    | _, _, _, _ => "bad-op"
  | ["parse", ls] =>
    match parseBL ls with
    | some ls => match parsePatch ls with
      | .ok hs => showHunks hs
      | .error e => showPErr e
    | none => "bad-op"
  | ["reprint", ls] =>
    match parseBL ls with
    | some ls => match parsePatch ls with
      | .ok hs => showBL (patchLines hs)
      | .error e => showPErr e
    | none => "bad-op"
  | ["stats", ls] =>
    match parseBL ls with
    | some ls => match parsePatch ls with
      | .ok hs => let s := stats hs; s!"{s.1} {s.2.1} {s.2.2}"
      | .error e => showPErr e
    | none => "bad-op"
  | ["splitnl", d] =>
    match fromHex d with
    | some d => showBL (splitNL d)
    | none => "bad-op"
  | ["apply", orig, ls] =>
    match parseBL orig, parseBL ls with
    | some orig, some ls =>
      match iterPatched orig ls with
      | .ok r => "ok " ++ showBL r
      | .error (.parse e) => showPErr e
      | .error (.apply e) => showAErr e
    | _, _ => "bad-op"
  | _ => "bad-op"

end BreezyVerif.C39

def main : IO Unit := BreezyVerif.runDriver BreezyVerif.C39.handle
