import BreezyVerif.Common
import BreezyVerif.Model.C21
/-
C21 driver.

graph  = entries joined by `;` (newest first), entry = `<rev>:<p1>,<p2>…` (`<rev>:` = no
         parents), `-` = empty graph
tip    = `~` (null:) | <rev>
stop   = `N` (stop_revision=None) | tip
branch = `<tip>/<revno>/<appendOnly T|F>`;  master = `-` | branch

  bzr <pull|push> <graph> <src branch> <tgt branch> <master> <stop> <overwrite T|F>
      -> `<ok|E:…> <tgt tip>/<revno> <master tip>/<revno>|-`
  bzrx <graph> <src branch> <tgt branch> <master> <stop> <overwrite T|F> <local T|F> <source-is-master T|F>
      -> as `bzr pull`, for `pull(local=…)` and a pull from the master itself (master = the source then)
  seq <graph> <branches joined by ,> <ops joined by ,>
      op = `<pull|push>:<src index>:<tgt index>:<master index|->:<stop>:<overwrite T|F>`
      -> after every op the state of all branches: `<tip>/<revno>,…` joined by `;`
  git <graph> <last tip> <revid tip> <overwrite T|F>      -> `<ok|E:…> <tip>`
  rel <graph> <a tip> <b tip>
      -> `<isAnc a b> <isAnc b a> <heads [a,b] sorted> <relation> <lefthand b|ghost> <revnoOf b|~> <present b>`
  relraw <heads tips list> <a tip> <b tip>                 -> `<relation> <T|F|E:…>` (decision functions alone)
  fua <graph> <u> <commons list>                           -> sorted unique ancestors
  lhfind <graph> <r> <t>                                   -> found|exhausted|ghost
A graph that is not in reverse topological order is answered with `not-wf`.
-/
namespace BreezyVerif.C21

def parseEntry (s : String) : Option (Rev × List Rev) :=
  match s.splitOn ":" with
  | [n, ps] => do
    let n ← n.toNat?
    let ps ← if ps.isEmpty then some [] else (ps.splitOn ",").mapM String.toNat?
    pure (n, ps)
  | _ => none

def parseGraph (s : String) : Option Graph :=
  if s == "-" then some [] else (s.splitOn ";").mapM parseEntry

def parseTip (s : String) : Option Tip :=
  if s == "~" then some none else s.toNat?.map some

def parseStop (s : String) : Option (Option Tip) :=
  if s == "N" then some none else (parseTip s).map some

def showTip : Tip → String
  | none => "~"
  | some r => toString r

def parseBr (s : String) : Option Br :=
  match s.splitOn "/" with
  | [t, n, a] => do
    let t ← parseTip t
    let n ← n.toNat?
    let a ← parseBool a
    pure { tip := t, revno := n, appendOnly := a }
  | _ => none

def parseMaster (s : String) : Option (Option Br) :=
  if s == "-" then some none else (parseBr s).map some

def showBr (b : Br) : String := s!"{showTip b.tip}/{b.revno}"

def showOutcome (o : Outcome) : String :=
  let e := match o.err with | none => "ok" | some e => e.toString
  let m := match o.master with | none => "-" | some m => showBr m
  s!"{e} {showBr o.tgt} {m}"

def tipKey : Tip → Nat
  | none => 0
  | some r => r + 1

def showTips (l : List Tip) : String :=
  joinList ((l.eraseDups.mergeSort fun a b => decide (tipKey a ≤ tipKey b)).map showTip)

def showRevs (l : List Rev) : String :=
  joinList ((l.eraseDups.mergeSort fun a b => decide (a ≤ b)).map toString)

def Relation.toString : Relation → String
  | .bDescendsFromA => "b_descends_from_a" | .diverged => "diverged"
  | .aDescendsFromB => "a_descends_from_b" | .invalid => "invalid"

def parseSeqOp (s : String) : Option Op :=
  match s.splitOn ":" with
  | [k, si, ti, mi, stop, ow] => do
    let si ← si.toNat?
    let ti ← ti.toNat?
    let mi ← if mi == "-" then some none else mi.toNat?.map some
    let stop ← parseStop stop
    let ow ← parseBool ow
    if k == "pull" then pure (.pull si ti mi stop ow)
    else if k == "push" then pure (.push si ti mi stop ow)
    else none
  | _ => none

def showState (s : List Br) : String := ",".intercalate (s.map showBr)

/-- the states after every operation -/
def runTrace (g : Graph) (s : List Br) : List Op → List String
  | [] => []
  | op :: rest => showState (step g s op) :: runTrace g (step g s op) rest

def handle : List String → String
  | ["bzrx", g, src, tgt, master, stop, ow, lo, sm] =>
    match parseGraph g, parseBr src, parseBr tgt, parseMaster master, parseStop stop, parseBool ow, parseBool lo,
        parseBool sm with
    | some g, some src, some tgt, some master, some stop, some ow, some lo, some sm =>
      if !wf g then "not-wf" else showOutcome (pullOpX g src tgt master stop ow lo sm)
    | _, _, _, _, _, _, _, _ => "bad-op"
  | ["seq", g, brs, ops] =>
    match parseGraph g, (brs.splitOn ",").mapM parseBr, (ops.splitOn ",").mapM parseSeqOp with
    | some g, some brs, some ops =>
      if !wf g then "not-wf" else ";".intercalate (runTrace g brs ops)
    | _, _, _ => "bad-op"
  | ["bzr", kind, g, src, tgt, master, stop, ow] =>
    match parseGraph g, parseBr src, parseBr tgt, parseMaster master, parseStop stop, parseBool ow with
    | some g, some src, some tgt, some master, some stop, some ow =>
      if !wf g then "not-wf"
      else if kind == "pull" then showOutcome (pullOp g src tgt master stop ow)
      else if kind == "push" then showOutcome (pushOp g src tgt master stop ow)
      else "bad-op"
    | _, _, _, _, _, _ => "bad-op"
  | ["git", g, last, revid, ow] =>
    match parseGraph g, parseTip last, parseTip revid, parseBool ow with
    | some g, some last, some revid, some ow =>
      if !wf g then "not-wf" else
      match updateTipGit g last revid ow with
      | .ok t => s!"ok {showTip t}"
      | .error e => s!"{e.toString} {showTip last}"
    | _, _, _, _ => "bad-op"
  | ["rel", g, a, b] =>
    match parseGraph g, parseTip a, parseTip b with
    | some g, some a, some b =>
      if !wf g then "not-wf" else
      let hs := heads g [a, b]
      let lh := match lhTip g b with
        | none => "ghost"
        | some l => joinList (l.map toString)
      s!"{showBool (isAnc g a b)} {showBool (isAnc g b a)} {showTips hs} {(revisionRelations hs a b).toString} {lh} {showOptNat (revnoOf g b)} {showBool (tipPresent g b)}"
    | _, _, _ => "bad-op"
  | ["relraw", hs, a, b] =>
    match (splitList hs).mapM parseTip, parseTip a, parseTip b with
    | some hs, some a, some b =>
      let rel := revisionRelations hs a b
      let chk := match checkRelation rel with
        | .ok v => showBool v
        | .error e => e.toString
      s!"{rel.toString} {chk}"
    | _, _, _ => "bad-op"
  | ["fua", g, u, cs] =>
    match parseGraph g, u.toNat?, parseNatList cs with
    | some g, some u, some cs =>
      if !wf g then "not-wf" else showRevs (findUniqueAncestors g u cs)
    | _, _, _ => "bad-op"
  | ["lhfind", g, r, t] =>
    match parseGraph g, r.toNat?, t.toNat? with
    | some g, some r, some t =>
      if !wf g then "not-wf" else
      match lhFind g r t with
      | .found => "found" | .exhausted => "exhausted" | .ghost => "ghost"
    | _, _, _ => "bad-op"
  | _ => "bad-op"

end BreezyVerif.C21

def main : IO Unit := BreezyVerif.runDriver BreezyVerif.C21.handle
