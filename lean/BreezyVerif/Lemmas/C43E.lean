import BreezyVerif.Lemmas.C43D
import BreezyVerif.Lemmas.C43B
/-!
C43 — helper lemmas, part 5: the phases of an incremental upload without
renames (removals with deferred directory deletions, kind changes, additions,
modifications) and the full upload, read through the listing `look`.
-/
namespace BreezyVerif.C43

theorem path_split (p : Path) (hp : p ≠ []) : p = p.dropLast ++ [p.getLast hp] :=
  (List.dropLast_concat_getLast hp).symm

theorem dropLast_snoc (par : Path) (x : String) : (par ++ [x]).dropLast = par := by simp

theorem isChildOf_iff (a b : Path) : isChildOf a b = true ↔ ∃ x, a = b ++ [x] := by
  unfold isChildOf
  constructor
  · intro h
    simp only [Bool.and_eq_true, bne_iff_ne, ne_eq, beq_iff_eq] at h
    obtain ⟨ha, hb⟩ := h
    refine ⟨a.getLast ha, ?_⟩
    have := path_split a ha
    rw [hb] at this
    exact this
  · rintro ⟨x, rfl⟩
    simp

/-! ### single steps -/

theorem exec_delete (c : Cfg) (t : Tree) (s : State) (p : Path) (o : Obs) (hp : p ≠ [])
    (h : look s.root p = some o) (ho : o ≠ .dir) :
    ∃ r', exec c t s (.delete p) = ({ s with root := r' }, none) ∧
      ∀ q, look r' q = if q = p then none else look s.root q := by
  rw [path_split p hp] at h ⊢
  obtain ⟨r', h1, h2⟩ := tDelete_spec s.root _ _ o h ho
  exact ⟨r', by simp [exec, lift, h1], h2⟩

theorem exec_rmdir (c : Cfg) (t : Tree) (s : State) (p : Path) (hp : p ≠ [])
    (h : look s.root p = some .dir) (hno : ∀ y, look s.root (p ++ [y]) = none) :
    ∃ r', exec c t s (.rmdir p) = ({ s with root := r' }, none) ∧
      ∀ q, look r' q = if q = p then none else look s.root q := by
  rw [path_split p hp] at h hno ⊢
  obtain ⟨r', h1, h2⟩ := (tRmdir_spec s.root _ _ h).1 hno
  exact ⟨r', by simp [exec, lift, h1], h2⟩

theorem exec_mkdir (c : Cfg) (t : Tree) (s : State) (p : Path) (hp : p ≠ [])
    (hpar : look s.root p.dropLast = some .dir) (h : look s.root p = none) :
    ∃ r', exec c t s (.mkdir p) = ({ s with root := r' }, none) ∧
      ∀ q, look r' q = if q = p then some .dir else look s.root q := by
  rw [path_split p hp] at h ⊢
  obtain ⟨r', h1, h2⟩ := tMkdir_spec s.root _ _ hpar h
  exact ⟨r', by simp [exec, lift, h1], h2⟩

theorem find_path {t : Tree} {p : Path} {e : TEnt} (h : t.find p = some e) : e.path = p := by
  unfold Tree.find at h
  have := List.find?_some h
  simpa using this

theorem find_mem {t : Tree} {p : Path} {e : TEnt} (h : t.find p = some e) : e ∈ t := by
  unfold Tree.find at h
  exact List.mem_of_find?_eq_some h

theorem exec_uploadFile (c : Cfg) (t : Tree) (s : State) (p : Path) (e : TEnt) (hp : p ≠ [])
    (he : t.find p = some e) (hk : e.kind = .file)
    (hpar : look s.root p.dropLast = some .dir) (h : look s.root p ≠ some .dir) :
    ∃ r', exec c t s (.uploadFile p p) = ({ s with root := r' }, none) ∧
      ∀ q, look r' q = if q = p then some e.obs else look s.root q := by
  rw [path_split p hp] at h
  obtain ⟨r', h1, h2⟩ := tPut_spec s.root _ _ e.content e.exec hpar h
  rw [← path_split p hp] at h1 h2
  refine ⟨r', by simp [exec, lift, doUploadFile, he, hk, h1], ?_⟩
  intro q; rw [h2 q]; simp [TEnt.obs, hk]

/-- `upload_symlink_robustly` onto a slot that holds no directory -/
theorem exec_symlinkRobust (c : Cfg) (t : Tree) (s : State) (p : Path) (tg : String) (hp : p ≠ [])
    (hrob : c.robustSymlinks = true ∨ look s.root p = none) (hbad : c.badLinks = [])
    (hpar : look s.root p.dropLast = some .dir) (h : look s.root p ≠ some .dir) :
    ∃ r', exec c t s (.symlinkRobust p tg) = ({ s with root := r' }, none) ∧
      ∀ q, look r' q = if q = p then some (.link tg) else look s.root q := by
  have hsplit := path_split p hp
  -- after `_force_clear` the slot is empty and nothing else changed
  have hclear : ∃ r1, forceClear c s.root p = .ok r1 ∧ ∀ q, look r1 q = if q = p then none else look s.root q := by
    unfold forceClear
    cases hl : lookup s.root p with
    | none =>
      refine ⟨s.root, rfl, ?_⟩
      intro q
      by_cases hq : q = p
      · subst hq; simp [look, hl]
      · simp [hq]
    | some n =>
      cases n with
      | dir ks => simp [look, hl, Node.obs] at h
      | file c' e' =>
        have hlk : look s.root p = some (.file c' e') := by simp [look, hl, Node.obs]
        rw [hsplit] at hlk ⊢
        rcases hrob with hrob | hrob
        · obtain ⟨r1, h1, h2⟩ := tDelete_spec s.root _ _ _ hlk (by simp)
          exact ⟨r1, by simp [hrob, h1], h2⟩
        · rw [← hsplit] at hlk; rw [hlk] at hrob; cases hrob
      | link t' =>
        have hlk : look s.root p = some (.link t') := by simp [look, hl, Node.obs]
        rw [hsplit] at hlk ⊢
        obtain ⟨r1, h1, h2⟩ := tDelete_spec s.root _ _ _ hlk (by simp)
        exact ⟨r1, by simp [h1], h2⟩
  obtain ⟨r1, hc1, hc2⟩ := hclear
  have hpar1 : look r1 p.dropLast = some .dir := by
    rw [hc2]
    have : p.dropLast ≠ p := by
      intro he
      have := congrArg List.length he
      simp at this
      have : p.length ≠ 0 := by simpa using hp
      omega
    simp [this, hpar]
  have hslot1 : look r1 p = none := by rw [hc2]; simp
  rw [hsplit] at hslot1
  obtain ⟨r', h1, h2⟩ := tSymlink_spec r1 _ _ tg hpar1 hslot1
  rw [← hsplit] at h1 h2
  refine ⟨r', by simp [exec, hc1, linkFate, hbad, lift, h1], ?_⟩
  intro q
  rw [h2 q, hc2 q]
  by_cases hq : q = p <;> simp [hq]

/-- creating the entry of the tree at `p` on an empty slot -/
theorem run_create (c : Cfg) (t : Tree) (s : State) (p : Path) (e : TEnt) (hp : p ≠ [])
    (hrob : c.robustSymlinks = true) (hbad : c.badLinks = []) (he : t.find p = some e)
    (hpar : look s.root p.dropLast = some .dir) (h : look s.root p = none) :
    ∃ r', run c t s (createSteps c t p) = ({ s with root := r' }, none) ∧
      ∀ q, look r' q = if q = p then some e.obs else look s.root q := by
  unfold createSteps
  rw [he]
  cases hk : e.kind with
  | file =>
    obtain ⟨r', h1, h2⟩ := exec_uploadFile c t s p e hp he hk hpar (by simp [h])
    exact ⟨r', by simp [hk, run, h1], h2⟩
  | dir =>
    obtain ⟨r', h1, h2⟩ := exec_mkdir c t s p hp hpar h
    refine ⟨r', by simp [hk, run, h1], ?_⟩
    intro q; rw [h2 q]; simp [TEnt.obs, hk]
  | symlink =>
    obtain ⟨r', h1, h2⟩ := exec_symlinkRobust c t s p e.target hp (Or.inl hrob) hbad hpar (by simp [h])
    refine ⟨r', by simp [hk, run, symlinkStep, hrob, h1], ?_⟩
    intro q; rw [h2 q]; simp [TEnt.obs, hk]

/-! ### removals -/

def rmStep (r : Removed) : Step :=
  match r.kind with
  | .dir => .rmdirMaybe r.path
  | _ => .delete r.path

/-- what the listing must show for a removed entry -/
def RmOK (root : Node) (r : Removed) : Prop :=
  r.path ≠ [] ∧ (r.kind = .dir → look root r.path = some .dir) ∧
    (r.kind ≠ .dir → ∃ o, look root r.path = some o ∧ o ≠ .dir)

theorem run_removals (c : Cfg) (t : Tree) (rm : List Removed) (s : State)
    (h1 : ∀ r ∈ rm, RmOK s.root r) (h2 : (rm.map (·.path)).Nodup) :
    ∃ r' pd, run c t s (rm.map rmStep) =
        ({ root := r', pendingDel := s.pendingDel ++ pd, pendingRen := s.pendingRen }, none)
      ∧ pd.Sublist (rm.map (·.path)) ∧ (∀ p ∈ pd, look s.root p = some .dir)
      ∧ ∀ q, look r' q = if q ∈ rm.map (·.path) ∧ q ∉ pd then none else look s.root q := by
  induction rm generalizing s with
  | nil =>
    refine ⟨s.root, [], ?_, List.Sublist.refl _, by simp, by simp⟩
    cases s; simp [run]
  | cons r rm ih =>
    simp only [List.map_cons, List.nodup_cons] at h2
    obtain ⟨hr1, hr2, hr3⟩ := h1 r List.mem_cons_self
    -- the step either removes `r.path` now or defers it
    have hstep : (∃ r1, exec c t s (rmStep r) = ({ s with root := r1 }, none) ∧
          ∀ q, look r1 q = if q = r.path then none else look s.root q) ∨
        (r.kind = .dir ∧ exec c t s (rmStep r) = ({ s with pendingDel := s.pendingDel ++ [r.path] }, none)) := by
      unfold rmStep
      cases hk : r.kind with
      | file =>
        obtain ⟨o, ho1, ho2⟩ := hr3 (by simp [hk])
        exact Or.inl (exec_delete c t s r.path o hr1 ho1 ho2)
      | symlink =>
        obtain ⟨o, ho1, ho2⟩ := hr3 (by simp [hk])
        exact Or.inl (exec_delete c t s r.path o hr1 ho1 ho2)
      | dir =>
        have hd := hr2 hk
        have hsplit := path_split r.path hr1
        by_cases hc : ∃ y, look s.root (r.path ++ [y]) ≠ none
        · right
          refine ⟨rfl, ?_⟩
          have : tRmdir s.root r.path = .error .dirNotEmpty := by
            rw [hsplit] at hd hc ⊢
            exact (tRmdir_spec s.root _ _ hd).2 hc
          simp [exec, this, Err.isPathError]
        · left
          have hno : ∀ y, look s.root (r.path ++ [y]) = none := by
            intro y
            by_cases h : look s.root (r.path ++ [y]) = none
            · exact h
            · exact absurd ⟨y, h⟩ hc
          rw [hsplit] at hd hno
          obtain ⟨r1, e1, e2⟩ := (tRmdir_spec s.root _ _ hd).1 hno
          rw [← hsplit] at e1 e2
          exact ⟨r1, by simp [exec, e1], e2⟩
    rcases hstep with ⟨r1, he1, he2⟩ | ⟨hk, he1⟩
    · -- removed now
      have h1' : ∀ r' ∈ rm, RmOK ({ s with root := r1 } : State).root r' := by
        intro r' hr'
        have hne : r'.path ≠ r.path := fun e => h2.1 (List.mem_map.mpr ⟨r', hr', e⟩)
        obtain ⟨a, b, d⟩ := h1 r' (List.mem_cons_of_mem _ hr')
        refine ⟨a, ?_, ?_⟩
        · intro hk; show look r1 r'.path = _; rw [he2]; simp [hne, b hk]
        · intro hk; show ∃ o, look r1 r'.path = some o ∧ _; rw [he2]; simp only [hne, if_false]; exact d hk
      obtain ⟨r', pd, hrun, hsub, hpd, hq⟩ := ih { s with root := r1 } h1' h2.2
      refine ⟨r', pd, ?_, List.Sublist.cons _ hsub, ?_, ?_⟩
      · simp only [List.map_cons, run, he1]; exact hrun
      · intro p hp
        have := hpd p hp
        simp only at this
        rw [he2] at this
        by_cases hpe : p = r.path
        · simp [hpe] at this
        · simpa [hpe] using this
      · intro q
        have hnot : r.path ∉ pd := fun h => h2.1 (hsub.subset h)
        rw [hq q]
        simp only
        rw [he2 q]
        by_cases hqe : q = r.path
        · subst hqe
          simp [hnot]
        · simp [hqe]
    · -- deferred
      have h1' : ∀ r' ∈ rm, RmOK ({ s with pendingDel := s.pendingDel ++ [r.path] } : State).root r' :=
        fun r' hr' => h1 r' (List.mem_cons_of_mem _ hr')
      obtain ⟨r', pd, hrun, hsub, hpd, hq⟩ := ih { s with pendingDel := s.pendingDel ++ [r.path] } h1' h2.2
      refine ⟨r', r.path :: pd, ?_, List.Sublist.cons_cons _ hsub, ?_, ?_⟩
      · simp only [List.map_cons, run, he1]
        rw [hrun]
        simp [List.append_assoc]
      · intro p hp
        rcases List.mem_cons.mp hp with rfl | hp
        · exact hr2 hk
        · exact hpd p hp
      · intro q
        rw [hq q]
        simp only
        by_cases hqe : q = r.path
        · subst hqe
          simp [h2.1]
        · simp [hqe]

/-- `finish_deletions` on a list in which children come before their parents and
which holds every remaining child of each of its directories -/
theorem finishDel_spec (l : List Path) (root : Node)
    (hd : ∀ p ∈ l, p ≠ [] ∧ look root p = some .dir) (hn : l.Nodup)
    (hord : l.Pairwise fun a b => ∀ x, b ≠ a ++ [x])
    (hkids : ∀ p ∈ l, ∀ x, look root (p ++ [x]) ≠ none → p ++ [x] ∈ l) :
    ∃ r', finishDel root l = (r', none) ∧ ∀ q, look r' q = if q ∈ l then none else look root q := by
  induction l generalizing root with
  | nil => exact ⟨root, rfl, by simp⟩
  | cons p l ih =>
    obtain ⟨hp1, hp2⟩ := hd p List.mem_cons_self
    rw [List.nodup_cons] at hn
    rw [List.pairwise_cons] at hord
    have hno : ∀ y, look root (p ++ [y]) = none := by
      intro y
      by_cases h : look root (p ++ [y]) = none
      · exact h
      · have := hkids p List.mem_cons_self y h
        rcases List.mem_cons.mp this with he | hm
        · have := congrArg List.length he; simp at this
        · exact absurd rfl (hord.1 _ hm y)
    have hsplit := path_split p hp1
    rw [hsplit] at hp2 hno
    obtain ⟨r1, e1, e2⟩ := (tRmdir_spec root _ _ hp2).1 hno
    rw [← hsplit] at e1 e2
    have hd' : ∀ p' ∈ l, p' ≠ [] ∧ look r1 p' = some .dir := by
      intro p' hp'
      have hne : p' ≠ p := fun e => hn.1 (e ▸ hp')
      obtain ⟨a, b⟩ := hd p' (List.mem_cons_of_mem _ hp')
      exact ⟨a, by rw [e2]; simp [hne, b]⟩
    have hkids' : ∀ p' ∈ l, ∀ x, look r1 (p' ++ [x]) ≠ none → p' ++ [x] ∈ l := by
      intro p' hp' x hx
      rw [e2] at hx
      by_cases he : p' ++ [x] = p
      · simp [he] at hx
      · simp only [he, if_false] at hx
        have := hkids p' (List.mem_cons_of_mem _ hp') x hx
        rcases List.mem_cons.mp this with h | h
        · exact absurd h he
        · exact h
    obtain ⟨r', f1, f2⟩ := ih r1 hd' hn.2 hord.2 hkids'
    refine ⟨r', by simp [finishDel, e1, f1], ?_⟩
    intro q
    rw [f2 q, e2 q]
    by_cases hq : q = p
    · subst hq; simp
    · simp [hq]

/-- **the removal phase**: the removals in delta order (parents first), the
(empty) rename rounds and the deferred deletions remove exactly the removed
paths -/
theorem run_removal_phase (c : Cfg) (t : Tree) (rm : List Removed) (root : Node)
    (h1 : ∀ r ∈ rm, RmOK root r) (h2 : (rm.map (·.path)).Nodup)
    (h3 : rm.Pairwise fun a b => ∀ x, a.path ≠ b.path ++ [x])
    (h4 : ∀ r ∈ rm, r.kind = .dir → ∀ x, look root (r.path ++ [x]) ≠ none → r.path ++ [x] ∈ rm.map (·.path)) :
    ∃ r', run c t { root := root } (rm.map rmStep ++ [.finishRenames, .finishDeletions]) = ({ root := r' }, none) ∧
      ∀ q, look r' q = if q ∈ rm.map (·.path) then none else look root q := by
  obtain ⟨r1, pd, hrun, hsub, hpd, hq⟩ := run_removals c t rm { root := root } h1 h2
  simp only [List.nil_append] at hrun
  have hfin : ∀ s : State, s.pendingRen = [] → exec c t s .finishRenames = (s, none) := by
    intro s hs
    cases s with
    | mk ro pdl prn =>
      simp only at hs
      subst hs
      cases c with
      | mk ren rob kcn => cases ren <;> simp [exec, sortByNew, finishRen]
  -- the deferred deletions, children first
  have hpdmem : ∀ p ∈ pd, ∃ r ∈ rm, r.path = p ∧ r.kind = .dir := by
    intro p hp
    obtain ⟨r, hr, he⟩ := List.mem_map.mp (hsub.subset hp)
    refine ⟨r, hr, he, ?_⟩
    -- a pending path shows a directory, so its entry is a directory
    by_cases hk : r.kind = .dir
    · exact hk
    · obtain ⟨o, ho1, ho2⟩ := (h1 r hr).2.2 hk
      have := hpd p hp
      simp only at this
      rw [← he, ho1] at this
      exact absurd (Option.some.inj this) ho2
  have hd : ∀ p ∈ pd.reverse, p ≠ [] ∧ look r1 p = some .dir := by
    intro p hp
    have hp' := List.mem_reverse.mp hp
    obtain ⟨r, hr, he, _⟩ := hpdmem p hp'
    refine ⟨he ▸ (h1 r hr).1, ?_⟩
    rw [hq p]
    simp only
    simp [hp', hpd p hp']
  have hnd : pd.reverse.Nodup := by
    have h0 : pd.Nodup := List.Nodup.sublist hsub h2
    unfold List.Nodup at h0 ⊢
    rw [List.pairwise_reverse]
    exact h0.imp fun h => Ne.symm h
  have hord : pd.reverse.Pairwise fun a b => ∀ x, b ≠ a ++ [x] := by
    rw [List.pairwise_reverse]
    have : (rm.map (·.path)).Pairwise fun a b => ∀ x, a ≠ b ++ [x] := by
      rw [List.pairwise_map]; exact h3
    exact this.sublist hsub
  have hkids : ∀ p ∈ pd.reverse, ∀ x, look r1 (p ++ [x]) ≠ none → p ++ [x] ∈ pd.reverse := by
    intro p hp x hx
    have hp' := List.mem_reverse.mp hp
    obtain ⟨r, hr, he, hk⟩ := hpdmem p hp'
    rw [hq] at hx
    simp only at hx
    by_cases hcond : p ++ [x] ∈ rm.map (·.path) ∧ p ++ [x] ∉ pd
    · simp [hcond] at hx
    · simp only [hcond, if_false] at hx
      have hin := h4 r hr hk x (he ▸ hx)
      rw [he] at hin
      apply List.mem_reverse.mpr
      by_cases hpdm : p ++ [x] ∈ pd
      · exact hpdm
      · exact absurd ⟨hin, hpdm⟩ hcond
  obtain ⟨r', f1, f2⟩ := finishDel_spec pd.reverse r1 hd hnd hord hkids
  refine ⟨r', ?_, ?_⟩
  · rw [run_append, hrun]
    have hf1 := hfin { root := r1, pendingDel := pd, pendingRen := [] } rfl
    simp only [run, hf1]
    simp [exec, f1]
  intro q
  rw [f2 q, hq q]
  simp only [List.mem_reverse]
  by_cases hqp : q ∈ pd
  · simp [hqp, hsub.subset hqp]
  · simp [hqp]

end BreezyVerif.C43
