import BreezyVerif.Model.C28
import BreezyVerif.Lemmas.C28
import BreezyVerif.Lemmas.C28Tree
/-!
C28 — reentrant locking takes and releases the physical lock exactly once.

Every theorem quantifies over ALL operation sequences (`List Op`, no length
bound), all tokens and both initial on-disk situations, by induction over the
sequence through the invariants of `Lemmas/C28.lean` (`CL.Inv`, `LF.Inv`,
`Repo.Inv`, `Branch.Inv`, each established at `init` and preserved by every
step).  `Balanced log held` says the log of physical calls is a prefix of
`(acquire release)*` ending with the lock `held`.

`*_refused_unchanged`: a call that raises leaves the object exactly as it was;
`*_ok_count`: a call that returns changes the nesting count by exactly one;
`*_edge`: the physical lock (for the repository: the fallback repositories) is
acquired exactly on the 0→1 edge of the count and released exactly on the 1→0
edge, and not touched otherwise.

For `BzrBranch` the unchanged code violates "unlocking more often than locking
is refused without changing the lock state": `branch_over_unlock_witness`.
-/
namespace BreezyVerif.C28

/-! ### CountedLock -/

/-- For every operation sequence: the physical log is balanced, the physical
lock is held iff the count is positive iff `is_locked()`. -/
theorem cl_physical_balanced (ext rb : Bool) (ops : List Op) :
    let s := (CL.init ext rb).run ops
    Balanced s.phys.log (decide (0 < s.count)) ∧
    (s.phys.held.isSome = true ↔ 0 < s.count) ∧ (s.isLocked = true ↔ 0 < s.count) := by
  intro s
  have h : s.Inv := CL.inv_run (CL.inv_init ext rb) ops
  obtain ⟨h1, h2, h3⟩ := h
  refine ⟨?_, by rw [← h1]; exact h2, h2⟩
  have : s.phys.held.isSome = decide (0 < s.count) := by
    rw [← h1]
    by_cases hc : 0 < s.count
    · simp [hc, h2.mpr hc]
    · have : s.mode.isSome = false := by
        cases hm : s.mode.isSome with
        | false => rfl
        | true => exact absurd (h2.mp hm) hc
      simp [hc, this]
  rw [← this]; exact h3

theorem cl_refused_unchanged (s : CL) (o : Op) (e : Err)
    (hr : (s.step o).2 = .error e) : (s.step o).1 = s := by
  cases o <;> simp only [CL.step, CL.lockRead, CL.lockWrite, CL.unlock] at hr ⊢ <;>
    (repeat' split at hr) <;> simp_all

theorem cl_ok_count (s : CL) (h : s.Inv) (o : Op) (t : Option Nat)
    (hr : (s.step o).2 = .ok t) :
    if o = .unlock then (s.step o).1.count + 1 = s.count else (s.step o).1.count = s.count + 1 := by
  obtain ⟨h1, h2, h3⟩ := h
  cases o <;> simp only [CL.step, CL.lockRead, CL.lockWrite, CL.unlock] at hr ⊢ <;>
    (repeat' split at hr) <;> simp_all <;> omega

/-- the physical lock is taken exactly when the first lock is taken, released
exactly when the last one is released, and not touched otherwise -/
theorem cl_edge (s : CL) (h : s.Inv) (o : Op) :
    (s.count = 0 → 0 < (s.step o).1.count →
      ∃ e, e ≠ Ev.rel ∧ (s.step o).1.phys.log = s.phys.log ++ [e]) ∧
    (0 < s.count → (s.step o).1.count = 0 → (s.step o).1.phys.log = s.phys.log ++ [.rel]) ∧
    ((s.count = 0 ↔ (s.step o).1.count = 0) → (s.step o).1.phys.log = s.phys.log) := by
  obtain ⟨h1, h2, h3⟩ := h
  cases o with
  | lockRead =>
    simp only [CL.step, CL.lockRead]
    split
    · next hm => have := h2.mp hm; refine ⟨by intro; omega, by intro _ h; simp at h, by intro; rfl⟩
    · next hm =>
      have : s.count = 0 := by
        have : ¬ 0 < s.count := fun h => hm (h2.mpr h)
        omega
      split
      · exact ⟨by intro h0 h; simp only at h; omega, by intro h; omega, by intro; rfl⟩
      · next p hp =>
        obtain ⟨rfl, _⟩ := Phys.lockRead_ok hp
        refine ⟨fun _ _ => ⟨.acqR, by decide, rfl⟩, by intro h; omega, by intro h; simp [this] at h⟩
  | lockWrite tok =>
    simp only [CL.step, CL.lockWrite]
    split
    · next hc =>
      split
      · refine ⟨by intro _ h; simp [hc] at h, by intro h; omega, by intro; rfl⟩
      · next p t hp =>
        obtain ⟨hw, e, he, hl⟩ := Phys.lockWrite_ok hp
        refine ⟨fun _ _ => ⟨e, he, hl⟩, by intro h; omega, by intro h; simp [hc] at h⟩
    · next hc =>
      split
      · exact ⟨by intro h; omega, by intro _ h; simp at h; omega, by intro; rfl⟩
      · split
        · exact ⟨by intro h; omega, by intro _ h; simp at h; omega, by intro; rfl⟩
        · exact ⟨by intro h; omega, by intro _ h; simp at h, by intro; rfl⟩
  | unlock =>
    simp only [CL.step, CL.unlock]
    split
    · next hc => exact ⟨by intro _ h; simp [hc] at h, by intro h; omega, by intro; rfl⟩
    · next hc =>
      split
      · next hc1 => exact ⟨by intro h; omega, fun _ _ => rfl, by intro h; simp at h; omega⟩
      · next hc1 => exact ⟨by intro h; omega, by intro _ h; simp at h; omega, by intro; rfl⟩

/-- a write lock requested while read-locked is refused, nothing changes -/
theorem cl_write_after_read_refused (s : CL) (h : s.Inv) (hm : s.mode = some .r) (tok : Option Nat) :
    s.step (.lockWrite tok) = (s, .error .readOnly) := by
  have hc : 0 < s.count := h.mode_count.mp (by simp [hm])
  have : ¬ s.count = 0 := by omega
  simp [CL.step, CL.lockWrite, this, hm]

/-- unlocking more often than locking is refused, nothing changes -/
theorem cl_over_unlock_refused (s : CL) (hc : s.count = 0) :
    s.step .unlock = (s, .error .notHeld) := by
  simp [CL.step, CL.unlock, hc]

/-! ### LockableFiles -/

theorem lf_physical_balanced (ext rb : Bool) (ops : List Op) :
    let s := (LF.init ext rb).run ops
    Balanced s.phys.log (decide (0 < s.count)) ∧
    (s.phys.held.isSome = true ↔ 0 < s.count) ∧ (s.isLocked = true ↔ 0 < s.count) := by
  intro s
  have h : s.Inv := LF.inv_run (LF.inv_init ext rb) ops
  obtain ⟨h1, _, h2, h3⟩ := h
  refine ⟨?_, by rw [← h1]; exact h2, by simp [LF.isLocked]; omega⟩
  have : s.phys.held.isSome = decide (0 < s.count) := by
    rw [← h1]
    by_cases hc : 0 < s.count
    · simp [hc, h2.mpr hc]
    · have : s.mode.isSome = false := by
        cases hm : s.mode.isSome with
        | false => rfl
        | true => exact absurd (h2.mp hm) hc
      simp [hc, this]
  rw [← this]; exact h3

theorem lf_refused_unchanged (s : LF) (h : s.Inv) (o : Op) (e : Err)
    (hr : (s.step o).2 = .error e) : (s.step o).1 = s := by
  obtain ⟨h1, ht, h2, h3⟩ := h
  cases o <;> simp only [LF.step, LF.lockRead, LF.lockWrite, LF.unlock] at hr ⊢ <;>
    (repeat' split at hr) <;> simp_all

theorem lf_ok_count (s : LF) (h : s.Inv) (o : Op) (t : Option Nat)
    (hr : (s.step o).2 = .ok t) :
    if o = .unlock then (s.step o).1.count + 1 = s.count else (s.step o).1.count = s.count + 1 := by
  cases o with
  | lockRead =>
    rcases LF.lockRead_spec h with ⟨_, _, e⟩ | ⟨s', e, hc, _, _⟩
    · simp only [LF.step, e] at hr; cases hr
    · simp only [LF.step, e, reduceCtorEq, if_false]; exact hc
  | lockWrite tok =>
    obtain ⟨h1, ht, h2, h3⟩ := h
    simp only [LF.step, LF.lockWrite, reduceCtorEq, if_false] at hr ⊢
    (repeat' split at hr) <;> simp_all
  | unlock =>
    rcases LF.unlock_spec h with ⟨_, e⟩ | ⟨_, s', e, hc, _⟩
    · simp only [LF.step, e] at hr; cases hr
    · simp only [LF.step, e, if_true]; exact hc

theorem lf_edge (s : LF) (h : s.Inv) (o : Op) :
    (s.count = 0 → 0 < (s.step o).1.count →
      ∃ e, e ≠ Ev.rel ∧ (s.step o).1.phys.log = s.phys.log ++ [e]) ∧
    (0 < s.count → (s.step o).1.count = 0 → (s.step o).1.phys.log = s.phys.log ++ [.rel]) ∧
    ((s.count = 0 ↔ (s.step o).1.count = 0) → (s.step o).1.phys.log = s.phys.log) := by
  obtain ⟨h1, ht, h2, h3⟩ := h
  have hmc : s.mode.isSome = false → s.count = 0 := fun hm => by
    have : ¬ 0 < s.count := fun h => by rw [h2.mpr h] at hm; cases hm
    omega
  cases o with
  | lockRead =>
    simp only [LF.step, LF.lockRead]
    split
    · next hm => have := h2.mp hm; refine ⟨by intro; omega, by intro _ h; simp at h, by intro; rfl⟩
    · next hm =>
      have hmn : s.mode = none := by simpa using hm
      have htn : s.txn = none := by rw [ht]; exact hmn
      have hc := hmc (by simp [hmn])
      split
      · exact ⟨by intro h0 h; simp only at h; omega, by intro h; omega, by intro; rfl⟩
      · next p hp =>
        obtain ⟨rfl, _⟩ := Phys.lockRead_ok hp
        simp only [htn, Option.isSome_none, Bool.false_eq_true, if_false]
        refine ⟨fun _ _ => ⟨.acqR, by decide, rfl⟩, by intro h; omega, by intro h; simp [hc] at h⟩
  | lockWrite tok =>
    simp only [LF.step, LF.lockWrite]
    split
    · next hm =>
      have hc := h2.mp hm
      split
      · exact ⟨by intro h; omega, by intro _ h; simp at h; omega, by intro; rfl⟩
      · split
        · exact ⟨by intro h; omega, by intro _ h; simp at h; omega, by intro; rfl⟩
        · exact ⟨by intro h; omega, by intro _ h; simp at h, by intro; rfl⟩
    · next hm =>
      have hmn : s.mode = none := by simpa using hm
      have htn : s.txn = none := by rw [ht]; exact hmn
      have hc := hmc (by simp [hmn])
      split
      · exact ⟨by intro _ h; simp at h; omega, by intro h; omega, by intro; rfl⟩
      · next p t hp =>
        obtain ⟨hw, e, he, hl⟩ := Phys.lockWrite_ok hp
        simp only [htn, Option.isSome_none, Bool.false_eq_true, if_false]
        refine ⟨fun _ _ => ⟨e, he, hl⟩, by intro h; omega, by intro h; simp [hc] at h⟩
  | unlock =>
    simp only [LF.step, LF.unlock]
    split
    · next hm =>
      have hc := hmc (by cases hmm : s.mode <;> simp_all)
      exact ⟨by intro _ h; simp at h; omega, by intro h; omega, by intro; rfl⟩
    · next hm =>
      split
      · next hc => exact ⟨by intro h; omega, by intro _ h; simp at h; omega, by intro; rfl⟩
      · next hc =>
        have hs : s.mode.isSome = true := by
          cases hmm : s.mode with
          | none => rw [hmm] at hm; exact absurd rfl hm
          | some _ => rfl
        have hpos := h2.mp hs
        have htn : s.txn.isNone = false := by
          rw [ht]
          cases hmm : s.mode with
          | none => rw [hmm] at hs; cases hs
          | some _ => rfl
        simp only [htn, Bool.false_eq_true, if_false]
        exact ⟨by intro h; omega, fun _ _ => rfl, by intro h; simp at h; omega⟩

theorem lf_write_after_read_refused (s : LF) (hm : s.mode = some .r) (tok : Option Nat) :
    s.step (.lockWrite tok) = (s, .error .readOnly) := by
  simp [LF.step, LF.lockWrite, hm]

theorem lf_over_unlock_refused (s : LF) (h : s.Inv) (hc : s.count = 0) :
    s.step .unlock = (s, .error .notHeld) := by
  rcases LF.unlock_spec h with ⟨_, e⟩ | ⟨hp, _⟩
  · simp [LF.step, e]
  · omega

/-! ### PackRepository -/

/-- closes the arithmetic side goals of `repo_edge` -/
macro "edge_close" : tactic =>
  `(tactic| first
      | trivial
      | omega
      | (rename_i a; have := a.mp (by omega); omega)
      | (rename_i a; have := a.mpr (by omega); omega))

/-- For every operation sequence on a PackRepository: the control files'
physical log and the fallback repositories' log are balanced, the fallbacks are
locked (once) exactly while the repository is locked. -/
theorem repo_physical_balanced (ext rb : Bool) (ops : List Op) :
    let s := (Repo.init ext rb).run ops
    Balanced s.cf.phys.log s.cf.phys.held.isSome ∧
    (s.cf.phys.held.isSome = true ↔ 0 < s.cf.count) ∧
    (s.isLocked = true ↔ 0 < s.depth) ∧
    (0 < s.depth → s.fb = 1 ∧ Balanced s.fbLog true) ∧
    (s.depth = 0 → s.fb = 0 ∧ Balanced s.fbLog false) := by
  intro s
  have h : s.Inv := Repo.inv_run (Repo.inv_init ext rb) ops
  refine ⟨h.cf.bal, ?_, Repo.isLocked_iff s, fun hd => ⟨h.fb_pos hd, h.fb_bal_pos hd⟩,
    fun hd => ⟨h.fb_zero hd, h.fb_bal_zero hd⟩⟩
  rw [← h.cf.mode_held]; exact h.cf.mode_count

theorem repo_refused_unchanged (s : Repo) (h : s.Inv) (o : Op) (e : Err)
    (hr : (s.step o).2 = .error e) : (s.step o).1 = s := by
  cases o with
  | lockWrite tok =>
    simp only [Repo.step] at hr ⊢
    rcases Repo.lockWrite_spec h tok with ⟨_, _, e⟩ | ⟨_, e⟩ | ⟨_, e⟩ <;> rw [e] at hr ⊢ <;> first | rfl | cases hr
  | lockRead =>
    simp only [Repo.step] at hr ⊢
    rcases Repo.lockRead_spec h with ⟨_, e⟩ | ⟨_, _, e⟩ | ⟨_, _, _, _, _, _, e⟩ <;> rw [e] at hr ⊢ <;>
      first | rfl | cases hr
  | unlock =>
    simp only [Repo.step] at hr ⊢
    rcases Repo.unlock_spec h with ⟨_, e⟩ | ⟨_, e⟩ | ⟨_, _, _, _, _, _, e⟩ <;> rw [e] at hr ⊢ <;>
      first | rfl | cases hr

theorem repo_ok_count (s : Repo) (h : s.Inv) (o : Op) (t : Option Nat)
    (hr : (s.step o).2 = .ok t) :
    if o = .unlock then (s.step o).1.depth + 1 = s.depth else (s.step o).1.depth = s.depth + 1 := by
  cases o with
  | lockWrite tok =>
    simp only [Repo.step, reduceCtorEq, if_false] at hr ⊢
    rcases Repo.lockWrite_spec h tok with ⟨_, _, e⟩ | ⟨_, e⟩ | ⟨hd, e⟩ <;> rw [e] at hr ⊢
    · cases hr
    · simp only [Repo.depth]; omega
    · simp only [Repo.depth] at hd ⊢; omega
  | lockRead =>
    simp only [Repo.step, reduceCtorEq, if_false] at hr ⊢
    rcases Repo.lockRead_spec h with ⟨_, e⟩ | ⟨_, _, e⟩ | ⟨_, cf', _, hc, _, _, e⟩
    · rw [e]; simp only [Repo.depth]; omega
    · rw [e] at hr; cases hr
    · rw [e]; split <;> simp only [Repo.depth] <;> omega
  | unlock =>
    simp only [Repo.step, if_true] at hr ⊢
    rcases Repo.unlock_spec h with ⟨_, e⟩ | ⟨hw, e⟩ | ⟨_, _, cf', _, hc, _, e⟩ <;> rw [e] at hr ⊢
    · cases hr
    · split <;> simp only [Repo.depth] <;> omega
    · split <;> simp only [Repo.depth] <;> omega

/-- the fallback repositories are locked exactly when the repository's first
lock is taken and unlocked exactly when its last lock is released -/
theorem repo_edge (s : Repo) (h : s.Inv) (o : Op) :
    (s.depth = 0 → 0 < (s.step o).1.depth → (s.step o).1.fbLog = s.fbLog ++ [.acqR]) ∧
    (0 < s.depth → (s.step o).1.depth = 0 → (s.step o).1.fbLog = s.fbLog ++ [.rel]) ∧
    ((s.depth = 0 ↔ (s.step o).1.depth = 0) → (s.step o).1.fbLog = s.fbLog) := by
  cases o with
  | lockWrite tok =>
    simp only [Repo.step]
    rcases Repo.lockWrite_spec h tok with ⟨hw, hc, e⟩ | ⟨hw, e⟩ | ⟨hd, e⟩ <;> rw [e] <;>
      simp only [Repo.depth] at * <;> refine ⟨?_, ?_, ?_⟩ <;> intros <;> edge_close
  | lockRead =>
    simp only [Repo.step]
    rcases Repo.lockRead_spec h with ⟨hw, e⟩ | ⟨hd, _, e⟩ | ⟨hw, cf', _, hc, _, _, e⟩ <;> rw [e]
    · simp only [Repo.depth] at * <;> refine ⟨?_, ?_, ?_⟩ <;> intros <;> edge_close
    · simp only [Repo.depth] at * <;> refine ⟨?_, ?_, ?_⟩ <;> intros <;> edge_close
    · split <;> simp only [Repo.depth] at * <;> refine ⟨?_, ?_, ?_⟩ <;> intros <;> edge_close
  | unlock =>
    simp only [Repo.step]
    rcases Repo.unlock_spec h with ⟨hd, e⟩ | ⟨hw, e⟩ | ⟨hw, hcp, cf', _, hc, _, e⟩ <;> rw [e]
    · simp only [Repo.depth] at * <;> refine ⟨?_, ?_, ?_⟩ <;> intros <;> edge_close
    · have := h.excl
      split <;> simp only [Repo.depth] at * <;> refine ⟨?_, ?_, ?_⟩ <;> intros <;> edge_close
    · split <;> simp only [Repo.depth] at * <;> refine ⟨?_, ?_, ?_⟩ <;> intros <;> edge_close

theorem repo_write_after_read_refused (s : Repo) (h : s.Inv) (hw : s.wcount = 0) (hc : 0 < s.cf.count)
    (tok : Option Nat) : s.step (.lockWrite tok) = (s, .error .readOnly) := by
  simp only [Repo.step]
  rcases Repo.lockWrite_spec h tok with ⟨_, _, e⟩ | ⟨_, e⟩ | ⟨hd, e⟩
  · exact e
  · omega
  · simp only [Repo.depth] at hd; omega

theorem repo_over_unlock_refused (s : Repo) (h : s.Inv) (hd : s.depth = 0) :
    s.step .unlock = (s, .error .notHeld) := by
  simp only [Repo.step]
  rcases Repo.unlock_spec h with ⟨_, e⟩ | ⟨_, e⟩ | ⟨_, _, _, _, _, _, e⟩
  · exact e
  · simp only [Repo.depth] at hd; omega
  · simp only [Repo.depth] at hd; omega

/-! ### BzrBranch over PackRepository -/

/-- For every interleaving of operations on a branch and directly on its
repository: the branch's physical log, the repository's control-files log and
the fallback log are all balanced. -/
theorem branch_physical_balanced (ext rbB rbR : Bool) (ops : List SOp) :
    let s := (Branch.init ext rbB rbR).run ops
    Balanced s.cf.phys.log s.cf.phys.held.isSome ∧
    (s.cf.phys.held.isSome = true ↔ 0 < s.cf.count) ∧
    (s.isLocked = true ↔ 0 < s.cf.count) ∧
    Balanced s.repo.cf.phys.log s.repo.cf.phys.held.isSome ∧
    (0 < s.repo.depth → s.repo.fb = 1 ∧ Balanced s.repo.fbLog true) ∧
    (s.repo.depth = 0 → s.repo.fb = 0 ∧ Balanced s.repo.fbLog false) := by
  intro s
  have h : s.Inv := Branch.inv_run (Branch.inv_init ext rbB rbR) ops
  refine ⟨h.cf.bal, ?_, ?_, h.repo.cf.bal, fun hd => ⟨h.repo.fb_pos hd, h.repo.fb_bal_pos hd⟩,
    fun hd => ⟨h.repo.fb_zero hd, h.repo.fb_bal_zero hd⟩⟩
  · rw [← h.cf.mode_held]; exact h.cf.mode_count
  · simp [Branch.isLocked, LF.isLocked]; omega

/-- FINDING.  A refused `branch.unlock()` changes the lock state: with the
repository read-locked once by another holder and the branch unlocked,
`unlock` raises `LockNotHeld` *and* releases the repository's lock (and its
fallbacks). -/
theorem branch_over_unlock_witness :
    let s := (Branch.init false).run [.repo .lockRead]
    s.isLocked = false ∧ s.repo.isLocked = true ∧ s.repo.fb = 1 ∧
    (s.step (.branch .unlock)).2 = .error .notHeld ∧
    (s.step (.branch .unlock)).1.repo.isLocked = false ∧
    (s.step (.branch .unlock)).1.repo.fb = 0 := by decide

theorem branch_write_after_read_refused (s : Branch) (h : s.Inv) (hm : s.cf.mode = some .r)
    (tok : Option Nat) : s.step (.branch (.lockWrite tok)) = (s, .error .readOnly) := by
  have hc : 0 < s.cf.count := h.cf.mode_count.mp (by simp [hm])
  have hl : s.isLocked = true := by simp [Branch.isLocked, LF.isLocked]; omega
  have e := lf_write_after_read_refused s.cf hm tok
  simp only [LF.step] at e
  simp [Branch.step, Branch.lockWrite, hl, e, Branch.finishLock]

/-- over-unlock of a branch whose repository is not locked either is refused
and changes nothing (the case the finding excludes: repository locked by
another holder) -/
theorem branch_over_unlock_refused_partial (s : Branch) (h : s.Inv) (hc : s.cf.count = 0)
    (hd : s.repo.depth = 0) : s.step (.branch .unlock) = (s, .error .notHeld) := by
  have e1 := lf_over_unlock_refused s.cf h.cf hc
  have e2 := repo_over_unlock_refused s.repo h.repo hd
  simp only [LF.step, Repo.step] at e1 e2
  simp [Branch.step, Branch.unlock, e1, e2, LF.isLocked, hc]

/-- A refused call leaves the lock state (everything but the logs) of the
whole branch/repository stack unchanged — PARTIAL: except for `unlock` of an
unlocked branch whose repository is locked by another holder
(`branch_over_unlock_witness`); `Consistent` excludes callers that unlocked the
repository behind a locked branch's back. -/
theorem branch_refused_unchanged_partial (s : Branch) (h : s.Inv) (hcons : s.Consistent) (o : SOp)
    (e : Err) (hr : (s.step o).2 = .error e)
    (hex : ¬ (o = .branch .unlock ∧ s.cf.count = 0 ∧ 0 < s.repo.depth)) :
    (s.step o).1.core = s.core := by
  cases o with
  | repo o =>
    simp only [Branch.step] at hr ⊢
    have := repo_refused_unchanged s.repo h.repo o e hr
    rw [this]
  | branch o =>
    cases o with
    | lockRead =>
      simp only [Branch.step, Branch.lockRead] at hr ⊢
      by_cases hl : s.isLocked = true
      · exfalso
        have hc : 0 < s.cf.count := by simp [Branch.isLocked, LF.isLocked] at hl; omega
        simp only [hl, Bool.not_true, Bool.false_eq_true, if_false] at hr
        rcases LF.lockRead_spec h.cf with ⟨hc0, _, _⟩ | ⟨cf', ec, _, _, _⟩
        · omega
        · simp [ec, Branch.finishLock] at hr
      · simp only [hl, Bool.not_false, if_true] at hr ⊢
        cases hrr : s.repo.lockRead with
        | mk repo r =>
          rw [hrr] at hr
          cases r with
          | error e' =>
            have := repo_refused_unchanged s.repo h.repo .lockRead e' (by simp [Repo.step, hrr])
            simp only [Repo.step, hrr] at this
            subst this
            rfl
          | ok t =>
            simp only at hr ⊢
            obtain ⟨r', eu, hcore⟩ := Repo.lockRead_unlock_core h.repo hrr
            rcases LF.lockRead_spec h.cf with ⟨_, _, ec⟩ | ⟨cf', ec, _, _, _⟩
            · simp only [ec, Branch.finishLock, if_true, eu]
              simp only [Branch.core, hcore]
            · simp [ec, Branch.finishLock] at hr
    | lockWrite tok =>
      simp only [Branch.step, Branch.lockWrite] at hr ⊢
      by_cases hl : s.isLocked = true
      · simp only [hl, Bool.not_true, Bool.false_eq_true, if_false] at hr ⊢
        cases hw : s.cf.lockWrite tok with
        | mk cf r =>
          rw [hw] at hr
          cases r with
          | ok t => simp [Branch.finishLock] at hr
          | error e' =>
            have := lf_refused_unchanged s.cf h.cf (.lockWrite tok) e' (by simp [LF.step, hw])
            simp only [LF.step, hw] at this
            subst this
            simp [Branch.finishLock]
      · have hc : s.cf.count = 0 := by
          simp [Branch.isLocked, LF.isLocked] at hl; omega
        simp only [hl, Bool.not_false, if_true] at hr ⊢
        cases hrw : s.repo.lockWrite none with
        | mk repo r =>
          rw [hrw] at hr
          cases r with
          | error e' =>
            have := repo_refused_unchanged s.repo h.repo (.lockWrite none) e' (by simp [Repo.step, hrw])
            simp only [Repo.step, hrw] at this
            subst this
            rfl
          | ok t =>
            simp only at hr ⊢
            obtain ⟨r', eu, hcore⟩ := Repo.lockWrite_unlock_core h.repo hrw
            rcases LF.lockWrite_unlocked h.cf hc tok with ⟨e', ew⟩ | ⟨s', t', ew, _⟩
            · simp only [ew, Branch.finishLock, if_true, eu]
              simp only [Branch.core, hcore]
            · simp [ew, Branch.finishLock] at hr
    | unlock =>
      simp only [Branch.step, Branch.unlock] at hr ⊢
      rcases LF.unlock_spec h.cf with ⟨hc, eu⟩ | ⟨hc, cf', eu, hcc, _⟩
      · have hd : s.repo.depth = 0 := by
          cases hd : s.repo.depth with
          | zero => rfl
          | succ n => exact absurd ⟨rfl, hc, by omega⟩ hex
        have e2 := repo_over_unlock_refused s.repo h.repo hd
        simp only [Repo.step] at e2
        simp [eu, e2, LF.isLocked, hc]
      · exfalso
        rw [eu] at hr
        simp only at hr
        by_cases h1 : 1 ≤ cf'.count
        · simp [LF.isLocked, h1] at hr
        · have hdp : 0 < s.repo.depth := hcons hc
          rcases Repo.unlock_spec h.repo with ⟨hd, _⟩ | ⟨_, er⟩ | ⟨_, _, _, _, _, _, er⟩
          · omega
          · simp [LF.isLocked, h1, er] at hr
          · simp [LF.isLocked, h1, er] at hr

macro "bclose" : tactic =>
  `(tactic| (intros; first | trivial | rfl | omega | (simp only at *; omega)))

/-- A granted branch call changes the branch's count by exactly one; the
repository is locked (once more) exactly by the branch's first lock, released
exactly by its last unlock, and not touched by nested calls. -/
theorem branch_ok_edge (s : Branch) (h : s.Inv) (o : Op) (t : Option Nat)
    (hr : (s.step (.branch o)).2 = .ok t) :
    (if o = .unlock then (s.step (.branch o)).1.cf.count + 1 = s.cf.count
      else (s.step (.branch o)).1.cf.count = s.cf.count + 1) ∧
    (s.cf.count = 0 → (s.step (.branch o)).1.repo.depth = s.repo.depth + 1) ∧
    ((s.step (.branch o)).1.cf.count = 0 → (s.step (.branch o)).1.repo.depth + 1 = s.repo.depth) ∧
    (0 < s.cf.count → 0 < (s.step (.branch o)).1.cf.count → (s.step (.branch o)).1.repo = s.repo) := by
  cases o with
  | lockRead =>
    simp only [Branch.step, Branch.lockRead, reduceCtorEq, if_false] at hr ⊢
    rcases LF.lockRead_spec h.cf with ⟨_, _, ec⟩ | ⟨cf', ec, hcc, _, _⟩
    · exfalso
      split at hr
      · cases hrr : s.repo.lockRead with
        | mk repo r =>
          rw [hrr] at hr
          cases r with
          | error e' => simp at hr
          | ok t' =>
            simp only [ec, Branch.finishLock, if_true] at hr
            cases hu : repo.unlock with
            | mk r2 res => rw [hu] at hr; cases res <;> simp at hr
      · simp [ec, Branch.finishLock] at hr
    by_cases hl : s.isLocked = true
    · have hc : 0 < s.cf.count := by simp [Branch.isLocked, LF.isLocked] at hl; omega
      simp only [hl, Bool.not_true, Bool.false_eq_true, if_false, ec, Branch.finishLock]
      exact ⟨hcc, by bclose, by bclose, by bclose⟩
    · have hc : s.cf.count = 0 := by simp [Branch.isLocked, LF.isLocked] at hl; omega
      simp only [hl, Bool.not_false, if_true] at hr ⊢
      cases hrr : s.repo.lockRead with
      | mk repo r =>
        rw [hrr] at hr
        cases r with
        | error e' => simp at hr
        | ok t' =>
          have hd := repo_ok_count s.repo h.repo .lockRead t' (by simp [Repo.step, hrr])
          simp only [Repo.step, hrr, reduceCtorEq, if_false] at hd
          simp only [ec, Branch.finishLock]
          exact ⟨hcc, fun _ => hd, by bclose, by bclose⟩
  | lockWrite tok =>
    simp only [Branch.step, Branch.lockWrite, reduceCtorEq, if_false] at hr ⊢
    by_cases hl : s.isLocked = true
    · have hc : 0 < s.cf.count := by simp [Branch.isLocked, LF.isLocked] at hl; omega
      simp only [hl, Bool.not_true, Bool.false_eq_true, if_false] at hr ⊢
      cases hw : s.cf.lockWrite tok with
      | mk cf r =>
        rw [hw] at hr
        cases r with
        | error e' => simp [Branch.finishLock] at hr
        | ok t' =>
          have hcc := lf_ok_count s.cf h.cf (.lockWrite tok) t' (by simp [LF.step, hw])
          simp only [LF.step, hw, reduceCtorEq, if_false] at hcc
          simp only [Branch.finishLock]
          exact ⟨hcc, by bclose, by bclose, by bclose⟩
    · have hc : s.cf.count = 0 := by simp [Branch.isLocked, LF.isLocked] at hl; omega
      simp only [hl, Bool.not_false, if_true] at hr ⊢
      cases hrw : s.repo.lockWrite none with
      | mk repo r =>
        rw [hrw] at hr
        cases r with
        | error e' => simp at hr
        | ok t' =>
          have hd := repo_ok_count s.repo h.repo (.lockWrite none) t' (by simp [Repo.step, hrw])
          simp only [Repo.step, hrw, reduceCtorEq, if_false] at hd
          simp only at hr ⊢
          rcases LF.lockWrite_unlocked h.cf hc tok with ⟨e', ew⟩ | ⟨s', t'', ew, hc1⟩
          · exfalso
            simp only [ew, Branch.finishLock, if_true] at hr
            cases hu : repo.unlock with
            | mk r2 res => rw [hu] at hr; cases res <;> simp at hr
          · simp only [ew, Branch.finishLock]
            exact ⟨by bclose, fun _ => hd, by bclose, by bclose⟩
  | unlock =>
    simp only [Branch.step, Branch.unlock, if_true] at hr ⊢
    rcases LF.unlock_spec h.cf with ⟨hc, eu⟩ | ⟨hc, cf', eu, hcc, _⟩
    · exfalso
      rw [eu] at hr
      simp only [LF.isLocked] at hr
      have : ¬ s.cf.count ≥ 1 := by omega
      simp only [this, decide_false, Bool.not_false, if_true] at hr
      cases hu : s.repo.unlock with
      | mk r2 res => rw [hu] at hr; cases res <;> simp at hr
    · rw [eu] at hr ⊢
      simp only at hr ⊢
      by_cases h1 : 1 ≤ cf'.count
      · have : (!cf'.isLocked) = false := by simp [LF.isLocked, h1]
        simp only [this, Bool.false_eq_true, if_false]
        exact ⟨hcc, by bclose, by bclose, by bclose⟩
      · have : (!cf'.isLocked) = true := by simp [LF.isLocked, h1]
        simp only [this, if_true] at hr ⊢
        cases hu : s.repo.unlock with
        | mk r2 res =>
          rw [hu] at hr
          cases res with
          | error e' => simp at hr
          | ok t' =>
            have hd := repo_ok_count s.repo h.repo .unlock t' (by simp [Repo.step, hu])
            simp only [Repo.step, hu, if_true] at hd
            simp only
            exact ⟨hcc, by bclose, fun _ => hd, by bclose⟩


/-! ### the guarded variant (`Branch.stepG`: the proposed fix) — no exception left -/

theorem branchG_step_eq (s : Branch) (o : SOp) (hg : ¬ (o = .branch .unlock ∧ s.cf.count = 0)) :
    s.stepG o = s.step o := by
  cases o with
  | repo o => rfl
  | branch o =>
    cases o with
    | lockRead => rfl
    | lockWrite t => rfl
    | unlock =>
      have hc : 0 < s.cf.count := by
        cases hc : s.cf.count with
        | zero => exact absurd ⟨rfl, hc⟩ hg
        | succ n => omega
      have : s.isLocked = true := by simp [Branch.isLocked, LF.isLocked]; omega
      simp [Branch.stepG, Branch.step, this]

theorem branchG_guard (s : Branch) (hc : s.cf.count = 0) :
    s.stepG (.branch .unlock) = (s, .error .notHeld) := by
  have : s.isLocked = false := by simp [Branch.isLocked, LF.isLocked, hc]
  simp [Branch.stepG, this]

theorem branchG_inv_step {s : Branch} (h : s.Inv) (o : SOp) : (s.stepG o).1.Inv := by
  by_cases hg : o = .branch .unlock ∧ s.cf.count = 0
  · rw [hg.1, branchG_guard s hg.2]; exact h
  · rw [branchG_step_eq s o hg]; exact Branch.inv_step h o

theorem branchG_physical_balanced (ext rbB rbR : Bool) (ops : List SOp) :
    let s := (Branch.init ext rbB rbR).runG ops
    Balanced s.cf.phys.log s.cf.phys.held.isSome ∧
    (s.cf.phys.held.isSome = true ↔ 0 < s.cf.count) ∧
    Balanced s.repo.cf.phys.log s.repo.cf.phys.held.isSome ∧
    (0 < s.repo.depth → s.repo.fb = 1 ∧ Balanced s.repo.fbLog true) ∧
    (s.repo.depth = 0 → s.repo.fb = 0 ∧ Balanced s.repo.fbLog false) := by
  intro s
  have h : s.Inv := by
    have : ∀ (ops : List SOp) (s : Branch), s.Inv → (s.runG ops).Inv := by
      intro ops
      induction ops with
      | nil => intro s h; exact h
      | cons o ops ih => intro s h; exact ih _ (branchG_inv_step h o)
    exact this ops _ (Branch.inv_init ext rbB rbR)
  refine ⟨h.cf.bal, ?_, h.repo.cf.bal, fun hd => ⟨h.repo.fb_pos hd, h.repo.fb_bal_pos hd⟩,
    fun hd => ⟨h.repo.fb_zero hd, h.repo.fb_bal_zero hd⟩⟩
  rw [← h.cf.mode_held]; exact h.cf.mode_count

/-- with the guard every refused call leaves the lock state of the whole stack
unchanged — the full statement -/
theorem branchG_refused_unchanged (s : Branch) (h : s.Inv) (hcons : s.Consistent) (o : SOp)
    (e : Err) (hr : (s.stepG o).2 = .error e) : (s.stepG o).1.core = s.core := by
  by_cases hg : o = .branch .unlock ∧ s.cf.count = 0
  · rw [hg.1, branchG_guard s hg.2]
  · rw [branchG_step_eq s o hg] at hr ⊢
    exact branch_refused_unchanged_partial s h hcons o e hr (fun hx => hg ⟨hx.1, hx.2.1⟩)

/-- with the guard, over-unlock of a branch is refused with nothing changed,
whoever else holds the repository -/
theorem branchG_over_unlock_refused (s : Branch) (hc : s.cf.count = 0) :
    s.stepG (.branch .unlock) = (s, .error .notHeld) := branchG_guard s hc

theorem branchG_ok_edge (s : Branch) (h : s.Inv) (o : Op) (t : Option Nat)
    (hr : (s.stepG (.branch o)).2 = .ok t) :
    (if o = .unlock then (s.stepG (.branch o)).1.cf.count + 1 = s.cf.count
      else (s.stepG (.branch o)).1.cf.count = s.cf.count + 1) ∧
    (s.cf.count = 0 → (s.stepG (.branch o)).1.repo.depth = s.repo.depth + 1) ∧
    ((s.stepG (.branch o)).1.cf.count = 0 → (s.stepG (.branch o)).1.repo.depth + 1 = s.repo.depth) ∧
    (0 < s.cf.count → 0 < (s.stepG (.branch o)).1.cf.count → (s.stepG (.branch o)).1.repo = s.repo) := by
  by_cases hg : SOp.branch o = .branch .unlock ∧ s.cf.count = 0
  · have ho : o = .unlock := by injection hg.1
    subst ho
    rw [branchG_guard s hg.2] at hr; cases hr
  · rw [branchG_step_eq s _ hg] at hr ⊢
    exact branch_ok_edge s h o t hr

/-- the witness of the finding does not exist in the guarded variant -/
example : ((Branch.init false).run [.repo .lockRead]).stepG (.branch .unlock) =
    ((Branch.init false).run [.repo .lockRead], .error .notHeld) := by decide

/-! ### `Consistent` is an invariant of everything but a caller's own `repository.unlock()` -/

/-- Every step of the guarded stack other than a `repository.unlock()` issued directly
by a caller preserves "a locked branch holds its repository". -/
theorem branchG_consistent_step (s : Branch) (h : s.Inv) (hcons : s.Consistent) (o : SOp)
    (ho : o ≠ .repo .unlock) : (s.stepG o).1.Consistent := by
  cases hres : (s.stepG o).2 with
  | error e =>
    have hcore := branchG_refused_unchanged s h hcons o e hres
    obtain ⟨h1, h2⟩ := Branch.lcore_counts (Branch.lcore_of_core hcore)
    intro hpos
    have := hcons (by omega)
    omega
  | ok t =>
    cases o with
    | branch o =>
      obtain ⟨_, h2, _, h4⟩ := branchG_ok_edge s h o t hres
      intro hpos
      by_cases hc : s.cf.count = 0
      · have := h2 hc; omega
      · rw [h4 (by omega) hpos]; exact hcons (by omega)
    | repo o =>
      rw [Branch.stepG_repo] at hres ⊢
      have hd := repo_ok_count s.repo h.repo o t hres
      have hne : o ≠ .unlock := fun hx => ho (by rw [hx])
      simp only [hne, if_false] at hd
      intro _
      show 0 < (s.repo.step o).1.depth
      omega

theorem branchG_consistent_run (s : Branch) (h : s.Inv) (hcons : s.Consistent) (ops : List SOp)
    (hops : ∀ o ∈ ops, o ≠ SOp.repo .unlock) : (s.runG ops).Inv ∧ (s.runG ops).Consistent := by
  induction ops generalizing s with
  | nil => exact ⟨h, hcons⟩
  | cons o ops ih =>
    exact ih _ (branchG_inv_step h o)
      (branchG_consistent_step s h hcons o (hops o (List.mem_cons_self ..)))
      (fun o' ho' => hops o' (List.mem_cons_of_mem _ ho'))

/-- `branchG_refused_unchanged` without the `Consistent` hypothesis: after ANY sequence of
branch and repository calls that contains no direct `repository.unlock()`, from any
initial situation, a refused call leaves the lock state of the whole stack unchanged. -/
theorem branchG_refused_unchanged_run (ext rbB rbR : Bool) (ops : List SOp)
    (hops : ∀ o ∈ ops, o ≠ SOp.repo .unlock) (o : SOp) (e : Err)
    (hr : (((Branch.init ext rbB rbR).runG ops).stepG o).2 = .error e) :
    (((Branch.init ext rbB rbR).runG ops).stepG o).1.core = ((Branch.init ext rbB rbR).runG ops).core := by
  have hinit : (Branch.init ext rbB rbR).Consistent := by
    intro h; simp [Branch.init, LF.init] at h
  obtain ⟨hi, hc⟩ := branchG_consistent_run _ (Branch.inv_init ext rbB rbR) hinit ops hops
  exact branchG_refused_unchanged _ hi hc o e hr

/-- the hypothesis is needed: a caller's `repository.unlock()` behind a locked branch's back breaks it -/
example : ¬ ((Branch.init false).runG [.branch .lockRead, .repo .unlock]).Consistent := by
  intro h
  have := h (by decide)
  revert this
  decide

/-- a sequence satisfying the hypothesis of `branchG_refused_unchanged_run` in which calls are
refused (write after read, read on a refusing physical lock) and locks are nested -/
example : (∀ o ∈ [SOp.branch .lockRead, .repo .lockRead, .branch (.lockWrite none), .branch .unlock],
      o ≠ SOp.repo .unlock) ∧
    (((Branch.init false).runG [.branch .lockRead, .repo .lockRead]).stepG (.branch (.lockWrite none))).2
      = .error .readOnly ∧
    ((Branch.init false true false).stepG (.branch .lockRead)).2 = .error .contention ∧
    ((Branch.init false true false).stepG (.branch .lockRead)).1.repo.fbLog = [.acqR, .rel] := by
  refine ⟨by decide, by decide, by decide, by decide⟩

/-! ### bzr working trees over the (guarded) branch — `Tree.step` is the code in /repo -/

/-- For every interleaving of calls on a working tree, on its branch and on its
repository, from every initial situation: the physical logs of all three
control-files locks and of the fallback repositories are balanced, and each
`is_locked()` agrees with its count. -/
theorem tree_physical_balanced (ext rbT rbB rbR pin : Bool) (ops : List TOp) :
    let s := (Tree.init ext rbT rbB rbR pin).run ops
    Balanced s.ds.log s.ds.held.isSome ∧ (s.ds.held.isSome = true ↔ 0 < s.cf.count) ∧
    Balanced s.cf.phys.log s.cf.phys.held.isSome ∧
    (s.cf.phys.held.isSome = true ↔ 0 < s.cf.count) ∧
    (s.isLocked = true ↔ 0 < s.cf.count) ∧
    Balanced s.branch.cf.phys.log s.branch.cf.phys.held.isSome ∧
    (s.branch.cf.phys.held.isSome = true ↔ 0 < s.branch.cf.count) ∧
    Balanced s.branch.repo.cf.phys.log s.branch.repo.cf.phys.held.isSome ∧
    (0 < s.branch.repo.depth → s.branch.repo.fb = 1 ∧ Balanced s.branch.repo.fbLog true) ∧
    (s.branch.repo.depth = 0 → s.branch.repo.fb = 0 ∧ Balanced s.branch.repo.fbLog false) := by
  intro s
  have h : s.Inv := Tree.inv_run (Tree.inv_init ext rbT rbB rbR pin) ops
  refine ⟨h.ds_bal, h.ds_held, h.cf.bal, ?_, ?_, h.branch.cf.bal, ?_, h.branch.repo.cf.bal,
    fun hd => ⟨h.branch.repo.fb_pos hd, h.branch.repo.fb_bal_pos hd⟩,
    fun hd => ⟨h.branch.repo.fb_zero hd, h.branch.repo.fb_bal_zero hd⟩⟩
  · rw [← h.cf.mode_held]; exact h.cf.mode_count
  · simp [Tree.isLocked, LF.isLocked]; omega
  · rw [← h.branch.cf.mode_held]; exact h.branch.cf.mode_count

/-- FINDING (committed known finding `tree-over-unlock-releases-branch`).  A refused
`tree.unlock()` changes the lock state: with the branch read-locked once by another
holder and the tree unlocked, `unlock` raises `LockNotHeld` *and* releases the branch's
lock, the repository's lock and the fallbacks. -/
theorem tree_over_unlock_witness :
    let s := (Tree.init false).run [.branch .lockRead]
    s.isLocked = false ∧ s.branch.isLocked = true ∧ s.branch.repo.fb = 1 ∧
    (s.step (.tree .unlock)).2 = .error .notHeld ∧
    (s.step (.tree .unlock)).1.branch.isLocked = false ∧
    (s.step (.tree .unlock)).1.branch.repo.isLocked = false ∧
    (s.step (.tree .unlock)).1.branch.repo.fb = 0 := by decide

/-- control files: a granted call moves the count by one, and touches the physical lock
exactly on the edges -/
theorem lf_ok_edge (s : LF) (h : s.Inv) (o : Op) (t : Option Nat) (hr : (s.step o).2 = .ok t) :
    (if o = .unlock then (s.step o).1.count + 1 = s.count else (s.step o).1.count = s.count + 1) ∧
    (s.count = 0 → ∃ e, e ≠ Ev.rel ∧ (s.step o).1.phys.log = s.phys.log ++ [e]) ∧
    ((s.step o).1.count = 0 → (s.step o).1.phys.log = s.phys.log ++ [.rel]) ∧
    (0 < s.count → 0 < (s.step o).1.count → (s.step o).1.phys.log = s.phys.log) := by
  have hc := lf_ok_count s h o t hr
  obtain ⟨e1, e2, e3⟩ := lf_edge s h o
  refine ⟨hc, ?_, ?_, ?_⟩
  · intro h0; apply e1 h0; split at hc <;> omega
  · intro h0; apply e2 _ h0; split at hc <;> omega
  · intro h0 h1; apply e3; constructor <;> intro <;> omega

/-- A granted tree call is exactly one granted call on the tree's own control files
(`lf_ok_edge`: count ± 1, physical lock touched on the edges only) plus exactly one
granted call of the same direction on the branch (`branchG_ok_edge`): every tree lock
holds one branch lock, every tree unlock gives one back. -/
theorem tree_ok_edge (s : Tree) (h : s.Inv) (o : TreeOp) (t : Option Nat)
    (hr : (s.step (.tree o)).2 = .ok t) :
    (if o = .unlock then (s.step (.tree o)).1.cf.count + 1 = s.cf.count ∧
        (s.step (.tree o)).1.branch.cf.count + 1 = s.branch.cf.count
      else (s.step (.tree o)).1.cf.count = s.cf.count + 1 ∧
        (s.step (.tree o)).1.branch.cf.count = s.branch.cf.count + 1) ∧
    (s.cf.count = 0 → ∃ e, e ≠ Ev.rel ∧ (s.step (.tree o)).1.cf.phys.log = s.cf.phys.log ++ [e]) ∧
    ((s.step (.tree o)).1.cf.count = 0 → (s.step (.tree o)).1.cf.phys.log = s.cf.phys.log ++ [.rel]) ∧
    (0 < s.cf.count → 0 < (s.step (.tree o)).1.cf.count →
      (s.step (.tree o)).1.cf.phys.log = s.cf.phys.log) := by
  obtain ⟨tb, tc, hb, hc, hs1, hs2⟩ := Tree.step_ok o hr
  rw [hs1, hs2]
  obtain ⟨c1, c2, c3, c4⟩ := lf_ok_edge s.cf h.cf o.cfOp tc hc
  obtain ⟨b1, _⟩ := branchG_ok_edge s.branch h.branch o.branchOp tb hb
  refine ⟨?_, c2, c3, c4⟩
  cases o <;> simp only [TreeOp.cfOp, TreeOp.branchOp, reduceCtorEq, if_false, if_true] at c1 b1 ⊢ <;>
    exact ⟨c1, b1⟩

/-- a refused call on the tree, its branch or its repository leaves the lock state
(`lcore`: everything but the logs and the stale `_token_from_lock`) of the whole stack
unchanged — PARTIAL: except for `unlock` of an unlocked tree whose branch is locked by
another holder (`tree_over_unlock_witness`).  Lock calls that fail half way (branch
locked, own control files refuse) give the branch lock back. -/
theorem tree_refused_unchanged_partial (s : Tree) (h : s.Inv) (hcons : s.Consistent) (o : TOp)
    (e : Err) (hr : (s.step o).2 = .error e)
    (hex : ¬ (o = .tree .unlock ∧ s.cf.count = 0 ∧ 0 < s.branch.cf.count)) :
    (s.step o).1.lcore = s.lcore := by
  have hbr : ∀ (bo : Op) (e : Err), (s.branch.stepG (.branch bo)).2 = .error e →
      (s.branch.stepG (.branch bo)).1.core = s.branch.core :=
    fun bo e he => branchG_refused_unchanged s.branch h.branch hcons.branch (.branch bo) e he
  cases o with
  | branch o =>
    simp only [Tree.step] at hr ⊢
    simp only [Tree.lcore, Branch.lcore_of_core (hbr o e hr)]
  | repo o =>
    simp only [Tree.step] at hr ⊢
    have := branchG_refused_unchanged s.branch h.branch hcons.branch (.repo o) e hr
    simp only [Tree.lcore, Branch.lcore_of_core this]
  | tree o =>
    by_cases hu : o = .unlock
    · subst hu
      obtain ⟨h1, h2, h3⟩ := Tree.unlock_state s
      have hres := Tree.unlock_result s
      simp only [Tree.step] at hr ⊢
      rcases LF.unlock_spec h.cf with ⟨hc, eu⟩ | ⟨hc, cf', eu, hcc, _⟩
      · have hb0 : s.branch.cf.count = 0 := by
          cases hb : s.branch.cf.count with
          | zero => rfl
          | succ n => exact absurd ⟨rfl, hc, by omega⟩ hex
        have hne : (s.cf.count = 1 && s.ds.held.isSome) = false := by simp [hc]
        simp only [Tree.lcore, h1, h2, h3, eu, Branch.stepG_guard s.branch hb0, hne, Bool.false_eq_true,
          if_false]
      · exfalso
        obtain ⟨b, eb, _⟩ := Branch.unlock_ok h.branch hcons.branch (by have := hcons.tree; omega)
        rw [hres, eb, eu] at hr
        cases hr
    · rw [Tree.step_lock_eq s o hu] at hr ⊢
      have hbo : o.branchOp ≠ .unlock := by cases o <;> first | exact absurd rfl hu | decide
      have hco : o.cfOp ≠ .unlock := by cases o <;> first | exact absurd rfl hu | decide
      exact Tree.lockVia_refused h _ hbo _ _ hco (hbr _) hr

/-- a write lock (`lock_write` or `lock_tree_write`) requested on a read-locked tree is
refused with `ReadOnlyError` (and, by `tree_refused_unchanged_partial`, changes nothing) -/
theorem tree_write_after_read_refused (s : Tree) (h : s.Inv) (hcons : s.Consistent)
    (hm : s.cf.mode = some .r) (o : TreeOp) (ho : o = .lockWrite ∨ o = .lockTreeWrite) :
    (s.step (.tree o)).2 = .error .readOnly ∧ (s.step (.tree o)).1.lcore = s.lcore := by
  have hc : 0 < s.cf.count := h.cf.mode_count.mp (by simp [hm])
  have hbc : 0 < s.branch.cf.count := by have := hcons.tree; omega
  have hself : (s.cf.lockWrite none).2 = .error .readOnly := by
    have := lf_write_after_read_refused s.cf hm none
    simp only [LF.step] at this
    rw [this]
  have hres : (s.step (.tree o)).2 = .error .readOnly := by
    rcases ho with rfl | rfl
    · -- lock_write: branch.lock_write() on a locked branch is granted or ReadOnlyError
      simp only [Tree.step, Tree.lockWrite]
      rcases hb : s.branch.stepG (.branch (.lockWrite none)) with ⟨b, rb⟩
      cases rb with
      | ok tb => exact Tree.lockVia_self_refused h (.lockWrite none) (by decide) _ _ hb hself
      | error e' =>
        have hl : s.branch.isLocked = true := by simp [Branch.isLocked, LF.isLocked]; omega
        simp only [Branch.stepG, Branch.step, Branch.lockWrite, hl, Bool.not_true, Bool.false_eq_true,
          if_false] at hb
        rcases LF.lockWrite_none_locked h.branch.cf hbc with ⟨cf', t', ew⟩ | ew
        · simp [ew, Branch.finishLock] at hb
        · simp only [ew, Branch.finishLock, Bool.false_eq_true, if_false] at hb
          have : e' = .readOnly := by
            have := (Prod.mk.inj hb).2
            injection this with this
            exact this.symm
          subst this
          simp only [Tree.lockVia, Branch.stepG, Branch.step, Branch.lockWrite, hl, Bool.not_true,
            Bool.false_eq_true, if_false, ew, Branch.finishLock]
    · -- lock_tree_write: branch.lock_read() on a locked branch is granted
      simp only [Tree.step, Tree.lockTreeWrite]
      rcases hb : s.branch.stepG (.branch .lockRead) with ⟨b, rb⟩
      cases rb with
      | ok tb => exact Tree.lockVia_self_refused h .lockRead (by decide) _ _ hb hself
      | error e' =>
        exfalso
        have hl : s.branch.isLocked = true := by simp [Branch.isLocked, LF.isLocked]; omega
        simp only [Branch.stepG, Branch.step, Branch.lockRead, hl, Bool.not_true, Bool.false_eq_true,
          if_false] at hb
        rcases LF.lockRead_spec h.branch.cf with ⟨h0, _⟩ | ⟨cf', ec, _⟩
        · omega
        · simp [ec, Branch.finishLock] at hb
  refine ⟨hres, tree_refused_unchanged_partial s h hcons (.tree o) .readOnly hres ?_⟩
  rintro ⟨ho', _⟩
  rcases ho with rfl | rfl <;> cases ho'

/-- `Tree.Consistent` (every tree lock holds a branch lock, a locked branch holds its
repository) is preserved by EVERY step of the stack except a caller's own direct
`branch.unlock()` / `repository.unlock()` — including the over-unlock of the finding. -/
theorem tree_consistent_step (s : Tree) (h : s.Inv) (hcons : s.Consistent) (o : TOp)
    (ho : o ≠ .repo .unlock ∧ o ≠ .branch .unlock) : (s.step o).1.Consistent := by
  have hbstep : ∀ bo : SOp, bo ≠ .repo .unlock → (s.branch.stepG bo).1.Consistent :=
    fun bo hbo => branchG_consistent_step s.branch h.branch hcons.branch bo hbo
  cases o with
  | repo o =>
    have hne : SOp.repo o ≠ .repo .unlock := fun hx => ho.1 (by injection hx with hx; rw [hx])
    refine ⟨?_, hbstep _ hne⟩
    show s.cf.count ≤ (s.branch.stepG (.repo o)).1.cf.count
    rw [Branch.stepG_repo]
    exact hcons.tree
  | branch o =>
    have hne : o ≠ .unlock := fun hx => ho.2 (by rw [hx])
    refine ⟨?_, hbstep _ (by intro hx; cases hx)⟩
    show s.cf.count ≤ (s.branch.stepG (.branch o)).1.cf.count
    have ht := hcons.tree
    cases hres : (s.branch.stepG (.branch o)).2 with
    | error e =>
      have hcore := branchG_refused_unchanged s.branch h.branch hcons.branch (.branch o) e hres
      have := (Branch.lcore_counts (Branch.lcore_of_core hcore)).1
      omega
    | ok t =>
      obtain ⟨h1, _⟩ := branchG_ok_edge s.branch h.branch o t hres
      simp only [hne, if_false] at h1
      omega
  | tree o =>
    cases hres : (s.step (.tree o)).2 with
    | ok t =>
      obtain ⟨tb, tc, hb, hc, hs1, hs2⟩ := Tree.step_ok o hres
      obtain ⟨c1, _⟩ := tree_ok_edge s h o t hres
      have ht := hcons.tree
      refine ⟨?_, ?_⟩
      · cases o <;> simp only [reduceCtorEq, if_false, if_true] at c1 <;> omega
      · rw [hs2]; exact hbstep _ (by intro hx; cases hx)
    | error e =>
      by_cases hu : o = .unlock
      · subst hu
        -- `unlock`: the state is always (cf.unlock, branch.unlock), whatever is raised
        obtain ⟨h1, h2, _⟩ := Tree.unlock_state s
        refine ⟨?_, by simp only [Tree.step]; rw [h2]; exact hbstep _ (by intro hx; cases hx)⟩
        show (s.step (.tree .unlock)).1.cf.count ≤ (s.step (.tree .unlock)).1.branch.cf.count
        simp only [Tree.step]
        rw [h1, h2]
        have ht := hcons.tree
        rcases LF.unlock_spec h.cf with ⟨hc0, eu⟩ | ⟨hc, cf', eu, hcc, _⟩
        · rw [eu]; simp only; omega
        · obtain ⟨b, eb, hbc⟩ := Branch.unlock_ok h.branch hcons.branch (by omega)
          rw [eu, eb]; simp only; omega
      · have hl := tree_refused_unchanged_partial s h hcons (.tree o) e hres
          (by rintro ⟨hx, _⟩; injection hx with hx; exact hu hx)
        obtain ⟨hc, hb, _⟩ := Tree.lcore_parts hl
        obtain ⟨hb1, hb2⟩ := Branch.lcore_counts hb
        have ht := hcons.tree
        refine ⟨by omega, ?_⟩
        intro hpos
        have := hcons.branch (by omega)
        omega

theorem tree_consistent_run (s : Tree) (h : s.Inv) (hcons : s.Consistent) (ops : List TOp)
    (hops : ∀ o ∈ ops, o ≠ TOp.repo .unlock ∧ o ≠ TOp.branch .unlock) :
    (s.run ops).Inv ∧ (s.run ops).Consistent := by
  induction ops generalizing s with
  | nil => exact ⟨h, hcons⟩
  | cons o ops ih =>
    exact ih _ (Tree.inv_step h o) (tree_consistent_step s h hcons o (hops o (List.mem_cons_self ..)))
      (fun o' ho' => hops o' (List.mem_cons_of_mem _ ho'))

/-- `tree_refused_unchanged_partial` without the `Consistent` hypothesis: after ANY
sequence of tree, branch and repository calls that contains no direct `branch.unlock()`
/ `repository.unlock()` of a caller, from any initial situation, a refused call leaves the
lock state of the whole stack unchanged — except the over-unlock of the finding. -/
theorem tree_refused_unchanged_run (ext rbT rbB rbR pin : Bool) (ops : List TOp)
    (hops : ∀ o ∈ ops, o ≠ TOp.repo .unlock ∧ o ≠ TOp.branch .unlock) (o : TOp) (e : Err)
    (hr : (((Tree.init ext rbT rbB rbR pin).run ops).step o).2 = .error e)
    (hex : ¬ (o = .tree .unlock ∧ ((Tree.init ext rbT rbB rbR pin).run ops).cf.count = 0 ∧
      0 < ((Tree.init ext rbT rbB rbR pin).run ops).branch.cf.count)) :
    (((Tree.init ext rbT rbB rbR pin).run ops).step o).1.lcore = ((Tree.init ext rbT rbB rbR pin).run ops).lcore := by
  have hinit : (Tree.init ext rbT rbB rbR pin).Consistent :=
    ⟨by simp [Tree.init, LF.init], by intro h; simp [Tree.init, Branch.init, LF.init] at h⟩
  obtain ⟨hi, hc⟩ := tree_consistent_run _ (Tree.inv_init ext rbT rbB rbR pin) hinit ops hops
  exact tree_refused_unchanged_partial _ hi hc o e hr hex

/-- a sequence satisfying the hypothesis, with nested tree locks of all three kinds, a direct
branch lock, and a refused call -/
example : (∀ o ∈ [TOp.tree .lockTreeWrite, .tree .lockRead, .branch .lockRead, .tree .unlock],
      o ≠ TOp.repo .unlock ∧ o ≠ TOp.branch .unlock) ∧
    (((Tree.init false).run [.tree .lockTreeWrite, .tree .lockRead, .branch .lockRead, .tree .unlock]).step
      (.tree .lockWrite)).2 = .error .readOnly := by
  refine ⟨by decide, by decide⟩

/-! #### the dirstate file lock (fourth layer) -/

/-- THE DIRSTATE ROLL-BACK.  A first write lock of a dirstate tree (`lock_write` or
`lock_tree_write`, tree count 0) whose dirstate FILE is pinned by another reader (a second
working-tree object or process holds a read lock on it), with the branch call and the
tree's own control-files `lock_write()` granted: the call raises `LockContention`; the
lock state of the WHOLE stack (tree control files, dirstate, branch, repository) is
unchanged; and the control files' physical lock — taken before the dirstate was tried —
has been RELEASED again: not held, count 0, its log grown by exactly `acquire, release`. -/
theorem tree_dirstate_refused_rollback (s : Tree) (h : s.Inv) (hcons : s.Consistent) (o : TreeOp)
    (ho : o = .lockWrite ∨ o = .lockTreeWrite) (hc0 : s.cf.count = 0) (hpin : s.ds.pinned = true)
    (tb tc : Option Nat) (hb : (s.branch.stepG (.branch o.branchOp)).2 = .ok tb)
    (hc : (s.cf.lockWrite none).2 = .ok tc) :
    (s.step (.tree o)).2 = .error .contention ∧
    (s.step (.tree o)).1.lcore = s.lcore ∧
    (s.step (.tree o)).1.cf.count = 0 ∧
    (s.step (.tree o)).1.cf.phys.held = none ∧
    (s.step (.tree o)).1.ds = s.ds ∧
    (∃ ev, ev ≠ Ev.rel ∧ (s.step (.tree o)).1.cf.phys.log = s.cf.phys.log ++ [ev] ++ [.rel]) := by
  have hu : o ≠ .unlock := by rcases ho with rfl | rfl <;> decide
  have hbo : o.branchOp ≠ .unlock := by rcases ho with rfl | rfl <;> decide
  have hm : o.dsMode = .w := by rcases ho with rfl | rfl <;> rfl
  have hcf : (fun cf : LF => cf.step o.cfOp) = (fun cf : LF => cf.lockWrite none) := by
    rcases ho with rfl | rfl <;> rfl
  have hstep := Tree.step_lock_eq s o hu
  rw [hm, hcf] at hstep
  obtain ⟨r1, r2, r3, r4, r5⟩ := Tree.lockVia_ds_refused h o.branchOp hbo hc0 hpin
    (b := (s.branch.stepG (.branch o.branchOp)).1) (tb := tb) (Prod.ext rfl hb)
    (cf' := (s.cf.lockWrite none).1) (tc := tc) (Prod.ext rfl hc)
  rw [← hstep] at r1 r2 r3 r4 r5
  refine ⟨r1, ?_, r3, r4, r2, r5⟩
  exact tree_refused_unchanged_partial s h hcons (.tree o) .contention r1
    (by rintro ⟨hx, _⟩; injection hx with hx; exact hu hx)

/-- the hypotheses hold in reachable states: a fresh tree with a pinned dirstate, and one whose
branch somebody else holds; `lock_read` of a pinned tree is granted -/
example : ((Tree.init false (pin := true)).step (.tree .lockWrite)).2 = .error .contention ∧
    ((Tree.init false (pin := true)).step (.tree .lockWrite)).1.cf.phys.log = [.acqW, .rel] ∧
    ((Tree.init false (pin := true)).step (.tree .lockWrite)).1.branch.cf.phys.log = [.acqW, .rel] ∧
    ((Tree.init false (pin := true)).step (.tree .lockWrite)).1.lcore = (Tree.init false (pin := true)).lcore ∧
    ((Tree.init false (pin := true)).step (.tree .lockRead)).2 = .ok none := by decide

example : (((Tree.init false (pin := true)).run [.branch .lockRead]).step (.tree .lockTreeWrite)).2
      = .error .contention ∧
    (((Tree.init false (pin := true)).run [.branch .lockRead]).step (.tree .lockTreeWrite)).1.branch.cf.count = 1 ∧
    (((Tree.init false (pin := true)).run [.branch .lockRead]).step (.tree .lockTreeWrite)).1.cf.phys.held = none := by
  decide

/-! #### the guarded tree (`Tree.stepG`: the fix that had to be reverted) — no exception left -/

theorem treeG_over_unlock_refused (s : Tree) (hc : s.cf.count = 0) :
    s.stepG (.tree .unlock) = (s, .error .notHeld) := Tree.stepG_guard s hc

theorem treeG_refused_unchanged (s : Tree) (h : s.Inv) (hcons : s.Consistent) (o : TOp)
    (e : Err) (hr : (s.stepG o).2 = .error e) : (s.stepG o).1.lcore = s.lcore := by
  by_cases hg : o = .tree .unlock ∧ s.cf.count = 0
  · rw [hg.1, Tree.stepG_guard s hg.2]
  · rw [Tree.stepG_eq s o hg] at hr ⊢
    exact tree_refused_unchanged_partial s h hcons o e hr (fun hx => hg ⟨hx.1, hx.2.1⟩)

theorem treeG_physical_balanced (ext rbT rbB rbR pin : Bool) (ops : List TOp) :
    let s := (Tree.init ext rbT rbB rbR pin).runG ops
    Balanced s.cf.phys.log s.cf.phys.held.isSome ∧
    (s.cf.phys.held.isSome = true ↔ 0 < s.cf.count) ∧
    Balanced s.branch.cf.phys.log s.branch.cf.phys.held.isSome ∧
    (s.branch.cf.phys.held.isSome = true ↔ 0 < s.branch.cf.count) := by
  intro s
  have h : s.Inv := Tree.inv_runG (Tree.inv_init ext rbT rbB rbR pin) ops
  refine ⟨h.cf.bal, ?_, h.branch.cf.bal, ?_⟩
  · rw [← h.cf.mode_held]; exact h.cf.mode_count
  · rw [← h.branch.cf.mode_held]; exact h.branch.cf.mode_count

/-- the witness of the finding does not exist in the guarded variant -/
example : ((Tree.init false).run [.branch .lockRead]).stepG (.tree .unlock) =
    ((Tree.init false).run [.branch .lockRead], .error .notHeld) := by decide

/-- hypotheses of `tree_refused_unchanged_partial` / `tree_write_after_read_refused` hold, and calls
are refused, in reachable states: a read-locked tree over a branch somebody else write-locked first
(the roll-back path: `branch.lock_write()` is granted, the tree's control files refuse, the branch
lock is given back), and a tree whose own lock refuses `lock_read()` -/
example : ((Tree.init false).run [.branch (.lockWrite none), .tree .lockRead]).cf.mode = some .r ∧
    (((Tree.init false).run [.branch (.lockWrite none), .tree .lockRead]).step (.tree .lockWrite)).2
      = .error .readOnly ∧
    (((Tree.init false).run [.branch (.lockWrite none), .tree .lockRead]).step (.tree .lockWrite)).1.branch.cf.count
      = 2 := by decide

example : ((Tree.init false).run [.branch (.lockWrite none), .tree .lockRead]).Consistent :=
  ⟨by decide, fun _ => by decide⟩

example : ((Tree.init false true).step (.tree .lockRead)).2 = .error .contention ∧
    ((Tree.init false true).step (.tree .lockRead)).1.branch.cf.phys.log = [.acqR, .rel] ∧
    ((Tree.init false true).step (.tree .lockRead)).1.lcore = (Tree.init false true).lcore := by decide

/-! ### write groups: `PackRepository.unlock` inside a write group -/

/-- with no write group active the write-group-aware step IS the plain repository step
(every `repo_*` theorem applies), and no group appears by itself -/
theorem repow_no_group (fx : Bool) (s : RepoW) (hw : s.wg = false) (o : Op) :
    s.step fx (.op o) = ({ s with repo := (s.repo.step o).1 }, (s.repo.step o).2) := by
  cases o <;> simp [RepoW.step, RepoW.unlock, hw, Repo.step]

/-- FINDING (code as found, `fx = false`).  The last `unlock()` of a write-locked
`PackRepository` while a write group is active aborts the group and returns `None`
(the `BzrError` is discarded by `only_raises`); the repository is unlocked, but its
fallback repositories — locked on the 0→1 edge — are NOT released on this 1→0 edge. -/
theorem repo_unlock_in_write_group_witness :
    let s := (RepoW.init false).run false [.op (.lockWrite none), .startWG]
    s.repo.isLocked = true ∧ s.repo.fb = 1 ∧ s.wg = true ∧
    (s.step false (.op .unlock)).2 = .ok none ∧
    (s.step false (.op .unlock)).1.repo.isLocked = false ∧
    (s.step false (.op .unlock)).1.repo.fb = 1 ∧
    (s.step false (.op .unlock)).1.repo.fbLog = [.acqR] := by decide

/-- a write group is only ever active under a write lock -/
def RepoW.Inv (s : RepoW) : Prop := s.repo.Inv ∧ (s.wg = true → 0 < s.repo.wcount)

/-- With the proposed fix (`fx = true`): in EVERY state satisfying the invariant in which
the last write lock is released inside a write group, the call returns, the group is
gone, the repository is unlocked, the fallbacks are released exactly once, and the
invariant holds again. -/
theorem repowF_unlock_in_write_group (s : RepoW) (h : s.repo.Inv) (hw : s.repo.wcount = 1)
    (hg : s.wg = true) :
    (s.step true (.op .unlock)).2 = .ok none ∧ (s.step true (.op .unlock)).1.wg = false ∧
    (s.step true (.op .unlock)).1.repo.depth = 0 ∧ (s.step true (.op .unlock)).1.repo.fb = 0 ∧
    (s.step true (.op .unlock)).1.repo.fbLog = s.repo.fbLog ++ [.rel] ∧
    (s.step true (.op .unlock)).1.repo.Inv := by
  have hc : s.repo.cf.count = 0 := by
    rcases h.excl with h0 | h0
    · omega
    · exact h0
  have hd : 0 < s.repo.depth := by simp only [Repo.depth]; omega
  have hfb := h.fb_pos hd
  have hbal := (h.fb_bal_pos hd).release
  have hl : ({ s.repo with wcount := 0 } : Repo).isLocked = false := by
    simp [Repo.isLocked, LF.isLocked, hc]
  simp only [RepoW.step, RepoW.unlock, hw, hg, Bool.and_self, decide_true, if_true, hl, Bool.not_false]
  refine ⟨trivial, trivial, by simp [Repo.depth, hc], by simp [hfb], trivial, ?_⟩
  exact ⟨h.cf, Or.inl rfl, by intro h0; simp [Repo.depth, hc] at h0, fun _ => by simp [hfb],
    by intro h0; simp [Repo.depth, hc] at h0, fun _ => hbal⟩

/-- with the fix the invariant (balanced logs, fallbacks locked exactly while the
repository is) survives every sequence of lock calls AND write-group calls -/
theorem repowF_inv_step (s : RepoW) (h : s.Inv) (o : WOp) : (s.step true o).1.Inv := by
  obtain ⟨hi, hwg⟩ := h
  cases o with
  | startWG =>
    simp only [RepoW.step]
    split
    · exact ⟨hi, hwg⟩
    · next hw =>
      split
      · exact ⟨hi, hwg⟩
      · exact ⟨hi, fun _ => by show 0 < s.repo.wcount; omega⟩
  | abortWG =>
    simp only [RepoW.step]
    split
    · exact ⟨hi, hwg⟩
    · exact ⟨hi, by intro h0; cases h0⟩
  | op o =>
    by_cases hg : s.wg = true
    · have hpos := hwg hg
      cases o with
      | unlock =>
        by_cases h1 : s.repo.wcount = 1
        · obtain ⟨_, h2, _, _, _, h6⟩ := repowF_unlock_in_write_group s hi h1 hg
          exact ⟨h6, by intro h0; rw [h2] at h0; cases h0⟩
        · have hne : (s.repo.wcount = 1 && s.wg) = false := by simp [h1]
          simp only [RepoW.step, RepoW.unlock, hne, Bool.false_eq_true, if_false]
          refine ⟨Repo.inv_step hi .unlock, fun _ => ?_⟩
          rcases Repo.unlock_spec hi with ⟨hd, _⟩ | ⟨_, e⟩ | ⟨hw0, _⟩
          · simp only [Repo.depth] at hd; omega
          · have h2 : 1 < s.repo.wcount := by omega
            rw [e]; simp only [h2, if_true]; omega
          · omega
      | lockRead =>
        simp only [RepoW.step]
        refine ⟨Repo.inv_step hi .lockRead, fun _ => ?_⟩
        rcases Repo.lockRead_spec hi with ⟨_, e⟩ | ⟨hd, _⟩ | ⟨hw0, _⟩
        · simp only [Repo.step, e]; omega
        · simp only [Repo.depth] at hd; omega
        · omega
      | lockWrite tok =>
        simp only [RepoW.step]
        refine ⟨Repo.inv_step hi (.lockWrite tok), fun _ => ?_⟩
        rcases Repo.lockWrite_spec hi tok with ⟨hw0, _⟩ | ⟨_, e⟩ | ⟨hd, _⟩
        · omega
        · simp only [Repo.step, e]; omega
        · simp only [Repo.depth] at hd; omega
    · have hg' : s.wg = false := by simpa using hg
      rw [repow_no_group true s hg' o]
      exact ⟨Repo.inv_step hi o, by intro h0; simp only [hg'] at h0; cases h0⟩

theorem repowF_physical_balanced (ext rb : Bool) (ops : List WOp) :
    let s := (RepoW.init ext rb).run true ops
    Balanced s.repo.cf.phys.log s.repo.cf.phys.held.isSome ∧
    (s.repo.isLocked = true ↔ 0 < s.repo.depth) ∧
    (0 < s.repo.depth → s.repo.fb = 1 ∧ Balanced s.repo.fbLog true) ∧
    (s.repo.depth = 0 → s.repo.fb = 0 ∧ Balanced s.repo.fbLog false) ∧
    (s.wg = true → 0 < s.repo.wcount) := by
  intro s
  have h : s.Inv := by
    have : ∀ (ops : List WOp) (s : RepoW), s.Inv → (s.run true ops).Inv := by
      intro ops
      induction ops with
      | nil => intro s h; exact h
      | cons o ops ih => intro s h; exact ih _ (repowF_inv_step s h o)
    exact this ops _ ⟨Repo.inv_init ext rb, by intro h0; cases h0⟩
  exact ⟨h.1.cf.bal, Repo.isLocked_iff _, fun hd => ⟨h.1.fb_pos hd, h.1.fb_bal_pos hd⟩,
    fun hd => ⟨h.1.fb_zero hd, h.1.fb_bal_zero hd⟩, h.2⟩

/-- hypotheses of `repowF_unlock_in_write_group` hold in a reachable state -/
example : ((RepoW.init false).run true [.op (.lockWrite none), .startWG]).repo.wcount = 1 ∧
    ((RepoW.init false).run true [.op (.lockWrite none), .startWG]).wg = true ∧
    ((RepoW.init false).run true [.op (.lockWrite none), .startWG, .op .unlock]).repo.fbLog = [.acqR, .rel] := by
  decide

/-! ### `BzrBranch.unlock` with a config store that fails to save -/

/-- without a failing store the step IS the guarded branch step (every `branchG_*` theorem applies) -/
theorem branchS_no_failure (fx : Bool) (s : BranchS) (hs : s.saveFails = false) (o : SOp) :
    s.step fx o = ({ s with b := (s.b.stepG o).1 }, (s.b.stepG o).2) := by
  cases o with
  | repo o => rfl
  | branch o =>
    cases o with
    | lockRead => rfl
    | lockWrite t => rfl
    | unlock =>
      simp only [BranchS.step, Branch.stepG, hs, Bool.and_false, Bool.false_and, Bool.false_eq_true, if_false]
      split <;> first | rfl | (cases s; simp_all)

/-- with the proposed fix a failing store changes nothing about the locks: the step IS
the guarded branch step, whatever the store does -/
theorem branchS_fixed_eq (s : BranchS) (o : SOp) :
    s.step true o = ({ s with b := (s.b.stepG o).1 }, (s.b.stepG o).2) := by
  cases o with
  | repo o => rfl
  | branch o =>
    cases o with
    | lockRead => rfl
    | lockWrite t => rfl
    | unlock =>
      simp only [BranchS.step, Branch.stepG, Bool.not_true, Bool.and_false, Bool.false_eq_true, if_false]
      split <;> first | rfl | (cases s; simp_all)

/-- FINDING (code as found, `fx = false`).  The matching last `unlock()` of a branch whose
config store fails in `save_changes()` returns `None` (the exception is discarded by
`only_raises`) and releases nothing: branch, repository and the physical lock stay held. -/
theorem branch_unlock_save_failure_witness :
    let s := (BranchS.init false true).run false [.branch (.lockWrite none)]
    s.b.cf.count = 1 ∧ s.b.cf.phys.held = some .w ∧
    (s.step false (.branch .unlock)).2 = .ok none ∧
    (s.step false (.branch .unlock)).1 = s ∧
    (s.step true (.branch .unlock)).1.b.isLocked = false ∧
    (s.step true (.branch .unlock)).1.b.cf.phys.held = none ∧
    (s.step true (.branch .unlock)).1.b.repo.isLocked = false := by decide

/-! ### non-vacuity: reachable, non-trivial states satisfy the hypotheses -/

/-- `CL.Inv` / `mode = r` (hypotheses of `cl_write_after_read_refused`, `cl_edge`, `cl_ok_count`)
hold in a nested read-locked state -/
example : ((CL.init false).run [.lockRead, .lockRead]).mode = some .r ∧
    ((CL.init false).run [.lockRead, .lockRead]).count = 2 := by decide

example : ((CL.init false).run [.lockRead, .lockRead]).Inv := CL.inv_run (CL.inv_init false) _

/-- a refused call really occurs (`cl_refused_unchanged`): token mismatch while write-locked -/
example : (((CL.init false).run [.lockWrite none]).step (.lockWrite (some 9))).2 = .error .tokenMismatch := by
  decide

/-- `lf_write_after_read_refused`: a read-locked LockableFiles -/
example : ((LF.init true).run [.lockRead, .lockRead, .unlock]).mode = some .r := by decide

/-- `lf_over_unlock_refused`: count 0 after balanced use, log `R U W U` -/
example : ((LF.init false).run [.lockRead, .unlock, .lockWrite none, .unlock]).count = 0 ∧
    ((LF.init false).run [.lockRead, .unlock, .lockWrite none, .unlock]).phys.log =
      [.acqR, .rel, .acqW, .rel] := by decide

/-- `repo_write_after_read_refused`: a read-locked repository (`wcount = 0`, control files count 2) -/
example : ((Repo.init false).run [.lockRead, .lockRead]).wcount = 0 ∧
    ((Repo.init false).run [.lockRead, .lockRead]).cf.count = 2 ∧
    ((Repo.init false).run [.lockRead, .lockRead]).fbLog = [.acqR] := by decide

/-- `repo_over_unlock_refused`: depth 0 after write/read nesting, fallbacks `R U` -/
example : ((Repo.init false).run [.lockWrite none, .lockRead, .unlock, .unlock]).depth = 0 ∧
    ((Repo.init false).run [.lockWrite none, .lockRead, .unlock, .unlock]).fbLog = [.acqR, .rel] := by
  decide

/-- `branch_refused_unchanged_partial`: hypotheses hold, and a call is refused, in a state where the
branch is write-locked (token mismatch), and in one where the failed first lock is rolled back -/
example : ((Branch.init false).run [.branch (.lockWrite none)]).Consistent ∧
    (((Branch.init false).run [.branch (.lockWrite none)]).step (.branch (.lockWrite (some 9)))).2 =
      .error .tokenMismatch := by
  refine ⟨?_, by decide⟩
  intro _; decide

example : ((Branch.init true).step (.branch (.lockWrite none))).2 = .error .contention ∧
    ((Branch.init true).step (.branch (.lockWrite none))).1.repo.fbLog = [.acqR, .rel] ∧
    ((Branch.init true).step (.branch (.lockWrite none))).1.core = (Branch.init true).core := by decide

/-- `branch_over_unlock_refused_partial`: branch and repository both unlocked -/
example : (Branch.init false).cf.count = 0 ∧ (Branch.init false).repo.depth = 0 := by decide

/-- `branch_write_after_read_refused` / `branch_ok_edge`: a read-locked branch holds its repository -/
example : ((Branch.init false).run [.branch .lockRead]).cf.mode = some .r ∧
    ((Branch.init false).run [.branch .lockRead]).repo.depth = 1 := by decide

end BreezyVerif.C28
