"""C37 repro: a TransportRefsContainer whose packed-refs cache is stale lets a
conditional update succeed against a value the ref no longer holds.

Run:  cd /repo && HOME=/var/tmp/x /venv/bin/python /var/tmp/imp-C37C38/repro_stale_packed_cache.py [repo-root]
Exit 1 = defect present, 0 = not present.
"""
import sys
sys.path.insert(0, sys.argv[1] if len(sys.argv) > 1 else "/repo")
import breezy.bzr  # noqa
import breezy.git  # noqa
from dromedary.memory import MemoryTransport
from dulwich.refs import ZERO_SHA
from breezy.git.transportgit import TransportRefsContainer

X, Y, Z = b"1" * 40, b"2" * 40, b"3" * 40
N = b"refs/heads/a"
bad = 0


def fresh():
    t = MemoryTransport()
    t.mkdir("refs"); t.mkdir("refs/heads")
    t.put_bytes("packed-refs", b"# pack-refs with: peeled\n" + X + b" " + N + b"\n")
    return t


# 1. A caches packed-refs (N -> X); B deletes N; A's CAS "N: X -> Y" must fail (N is absent = ZERO_SHA)
t = fresh()
A, B = TransportRefsContainer(t), TransportRefsContainer(t)
assert A[N] == X
assert B.remove_if_equals(N, X) is True
assert N not in TransportRefsContainer(t).allkeys()
r = A.set_if_equals(N, X, Y)
print("1. set_if_equals(old=X) after the ref was removed by another container ->", r,
      "; ref now", TransportRefsContainer(t).get(N))
bad += r is not False

# 2. same, with remove_if_equals and add_if_new on A
t = fresh()
A, B = TransportRefsContainer(t), TransportRefsContainer(t)
A.get_packed_refs()
assert B.remove_if_equals(N, X) is True
assert B.set_if_equals(N, ZERO_SHA, Z) is True       # N is now loose Z ... and then packed again by a repack:
t.delete("refs/heads/a")
t.put_bytes("packed-refs", b"# pack-refs with: peeled\n" + Z + b" " + N + b"\n")
r = A.remove_if_equals(N, X)
print("2. remove_if_equals(old=X) while the ref holds Z (packed) ->", r, "; ref now", TransportRefsContainer(t).get(N))
bad += r is not False

# 3. add_if_new on a container that cached an empty packed-refs overwrites a ref packed meanwhile
t = MemoryTransport(); t.mkdir("refs"); t.mkdir("refs/heads")
A = TransportRefsContainer(t)
A.get_packed_refs()
t.put_bytes("packed-refs", b"# pack-refs with: peeled\n" + X + b" " + N + b"\n")
r = A.add_if_new(N, Y)
print("3. add_if_new while the ref exists (packed X) ->", r, "; ref now", TransportRefsContainer(t).get(N))
bad += r is not False
sys.exit(1 if bad else 0)
