import BreezyVerif.Model.C34
/-! Helper lemmas for C34. -/
namespace BreezyVerif.C34

/-! ### git-extra: split on "\n" -/

theorem splitNl_line : ∀ (b rest : Bytes), 10 ∉ b → splitNl (b ++ 10 :: rest) = b :: splitNl rest
  | [], rest, _ => by simp [splitNl]
  | x :: b, rest, h => by
    have hx : x ≠ 10 := fun e => h (by simp [e])
    have hb : (10 : UInt8) ∉ b := fun m => h (by simp [m])
    simp [splitNl, hx, splitNl_line b rest hb]

theorem splitNl_lines : ∀ (ls : List Bytes), (∀ l ∈ ls, (10 : UInt8) ∉ l) →
    splitNl (ls.map (· ++ [10])).flatten = ls ++ [[]]
  | [], _ => by simp [splitNl]
  | l :: ls, h => by
    simp only [List.map_cons, List.flatten_cons, List.append_assoc, List.cons_append,
      List.nil_append]
    rw [splitNl_line l _ (h l (by simp)), splitNl_lines ls (fun x hx => h x (by simp [hx]))]

theorem extraLinesOf_lines (ls : List Bytes) (h : ∀ l ∈ ls, (10 : UInt8) ∉ l) :
    extraLinesOf (ls.map (· ++ [10])).flatten = ls := by
  unfold extraLinesOf
  rw [splitNl_lines ls h]
  simp

theorem split1_nosep (sep : UInt8) : ∀ (k v : Bytes), sep ∉ k → split1 sep (k ++ sep :: v) = [k, v]
  | [], v, _ => by simp [split1]
  | x :: k, v, h => by
    have hx : x ≠ sep := fun e => h (by simp [e])
    have hk : sep ∉ k := fun m => h (by simp [m])
    simp [split1, hx, split1_nosep sep k v hk]

theorem splitKV_line (k v : Bytes) (h : 32 ∉ k) : splitKV (k ++ 32 :: v) = some (k, v) := by
  simp [splitKV, split1_nosep 32 k v h]

/-- the recognised extra headers -/
def knownKey (k : Bytes) : Bool := k = bs "HG:rename-source" ∨ k = bs "HG:extra"

theorem knownKey_nospace {k : Bytes} (h : knownKey k = true) : 32 ∉ k := by
  simp only [knownKey, decide_eq_true_eq] at h
  rcases h with rfl | rfl <;> decide

/-- all extra headers are recognised and their value has no embedded newline
(no continuation lines) -/
def extraOK (extra : List (Bytes × Bytes)) : Bool :=
  extra.all fun kv => knownKey kv.1 && !kv.2.contains 10

theorem importExtra_ok (strict : Bool) : ∀ (extra : List (Bytes × Bytes)) (ls un : List Bytes),
    extraOK extra = true → importExtra strict extra = .ok (ls, un) →
    ls = extra.map (fun kv => kv.1 ++ 32 :: kv.2 ++ [10]) ∧ un = []
  | [], ls, un, _, h => by
    simp only [importExtra, Except.ok.injEq, Prod.mk.injEq] at h
    simp [h.1.symm, h.2.symm]
  | (k, v) :: rest, ls, un, hok, h => by
    simp only [extraOK, List.all_cons, Bool.and_eq_true] at hok
    have hrest : extraOK rest = true := by simp only [extraOK]; exact hok.2
    have hk := hok.1.1
    simp only [knownKey, decide_eq_true_eq] at hk
    unfold importExtra at h
    rcases hk with hk | hk
    · simp only [hk, if_true] at h
      cases hr : importExtra strict rest with
      | error e => simp [hr, bind, Except.bind] at h
      | ok p =>
        obtain ⟨ls', un'⟩ := p
        simp only [hr, bind, Except.bind, pure, Except.pure, Except.ok.injEq, Prod.mk.injEq] at h
        have := importExtra_ok strict rest ls' un' hrest hr
        simp [← h.1, ← h.2, this.1, this.2, hk]
    · have hne : bs "HG:extra" ≠ bs "HG:rename-source" := by decide
      simp only [hk, hne, if_false, if_true] at h
      split at h
      · simp at h
      · split at h
        · simp at h
        · cases hr : importExtra strict rest with
          | error e => simp [hr, bind, Except.bind] at h
          | ok p =>
            obtain ⟨ls', un'⟩ := p
            simp only [hr, bind, Except.bind, pure, Except.pure, Except.ok.injEq, Prod.mk.injEq] at h
            have := importExtra_ok strict rest ls' un' hrest hr
            simp [← h.1, ← h.2, this.1, this.2, hk]

theorem exportExtra_lines : ∀ (extra : List (Bytes × Bytes)), extraOK extra = true →
    exportExtra (extra.map fun kv => kv.1 ++ 32 :: kv.2) = .ok extra
  | [], _ => rfl
  | (k, v) :: rest, hok => by
    simp only [extraOK, List.all_cons, Bool.and_eq_true] at hok
    have hrest : extraOK rest = true := by simp only [extraOK]; exact hok.2
    simp only [List.map_cons, exportExtra, splitKV_line k v (knownKey_nospace hok.1.1),
      exportExtra_lines rest hrest]
    rfl

theorem knownKey_nonl {k : Bytes} (h : knownKey k = true) : (10 : UInt8) ∉ k := by
  simp only [knownKey, decide_eq_true_eq] at h
  rcases h with rfl | rfl <;> decide

/-- `git-extra` written by import is read back by export -/
theorem extra_roundtrip (extra : List (Bytes × Bytes)) (hok : extraOK extra = true) :
    exportExtra (extraLinesOf ((extra.map fun kv => kv.1 ++ 32 :: kv.2 ++ [10]).flatten)) = .ok extra := by
  have h1 : (extra.map fun kv => kv.1 ++ 32 :: kv.2 ++ [10]) =
      (extra.map fun kv => kv.1 ++ 32 :: kv.2).map (· ++ [10]) := by
    simp [List.map_map, Function.comp_def]
  rw [h1, extraLinesOf_lines _ (by
    intro l hl
    simp only [List.mem_map] at hl
    obtain ⟨kv, hkv, rfl⟩ := hl
    have := (List.all_eq_true.mp hok) kv hkv
    simp only [Bool.and_eq_true, Bool.not_eq_true', List.contains_eq_mem, decide_eq_false_iff_not] at this
    simp only [List.mem_append, List.mem_cons, not_or]
    exact ⟨knownKey_nonl this.1, by decide, this.2⟩)]
  exact exportExtra_lines extra hok

/-! ### parents, mergetags -/

theorem stripPrefix_append (p t : Bytes) : stripPrefix p (p ++ t) = some t := by
  simp [stripPrefix]

theorem exportParents_map : ∀ (ps : List Bytes), (∀ p ∈ ps, p.length = 40) →
    exportParents (ps.map foreignToBzr) = .ok ps
  | [], _ => rfl
  | p :: ps, h => by
    simp only [List.map_cons, exportParents, foreignToBzr, stripPrefix_append]
    simp [h p (by simp), exportParents_map ps (fun q hq => h q (by simp [hq]))]
    rfl

theorem mapM_encode_se : ∀ (l : List Bytes),
    (l.map fun t => (⟨.se, t⟩ : PStr)).mapM (encode .se) = .ok l
  | [] => rfl
  | t :: l => by
    simp only [List.map_cons, List.mapM_cons, encode, if_true, mapM_encode_se l]
    rfl

/-! ### decoding -/

theorem decodeUsing_ok {k : Codec} {c : Commit} {cm : PStr} {au msg : Option PStr}
    (h : decodeUsing k c = .ok (cm, au, msg)) :
    cm = ⟨k, c.committer⟩ ∧ au = (if c.committer ≠ c.author then some ⟨k, c.author⟩ else none) ∧
    msg = c.message.map (fun m => ⟨k, m⟩) := by
  unfold decodeUsing at h
  cases hm : c.message <;> simp only [hm] at h <;> (repeat' split at h) <;>
    simp_all <;> grind

theorem encName_none (impl : Option Bytes) (h : impl = none ∨ impl = some (bs "latin1")) :
    ∀ e, (e = none ∨ e = some (bs "false")) →
      encName e impl = implOr impl := by
  intro e he
  rcases h with rfl | rfl <;> rcases he with rfl | rfl <;> decide

theorem decodeFallback_ok {c : Commit} {cm : PStr} {au msg : Option PStr} {impl : Option Bytes}
    (h : decodeFallback c = .ok ((cm, au, msg), impl)) :
    (impl = none ∨ impl = some (bs "latin1")) ∧
    ∃ k, resolve (implOr impl) = some k ∧
      cm = ⟨k, c.committer⟩ ∧
      au = (if c.committer ≠ c.author then some ⟨k, c.author⟩ else none) ∧
      msg = c.message.map (fun m => ⟨k, m⟩) := by
  unfold decodeFallback at h
  split at h
  · rename_i d hd
    simp only [Except.ok.injEq, Prod.mk.injEq] at h
    obtain ⟨rfl, rfl⟩ := h
    exact ⟨Or.inl rfl, .utf8, by decide, decodeUsing_ok hd⟩
  · cases hl : decodeUsing .latin1 c with
    | error e => simp [hl, Except.map] at h
    | ok d =>
      simp only [hl, Except.map, Except.ok.injEq, Prod.mk.injEq] at h
      obtain ⟨rfl, rfl⟩ := h
      exact ⟨Or.inr rfl, .latin1, by decide, decodeUsing_ok hl⟩

/-- what `import_commit` decoded, and that `export_commit` will pick the same codec -/
theorem importDecode_ok {c : Commit} {cm : PStr} {au msg : Option PStr} {impl : Option Bytes}
    (h : importDecode c = .ok ((cm, au, msg), impl)) :
    ∃ k, resolve (encName c.encoding impl) = some k ∧ cm = ⟨k, c.committer⟩ ∧
      au = (if c.committer ≠ c.author then some ⟨k, c.author⟩ else none) ∧
      msg = c.message.map (fun m => ⟨k, m⟩) := by
  unfold importDecode at h
  cases he : c.encoding with
  | none =>
    simp only [he] at h
    obtain ⟨hi, k, hk, rest⟩ := decodeFallback_ok h
    exact ⟨k, by rw [encName_none impl hi none (Or.inl rfl)]; exact hk, rest⟩
  | some e =>
    simp only [he] at h
    split at h
    · simp at h
    · by_cases hf : e = bs "false"
      · simp only [hf, ne_eq, not_true_eq_false, if_false] at h
        obtain ⟨hi, k, hk, rest⟩ := decodeFallback_ok h
        exact ⟨k, by rw [hf, encName_none impl hi _ (Or.inr rfl)]; exact hk, rest⟩
      · simp only [hf, ne_eq, not_false_eq_true, if_true] at h
        cases hr : resolve e with
        | none => simp [hr] at h
        | some k =>
          simp only [hr] at h
          cases hd : decodeUsing k c with
          | error x => simp [hd, Except.map] at h
          | ok d =>
            simp only [hd, Except.map, Except.ok.injEq, Prod.mk.injEq] at h
            obtain ⟨rfl, rfl⟩ := h
            exact ⟨k, by simp [encName, hf, hr], decodeUsing_ok hd⟩

theorem importExtra_unknown (strict : Bool) (k v : Bytes)
    (hk : k ≠ bs "HG:rename-source" ∧ k ≠ bs "HG:extra") :
    ∀ (extra : List (Bytes × Bytes)) (ls un : List Bytes), (k, v) ∈ extra →
      importExtra strict extra = .ok (ls, un) → un ≠ []
  | [], _, _, hm, _ => by simp at hm
  | (k', v') :: rest, ls, un, hm, h => by
    have hne : bs "HG:extra" ≠ bs "HG:rename-source" := by decide
    simp only [List.mem_cons, Prod.mk.injEq] at hm
    unfold importExtra at h
    by_cases h1 : k' = bs "HG:rename-source"
    · subst h1
      have hmem : (k, v) ∈ rest := by
        rcases hm with ⟨e, _⟩ | hm
        · exact absurd e hk.1
        · exact hm
      simp only [if_true] at h
      cases hr : importExtra strict rest with
      | error e => simp [hr, bind, Except.bind] at h
      | ok p =>
        obtain ⟨ls', un'⟩ := p
        have := importExtra_unknown strict k v hk rest ls' un' hmem hr
        simp [hr, bind, Except.bind, pure, Except.pure] at h
        rw [← h.2]; exact this
    · by_cases h2 : k' = bs "HG:extra"
      · subst h2
        have hmem : (k, v) ∈ rest := by
          rcases hm with ⟨e, _⟩ | hm
          · exact absurd e hk.2
          · exact hm
        simp only [hne, if_false, if_true] at h
        cases hr : importExtra strict rest with
        | error e =>
          split at h
          · simp at h
          · split at h <;> simp [hr, bind, Except.bind] at h
        | ok p =>
          obtain ⟨ls', un'⟩ := p
          have := importExtra_unknown strict k v hk rest ls' un' hmem hr
          split at h
          · simp at h
          · split at h
            · simp at h
            · simp [hr, bind, Except.bind, pure, Except.pure] at h
              rw [← h.2]; exact this
      · simp only [h1, h2, if_false] at h
        cases hr : importExtra strict rest with
        | error e => simp [hr, bind, Except.bind] at h
        | ok p =>
          obtain ⟨ls', un'⟩ := p
          simp [hr, bind, Except.bind, pure, Except.pure] at h
          rw [← h.2]; simp

instance {ε α} [DecidableEq ε] [DecidableEq α] : DecidableEq (Except ε α) := fun a b =>
  match a, b with
  | .ok x, .ok y => if h : x = y then isTrue (by rw [h]) else isFalse (by intro e; cases e; exact h rfl)
  | .error x, .error y => if h : x = y then isTrue (by rw [h]) else isFalse (by intro e; cases e; exact h rfl)
  | .ok _, .error _ => isFalse (by intro e; cases e)
  | .error _, .ok _ => isFalse (by intro e; cases e)


theorem split1_none (sep : UInt8) : ∀ (t : Bytes), sep ∉ t → split1 sep t = [t]
  | [], _ => rfl
  | x :: t, h => by
    have hx : x ≠ sep := fun e => h (by simp [e])
    simp [split1, hx, split1_none sep t (fun m => h (by simp [m]))]

theorem idx_some_of_mem (x : UInt8) : ∀ (t : Bytes), x ∈ t → ∃ i, idx x t = some i ∧ i < t.length
  | [], h => by simp at h
  | y :: t, h => by
    by_cases e : y = x
    · exact ⟨0, by simp [idx, e], by simp⟩
    · have : x ∈ t := by simpa [Ne.symm e] using h
      obtain ⟨i, hi, hl⟩ := idx_some_of_mem x t this
      exact ⟨i + 1, by simp [idx, e, hi], by simpa using hl⟩

theorem takeWhile_append_sep (sep : UInt8) (e r : Bytes) (h : sep ∉ e) :
    (e ++ sep :: r).takeWhile (· ≠ sep) = e := by
  induction e with
  | nil => simp
  | cons x e ih =>
    have hx : x ≠ sep := fun eq => h (by simp [eq])
    have := ih (fun m => h (by simp [m]))
    simp only [ne_eq, decide_not] at this
    simp [List.takeWhile, hx, this]

end BreezyVerif.C34
