import BreezyVerif.Model.C04
import BreezyVerif.Lemmas.C04
/-!
C04 — pack repositories are crash-atomic.  Theorems.

Everything is quantified over all directory states, all collections, all
plans and **every crash prefix `k`** of the operation list; no bound on the
number of packs or files.
-/
namespace BreezyVerif.C04

/-- `step_safe` (Lemmas) restated: an operation that does not touch the files of
packs in `ns` and is not the `pack-names` replacement changes neither
`pack-names` nor the completeness of any pack of `ns`. -/
theorem step_safe' (chk : Bool) (ns : List Nat) (d : Disk) (op : Op) (h : safeOp ns op = true) :
    (step d op).names = d.names ∧
    ∀ n ∈ ns, ready chk d n = true → ready chk (step d op) n = true :=
  step_safe chk ns d op h

/-- every crash prefix of a list of safe operations: same `pack-names`, same
complete packs -/
theorem run_take_safe (chk : Bool) (ns : List Nat) (ops : List Op) (d : Disk)
    (h : ∀ op ∈ ops, safeOp ns op = true) (k : Nat) :
    (run d (ops.take k)).names = d.names ∧
    ∀ n ∈ ns, ready chk d n = true → ready chk (run d (ops.take k)) n = true :=
  run_safe chk ns (ops.take k) d (fun op hop => h op (List.mem_of_mem_take hop))

/-- `finish_ready` (Lemmas): after `open_write_stream(upload/tmp)` … `finish()`
the pack `name` has its `.pack` and all its indices in place. -/
theorem finish_ready' (chk : Bool) (d : Disk) (tmp : File) (name : Nat) (ht : tmp.dir = .upload) :
    ready chk (run d (newPackOps chk tmp name)) name = true :=
  finish_ready chk d tmp name ht

/-- **Generic crash atomicity.**  An operation list of the shape
`pre ++ [putNames N] ++ post` in which `pre` does not touch the listed packs,
every pack of `N` is complete when `pack-names` is replaced, and `post` does
not touch the packs of `N`: after EVERY prefix every listed pack is complete
and `pack-names` is the old list or `N`. -/
theorem txn_crash_atomic (chk : Bool) (d : Disk) (pre post : List Op) (N : List Nat)
    (hc : complete chk d = true)
    (hpre : ∀ op ∈ pre, safeOp d.names op = true)
    (hready : ∀ n ∈ N, ready chk (run d pre) n = true)
    (hpost : ∀ op ∈ post, safeOp N op = true) (k : Nat) :
    complete chk (run d ((pre ++ Op.putNames N :: post).take k)) = true ∧
    ((run d ((pre ++ Op.putNames N :: post).take k)).names = d.names ∨
     (run d ((pre ++ Op.putNames N :: post).take k)).names = N) := by
  have hc' : ∀ n ∈ d.names, ready chk d n = true := by simpa [complete] using hc
  by_cases hk : k ≤ pre.length
  · rw [List.take_append_of_le_length hk]
    have h := run_take_safe chk d.names pre d hpre k
    refine ⟨?_, Or.inl h.1⟩
    simp only [complete, List.all_eq_true]
    rw [h.1]
    exact fun n hn => h.2 n hn (hc' n hn)
  · have hk' : pre.length < k := Nat.lt_of_not_le hk
    obtain ⟨j, rfl⟩ : ∃ j, k = pre.length + (j + 1) := ⟨k - pre.length - 1, by omega⟩
    rw [List.take_append, List.take_of_length_le (by omega)]
    have e : pre.length + (j + 1) - pre.length = j + 1 := by omega
    rw [e, List.take_succ_cons, run_append, run_cons]
    have h := run_take_safe chk N post (step (run d pre) (Op.putNames N)) hpost j
    have hn : (step (run d pre) (Op.putNames N)).names = N := rfl
    have hr : ∀ n ∈ N, ready chk (step (run d pre) (Op.putNames N)) n = true := hready
    refine ⟨?_, Or.inr (h.1.trans hn)⟩
    simp only [complete, List.all_eq_true]
    rw [h.1, hn]
    exact fun n hn => h.2 n hn (hr n hn)

/-- no `pack-names` replacement at all (an aborted pack operation): every
prefix keeps the old list and completeness -/
theorem safe_crash_atomic (chk : Bool) (d : Disk) (ops : List Op)
    (hc : complete chk d = true) (hs : ∀ op ∈ ops, safeOp d.names op = true) (k : Nat) :
    complete chk (run d (ops.take k)) = true ∧ (run d (ops.take k)).names = d.names := by
  have hc' : ∀ n ∈ d.names, ready chk d n = true := by simpa [complete] using hc
  have h := run_take_safe chk d.names ops d hs k
  refine ⟨?_, h.1⟩
  simp only [complete, List.all_eq_true]
  rw [h.1]
  exact fun n hn => h.2 n hn (hc' n hn)

/-! ### `_save_pack_names` -/

/-! ### commit (write group, optional autopack) -/

/-- **Commit / fetch / autopack is crash-atomic.**  For every directory `d` in
which the listed packs are complete, every process view `v` without unsaved
names, every plan `plan` that combines packs of the collection, fresh names
`new0 ≠ new1`, and EVERY prefix `k` of the operation list of
`_commit_write_group`: every listed pack is complete, and `pack-names` is the
old list or the final one. -/
theorem commit_crash_atomic (chk : Bool) (d : Disk) (v : View) (plan : Plan) (tmp0 new0 tmp1 new1 : Nat)
    (hc : complete chk d = true)
    (hv : ∀ n ∈ v.names, n ∈ v.atLoad)
    (h0 : new0 ∉ d.names) (h1 : new1 ∉ d.names) (h01 : new0 ≠ new1) (h1v : new1 ∉ v.names)
    (hplan : ∀ s, plan = .combine s → ∀ n ∈ s, n ∈ v.names ∨ n = new0) (k : Nat) :
    let ops := commitOpsWith chk d v plan tmp0 new0 tmp1 new1
    complete chk (run d (ops.take k)) = true ∧
    ((run d (ops.take k)).names = d.names ∨ (run d (ops.take k)).names = (run d ops).names) := by
  intro ops
  -- a uniform description: pre (new packs) ++ lock ++ putNames N ++ post
  have key : ∀ (pre : List Op) (mine : List Nat) (obs : Option (List Nat)),
      ops = pre ++ saveOps chk d ⟨mine, v.atLoad⟩ obs →
      (∀ op ∈ pre, safeOp d.names op = true) →
      (∀ n ∈ mine, n ∈ v.atLoad ∨ ready chk (run d pre) n = true) →
      (∀ s, obs = some s → ∀ n ∈ s, n ∉ mine ∧ (n ∈ v.atLoad ∨ n = new0)) →
      complete chk (run d (ops.take k)) = true ∧
      ((run d (ops.take k)).names = d.names ∨ (run d (ops.take k)).names = (run d ops).names) := by
    intro pre mine obs hops hpre hmine hobs
    have hc' : ∀ n ∈ d.names, ready chk d n = true := by simpa [complete] using hc
    let N := mergeNames d.names v.atLoad mine
    have hsplit : ops = (pre ++ [Op.lock]) ++ Op.putNames N :: savePost chk d obs := by
      rw [hops, saveOps_eq]; simp only [List.append_assoc]; rfl
    have hpre' : ∀ op ∈ pre ++ [Op.lock], safeOp d.names op = true := by
      intro op hop
      simp only [List.mem_append, List.mem_singleton] at hop
      rcases hop with hop | rfl
      · exact hpre op hop
      · rfl
    have hready : ∀ n ∈ N, ready chk (run d (pre ++ [Op.lock])) n = true := by
      intro n hn
      have hfr := run_safe chk d.names (pre ++ [Op.lock]) d hpre'
      rcases mem_mergeNames.mp hn with ⟨hd, _⟩ | ⟨hm, hna, _⟩
      · exact hfr.2 n hd (hc' n hd)
      · rcases hmine n hm with h | h
        · exact absurd h hna
        · rw [run_append]
          have := step_safe chk [n] (run d pre) Op.lock rfl
          exact this.2 n (by simp) h
    have hpost := savePost_safe chk d N obs (by
      intro s hs n hn hN
      obtain ⟨hnm, hat⟩ := hobs s hs n hn
      rcases mem_mergeNames.mp hN with ⟨hd, hnot⟩ | ⟨hm, _, _⟩
      · rcases hat with hat | rfl
        · exact hnot ⟨hat, hnm⟩
        · exact h0 hd
      · exact hnm hm)
    have hfin : (run d ops).names = N := by
      rw [hsplit, run_append, run_cons]
      exact (run_safe chk N _ _ hpost).1
    have := txn_crash_atomic chk d (pre ++ [Op.lock]) _ N hc hpre' hready hpost k
    rw [← hsplit] at this
    rw [hfin]
    exact this
  have hup : ∀ t b, (upTmp t b).dir = .upload := by intro t b; simp [upTmp]
  have hpre0 := newPackOps_safe chk d.names (upTmp tmp0 false) new0 (hup _ _) h0
  have hr0 := finish_ready chk d (upTmp tmp0 false) new0 (hup _ _)
  -- the three shapes of commitOpsWith
  have plain : ∀ obs, (∀ s, obs = some s → s = []) →
      ops = newPackOps chk (upTmp tmp0 false) new0 ++ saveOps chk d ⟨v.names ++ [new0], v.atLoad⟩ obs →
      complete chk (run d (ops.take k)) = true ∧
      ((run d (ops.take k)).names = d.names ∨ (run d (ops.take k)).names = (run d ops).names) := by
    intro obs hobs hops
    apply key _ _ obs hops hpre0
    · intro n hn
      simp only [List.mem_append, List.mem_singleton] at hn
      rcases hn with hn | rfl
      · exact Or.inl (hv n hn)
      · exact Or.inr hr0
    · intro s hs n hn
      rw [hobs s hs] at hn; cases hn
  cases plan with
  | noAutopack => exact plain none (by intro s h; cases h) rfl
  | error => exact plain none (by intro s h; cases h) rfl
  | combine s =>
    cases s with
    | nil => exact plain (some []) (by intro s h; cases h; rfl) rfl
    | cons a t =>
      have hs := hplan (a :: t) rfl
      apply key (newPackOps chk (upTmp tmp0 false) new0 ++ newPackOps chk (upTmp tmp1 true) new1)
        ((v.names ++ [new0]).filter (fun n => !(a :: t).contains n) ++ [new1]) (some (a :: t))
      · simp [ops, commitOpsWith, List.append_assoc]
      · intro op hop
        simp only [List.mem_append] at hop
        rcases hop with hop | hop
        · exact hpre0 op hop
        · exact newPackOps_safe chk d.names (upTmp tmp1 true) new1 (hup _ _) h1 op hop
      · intro n hn
        simp only [List.mem_append, List.mem_filter, List.mem_singleton] at hn
        rcases hn with ⟨hn | rfl, _⟩ | rfl
        · exact Or.inl (hv n hn)
        · right
          rw [run_append]
          have hsafe := newPackOps_safe chk [n] (upTmp tmp1 true) new1 (hup _ _) (by simpa using Ne.symm h01)
          exact (run_safe chk [n] _ _ hsafe).2 n (by simp) hr0
        · right
          rw [run_append]
          exact finish_ready chk _ (upTmp tmp1 true) n (hup _ _)
      · intro s' hs' n hn
        cases hs'
        refine ⟨?_, ?_⟩
        · simp only [List.mem_append, List.mem_filter, List.mem_singleton, not_or]
          refine ⟨fun h => by simp [hn] at h, ?_⟩
          rintro rfl
          rcases hs n hn with h | h
          · exact h1v h
          · exact h01 h.symm
        · rcases hs n hn with h | h
          · exact Or.inl (hv n h)
          · exact Or.inr h

/-- the same for the operation list computed with the real planner
(`commitOps`): the plan is a function of the revision counts -/
theorem commit_crash_atomic_planned (chk : Bool) (d : Disk) (v : View) (counts : List (Nat × Nat))
    (tmp0 new0 tmp1 new1 : Nat)
    (hc : complete chk d = true)
    (hv : ∀ n ∈ v.names, n ∈ v.atLoad)
    (h0 : new0 ∉ d.names) (h1 : new1 ∉ d.names) (h01 : new0 ≠ new1) (h1v : new1 ∉ v.names)
    (hcounts : ∀ p ∈ counts, p.1 ∈ v.names ∨ p.1 = new0) (k : Nat) :
    let ops := commitOps chk d v counts tmp0 new0 tmp1 new1
    complete chk (run d (ops.take k)) = true ∧
    ((run d (ops.take k)).names = d.names ∨ (run d (ops.take k)).names = (run d ops).names) := by
  apply commit_crash_atomic chk d v (planAutopack counts) tmp0 new0 tmp1 new1 hc hv h0 h1 h01 h1v
  intro s hs n hn
  have := planAutopack_subset counts s hs n hn
  simp only [List.mem_map] at this
  obtain ⟨p, hp, rfl⟩ := this
  exact hcounts p hp

/-! ### pack -/

/-- **`pack(hint)` is crash-atomic**, including the aborted "already optimally
packed" run and the final `_clear_obsolete_packs()`; `s` = the packs selected
by the hint, any sub-collection. -/
theorem packSel_crash_atomic (chk : Bool) (d : Disk) (v : View) (s : List Nat) (optimal clean : Bool)
    (tmp1 new1 : Nat)
    (hc : complete chk d = true)
    (hv : ∀ n ∈ v.names, n ∈ v.atLoad)
    (hs : ∀ n ∈ s, n ∈ v.names)
    (h1 : new1 ∉ d.names) (h1v : new1 ∉ v.names) (k : Nat) :
    let ops := packOpsSel chk d v s optimal clean tmp1 new1
    complete chk (run d (ops.take k)) = true ∧
    ((run d (ops.take k)).names = d.names ∨ (run d (ops.take k)).names = (run d ops).names) := by
  intro ops
  have hc' : ∀ n ∈ d.names, ready chk d n = true := by simpa [complete] using hc
  have hup : ∀ t b, (upTmp t b).dir = .upload := by intro t b; simp [upTmp]
  have hcol : v.names.contains new1 = false := by simpa using h1v
  -- a save-shaped body followed by an arbitrary clear
  have key : ∀ (pre : List Op) (mine : List Nat) (s : List Nat) (tail : List Op),
      ops = pre ++ saveOps chk d ⟨mine, v.atLoad⟩ (some s) ++ tail →
      (∀ op ∈ tail, ∀ N, safeOp N op = true) →
      (∀ op ∈ pre, safeOp d.names op = true) →
      (∀ n ∈ mine, n ∈ v.atLoad ∨ ready chk (run d pre) n = true) →
      (∀ n ∈ s, n ∉ mine ∧ n ∈ v.atLoad) →
      complete chk (run d (ops.take k)) = true ∧
      ((run d (ops.take k)).names = d.names ∨ (run d (ops.take k)).names = (run d ops).names) := by
    intro pre mine s tail hops htail hpre hmine hobs
    let N := mergeNames d.names v.atLoad mine
    have hsplit : ops = (pre ++ [Op.lock]) ++ Op.putNames N :: (savePost chk d (some s) ++ tail) := by
      rw [hops, saveOps_eq]; simp only [List.append_assoc, List.cons_append]; rfl
    have hpre' : ∀ op ∈ pre ++ [Op.lock], safeOp d.names op = true := by
      intro op hop
      simp only [List.mem_append, List.mem_singleton] at hop
      rcases hop with hop | rfl
      · exact hpre op hop
      · rfl
    have hready : ∀ n ∈ N, ready chk (run d (pre ++ [Op.lock])) n = true := by
      intro n hn
      have hfr := run_safe chk d.names (pre ++ [Op.lock]) d hpre'
      rcases mem_mergeNames.mp hn with ⟨hd, _⟩ | ⟨hm, hna, _⟩
      · exact hfr.2 n hd (hc' n hd)
      · rcases hmine n hm with h | h
        · exact absurd h hna
        · rw [run_append]
          have := step_safe chk [n] (run d pre) Op.lock rfl
          exact this.2 n (by simp) h
    have hpost0 := savePost_safe chk d N (some s) (by
      intro s' hs' n hn hN
      cases hs'
      obtain ⟨hnm, hat⟩ := hobs n hn
      rcases mem_mergeNames.mp hN with ⟨_, hnot⟩ | ⟨hm, _, _⟩
      · exact hnot ⟨hat, hnm⟩
      · exact hnm hm)
    have hpost : ∀ op ∈ savePost chk d (some s) ++ tail, safeOp N op = true := by
      intro op hop
      rcases List.mem_append.mp hop with hop | hop
      · exact hpost0 op hop
      · exact htail op hop N
    have hfin : (run d ops).names = N := by
      rw [hsplit, run_append, run_cons]
      exact (run_safe chk N _ _ hpost).1
    have := txn_crash_atomic chk d (pre ++ [Op.lock]) _ N hc hpre' hready hpost k
    rw [← hsplit] at this
    rw [hfin]
    exact this
  have htail : ∀ (body : List Op), ∀ op ∈ (if clean then clearOps (run d body) [] else []), ∀ N, safeOp N op = true := by
    intro body op hop N
    cases clean
    · cases hop
    · exact clearOps_safe N _ _ op hop
  by_cases hdis : (!chk && decide (v.names.length ≤ 1)) = true
  · have : ops = [] := by simp [ops, packOpsSel, hdis]
    rw [this]; simp [run, hc]
  · by_cases hemp : s.isEmpty = true
    · apply key [] v.names [] _ (by simp [ops, packOpsSel, hdis, hemp]; rfl) (htail _)
      · intro op hop; cases hop
      · intro n hn; exact Or.inl (hv n hn)
      · intro n hn; cases hn
    · cases optimal with
      | true =>
        -- aborted: no pack-names replacement
        have hall : ∀ op ∈ ops, safeOp d.names op = true := by
          intro op hop
          simp only [ops, packOpsSel, hdis, hemp, Bool.false_eq_true, if_false, if_true, List.mem_append,
            List.mem_cons, List.not_mem_nil, or_false, Bool.not_true, Bool.and_false, Bool.false_and] at hop
          rcases hop with (rfl | rfl | rfl) | hop
          · simp [safeOp, upload_not_touches _ _ (hup tmp1 true)]
          · rfl
          · simp [safeOp, upload_not_touches _ _ (hup tmp1 true)]
          · exact htail _ op hop _
        have h := safe_crash_atomic chk d ops hc hall k
        exact ⟨h.1, Or.inl h.2⟩
      | false =>
        apply key (newPackOps chk (upTmp tmp1 true) new1)
          (v.names.filter (fun n => !s.contains n) ++ [new1]) s _
          (by simp [ops, packOpsSel, hdis, hemp, h1v]; rfl) (htail _)
        · exact newPackOps_safe chk d.names _ new1 (hup _ _) h1
        · intro n hn
          simp only [List.mem_append, List.mem_filter, List.mem_singleton] at hn
          rcases hn with ⟨hn, _⟩ | rfl
          · exact Or.inl (hv n hn)
          · exact Or.inr (finish_ready chk d _ n (hup _ _))
        · intro n hn
          refine ⟨?_, hv n (hs n hn)⟩
          simp only [List.mem_append, List.mem_filter, List.mem_singleton, not_or]
          refine ⟨fun h => by simp [hn] at h, ?_⟩
          rintro rfl
          exact h1v (hs n hn)

theorem hintSel_subset (v : View) (hint : Option (List Nat)) : ∀ n ∈ hintSel v hint, n ∈ v.names := by
  intro n hn
  cases hint with
  | none => exact hn
  | some h => exact (List.mem_filter.mp hn).1

/-- **`pack()` / `pack(hint)` is crash-atomic.** -/
theorem pack_crash_atomic (chk : Bool) (d : Disk) (v : View) (hint : Option (List Nat)) (optimal clean : Bool)
    (tmp1 new1 : Nat)
    (hc : complete chk d = true)
    (hv : ∀ n ∈ v.names, n ∈ v.atLoad)
    (h1 : new1 ∉ d.names) (h1v : new1 ∉ v.names) (k : Nat) :
    let ops := packOps chk d v hint optimal clean tmp1 new1
    complete chk (run d (ops.take k)) = true ∧
    ((run d (ops.take k)).names = d.names ∨ (run d (ops.take k)).names = (run d ops).names) :=
  packSel_crash_atomic chk d v (hintSel v hint) optimal clean tmp1 new1 hc hv (hintSel_subset v hint) h1 h1v k

/-! ### what becomes visible -/

/-- the final `pack-names` of a commit is the three-way merge of the process'
names -/
theorem commit_final_names (chk : Bool) (d : Disk) (v : View) (tmp0 new0 : Nat) :
    (run d (commitOpsWith chk d v .noAutopack tmp0 new0 0 0)).names
      = mergeNames d.names v.atLoad (v.names ++ [new0]) := by
  simp only [commitOpsWith]
  rw [run_append, run_saveOps_names]

/-- **A commit without concurrent writers adds exactly the new pack's
revisions**: the visible set afterwards is the old one plus `revsOf new0`. -/
theorem commit_visible (chk : Bool) (revsOf : Nat → List Nat) (d : Disk) (tmp0 new0 : Nat)
    (h0 : new0 ∉ d.names) (r : Nat) :
    r ∈ visible revsOf (run d (commitOpsWith chk d ⟨d.names, d.names⟩ .noAutopack tmp0 new0 0 0))
      ↔ r ∈ visible revsOf d ∨ r ∈ revsOf new0 := by
  rw [visible, commit_final_names]
  simp only [visible, List.mem_flatMap, mem_mergeNames, List.mem_append, List.mem_singleton]
  constructor
  · rintro ⟨n, (⟨hd, _⟩ | ⟨hm, _, _⟩), hr⟩
    · exact Or.inl ⟨n, hd, hr⟩
    · rcases hm with hm | rfl
      · exact Or.inl ⟨n, hm, hr⟩
      · exact Or.inr hr
  · rintro (⟨n, hd, hr⟩ | hr)
    · exact ⟨n, Or.inl ⟨hd, fun h => h.2 (Or.inl hd)⟩, hr⟩
    · exact ⟨new0, Or.inr ⟨Or.inr rfl, h0, h0⟩, hr⟩

/-- final `pack-names` of commit + autopack of `s` (no concurrent writers) -/
theorem autopack_final_names (chk : Bool) (d : Disk) (a : Nat) (t : List Nat) (tmp0 new0 tmp1 new1 : Nat) :
    (run d (commitOpsWith chk d ⟨d.names, d.names⟩ (.combine (a :: t)) tmp0 new0 tmp1 new1)).names
      = mergeNames d.names d.names ((d.names ++ [new0]).filter (fun n => !(a :: t).contains n) ++ [new1]) := by
  simp only [commitOpsWith]
  rw [run_append, run_saveOps_names]

/-- **Autopack preserves what is visible**: commit + autopack of `s` (the
combined pack `new1` holds exactly the revisions of the packs in `s`) shows the
old revisions plus those of the new pack `new0` — nothing is lost, nothing
else appears. -/
theorem autopack_visible (chk : Bool) (revsOf : Nat → List Nat) (d : Disk) (a : Nat) (t : List Nat)
    (tmp0 new0 tmp1 new1 : Nat)
    (h0 : new0 ∉ d.names) (h1 : new1 ∉ d.names)
    (hs : ∀ n ∈ a :: t, n ∈ d.names ∨ n = new0)
    (hcopy : ∀ r, r ∈ revsOf new1 ↔ ∃ n ∈ a :: t, r ∈ revsOf n) (r : Nat) :
    r ∈ visible revsOf (run d (commitOpsWith chk d ⟨d.names, d.names⟩ (.combine (a :: t)) tmp0 new0 tmp1 new1))
      ↔ r ∈ visible revsOf d ∨ r ∈ revsOf new0 := by
  rw [visible, autopack_final_names]
  simp only [visible, List.mem_flatMap, mem_mergeNames, List.mem_append, List.mem_filter, List.mem_singleton]
  constructor
  · rintro ⟨n, (⟨hd, _⟩ | ⟨hm, _, _⟩), hr⟩
    · exact Or.inl ⟨n, hd, hr⟩
    · rcases hm with ⟨hm | rfl, _⟩ | rfl
      · exact Or.inl ⟨n, hm, hr⟩
      · exact Or.inr hr
      · obtain ⟨m, hm, hrm⟩ := (hcopy r).mp hr
        rcases hs m hm with h | rfl
        · exact Or.inl ⟨m, h, hrm⟩
        · exact Or.inr hrm
  · have cover : ∀ m, (m ∈ d.names ∨ m = new0) → r ∈ revsOf m →
        ∃ n, ((n ∈ d.names ∧ ¬(n ∈ d.names ∧ ¬(((n ∈ d.names ∨ n = new0) ∧ (!(a :: t).contains n) = true) ∨ n = new1)))
          ∨ ((((n ∈ d.names ∨ n = new0) ∧ (!(a :: t).contains n) = true) ∨ n = new1) ∧ n ∉ d.names ∧ n ∉ d.names))
          ∧ r ∈ revsOf n := by
      intro m hm hr
      by_cases hin : m ∈ a :: t
      · exact ⟨new1, Or.inr ⟨Or.inr rfl, h1, h1⟩, (hcopy r).mpr ⟨m, hin, hr⟩⟩
      · have hc : (!(a :: t).contains m) = true := by simpa using hin
        rcases hm with hm | rfl
        · exact ⟨m, Or.inl ⟨hm, fun h => h.2 (Or.inl ⟨Or.inl hm, hc⟩)⟩, hr⟩
        · exact ⟨m, Or.inr ⟨Or.inl ⟨Or.inr rfl, hc⟩, h0, h0⟩, hr⟩
    rintro (⟨n, hd, hr⟩ | hr)
    · exact cover n (Or.inl hd) hr
    · exact cover new0 (Or.inr rfl) hr

/-- final `pack-names` of a full `pack()` that wrote a new pack -/
theorem pack_final_names (chk : Bool) (d : Disk) (v : View) (clean : Bool) (tmp1 new1 : Nat)
    (hen : (!chk && decide (v.names.length ≤ 1)) = false) (hne : v.names.isEmpty = false)
    (h1v : new1 ∉ v.names) :
    (run d (packOps chk d v none false clean tmp1 new1)).names = mergeNames d.names v.atLoad [new1] := by
  have hcol : v.names.contains new1 = false := by simpa using h1v
  have hfil : v.names.filter (fun n => !v.names.contains n) = [] := by
    apply List.filter_eq_nil_iff.mpr
    intro n hn; simp [hn]
  simp only [packOps, packOpsSel, hintSel, hen, hne, hcol, hfil, Bool.false_eq_true, if_false,
    Bool.not_false, Bool.and_false, Bool.and_true, List.nil_append]
  rw [run_append]
  have : ∀ d0 : Disk, (run d0 (if clean = true then clearOps (run d
      (newPackOps chk (upTmp tmp1 true) new1 ++ saveOps chk d ⟨[new1], v.atLoad⟩ (some v.names))) [] else [])).names
      = d0.names := by
    intro d0
    cases clean
    · rfl
    · exact run_names_noPut _ _ (clearOps_noPut _ _)
  rw [this, run_append, run_saveOps_names]

/-- **`pack()` preserves what is visible** (no concurrent writers; the new pack
holds exactly the revisions of the packs it replaces). -/
theorem pack_visible (chk : Bool) (revsOf : Nat → List Nat) (d : Disk) (clean : Bool) (tmp1 new1 : Nat)
    (hen : (!chk && decide (d.names.length ≤ 1)) = false) (hne : d.names.isEmpty = false)
    (h1 : new1 ∉ d.names)
    (hcopy : ∀ r, r ∈ revsOf new1 ↔ ∃ n ∈ d.names, r ∈ revsOf n) (r : Nat) :
    r ∈ visible revsOf (run d (packOps chk d ⟨d.names, d.names⟩ none false clean tmp1 new1))
      ↔ r ∈ visible revsOf d := by
  rw [visible, pack_final_names chk d ⟨d.names, d.names⟩ clean tmp1 new1 hen hne h1]
  simp only [visible, List.mem_flatMap, mem_mergeNames, List.mem_singleton]
  constructor
  · rintro ⟨n, (⟨hd, _⟩ | ⟨rfl, _, _⟩), hr⟩
    · exact ⟨n, hd, hr⟩
    · exact (hcopy r).mp hr
  · rintro ⟨n, hd, hr⟩
    exact ⟨new1, Or.inr ⟨rfl, h1, h1⟩, (hcopy r).mpr ⟨n, hd, hr⟩⟩

/-! ### the calls that must not raise do not raise -/

/-- **No transport call of a plain commit raises**: from an unlocked directory
every operation of `commit_write_group` (new pack, `finish`, lock, `put_file`,
unlock) finds its precondition satisfied (`runE` does not fail) — so the total
`step` never takes its "missing file" branch on this path.  (The moves of
`_obsolete_packs` and the deletes of `_clear_obsolete_packs` are allowed to
fail in the real code: their errors are caught.) -/
theorem commit_ops_enabled (chk : Bool) (d : Disk) (v : View) (tmp0 new0 : Nat) (hl : d.locked = false) :
    runE d (commitOpsWith chk d v .noAutopack tmp0 new0 0 0)
      = some (run d (commitOpsWith chk d v .noAutopack tmp0 new0 0 0)) := by
  cases chk <;>
    simp [commitOpsWith, newPackOps, finishOps, idxExts, saveOps, upTmp, runE, run, step, Enabled, rm,
      List.mem_filter, hl]

/-! ### leftovers -/

/-- **Leftover files are harmless**: arbitrary extra files (complete or torn) in
`upload/` and `obsolete_packs/` change neither what is listed nor whether the
listed packs are complete. -/
theorem leftovers_harmless (chk : Bool) (revsOf : Nat → List Nat) (d : Disk) (extra extraTorn : List File)
    (h : ∀ f ∈ extra, f.dir = .upload ∨ f.dir = .obsolete) :
    let d' : Disk := { d with files := extra ++ d.files, torn := extraTorn ++ d.torn }
    complete chk d' = complete chk d ∧ visible revsOf d' = visible revsOf d := by
  intro d'
  refine ⟨?_, rfl⟩
  have hr : ∀ n, ready chk d' n = ready chk d n := by
    intro n
    rw [Bool.eq_iff_iff, ready_iff, ready_iff]
    constructor
    · intro h1 f hf
      have ht := packFiles_touches (ns := [n]) hf (by simp)
      rcases List.mem_append.mp (h1 f hf) with hfe | hfd
      · rcases h f hfe with h | h <;> simp [touches, h] at ht
      · exact hfd
    · intro h1 f hf
      exact List.mem_append_right _ (h1 f hf)
  show d.names.all (ready chk d') = d.names.all (ready chk d)
  exact List.all_congr rfl hr

/-! ### why the freshness hypothesis is needed -/

/-- **Witness.**  If the new pack's name is already listed (same content hash),
`NewPack.finish` rewrites the listed pack's indices in place: there is a crash
prefix after which a listed pack is incomplete. -/
theorem name_collision_witness :
    let d : Disk := ⟨[0], packFiles true 0, [], false⟩
    complete true d = true ∧
    complete true (run d ((commitOpsWith true d ⟨[0], [0]⟩ .noAutopack 5 0 0 0).take 2)) = false := by
  decide

/-! ### non-vacuity -/

/-- the hypotheses of `commit_crash_atomic` hold for a collection of two
packs that is autopacked together with the new pack -/
example :
    let d : Disk := ⟨[0, 1], packFiles true 0 ++ packFiles true 1 ++ [⟨.obsolete, 7, .pack⟩], [], false⟩
    let v : View := ⟨[0, 1], [0, 1]⟩
    complete true d = true ∧ (∀ n ∈ v.names, n ∈ v.atLoad) ∧ 2 ∉ d.names ∧ 3 ∉ d.names ∧
    (∀ n ∈ [0, 1, 2], n ∈ v.names ∨ n = 2) ∧
    (run d (commitOpsWith true d v (.combine [0, 1, 2]) 10 2 11 3)).names = [3] ∧
    (commitOpsWith true d v (.combine [0, 1, 2]) 10 2 11 3).length = 48 := by
  decide

/-- the planner triggers on ten one-revision packs and combines all of them -/
example : planAutopack ((List.range 10).map (fun i => (i, 1))) = .combine (List.range 10) := by
  decide

/-- `pack_crash_atomic`'s hypotheses hold on a two-pack collection, and the
operation list is the long one (new pack, save, obsolete both, final clear) -/
example :
    let d : Disk := ⟨[0, 1], packFiles false 0 ++ packFiles false 1, [], false⟩
    complete false d = true ∧ 5 ∉ d.names ∧
    (run d (packOps false d ⟨[0, 1], [0, 1]⟩ none false true 4 5)).names = [5] ∧
    (packOps false d ⟨[0, 1], [0, 1]⟩ none false true 4 5).length = 34 ∧
    (run d (packOps false d ⟨[0, 1], [0, 1]⟩ (some [1]) false false 4 5)).names = [0, 5] := by
  decide

/-- **Witness (the behaviour of pack-0.92 before fix 24f6bb3).**  `pack(hint=[p])`
on a pack whose repacked content hashes to its own name, with a packer that does
not check for a listed name: `finish()` rewrites the indices of the LISTED pack
`1` in place, so after 2 operations a listed pack is incomplete (then `allocate`
raises "Pack already exists" and nothing is saved).  This is why every packer
needs the already-listed guard and why the theorems assume fresh names. -/
theorem pack_hint_collision_witness :
    let d : Disk := ⟨[0, 1], packFiles false 0 ++ packFiles false 1, [], false⟩
    complete false d = true ∧
    complete false (run d ((packOps false d ⟨[0, 1], [0, 1]⟩ (some [1]) false false 4 1).take 2)) = false ∧
    (run d (packOps false d ⟨[0, 1], [0, 1]⟩ (some [1]) false false 4 1)).names = [0, 1] := by
  decide

end BreezyVerif.C04
