import BreezyVerif.Common
/-
C34 — git commit → bzr revision → git commit.  Model of
`breezy/git/mapping.py`: `BzrGitMapping(v1).import_commit`, `export_commit`
(lossy=True, the only mode the v1 mapping supports) and
`fix_person_identifier`, over a commit *record* (dulwich's parsing and
serialisation are external).

Modelling choices (see the check module's TRUSTED list):
* a Python `str` obtained by `bytes.decode(codec)` is represented by the bytes
  it was decoded from together with the codec (`PStr`); `str.encode(codec')`
  gives the bytes back when the codec is the same and is an explicit
  `codecMismatch` error otherwise (never reached from `importCommit`'s output —
  that is part of what is proved);
* the revision property dict is a record with one optional field per key the
  mapping writes (`git-mergetag-<i>` is a list); int-valued properties keep the
  integer (`str(int)`/`int(str)` are not modelled);
* the `ASCII`-only string operations of the code (`in`, `split`, `rindex`,
  `count`) are done on the bytes (all codecs involved are ASCII-transparent).
-/
namespace BreezyVerif.C34

inductive Codec where
  | utf8 | latin1 | ascii
  | se            -- utf-8 with surrogateescape (total, bijective)
  | ext (name : Bytes)   -- any other codec of Python's registry, by the name it was looked up with
  deriving DecidableEq, Repr

structure PStr where
  codec : Codec
  bytes : Bytes
  deriving DecidableEq, Repr

/-- an ASCII literal as bytes -/
def bs (s : String) : Bytes := s.toList.map fun c => c.toNat.toUInt8

def validUtf8 (b : Bytes) : Bool := (String.fromUTF8? (ByteArray.mk b.toArray)).isSome

def isAscii (b : Bytes) : Bool := b.all (· < 128)

/-- does `b.decode(codec)` succeed (else `UnicodeDecodeError`) -/
def decodable : Codec → Bytes → Bool
  | .utf8, b => validUtf8 b
  | .latin1, _ => true
  | .ascii, b => isAscii b
  | .se, _ => true
  | .ext _, _ => false     -- environment codecs are decoded by `decodeName` only

inductive Err where
  | unicodeDecode | unknownEncoding | unknownHgExtra | unknownExtra | value
  | lookup | codecMismatch | index | attr | assert
  | unicodeEncode | other     -- raised by a codec of the environment
  | irreversible              -- variant `fx`: strict import refuses text the codec does not reproduce
  | envMiss                   -- the driver's finite codec table has no entry (never a default)
  deriving DecidableEq, Repr

/-- what Python's codec registry answers for an encoding name (`codecs.lookup`):
one of the three codecs whose behaviour is modelled here, some other text codec
(behaviour given by the environment), no such text codec (`LookupError`), or a
name the C API refuses (`ValueError: embedded null character`) -/
inductive Lookup where
  | utf8 | latin1 | ascii | ext | unknown | bad
  | miss          -- driver only: name not in the finite table
  deriving DecidableEq, Repr

/-- **The codec environment**: Python's codec registry and the behaviour of every
codec other than utf-8 / latin-1 / ascii.  The model and every theorem are
parametric in it — nothing is assumed about which names exist, what they alias,
or what the codecs do.  A `str` produced by an environment codec is represented
by its UTF-8 (surrogatepass) bytes, which is ASCII-transparent, so the ASCII-only
string operations of the code stay byte operations. -/
structure Env where
  lookup : Bytes → Lookup
  /-- `raw.decode(name)` for non-empty `raw`: the str (as UTF-8 bytes) or the exception -/
  dec : Bytes → Bytes → Except Err Bytes
  /-- `str.encode(name)` -/
  enc : Bytes → Bytes → Except Err Bytes

def decode (k : Codec) (b : Bytes) : Except Err PStr :=
  if decodable k b then .ok ⟨k, b⟩ else .error .unicodeDecode

def encode (k : Codec) (s : PStr) : Except Err Bytes :=
  if s.codec = k then .ok s.bytes else .error .codecMismatch

/-- `b.decode(name)`.  CPython returns `""` for empty input without looking the
codec up (but after rejecting a name with an embedded NUL). -/
def decodeName (env : Env) (name b : Bytes) : Except Err PStr :=
  match env.lookup name with
  | .bad => .error .value
  | .miss => .error .envMiss
  | .utf8 => decode .utf8 b
  | .latin1 => decode .latin1 b
  | .ascii => decode .ascii b
  | .ext => if b = [] then .ok ⟨.ext name, []⟩ else (env.dec name b).map fun r => ⟨.ext name, r⟩
  | .unknown => if b = [] then .ok ⟨.ext name, []⟩ else .error .lookup

/-- `s.encode(name)` (always looks the codec up) -/
def encodeName (env : Env) (name : Bytes) (s : PStr) : Except Err Bytes :=
  match env.lookup name with
  | .bad => .error .value
  | .miss => .error .envMiss
  | .unknown => .error .lookup
  | .utf8 => encode .utf8 s
  | .latin1 => encode .latin1 s
  | .ascii => encode .ascii s
  | .ext => if s.codec = .ext name then env.enc name s.bytes else .error .codecMismatch

/-- a dulwich `Commit`, field by field -/
structure Commit where
  tree : Bytes
  parents : List Bytes
  author : Bytes
  authorTime : Int
  authorTz : Int
  authorNegUtc : Bool
  committer : Bytes
  commitTime : Int
  commitTz : Int
  commitNegUtc : Bool
  encoding : Option Bytes
  mergetags : List Bytes          -- raw text of each tag object
  extra : List (Bytes × Bytes)
  gpgsig : Option Bytes
  message : Option Bytes
  deriving DecidableEq, Repr

/-- `rev.properties` restricted to the keys the mapping writes -/
structure Props where
  explicitEncoding : Option Bytes := none   -- git-explicit-encoding
  implicitEncoding : Option Bytes := none   -- git-implicit-encoding
  author : Option PStr := none              -- author
  authorTimestamp : Option Int := none      -- author-timestamp
  authorTimezone : Option Int := none       -- author-timezone
  authorNegUtc : Bool := false              -- author-timezone-neg-utc present
  commitNegUtc : Bool := false              -- commit-timezone-neg-utc present
  gpgsig : Option PStr := none              -- git-gpg-signature
  mergetags : List PStr := []               -- git-mergetag-0 …
  gitExtra : Option PStr := none            -- git-extra
  missingMessage : Bool := false            -- git-missing-message present
  deriving DecidableEq, Repr

structure Rev where
  revisionId : Bytes
  committer : PStr
  message : PStr
  timestamp : Int
  timezone : Int
  parents : List Bytes
  props : Props
  deriving DecidableEq, Repr

def revidPrefix : Bytes := bs "git-v1:"

/-- `revision_id_foreign_to_bzr` (the harness passes it as `lookup_parent_revid`) -/
def foreignToBzr (sha : Bytes) : Bytes := revidPrefix ++ sha

/-! ### import -/

/-- a `LookupError` from decoding committer / author is re-raised as `UnknownCommitEncoding` -/
def lookupToUnknown : Err → Err
  | .lookup => .unknownEncoding
  | e => e

/-- `decode_using_encoding`: committer, author (only if different), message —
in that order.  The message is decoded by `_decode_commit_message`, where a
`LookupError` is NOT converted. -/
def decodeUsing (env : Env) (name : Bytes) (c : Commit) : Except Err (PStr × Option PStr × Option PStr) :=
  match decodeName env name c.committer with
  | .error e => .error (lookupToUnknown e)
  | .ok cm =>
    match (if c.committer ≠ c.author then (decodeName env name c.author).map some else .ok none) with
    | .error e => .error (lookupToUnknown e)
    | .ok au =>
      match c.message with
      | none => .ok (cm, au, none)
      | some m =>
        match decodeName env name m with
        | .error e => .error e
        | .ok s => .ok (cm, au, some s)

def hgExtraKeys : List Bytes :=
  [bs "amend_source", bs "rebase_source", bs "absorb_source", bs "intermediate-source",
   bs "source", bs "topic", bs "_rewrite_noise"]

/-- `v.split(b":", 1)[0]`, `none` when there is no `:` (unpacking fails) -/
def beforeColon : Bytes → Option Bytes
  | [] => none
  | x :: r => if x = 58 then some [] else (beforeColon r).map (x :: ·)

/-- the loop over `commit._extra`: the `git-extra` lines and the unknown fields -/
def importExtra (strict : Bool) : List (Bytes × Bytes) → Except Err (List Bytes × List Bytes)
  | [] => .ok ([], [])
  | (k, v) :: rest =>
    if k = bs "HG:rename-source" then do
      let (ls, un) ← importExtra strict rest
      pure ((k ++ [32] ++ v ++ [10]) :: ls, un)
    else if k = bs "HG:extra" then
      match beforeColon v with
      | none => .error .value
      | some hgk =>
        if hgk ∉ hgExtraKeys ∧ strict then .error .unknownHgExtra
        else do
          let (ls, un) ← importExtra strict rest
          pure ((k ++ [32] ++ v ++ [10]) :: ls, un)
    else do
      let (ls, un) ← importExtra strict rest
      pure (ls, k :: un)

/-- the utf-8 → latin1 fallback of `import_commit` (no or `false` encoding header):
only `UnicodeDecodeError` moves on to the next codec.  (If latin1 failed as well the
real loop would fall through with stale variables; that needs a registry in which
`latin1` is not latin-1 and is reported as the error here.) -/
def decodeFallback (env : Env) (c : Commit) :
    Except Err ((PStr × Option PStr × Option PStr) × Option Bytes) :=
  match decodeUsing env (bs "utf-8") c with
  | .ok d => .ok (d, none)
  | .error .unicodeDecode => (decodeUsing env (bs "latin1") c).map fun d => (d, some (bs "latin1"))
  | .error e => .error e

instance {ε α} [DecidableEq ε] [DecidableEq α] : DecidableEq (Except ε α) := fun a b =>
  match a, b with
  | .ok x, .ok y => if h : x = y then isTrue (by rw [h]) else isFalse (by intro e; cases e; exact h rfl)
  | .error x, .error y => if h : x = y then isTrue (by rw [h]) else isFalse (by intro e; cases e; exact h rfl)
  | .ok _, .error _ => isFalse (by intro e; cases e)
  | .error _, .ok _ => isFalse (by intro e; cases e)



/-- `text.decode(name).encode(name) == text` (a decode error cannot happen where this is used) -/
def reenc (env : Env) (name b : Bytes) : Bool :=
  match decodeName env name b with
  | .ok s => decide (encodeName env name s = .ok b)
  | .error _ => true

/-- the three text fields survive decode + encode with the header's codec -/
def reencodes (env : Env) (name : Bytes) (c : Commit) : Bool :=
  reenc env name c.committer && reenc env name c.author &&
    (match c.message with
     | some m => reenc env name m
     | none => true)

/-- the decoding part of `import_commit`: decoded (committer, author, message)
and the `git-implicit-encoding` value.  `fx` selects the code variant (probed on
the real code on every run): `false` = /repo as it is, `true` = with the proposed
fix, where a strict import refuses a header codec that does not reproduce the
commit's text. -/
def importDecode (env : Env) (fx strict : Bool) (c : Commit) :
    Except Err ((PStr × Option PStr × Option PStr) × Option Bytes) :=
  match c.encoding with
  | some e =>
    if !isAscii e then .error .unicodeDecode          -- commit.encoding.decode("ascii")
    else if e ≠ bs "false" then
      match decodeUsing env e c with
      | .error x => .error x
      | .ok d => if fx && strict && !reencodes env e c then .error .irreversible else .ok (d, none)
    else decodeFallback env c
  | none => decodeFallback env c

/-- `if commit.gpgsig: properties["git-gpg-signature"] = …` -/
def importGpgsig : Option Bytes → Option PStr
  | some g => if g ≠ [] then some ⟨.se, g⟩ else none
  | none => none

/-- `if extra_lines: properties["git-extra"] = "".join(extra_lines)` -/
def importGitExtra (extraLines : List Bytes) : Option PStr :=
  if extraLines ≠ [] then some ⟨.se, extraLines.flatten⟩ else none

/-- the property dict built by `import_commit` -/
def importProps (c : Commit) (implicit : Option Bytes) (author message : Option PStr)
    (extraLines : List Bytes) : Props :=
  { explicitEncoding := c.encoding
    implicitEncoding := implicit
    author := author
    authorTimestamp := if c.commitTime ≠ c.authorTime then some c.authorTime else none
    authorTimezone := if c.commitTz ≠ c.authorTz then some c.authorTz else none
    authorNegUtc := c.authorNegUtc
    commitNegUtc := c.commitNegUtc
    gpgsig := importGpgsig c.gpgsig
    mergetags := c.mergetags.map fun t => ⟨.se, t⟩
    gitExtra := importGitExtra extraLines
    missingMessage := message.isNone }

/-- `import_commit(commit, revision_id_foreign_to_bzr, strict)`; `id` is `commit.id` -/
def importCommit (env : Env) (fx strict : Bool) (id : Bytes) (c : Commit) : Except Err Rev :=
  match importDecode env fx strict c with
  | .error e => .error e
  | .ok ((committer, author, message), implicit) =>
    match importExtra strict c.extra with
    | .error e => .error e
    | .ok (extraLines, unknown) =>
      if unknown ≠ [] ∧ strict then .error .unknownExtra
      else .ok
        { revisionId := foreignToBzr id
          committer := committer
          message := match message with
            | some m => m
            | none => ⟨committer.codec, []⟩
          timestamp := c.commitTime
          timezone := c.commitTz
          parents := c.parents.map foreignToBzr
          props := importProps c implicit author message extraLines }

/-! ### export -/

def idx (x : UInt8) : Bytes → Option Nat
  | [] => none
  | y :: r => if y = x then some 0 else (idx x r).map (· + 1)

/-- `text.rindex(x)` -/
def ridx (x : UInt8) (t : Bytes) : Option Nat :=
  (idx x t.reverse).map fun i => t.length - 1 - i

/-- `text.split(sep, 1)` -/
def split1 (sep : UInt8) : Bytes → List Bytes
  | [] => [[]]
  | x :: r =>
    if x = sep then [[], r]
    else match split1 sep r with
      | [] => [[x]]
      | h :: t => (x :: h) :: t

/-- `text.split(b"<", 2)[-2:]` as (username, email), for a text containing `<` -/
def lastTwoOfSplit2 (t : Bytes) : Option (Bytes × Bytes) :=
  match split1 60 t with
  | [a, rest] =>
    (match split1 60 rest with
     | [b, c] => some (b, c)
     | _ => some (a, rest))
  | _ => none

/-- `fix_person_identifier(text)`; `none` = `ValueError` -/
def fixPerson (t : Bytes) : Option Bytes :=
  if 60 ∉ t ∧ 62 ∉ t then some (t ++ bs " <" ++ t ++ bs ">")
  else if 62 ∉ t then some (t ++ bs ">")
  else
    match ridx 62 t, ridx 60 t with
    | some g, some l =>
      if g < l then none
      else
        match lastTwoOfSplit2 t with
        | some (username, email) =>
          let email := email.takeWhile (· ≠ 62)      -- email.split(b">", 1)[0]
          let username := if username.getLast? = some 32 then username.dropLast else username
          some (username ++ bs " <" ++ email ++ bs ">")
        | none => none
    | _, _ => none      -- `rindex` raises ValueError when `<` is absent

def countByte (x : UInt8) (t : Bytes) : Nat := t.count x

/-- the author hack: `"," in a and a.count(">") > 1` → `a.split(",")[0]` -/
def firstAuthor (a : Bytes) : Bytes :=
  if 44 ∈ a ∧ countByte 62 a > 1 then a.takeWhile (· ≠ 44) else a

/-- `text.split("\n")` (on the bytes: `\n` is ASCII in every codec involved) -/
def splitNl : Bytes → List Bytes
  | [] => [[]]
  | x :: r =>
    if x = 10 then [] :: splitNl r
    else match splitNl r with
      | [] => [[x]]
      | h :: t => (x :: h) :: t

/-- `rev.properties["git-extra"].split("\n")[:-1]` -/
def extraLinesOf (b : Bytes) : List Bytes := (splitNl b).dropLast

/-- `(k, v) = l.split(" ", 1)`; `none` = ValueError (no space) -/
def splitKV (l : Bytes) : Option (Bytes × Bytes) :=
  match split1 32 l with
  | [k, v] => some (k, v)
  | _ => none

def exportExtra : List Bytes → Except Err (List (Bytes × Bytes))
  | [] => .ok []
  | l :: rest =>
    match splitKV l with
    | none => .error .value
    | some kv => (exportExtra rest).map (kv :: ·)

def stripPrefix (p t : Bytes) : Option Bytes :=
  if p.isPrefixOf t then some (t.drop p.length) else none

/-- the parent loop with `parent_lookup = revision_id_bzr_to_foreign` -/
def exportParents : List Bytes → Except Err (List Bytes)
  | [] => .ok []
  | p :: rest =>
    match stripPrefix revidPrefix p with
    | none => .error .lookup
    | some sha => if sha.length ≠ 40 then .error .assert else (exportParents rest).map (sha :: ·)

/-- `rev.properties.get("git-implicit-encoding", "utf-8")` -/
def implOr : Option Bytes → Bytes
  | some e => e
  | none => bs "utf-8"

/-- the encoding name `export_commit` computes from the properties:
`git-explicit-encoding`, else `git-implicit-encoding`, else `"utf-8"`; and when
that is `"false"` (not a codec), `git-implicit-encoding` else `"utf-8"` again -/
def encName (explicit implicit : Option Bytes) : Bytes :=
  let e0 : Bytes := match explicit with
    | some e => e
    | none => implOr implicit
  if e0 = bs "false" then implOr implicit else e0

/-- `fix_person_identifier(s.encode(encoding))` -/
def exportIdent (env : Env) (name : Bytes) (s : PStr) : Except Err Bytes :=
  match encodeName env name s with
  | .error e => .error e
  | .ok b => match fixPerson b with
    | some x => .ok x
    | none => .error .value

/-- `rev.get_apparent_authors()[0]`, the comma hack, then `exportIdent` -/
def exportAuthor (env : Env) (name : Bytes) (rev : Rev) : Except Err Bytes :=
  let a : PStr := match rev.props.author with
    | some a => a
    | none => rev.committer
  if a.bytes = [] then .error .index
  else exportIdent env name ⟨a.codec, firstAuthor a.bytes⟩

def exportGpgsig : Option PStr → Except Err (Option Bytes)
  | some g => (encode .se g).map some
  | none => .ok none

def exportGitExtra : Option PStr → Except Err (List (Bytes × Bytes))
  | some e => match encode .se e with
    | .error x => .error x
    | .ok b => exportExtra (extraLinesOf b)
  | none => .ok []

/-- `export_commit(rev, tree_sha, parent_lookup, lossy=True, verifiers=None)`;
errors in the order the code raises them -/
def exportCommit (env : Env) (rev : Rev) (tree : Bytes) : Except Err Commit :=
  match exportParents rev.parents with
  | .error e => .error e
  | .ok parents =>
    let name := encName rev.props.explicitEncoding rev.props.implicitEncoding
    match exportIdent env name rev.committer, exportAuthor env name rev, exportGpgsig rev.props.gpgsig with
    | .error e, _, _ => .error e
    | _, .error e, _ => .error e
    | _, _, .error e => .error e
    | .ok committer, .ok author, .ok gpgsig =>
      -- `commit.message != ""` on a fresh dulwich Commit raises AttributeError
      if rev.props.missingMessage then .error .attr
      else
        match encodeName env name rev.message, rev.props.mergetags.mapM (encode .se),
            exportGitExtra rev.props.gitExtra with
        | .error e, _, _ => .error e
        | _, .error e, _ => .error e
        | _, _, .error e => .error e
        | .ok message, .ok mergetags, .ok extra =>
          .ok
            { tree := tree
              parents := parents
              author := author
              authorTime := match rev.props.authorTimestamp with
                | some t => t
                | none => rev.timestamp
              authorTz := match rev.props.authorTimezone with
                | some t => t
                | none => rev.timezone
              authorNegUtc := rev.props.authorNegUtc
              committer := committer
              commitTime := rev.timestamp
              commitTz := rev.timezone
              commitNegUtc := rev.props.commitNegUtc
              encoding := rev.props.explicitEncoding
              mergetags := mergetags
              extra := extra
              gpgsig := gpgsig
              message := some message }

/-! ### get_revision_id -/

/-- the encoding name `get_revision_id` decodes the message with -/
def revidEncName (c : Commit) : Except Err Bytes :=
  match c.encoding with
  | some e =>
    if e ≠ [] ∧ e ≠ bs "false" then
      (if isAscii e then .ok e else .error .unicodeDecode)   -- commit.encoding.decode("ascii")
    else .ok (bs "utf-8")
  | none => .ok (bs "utf-8")

/-- `except UnicodeDecodeError: pass`; any other exception propagates -/
def revidOfDecode (id : Bytes) : Except Err PStr → Except Err Bytes
  | .ok _ => .ok (foreignToBzr id)
  | .error .unicodeDecode => .ok (foreignToBzr id)
  | .error e => .error e

/-- `BzrGitMapping.get_revision_id(commit)` for the v1 mapping (whose
`_decode_commit_message` returns an empty `CommitSupplement`, so the id always
comes from the sha): the exceptions it can raise on the way are the point. -/
def getRevisionId (env : Env) (id : Bytes) (c : Commit) : Except Err Bytes :=
  match revidEncName c with
  | .error e => .error e
  | .ok name =>
    match c.message with
    | none => .ok (foreignToBzr id)
    | some m => revidOfDecode id (decodeName env name m)

end BreezyVerif.C34
