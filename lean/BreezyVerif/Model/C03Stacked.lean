import BreezyVerif.Model.C03
/-
C03 — a source repository STACKED on a fallback, served by the smart server
(`RemoteStreamSource.missing_parents_chain`).

The client has ONE search (start keys, exclude keys) computed on the union
graph.  It sends it to the stacked repository's server, which recreates it in
the stacked repository's OWN graph (`recreate_search_from_recipe(discard_excess)`:
walk from the start keys, stop at the exclude keys; a key the repository lacks
is a ghost there) and streams what it finds; the client records the revisions
it saw and the parents those revisions reference (`missing_parents_rev_handler`),
refines the search (`SearchResult.refine`: new start = referenced + old start -
seen - exclude; new exclude = exclude + satisfied start keys) and sends the
refined search to the fallback's server.  Core Lean only.
-/
namespace BreezyVerif.C03

open BreezyVerif.C33 (PMap parentsOf parentsL bfs Search)

/-- what a fetch from a stacked repository sees: own keys first, then the fallback's -/
def unionRepo (st fb : Repo) : Repo :=
  ⟨st.revs ++ fb.revs, st.invs ++ fb.invs, st.texts ++ fb.texts⟩

/-- the revisions a server streams for a search recipe: the present keys met walking
from `start` through the repository's own graph, stopping at (and leaving out) `excl` -/
def served (r : Repo) (start excl : List Rev) : List Rev :=
  match bfs (graph r) start excl with
  | some s => s.included
  | none => []

/-- which parents of a streamed revision the client records: all of them
(`revision.parent_ids`, the code) or only the left-hand one (a regression this
model is checked against: `chain_left_parent_only_witness`) -/
inductive Referenced where
  | allParents
  | leftHandOnly
  deriving DecidableEq, Repr

def referencedRevs (mode : Referenced) (r : Repo) (m1 : List Rev) : List Rev :=
  m1.flatMap fun k =>
    match mode with
    | .allParents => parentsL (graph r) k
    | .leftHandOnly => (parentsL (graph r) k).take 1

/-- `missing_parents_chain` for a repository stacked on one fallback: (streamed by
the stacked repository, streamed by the fallback) -/
def chainRevs (mode : Referenced) (st fb : Repo) (start excl : List Rev) : List Rev × List Rev :=
  let m1 := served st start excl
  let heads2 := (referencedRevs mode st m1 ++ start).filter fun k => !decide (k ∈ m1) && !decide (k ∈ excl)
  let excl2 := excl ++ start.filter (· ∈ m1)
  (m1, served fb heads2 excl2)

/-- the two repositories hold different revisions -/
def disjointRevs (st fb : Repo) : Bool := st.revs.all fun kv => !hasRev fb kv.1

/-- the fallback is self-contained: none of its revisions has a parent that only the stacked repository holds -/
def fallbackClosed (st fb : Repo) : Bool := fb.revs.all fun kv => kv.2.parents.all fun p => !hasRev st p

/-- the records the chain inserts into the target: the stacked repository's for what it streamed, the fallback's for the rest -/
def chainCopy (st fb tgt : Repo) (m1 m2 : List Rev) : Repo :=
  copyE fb (copyE st tgt m1 []) m2 []

end BreezyVerif.C03
