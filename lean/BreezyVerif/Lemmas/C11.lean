import BreezyVerif.Model.C11
import BreezyVerif.Lemmas.C46
/-! C11 — lemmas: the pass changes only `versioned` flags; the flag of every entry is `step` at
the mode handed down along its path. -/
namespace BreezyVerif.C11
open BreezyVerif.C46 Forest

theorem pass_clearV (c : Cfg) (pre : Pre) (here : Path) (m : Mode) (f : Forest) :
    clearV (pass c pre here m f) = clearV f := by
  induction f generalizing here m with
  | nil => rfl
  | cons i kids rest ih1 ih2 => simp [pass, clearV, ih1, ih2]

theorem pass_get_cons_ne {c : Cfg} {pre : Pre} {here : Path} {m : Mode} {i : Info} {kids rest : Forest}
    {n : String} {t : Path} (h : i.name ≠ n) :
    (pass c pre here m (cons i kids rest)).get (n :: t) = (pass c pre here m rest).get (n :: t) := by
  simp [pass, Forest.get, h]

/-- the entry found at `q` after the pass: same entry, flag = `step` at the
mode of its listing; its content is the pass continued in the mode `step` hands down -/
theorem pass_get {c : Cfg} {pre : Pre} {here : Path} {m : Mode} {f : Forest} {q : Path} {i : Info} {k : Forest}
    (hg : f.get q = some (i, k)) :
    ∃ m', modeOf c pre here m f q = some m' ∧
      (pass c pre here m f).get q =
        some ({ i with versioned := (step c pre (here ++ q) m' i k).1 },
              pass c pre (here ++ q) (step c pre (here ++ q) m' i k).2 k) := by
  induction f generalizing q here m with
  | nil => simp [Forest.get] at hg
  | cons j kids rest ih1 ih2 =>
    cases q with
    | nil => simp [Forest.get] at hg
    | cons n t =>
      by_cases e : j.name = n
      · subst e
        cases t with
        | nil =>
          rw [get_cons_self] at hg
          simp only [Option.some.injEq, Prod.mk.injEq] at hg
          obtain ⟨rfl, rfl⟩ := hg
          exact ⟨m, by simp [modeOf], by simp [pass, Forest.get]⟩
        | cons a b =>
          rw [get_cons_down] at hg
          obtain ⟨m', h1, h2⟩ := ih1 (here := here ++ [j.name]) (m := (step c pre (here ++ [j.name]) m j kids).2) hg
          refine ⟨m', by simpa [modeOf] using h1, ?_⟩
          have : (pass c pre here m (cons j kids rest)).get (j.name :: a :: b)
              = (pass c pre (here ++ [j.name]) (step c pre (here ++ [j.name]) m j kids).2 kids).get (a :: b) := by
            simp [pass, Forest.get]
          rw [this, h2]
          simp [List.append_assoc]
      · rw [get_cons_ne e] at hg
        obtain ⟨m', h1, h2⟩ := ih2 (here := here) (m := m) hg
        refine ⟨m', by simpa [modeOf, e] using h1, ?_⟩
        rw [pass_get_cons_ne e]; exact h2

/-- nothing appears: a lookup that fails before fails afterwards -/
theorem pass_get_none {c : Cfg} {pre : Pre} {here : Path} {m : Mode} {f : Forest} {q : Path}
    (hg : f.get q = none) : (pass c pre here m f).get q = none := by
  induction f generalizing q here m with
  | nil => simp [pass, Forest.get]
  | cons j kids rest ih1 ih2 =>
    cases q with
    | nil => simp [pass, Forest.get]
    | cons n t =>
      by_cases e : j.name = n
      · subst e
        cases t with
        | nil => rw [get_cons_self] at hg; simp at hg
        | cons a b =>
          rw [get_cons_down] at hg
          have : (pass c pre here m (cons j kids rest)).get (j.name :: a :: b)
              = (pass c pre (here ++ [j.name]) (step c pre (here ++ [j.name]) m j kids).2 kids).get (a :: b) := by
            simp [pass, Forest.get]
          rw [this]; exact ih1 hg
      · rw [get_cons_ne e] at hg
        rw [pass_get_cons_ne e]; exact ih2 hg

/-- whatever the mode: an entry that is versioned or on a named path stays / becomes versioned -/
theorem step_of_v1 (c : Cfg) (pre : Pre) (p : Path) (m : Mode) (i : Info) (k : Forest)
    (h : (i.versioned || onPath c p i) = true) : (step c pre p m i k).1 = true := by
  unfold step visitFlag
  simp only [h]
  cases c.fmt <;> simp <;> (repeat' split) <;> simp_all

/-! ### what the pass does not change: kinds, names, control-directory tests -/

theorem pass_hasCtl (c : Cfg) (pre : Pre) (here : Path) (m : Mode) (f : Forest) :
    hasCtl (pass c pre here m f) = hasCtl f := by
  induction f generalizing here m with
  | nil => rfl
  | cons i kids rest _ ih2 => simp [pass, hasCtl, ih2]

theorem pass_hasDir (c : Cfg) (pre : Pre) (here : Path) (m : Mode) (n : String) (f : Forest) :
    (pass c pre here m f).hasDir n = f.hasDir n := by
  induction f generalizing here m with
  | nil => rfl
  | cons i kids rest _ ih2 => simp [pass, Forest.hasDir, ih2]

/-- look-ups after the pass find an entry iff they did before, of the same kind -/
theorem pass_get_kind {c : Cfg} {pre : Pre} {here : Path} {m : Mode} {f : Forest} (q : Path) :
    ((pass c pre here m f).get q).map (fun x => x.1.kind) = (f.get q).map (fun x => x.1.kind) := by
  cases hg : f.get q with
  | none => rw [pass_get_none hg]
  | some x =>
    obtain ⟨i, k⟩ := x
    obtain ⟨m', _, h2⟩ := pass_get (c := c) (pre := pre) (here := here) (m := m) hg
    rw [h2]; rfl

theorem pass_get_isNone {c : Cfg} {pre : Pre} {here : Path} {m : Mode} {f : Forest} (q : Path) :
    ((pass c pre here m f).get q).isNone = (f.get q).isNone := by
  have := pass_get_kind (c := c) (pre := pre) (here := here) (m := m) (f := f) q
  cases h1 : (pass c pre here m f).get q <;> cases h2 : f.get q <;> simp_all

theorem userDirs_pass (c : Cfg) (pre : Pre) (here : Path) (m : Mode) (f : Forest) :
    userDirs c (pass c pre here m f) = userDirs c f := by
  unfold userDirs
  apply List.filter_congr
  intro n _
  have := pass_get_kind (c := c) (pre := pre) (here := here) (m := m) (f := f) n
  cases h1 : (pass c pre here m f).get n <;> cases h2 : f.get n <;> simp_all

theorem checkNames_pass (fmt : Fmt) (r : Bool) (c : Cfg) (pre : Pre) (here : Path) (m : Mode) (f : Forest)
    (ns : List Path) : checkNames fmt r (pass c pre here m f) ns = checkNames fmt r f ns := by
  induction ns with
  | nil => rfl
  | cons p ps ih => simp only [checkNames, pass_get_isNone, ih]

theorem userDirs_sub (c : Cfg) (f : Forest) {p : Path} (h : (userDirs c f).contains p = true) :
    c.names.contains p = true := by
  simp only [userDirs, List.contains_eq_mem, List.mem_filter, decide_eq_true_eq] at *
  exact h.1

theorem gathered_sub (c : Cfg) (f : Forest) {p : Path} (h : gathered (preOf c f).ud p = true) :
    c.names.contains p = true := by
  simp only [gathered, preOf, Bool.and_eq_true] at h
  exact userDirs_sub c f h.1

end BreezyVerif.C11
