import BreezyVerif.Model.C29
/-!
C30 — a smart server never waits for bytes beyond the current request.

The decoders are the state machines of `Model/C29.lean` (`feed`, `nextReadSize`).
This file adds the reading loops that trust `next_read_size()`:

* `SmartServerPipeStreamMedium._serve_one_request_unguarded` (stops when the hint is 0),
* `ConventionalResponseHandler._read_more` driven by `_wait_for_response_end` (same shape),
* `SmartClientRequestProtocolOne.read_body_bytes` / `Two.read_streamed_body`
  (stop when the body decoder has `finished_reading`).

A pipe delivers between 1 and `want` bytes per read (`sched i` picks how many);
asking for more than the peer will ever send blocks forever (`wouldBlock`).
-/
namespace BreezyVerif.C30
open BreezyVerif.C29

/-- a decoder as seen by a reading loop -/
structure Machine (S : Type) where
  feed : S → Bytes → S
  nrs : S → Int            -- next_read_size()
  fin : S → Bool           -- the message has been decoded completely
  stop : S → Bool          -- the loop's exit test
  unused : S → Bytes

inductive Outcome (S : Type) where
  /-- loop returned; `leftover` = bytes of the message that were never read -/
  | finished (s : S) (leftover : Bytes)
  /-- `read(want)` with fewer than `want` bytes left in the message (or `want ≤ 0`): blocks -/
  | wouldBlock (s : S) (want : Int) (avail : Nat)
  | outOfFuel
  deriving Repr

/-- a short read: at least 1, at most `want` bytes -/
def readSize (want : Int) (choice : Nat) : Nat := max 1 (min choice want.toNat)

/-- `while True: n = next_read_size(); if stop: return; data = read(n); accept_bytes(data)`
on the bytes `avail` that remain of the current message -/
def pipeLoop {S : Type} (M : Machine S) (sched : Nat → Nat) : Nat → Nat → S → Bytes → Outcome S
  | 0, _, _, _ => .outOfFuel
  | fuel + 1, i, s, avail =>
    if M.stop s then .finished s avail
    else
      let want := M.nrs s
      if want ≤ 0 ∨ (avail.length : Int) < want then .wouldBlock s want avail.length
      else
        let k := readSize want (sched i)
        pipeLoop M sched fuel (i + 1) (M.feed s (avail.take k)) (avail.drop k)

/-- the hints requested along the way (for the correspondence check) -/
def pipeHints {S : Type} (M : Machine S) (sched : Nat → Nat) : Nat → Nat → S → Bytes → List Int
  | 0, _, _, _ => []
  | fuel + 1, i, s, avail =>
    if M.stop s then []
    else
      let want := M.nrs s
      if want ≤ 0 ∨ (avail.length : Int) < want then [want]
      else
        let k := readSize want (sched i)
        want :: pipeHints M sched fuel (i + 1) (M.feed s (avail.take k)) (avail.drop k)

/-- client `read_body_bytes`: `while not decoder.finished_reading` -/
def lpMachine : Machine LP :=
  { feed := LP.feed, nrs := LP.nextReadSize, fin := LP.finished, stop := LP.finished, unused := LP.unused }

/-- client `read_streamed_body` -/
def ckMachine : Machine CK :=
  { feed := CK.feed, nrs := CK.nextReadSize, fin := CK.finished, stop := CK.finished, unused := CK.unused }

/-- server pipe medium / client `_read_more` on a ProtocolThreeDecoder: stop when the hint is 0 -/
def v3Machine : Machine V3 :=
  { feed := V3.feed, nrs := V3.nextReadSize, fin := V3.finished,
    stop := fun s => s.nextReadSize == 0, unused := V3.unused }

/-- server pipe medium on SmartServerRequestProtocolOne/Two -/
def reqMachine (w : List Bytes → Bool) : Machine Req :=
  { feed := Req.feed w, nrs := Req.nextReadSize, fin := Req.finished,
    stop := fun s => s.nextReadSize == 0,
    unused := Req.unused }

end BreezyVerif.C30
