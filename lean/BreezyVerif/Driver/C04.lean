import BreezyVerif.Common
import BreezyVerif.Model.C04
import BreezyVerif.Model.C04Fault
import BreezyVerif.Driver.C04Proto
/-
C04 driver.

  commit <chk T|F> <names> <files> <torn> <viewNames> <viewAtLoad> <counts> <tmp0,new0,tmp1,new1>
  pack   <chk T|F> <names> <files> <torn> <viewNames> <viewAtLoad> <hint ~|names> <optimal T|F> <clean T|F> <tmp1,new1>

names / viewNames / viewAtLoad = comma separated pack numbers (`-` = none)
files / torn = comma separated `<d><stem>.<ext>` with d ∈ u p i o (`-` = none)
counts = `name:count` comma separated (all packs after allocate, new0 included), in the
         order Python's sort processes equal counts

  cfault <…the arguments of commit…> <ord> <pos> <B|A> <io|transport|interrupt|read>
  pfault <…the arguments of pack…>   <ord> <pos> <B|A> <io|transport|interrupt|read>
         the same operation with a fault at operation <pos> of the fault-free list (B = the call
         is not performed, A = the exception arrives after the call completed); ord = the files
         of obsolete_packs/ in the order list_dir returned them; the reply is prefixed with
         `R ` (the exception leaves the operation) or `C ` (the operation completes)

reply: `<op>;<op>;… <state>/<state>/…` — the operation list and the directory
state after every prefix (including the empty one); state =
`names|files|torn|L or U`, each list sorted.
-/
namespace BreezyVerif.C04

def parseCounts (s : String) : Option (List (Nat × Nat)) :=
  (splitList s).mapM fun t => match t.splitOn ":" with
    | [a, b] => do pure (← a.toNat?, ← b.toNat?)
    | _ => none

def showPlan : Plan → String
  | .noAutopack => "none"
  | .error => "error"
  | .combine s => s!"combine:{showNatsRaw s}"

def parseFault (pos mode kind : String) : Option Fault := do
  let p ← pos.toNat?
  let a ← (if mode == "A" then some true else if mode == "B" then some false else none)
  let k ← (if kind == "io" then some FKind.io else if kind == "transport" then some FKind.transport
    else if kind == "interrupt" then some FKind.interrupt else if kind == "read" then some FKind.read else none)
  pure ⟨p, a, k⟩

def showFault (raises : Bool) (d : Disk) (ex : List Op) : String :=
  s!"{if raises then "R" else "C"} {showRun d ex}"

def handle : List String → String
  | ["commit", chk, names, files, torn, vn, va, counts, fresh] =>
    match parseBool chk, parseNatList names, parseFiles files, parseFiles torn, parseNatList vn, parseNatList va,
          parseCounts counts, parseNatList fresh with
    | some chk, some names, some files, some torn, some vn, some va, some counts, some [t0, n0, t1, n1] =>
      let d : Disk := ⟨names, files, torn, false⟩
      showRun d (commitOps chk d ⟨vn, va⟩ counts t0 n0 t1 n1)
    | _, _, _, _, _, _, _, _ => "bad-op"
  | ["pack", chk, names, files, torn, vn, va, hint, optimal, clean, fresh] =>
    match parseBool chk, parseNatList names, parseFiles files, parseFiles torn, parseNatList vn, parseNatList va,
          (if hint == "~" then some none else (parseNatList hint).map some),
          parseBool optimal, parseBool clean, parseNatList fresh with
    | some chk, some names, some files, some torn, some vn, some va, some hint, some optimal, some clean, some [t1, n1] =>
      let d : Disk := ⟨names, files, torn, false⟩
      showRun d (packOps chk d ⟨vn, va⟩ hint optimal clean t1 n1)
    | _, _, _, _, _, _, _, _, _, _ => "bad-op"
  | ["cfault", chk, names, files, torn, vn, va, counts, fresh, ord, pos, mode, kind] =>
    match parseBool chk, parseNatList names, parseFiles files, parseFiles torn, parseNatList vn, parseNatList va,
          parseCounts counts, parseNatList fresh, parseFiles ord, parseFault pos mode kind with
    | some chk, some names, some files, some torn, some vn, some va, some counts, some [t0, n0, t1, n1],
      some ord, some f =>
      let d : Disk := ⟨names, files, torn, false⟩
      showFault (commitRaisesWith chk d ⟨vn, va⟩ (planAutopack counts) t0 n0 t1 n1 ord f) d
        (commitFault chk d ⟨vn, va⟩ counts t0 n0 t1 n1 ord f)
    | _, _, _, _, _, _, _, _, _, _ => "bad-op"
  | ["pfault", chk, names, files, torn, vn, va, hint, optimal, clean, fresh, ord, pos, mode, kind] =>
    match parseBool chk, parseNatList names, parseFiles files, parseFiles torn, parseNatList vn, parseNatList va,
          (if hint == "~" then some none else (parseNatList hint).map some),
          parseBool optimal, parseBool clean, parseNatList fresh, parseFiles ord, parseFault pos mode kind with
    | some chk, some names, some files, some torn, some vn, some va, some hint, some optimal, some clean,
      some [t1, n1], some ord, some f =>
      let d : Disk := ⟨names, files, torn, false⟩
      let v : View := ⟨vn, va⟩
      showFault (packRaisesSel chk d v (hintSel v hint) optimal clean t1 n1 ord f) d
        (packFault chk d v hint optimal clean t1 n1 ord f)
    | _, _, _, _, _, _, _, _, _, _, _, _ => "bad-op"
  | ["plan", counts] =>
    match parseCounts counts with
    | some c => showPlan (planAutopack c)
    | none => "bad-op"
  | ["merge", disk, atLoad, mine] =>
    match parseNatList disk, parseNatList atLoad, parseNatList mine with
    | some a, some b, some c => showNats (mergeNames a b c)
    | _, _, _ => "bad-op"
  | _ => "bad-op"

end BreezyVerif.C04

def main : IO Unit := BreezyVerif.runDriver BreezyVerif.C04.handle
