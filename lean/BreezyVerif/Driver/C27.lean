import BreezyVerif.Common
import BreezyVerif.Driver.C26Lib
import BreezyVerif.Model.C27
namespace BreezyVerif.C27
open BreezyVerif.C26

/-- `crash n cfgs held events`: after every prefix, the classification of the lock on disk
followed by the rendering of the whole state | `rec held` -/
def handle : List String → String
  | ["crash", n, cfgs, held, evs] =>
    match n.toNat?, (splitList cfgs).mapM parseCfg, parseHeld held, (splitList evs).mapM parseEv with
    | some n, some cs, some h, some evs =>
      if cs.length = n then
        "|".intercalate (traceWith (fun s => (classify s.held).show ++ " " ++ s.show n) (Sys.init (cfgFun cs) h) evs)
      else "bad-op"
    | _, _, _, _ => "bad-op"
  | ["rec", held] =>
    match parseHeld held with
    | some h => showBool (recoverable h)
    | none => "bad-op"
  | _ => "bad-op"

end BreezyVerif.C27

def main : IO Unit := BreezyVerif.runDriver BreezyVerif.C27.handle
