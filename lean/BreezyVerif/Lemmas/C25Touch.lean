import BreezyVerif.Model.C25
/-!
C25 — the merge stack of `_filter_revisions_touching_path` computes exactly the
stack-free specification `enclosingExpected` on every view whose depths go up
by at most one per step (`stepwise`).
-/
namespace BreezyVerif.C25
open BreezyVerif.C22

/-- the `include_merges or node[2] == 0` test -/
def passes (inc : Bool) (x : V) : Bool := inc || x.depth == 0

/-- entries of the stack that are listed now -/
def outF (inc : Bool) : Option V → Option V
  | some x => if inc || x.depth == 0 then some x else none
  | none => none

/-- entries of the stack after listing -/
def markF (inc : Bool) : Option V → Option V
  | some x => if inc || x.depth == 0 then none else some x
  | none => none

theorem touchLoop_cons (modified : List Nat) (inc : Bool) (stack : List (Option V)) (v : V) (l : List V) :
    touchLoop modified inc stack (v :: l) =
      if modified.contains v.rev then
        (pushStack stack v).filterMap (outF inc) ++ touchLoop modified inc ((pushStack stack v).map (markF inc)) l
      else touchLoop modified inc (pushStack stack v) l := by
  have h1 : (fun n : Option V => match n with
      | some x => if inc || x.depth == 0 then some x else none
      | none => none) = outF inc := by funext n; cases n <;> rfl
  have h2 : (fun n : Option V => match n with
      | some x => if inc || x.depth == 0 then none else some x
      | none => none) = markF inc := by funext n; cases n <;> rfl
  rw [← h1, ← h2, touchLoop]
  rfl

theorem pushStack_eq (stack : List (Option V)) (v : V) (h : v.depth ≤ stack.length) :
    pushStack stack v = stack.take v.depth ++ [some v] := by
  unfold pushStack
  by_cases hd : (v.depth == stack.length) = true
  · have hd' : v.depth = stack.length := by simpa using hd
    simp only [hd, if_true]
    rw [hd', List.take_length]
  · have hd' : v.depth < stack.length := by
      have : v.depth ≠ stack.length := by simpa using hd
      omega
    simp only [hd, Bool.false_eq_true, if_false]
    have hdl : (stack.take (v.depth + 1)).dropLast = stack.take v.depth := by
      rw [List.dropLast_eq_take, List.length_take, List.take_take]
      congr 1; omega
    rw [hdl]

/-- the entries of a stack (slot numbers from `k`) that pass the merge test and whose slot satisfies `q` -/
def emitP (inc : Bool) (q : Nat → Bool) : Nat → List (Option V) → List V
  | _, [] => []
  | k, e :: st =>
    (match e with
      | some x => if passes inc x && q k then [x] else []
      | none => []) ++ emitP inc q (k + 1) st

theorem emitP_false (inc : Bool) (q : Nat → Bool) (hq : ∀ k, q k = false) : ∀ (st : List (Option V)) (k : Nat),
    emitP inc q k st = []
  | [], _ => rfl
  | e :: st, k => by
    cases e <;> simp [emitP, hq, emitP_false inc q hq st]

theorem emitP_nopass (inc : Bool) (q : Nat → Bool) : ∀ (st : List (Option V)) (k : Nat),
    (∀ x, some x ∈ st → passes inc x = false) → emitP inc q k st = []
  | [], _, _ => rfl
  | e :: st, k, h => by
    have ih := emitP_nopass inc q st (k + 1) (fun x hx => h x (List.mem_cons_of_mem _ hx))
    cases e with
    | none => simp [emitP, ih]
    | some x => simp [emitP, ih, h x (List.mem_cons_self ..)]

theorem emitP_append (inc : Bool) (q : Nat → Bool) : ∀ (a b : List (Option V)) (k : Nat),
    emitP inc q k (a ++ b) = emitP inc q k a ++ emitP inc q (k + a.length) b
  | [], b, k => by simp [emitP]
  | e :: a, b, k => by
    simp only [List.cons_append, emitP, emitP_append inc q a b (k + 1), List.length_cons, List.append_assoc]
    congr 3; omega

/-- restricting the slot predicate to the slots below `d` = cutting the stack at `d` -/
theorem emitP_lt (inc : Bool) (q : Nat → Bool) (d : Nat) : ∀ (st : List (Option V)) (k : Nat),
    emitP inc (fun j => decide (j < d) && q j) k st = emitP inc q k (st.take (d - k))
  | [], _ => by simp [emitP]
  | e :: st, k => by
    by_cases hk : k < d
    · have h1 : d - k = (d - (k + 1)) + 1 := by omega
      rw [h1, List.take_succ_cons]
      simp only [emitP, emitP_lt inc q d st (k + 1), hk, decide_true, Bool.true_and]
    · have h1 : d - k = 0 := by omega
      rw [h1, List.take_zero]
      have hf : ∀ j, k ≤ j → (decide (j < d) && q j) = false := by
        intro j hj
        have : ¬ j < d := by omega
        simp [this]
      have : ∀ (st : List (Option V)) (k' : Nat), k ≤ k' →
          emitP inc (fun j => decide (j < d) && q j) k' st = [] := by
        intro st
        induction st with
        | nil => intro _ _; rfl
        | cons e st ih =>
          intro k' hk'
          cases e <;> simp [emitP, hf k' hk', ih (k' + 1) (by omega)]
      rw [this (e :: st) k (Nat.le_refl _)]
      rfl

theorem emitP_true (inc : Bool) : ∀ (st : List (Option V)) (k : Nat),
    emitP inc (fun _ => true) k st = st.filterMap (outF inc)
  | [], _ => rfl
  | e :: st, k => by
    cases e with
    | none =>
      rw [List.filterMap_cons_none rfl]
      simp only [emitP, List.nil_append, emitP_true inc st (k + 1)]
    | some x =>
      by_cases hp : (inc || x.depth == 0) = true
      · rw [List.filterMap_cons_some (b := x) (by simp [outF, hp])]
        simp only [emitP, passes, hp, Bool.and_self, if_true, emitP_true inc st (k + 1), List.singleton_append]
      · have hp' : (inc || x.depth == 0) = false := by simpa using hp
        rw [List.filterMap_cons_none (by simp [outF, hp'])]
        simp only [emitP, passes, hp', Bool.false_and, Bool.false_eq_true, if_false, List.nil_append,
          emitP_true inc st (k + 1)]

theorem emitP_congr (inc : Bool) (q q' : Nat → Bool) (h : ∀ k, q k = q' k) (k : Nat) (st : List (Option V)) :
    emitP inc q k st = emitP inc q' k st := by
  have : q = q' := funext h
  rw [this]

theorem mark_nopass (inc : Bool) (st : List (Option V)) (x : V) (h : some x ∈ st.map (markF inc)) :
    passes inc x = false := by
  rw [List.mem_map] at h
  obtain ⟨n, _, hn⟩ := h
  cases n with
  | none => simp [markF] at hn
  | some y =>
    by_cases hy : (inc || y.depth == 0) = true
    · simp [markF, hy] at hn
    · have hy' : (inc || y.depth == 0) = false := by simpa using hy
      simp only [markF, hy', Bool.false_eq_true, if_false, Option.some.injEq] at hn
      subst hn
      simpa [passes] using hy'

/-- **core**: the stack algorithm = (what is still listed from the stack) ++ the specification on the rest -/
theorem touchLoop_spec (modified : List Nat) (inc : Bool) : ∀ (l : List V) (st : List (Option V)),
    stepwise st.length l = true →
      touchLoop modified inc st l =
        emitP inc (fun k => groupHasMod modified k l) 0 st ++ enclosingExpected modified inc l
  | [], st, _ => by
    rw [emitP_false inc (fun k => groupHasMod modified k []) (fun k => rfl)]
    rfl
  | v :: rest, st, h => by
    simp only [stepwise, Bool.and_eq_true, decide_eq_true_eq] at h
    obtain ⟨hv, hs⟩ := h
    have hpush := pushStack_eq st v hv
    have hlen : (pushStack st v).length = v.depth + 1 := by
      rw [hpush, List.length_append, List.length_take, Nat.min_eq_left hv]; rfl
    have htl : (st.take v.depth).length = v.depth := by
      rw [List.length_take, Nat.min_eq_left hv]
    rw [touchLoop_cons]
    by_cases hm : modified.contains v.rev = true
    · simp only [hm, if_true]
      have ih := touchLoop_spec modified inc rest ((pushStack st v).map (markF inc))
        (by rw [List.length_map, hlen]; exact hs)
      rw [ih, emitP_nopass inc _ _ 0 (mark_nopass inc _), List.nil_append]
      -- the slots below the depth of `v` are listed now
      have hq : ∀ k, groupHasMod modified k (v :: rest) = (decide (k < v.depth) && (fun _ => true) k) := by
        intro k
        show (decide (k < v.depth) && (modified.contains v.rev || groupHasMod modified k rest)) = _
        rw [hm]; simp
      rw [emitP_congr inc _ _ hq, emitP_lt inc (fun _ => true) v.depth st 0, Nat.sub_zero, emitP_true, hpush,
        List.filterMap_append]
      simp only [enclosingExpected, hm, Bool.true_or, Bool.true_and]
      by_cases hp : (inc || v.depth == 0) = true
      · simp [outF, hp]
      · have hp' : (inc || v.depth == 0) = false := by simpa using hp
        simp [outF, hp']
    · have hm' : modified.contains v.rev = false := by simpa using hm
      simp only [hm', Bool.false_eq_true, if_false]
      have ih := touchLoop_spec modified inc rest (pushStack st v) (by rw [hlen]; exact hs)
      rw [ih, hpush, emitP_append, htl, Nat.zero_add]
      have hq : ∀ k, groupHasMod modified k (v :: rest) =
          (decide (k < v.depth) && (fun j => groupHasMod modified j rest) k) := by
        intro k
        show (decide (k < v.depth) && (modified.contains v.rev || groupHasMod modified k rest)) = _
        rw [hm']; simp
      rw [emitP_congr inc _ _ hq, emitP_lt inc _ v.depth st 0, Nat.sub_zero, List.append_assoc]
      congr 1
      simp only [emitP, enclosingExpected, hm', Bool.false_or, passes, List.append_nil]
      by_cases hg : groupHasMod modified v.depth rest = true
      · by_cases hp : (inc || v.depth == 0) = true
        · simp [hg, hp]
        · have hp' : (inc || v.depth == 0) = false := by simpa using hp
          simp [hg, hp']
      · have hg' : groupHasMod modified v.depth rest = false := by simpa using hg
        simp [hg']

end BreezyVerif.C25
