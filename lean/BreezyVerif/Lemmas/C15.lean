import BreezyVerif.Model.C15
/-!
C15 — helper definitions (decidable hypotheses) and list lemmas about hunk
selection (`pickChunks`), change masks and the chunk-wise text merge.
-/
namespace BreezyVerif.C15
open BreezyVerif.C18 (threeWay Winner)

/-! ### hypotheses of the property theorems (all decidable) -/

/-- inventories keep `executable = False` for everything that is not a file -/
def norm : Option Entry → Bool
  | some e => e.kind == .file || !e.exec
  | none => true

/-- a hunk selection fits the two texts; none is offered for an added / deleted id -/
def shapeOk (s : Sel) : Option Entry → Option Entry → Bool
  | some be, some we => s.content.shapeOk be we
  | _, _ => match s.content with | .chunks _ => false | _ => true

/-- no executable file is involved, or the variant carries executable bits -/
def execSafe (v : Variant) : Option Entry → Option Entry → Bool
  | some be, some we => v.keepExec || (!be.exec && !we.exec)
  | some be, none => v.keepExec || !be.exec
  | none, some we => v.keepExec || !we.exec
  | none, none => true

/-- the executable bit the merge sees for THIS is the one on disk -/
def recOk (v : Variant) (rec : Bool) : Option Entry → Bool
  | some e => v.freshExec || rec == e.exec
  | none => true

/-- same kind and segmentation on both sides (the only case in which single text chunks are atoms) -/
def sameShape : Option Entry → Option Entry → Bool
  | some x, some y => x.kind == y.kind && x.content.length == y.content.length
  | _, _ => false

/-- tree-level hypotheses: every entry normal, every hunk selection fits, no
executable file is re-created unless the variant carries the bit -/
def TreeOk (v : Variant) (s : TSel) (b w : Tree) : Prop :=
  ∀ i, norm (b i) = true ∧ norm (w i) = true ∧ shapeOk (s i) (b i) (w i) = true ∧ execSafe v (b i) (w i) = true

def wtree (l : List (Id × Entry)) : Tree := fun i => (l.find? fun e => e.1 == i).map (·.2)

/-! ### hunk selection -/

theorem pickChunks_length (bits : List Bool) (x y : List Nat)
    (h1 : bits.length = x.length) (h2 : x.length = y.length) :
    (pickChunks bits x y).length = x.length := by
  induction bits generalizing x y with
  | nil => cases x <;> cases y <;> simp_all [pickChunks]
  | cons s bs ih =>
    cases x with
    | nil => simp at h1
    | cons a as =>
      cases y with
      | nil => simp at h2
      | cons c cs => simp [pickChunks]; exact ih as cs (by simpa using h1) (by simpa using h2)

/-- re-applying the selected hunks (taken from the shelf text) to the remaining
text gives the original text; removing both gives the basis -/
theorem pick_partition (bits : List Bool) (b w : List Nat)
    (h1 : bits.length = b.length) (h2 : b.length = w.length) :
    pickChunks bits (pickChunks bits w b) (pickChunks bits b w) = w ∧
    pickChunks bits (pickChunks bits b w) (pickChunks bits w b) = b := by
  induction bits generalizing b w with
  | nil => cases b <;> cases w <;> simp_all [pickChunks]
  | cons s bs ih =>
    cases b with
    | nil => simp at h1
    | cons a as =>
      cases w with
      | nil => simp at h2
      | cons c cs =>
        have := ih as cs (by simpa using h1) (by simpa using h2)
        cases s <;> simp [pickChunks, this]

theorem pick_shelf_eq_basis (bits : List Bool) (b w : List Nat)
    (h1 : bits.length = b.length) (h2 : b.length = w.length)
    (h : pickChunks bits w b = b) : pickChunks bits b w = w := by
  induction bits generalizing b w with
  | nil => cases b <;> cases w <;> simp_all [pickChunks]
  | cons s bs ih =>
    cases b with
    | nil => simp at h1
    | cons a as =>
      cases w with
      | nil => simp at h2
      | cons c cs =>
        cases s <;> simp_all [pickChunks] <;> exact ih as cs (by omega) (by omega) (by simp_all)

theorem pick_work_eq_basis (bits : List Bool) (b w : List Nat)
    (h1 : bits.length = b.length) (h2 : b.length = w.length)
    (h : pickChunks bits b w = b) : pickChunks bits w b = w := by
  induction bits generalizing b w with
  | nil => cases b <;> cases w <;> simp_all [pickChunks]
  | cons s bs ih =>
    cases b with
    | nil => simp at h1
    | cons a as =>
      cases w with
      | nil => simp at h2
      | cons c cs =>
        cases s <;> simp_all [pickChunks] <;> exact ih as cs (by omega) (by omega) (by simp_all)

theorem pick_work_eq_shelf (bits : List Bool) (b w : List Nat)
    (h1 : bits.length = b.length) (h2 : b.length = w.length)
    (h : pickChunks bits b w = pickChunks bits w b) : pickChunks bits b w = w := by
  induction bits generalizing b w with
  | nil => cases b <;> cases w <;> simp_all [pickChunks]
  | cons s bs ih =>
    cases b with
    | nil => simp at h1
    | cons a as =>
      cases w with
      | nil => simp at h2
      | cons c cs =>
        cases s <;> simp_all [pickChunks] <;> exact ih as cs (by omega) (by omega) (by simp_all)

/-- the chunk-wise three-way merge of the remaining text and the shelf text over the basis is the original text -/
theorem mergeChunks_pick (bits : List Bool) (b w : List Nat)
    (h1 : bits.length = b.length) (h2 : b.length = w.length) :
    mergeChunks b (pickChunks bits b w) (pickChunks bits w b) = some w := by
  induction bits generalizing b w with
  | nil => cases b <;> cases w <;> simp_all [pickChunks, mergeChunks]
  | cons s bs ih =>
    cases b with
    | nil => simp at h1
    | cons a as =>
      cases w with
      | nil => simp at h2
      | cons c cs =>
        have := ih as cs (by simpa using h1) (by simpa using h2)
        cases s <;> by_cases hac : a = c <;> simp [pickChunks, mergeChunks, this, threeWay, hac] <;> grind

/-! ### change masks -/

theorem chunkMask_pick_left (bits : List Bool) (b w : List Nat)
    (h1 : bits.length = b.length) (h2 : b.length = w.length) :
    chunkMask b (pickChunks bits b w) = maskAndNot (chunkMask b w) bits ∧
    chunkMask (pickChunks bits b w) w = maskAnd (chunkMask b w) bits := by
  induction bits generalizing b w with
  | nil => cases b <;> cases w <;> simp_all [pickChunks, chunkMask, maskAnd, maskAndNot]
  | cons s bs ih =>
    cases b with
    | nil => simp at h1
    | cons a as =>
      cases w with
      | nil => simp at h2
      | cons c cs =>
        have := ih as cs (by simpa using h1) (by simpa using h2)
        cases s <;> simp [pickChunks, chunkMask, maskAnd, maskAndNot, this]

theorem chunkMask_pick_right (bits : List Bool) (b w : List Nat)
    (h1 : bits.length = b.length) (h2 : b.length = w.length) :
    chunkMask b (pickChunks bits w b) = maskAnd (chunkMask b w) bits ∧
    chunkMask (pickChunks bits w b) w = maskAndNot (chunkMask b w) bits := by
  induction bits generalizing b w with
  | nil => cases b <;> cases w <;> simp_all [pickChunks, chunkMask, maskAnd, maskAndNot]
  | cons s bs ih =>
    cases b with
    | nil => simp at h1
    | cons a as =>
      cases w with
      | nil => simp at h2
      | cons c cs =>
        have := ih as cs (by simpa using h1) (by simpa using h2)
        cases s <;> simp [pickChunks, chunkMask, maskAnd, maskAndNot, this]

theorem chunkMask_length (x y : List Nat) (h : x.length = y.length) : (chunkMask x y).length = x.length := by
  induction x generalizing y with
  | nil => cases y <;> simp_all [chunkMask]
  | cons a as ih => cases y with
    | nil => simp at h
    | cons c cs => simp [chunkMask]; exact ih cs (by simpa using h)

theorem chunkMask_self (x : List Nat) : chunkMask x x = List.replicate x.length false := by
  induction x with
  | nil => simp [chunkMask]
  | cons a as ih => simp [chunkMask, ih, List.replicate_succ]

theorem maskAnd_true (m : List Bool) : maskAnd m (List.replicate m.length true) = m := by
  induction m with
  | nil => simp [maskAnd]
  | cons a as ih => simp [maskAnd, List.replicate_succ, ih]

theorem maskAnd_false (m : List Bool) : maskAnd m (List.replicate m.length false) = List.replicate m.length false := by
  induction m with
  | nil => simp [maskAnd]
  | cons a as ih => simp [maskAnd, List.replicate_succ, ih]

theorem maskAndNot_true (m : List Bool) : maskAndNot m (List.replicate m.length true) = List.replicate m.length false := by
  induction m with
  | nil => simp [maskAndNot]
  | cons a as ih => simp [maskAndNot, List.replicate_succ, ih]

theorem maskAndNot_false (m : List Bool) : maskAndNot m (List.replicate m.length false) = m := by
  induction m with
  | nil => simp [maskAndNot]
  | cons a as ih => simp [maskAndNot, List.replicate_succ, ih]

theorem chunkMask_all_false_iff (x y : List Nat) (h : x.length = y.length) :
    (chunkMask x y).all (!·) = true ↔ x = y := by
  induction x generalizing y with
  | nil => cases y <;> simp_all [chunkMask]
  | cons a as ih => cases y with
    | nil => simp at h
    | cons c cs =>
      have := ih cs (by simpa using h)
      simp [chunkMask, this]

/-! ### shelf ids -/
namespace Mgr

theorem le_maxId (a : List Nat) (x : Nat) (h : x ∈ a) : x ≤ maxId a := by
  induction a with
  | nil => simp at h
  | cons y ys ih =>
    simp only [List.mem_cons] at h
    simp only [maxId]
    rcases h with h | h
    · subst h; omega
    · have := ih h; omega

theorem nextId_fresh' (a : List Nat) : (∀ x ∈ a, x < nextId a) ∧ nextId a ∉ a := by
  have h : ∀ x ∈ a, x < nextId a := fun x hx => by have := le_maxId a x hx; simp [nextId]; omega
  exact ⟨h, fun hm => by have := h _ hm; omega⟩

theorem step_nodup (a : List Nat) (op : Op) (hnd : a.Nodup) (a' : List Nat) (h : step a op = some a') : a'.Nodup := by
  cases op with
  | new =>
    simp only [step, Option.some.injEq] at h
    subst h
    exact List.nodup_cons.mpr ⟨(nextId_fresh' a).2, hnd⟩
  | delete k =>
    simp only [step] at h
    split at h
    · simp only [Option.some.injEq] at h; subst h; exact hnd.erase k
    · simp at h

end Mgr

end BreezyVerif.C15
