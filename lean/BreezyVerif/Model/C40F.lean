import BreezyVerif.Model.C40
import BreezyVerif.Model.C47
/-
C40 — the fields of a format-2 merge directive and the stanza they are stored in.

`BaseMergeDirective._to_lines` builds a `rio.Stanza` (tag ↦ str value) from the
fields: `rio.Stanza(**kwargs)` adds `revision_id`, `target_branch`,
`testament_sha1` (when not None) and `timestamp` in sorted order, then
`source_branch` and `message` when not None, then `base_revision_id`.
`MergeDirective2._from_lines` reads them back with `stanza.get` / `in`, parses
the timestamp and calls the constructor (which needs a merge source).

The timestamp is `format_patch_date` / `parse_patch_date` (crates/patch/src/timestamp.rs,
osutils `format_date`): `%Y-%m-%d %H:%M:%S ±hhmm`, whole seconds.  The calendar is the
one of `Model/C47` (`fmtBase`, `parseBase`).

Values are Python `str` (lists of characters): revision ids and sha1s are
`bytes.decode("utf-8")` / `str.encode("utf-8")` around the stanza, which is the
identity on valid UTF-8 (stdlib; revision ids that are not UTF-8 raise in `to_lines`).
The line encoding of the stanza (`rio_patch`, bzrformats) stays a `Codec` parameter.
-/
namespace BreezyVerif.C40

open BreezyVerif.C47 (fmtBase parseBase inRange padAtLeast digitsVal)

abbrev Str := List Char

inductive Key where
  | revisionId | targetBranch | testamentSha1 | timestamp | sourceBranch | message | baseRevisionId
  | other (name : Str)
  deriving DecidableEq, Repr

abbrev Stanza := List (Key × Str)

/-- `stanza.get(tag)` / `tag in stanza` (first value) -/
def lookup (st : Stanza) (k : Key) : Option Str :=
  match st with
  | [] => none
  | (k', v) :: rest => if k' = k then some v else lookup rest k

structure Fields where
  revisionId : Str
  testamentSha1 : Option Str
  /-- whole seconds (`secs as i64`) -/
  time : Int
  timezone : Int
  targetBranch : Str
  sourceBranch : Option Str
  message : Option Str
  baseRevisionId : Str
  deriving DecidableEq, Repr

inductive FErr where
  /-- `format_patch_date`: offset not a multiple of 60 (ValueError) -/
  | invalidOffset
  /-- `format_patch_date`: `secs + offset < 0` (ValueError) -/
  | negativeTime
  /-- year outside 0..9999: chrono prints a sign and more digits; not modelled -/
  | yearNotModelled
  /-- `parse_patch_date`: a string that is not `dddd-dd-dd dd:dd:dd ±dddd`; not modelled -/
  | shapeNotModelled
  /-- `parse_patch_date`: hours ≥ 24 or minutes ≥ 60 in the offset (ValueError) -/
  | badOffset
  /-- `parse_patch_date`: not a calendar date / time of day (ValueError) -/
  | badDate
  /-- `stanza.get` of a missing tag / `kwargs[...]` (KeyError) -/
  | missingKey
  /-- the constructor lacks a required keyword (`testament_sha1`, `target_branch`): TypeError -/
  | typeError
  /-- `NoMergeSource`: neither a bundle nor a public branch -/
  | noMergeSource
  deriving DecidableEq, Repr

/-- `format_patch_date(secs, offset)` -/
def formatPatchDate (secs offset : Int) : Except FErr Str :=
  if offset % 60 ≠ 0 then .error .invalidOffset
  else
    -- "we always give the epoch in utc"
    let off := if secs = 0 then 0 else offset
    if secs + off < 0 then .error .negativeTime
    else if !inRange (secs + off) then .error .yearNotModelled
    else .ok (fmtBase (secs + off) ++ ' ' :: (if off ≥ 0 then '+' else '-') ::
      (padAtLeast 2 (off.natAbs / 3600) ++ padAtLeast 2 (off.natAbs / 60 % 60)))

/-- `parse_patch_date(s)` on strings of the canonical shape (25 characters) -/
def parsePatchDate (s : Str) : Except FErr (Int × Int) :=
  if s.length ≠ 25 then .error .shapeNotModelled else
  let base := s.take 19
  let tail := s.drop 19
  let sg := (tail.drop 1).take 1
  if tail.take 1 ≠ [' '] ∨ (sg ≠ ['+'] ∧ sg ≠ ['-']) then .error .shapeNotModelled else
  match digitsVal 0 ((tail.drop 2).take 2), digitsVal 0 (tail.drop 4) with
  | some hh, some mm =>
    if hh ≥ 24 ∨ mm ≥ 60 then .error .badOffset
    else
      let mag : Int := hh * 3600 + mm * 60
      let off : Int := if sg = ['-'] then -mag else mag
      match parseBase base with
      | none => .error .badDate
      | some v =>
        -- chrono rejects dates that are not calendar dates (Feb 30): re-formatting must give the input
        if inRange v ∧ fmtBase v = base then .ok (v - off, off) else .error .badDate
  | _, _ => .error .shapeNotModelled

/-- the stanza `_to_lines(base_revision=True)` builds -/
def toPairs (f : Fields) : Except FErr Stanza :=
  match formatPatchDate f.time f.timezone with
  | .error e => .error e
  | .ok ts =>
    .ok ([(Key.revisionId, f.revisionId), (Key.targetBranch, f.targetBranch)] ++
      (match f.testamentSha1 with | some t => [(Key.testamentSha1, t)] | none => []) ++
      [(Key.timestamp, ts)] ++
      (match f.sourceBranch with | some s => [(Key.sourceBranch, s)] | none => []) ++
      (match f.message with | some m => [(Key.message, m)] | none => []) ++
      [(Key.baseRevisionId, f.baseRevisionId)])

/-- the field part of `MergeDirective2._from_lines` (after the payload has been split off);
`hasBundle` = a bundle section was found.  `tolerant = false` is the code as found: the
constructor is called without `testament_sha1` when the tag is absent, which is a TypeError;
`tolerant = true` is the proposed repair (`testament_sha1=None` then).  The harness probes
which one the tree implements. -/
def fromPairsV (tolerant : Bool) (st : Stanza) (hasBundle : Bool) : Except FErr Fields :=
  match lookup st .timestamp with
  | none => .error .missingKey
  | some ts =>
    match parsePatchDate ts with
    | .error e => .error e
    | .ok (time, tz) =>
      match lookup st .revisionId, lookup st .baseRevisionId with
      | some rid, some bid =>
        match lookup st .targetBranch with
        | none => .error .typeError
        | some tb =>
          if (lookup st .testamentSha1).isNone ∧ !tolerant then .error .typeError
          else if (lookup st .sourceBranch).isNone ∧ !hasBundle then .error .noMergeSource
          else .ok ⟨rid, lookup st .testamentSha1, time, tz, tb, lookup st .sourceBranch, lookup st .message, bid⟩
      | _, _ => .error .missingKey

/-- the code as found -/
def fromPairs (st : Stanza) (hasBundle : Bool) : Except FErr Fields := fromPairsV false st hasBundle

/-- `to_lines()` from the fields -/
def toLinesF (rio : Codec Stanza) (d : Directive Fields) : Except FErr (List Line) :=
  match toPairs d.fields with
  | .error e => .error e
  | .ok st => .ok (toLines rio ⟨st, d.patch, d.bundle⟩)

inductive FromErr where
  | directive (e : DErr)
  | fields (e : FErr)
  deriving DecidableEq, Repr

/-- `MergeDirective.from_lines` down to the fields -/
def fromLinesFV (tolerant : Bool) (rio : Codec Stanza) (lines : List Line) : Except FromErr (Directive Fields) :=
  match fromLines rio lines with
  | .error e => .error (.directive e)
  | .ok d =>
    match fromPairsV tolerant d.fields d.bundle.isSome with
    | .error e => .error (.fields e)
    | .ok f => .ok ⟨f, d.patch, d.bundle⟩

/-- the code as found -/
def fromLinesF (rio : Codec Stanza) (lines : List Line) : Except FromErr (Directive Fields) :=
  fromLinesFV false rio lines

end BreezyVerif.C40
