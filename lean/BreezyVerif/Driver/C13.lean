import BreezyVerif.Common
import BreezyVerif.Model.C13
/-
C13 driver.  Requests:

  apply <order D|M> <jc T|F> <fault1 ~|n> <fault2 ~|n> <faultUndo ~|n> <faultMeta T|F> <fs> <ops>
  rename <fs> <path> <path>          -- one `os.rename`
  chmod <fs> <path> <T|F>            -- one `_set_executability`

fs  = entries joined by `;`, entry = `<path>|<kind f|x|d|l>|<data>` (`x` = regular file with
      the owner-executable bit); path = components joined by `/` (each component hex),
      root = `.`; data = hex string or `-`
ops = `r:<path>:<path>` | `p:<path>:<path>` | `c:<path>:<T|F>` joined by `;` (`-` = none)
jc  = mode changes are journalled

replies: apply  → `<raised|~> <md old|new> <rollbackFailed T|F> <noClobber T|F> <noModeChange T|F> <fs sorted>`
         rename → `ok <fs sorted>` | `E:<errno>`;  chmod → `ok <old T|F> <fs sorted>` | `E:<errno>`
-/
namespace BreezyVerif.C13

def parsePath (s : String) : Option Path :=
  if s == "." then some [] else (s.splitOn "/").mapM fun c => if c.isEmpty then none else some c

def showPath (p : Path) : String := if p.isEmpty then "." else "/".intercalate p

def parseEntry (s : String) : Option (Path × Node) :=
  match s.splitOn "|" with
  | [p, "f", d] => (parsePath p).map fun p => (p, .file d false)
  | [p, "x", d] => (parsePath p).map fun p => (p, .file d true)
  | [p, "d", _] => (parsePath p).map fun p => (p, .dir)
  | [p, "l", d] => (parsePath p).map fun p => (p, .link d)
  | _ => none

def showEntry (e : Path × Node) : String :=
  match e.2 with
  | .file d false => s!"{showPath e.1}|f|{d}"
  | .file d true => s!"{showPath e.1}|x|{d}"
  | .dir => s!"{showPath e.1}|d|-"
  | .link d => s!"{showPath e.1}|l|{d}"

def parseFS (s : String) : Option FS :=
  if s == "-" then some [] else (s.splitOn ";").mapM parseEntry

def showFS (fs : FS) : String :=
  joinList' ((fs.map showEntry).mergeSort (fun a b => decide (a ≤ b)))
where joinList' (l : List String) : String := if l.isEmpty then "-" else ";".intercalate l

def parseOp (s : String) : Option Op :=
  match s.splitOn ":" with
  | ["r", a, b] => do pure (.rename (← parsePath a) (← parsePath b))
  | ["p", a, b] => do pure (.preDelete (← parsePath a) (← parsePath b))
  | ["c", a, "T"] => do pure (.chmod (← parsePath a) true)
  | ["c", a, "F"] => do pure (.chmod (← parsePath a) false)
  | _ => none

def parseOps (s : String) : Option (List Op) :=
  if s == "-" then some [] else (s.splitOn ";").mapM parseOp

def parseB (s : String) : Option Bool := if s == "T" then some true else if s == "F" then some false else none

def handle : List String → String
  | ["apply", o, jc, f1, f2, fu, fm, fs, ops] =>
    match (if o == "D" then some Order.deletionsFirst else if o == "M" then some Order.metadataFirst else none),
          parseB jc, optNat f1, optNat f2, optNat fu, parseB fm, parseFS fs, parseOps ops with
    | some o, some jc, some f1, some f2, some fu, some fm, some fs, some ops =>
      let r := applyF o jc fs ops { mover := f1, undo := fu, metaUpdate := fm, deletion := f2 }
      let raised := match r.raised with | none => "~" | some e => e.toString
      let md := match r.md with | .old => "old" | .new => "new"
      s!"{raised} {md} {showBool r.rollbackFailed} {showBool (noClobber jc { fs := fs } ops f1)} {showBool (noModeChange jc { fs := fs } ops f1)} {showFS r.fs}"
    | _, _, _, _, _, _, _, _ => "bad-op"
  | ["rename", fs, a, b] =>
    match parseFS fs, parsePath a, parsePath b with
    | some fs, some a, some b =>
      (match rename fs a b with
        | .ok fs' => s!"ok {showFS fs'}"
        | .error e => s!"E:{e.toString}")
    | _, _, _ => "bad-op"
  | ["chmod", fs, a, x] =>
    match parseFS fs, parsePath a, parseB x with
    | some fs, some a, some x =>
      (match chmod fs a x with
        | .ok (fs', old) => s!"ok {showBool old} {showFS fs'}"
        | .error e => s!"E:{e.toString}")
    | _, _, _ => "bad-op"
  | _ => "bad-op"

end BreezyVerif.C13

def main : IO Unit := BreezyVerif.runDriver BreezyVerif.C13.handle
