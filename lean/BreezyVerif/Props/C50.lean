import BreezyVerif.Lemmas.C50
import BreezyVerif.Lemmas.C50M
import BreezyVerif.Lemmas.C50W
/-!
C50 — theorems about the model of `breezy/cmdline.py`.

All statements are for every command line / argument list over *all* Unicode
scalar values (no length bound) and both values of `single_quotes_allowed`.
-/
namespace BreezyVerif.C50

/-- **Round trip.**  Every list of arguments (any characters, including
whitespace, quotes, backslashes and the empty argument), each quoted by the
documented rules and joined with single spaces, is split back into exactly the
same list; every token is reported as quoted. -/
theorem tokens_join_quote (sq : Bool) (args : List Str) :
    tokens sq (joinSp (args.map (quote sq))) = args.map (fun a => (true, a)) := by
  have single : ∀ a, tokens sq (quote sq a) = [(true, a)] := by
    intro a
    have h := (esc_read sq .ws [] a).1 { quoted := true }
    simp only [tokens, quote, run, procExit, isWs_dq, allowed_dq]
    simp only [Bool.false_eq_true, if_false, if_true]
    rw [h]
    simp [run, finish, emit, result, Ctx.app]
  have cons : ∀ a more, tokens sq (quote sq a ++ ' ' :: more) = (true, a) :: tokens sq more := by
    intro a more
    have h := (esc_read sq .ws (' ' :: more) a).1 { quoted := true }
    simp only [tokens, quote, run, procExit, isWs_dq, allowed_dq, List.cons_append,
      List.append_assoc, List.nil_append]
    simp only [Bool.false_eq_true, if_false, if_true]
    rw [h]
    simp [run, procExit, emit, result, Ctx.app]
  induction args with
  | nil => simp [joinSp, tokens, run, finish, emit, result]
  | cons a r ih =>
    cases r with
    | nil => simpa [joinSp] using single a
    | cons b r' =>
      simp only [List.map_cons, joinSp] at ih ⊢
      rw [cons, ih]

/-- `cmdline.split(" ".join(quote(a) for a in args)) == args` -/
theorem split_join_quote (sq : Bool) (args : List Str) :
    split sq (joinSp (args.map (quote sq))) = args := by
  simp [split, tokens_join_quote, Function.comp_def]

/-- non-vacuity: an argument list with every special character and an empty
argument really is quoted into something non-trivial and comes back -/
example : joinSp (["a b".toList, [], "\\\"'\\".toList].map (quote true))
      = "\"a b\" \"\" \"\\\\\\\"'\\\\\"".toList
    ∧ split true (joinSp (["a b".toList, [], "\\\"'\\".toList].map (quote true)))
      = ["a b".toList, [], "\\\"'\\".toList] := by decide

/-- **Unquoted words.**  Non-empty words made of characters outside the quoting
syntax and of backslashes (literal when no quote follows), separated by
arbitrary non-empty whitespace (any Unicode whitespace), with optional leading
and trailing whitespace, are split into exactly these words, none reported as
quoted.  `items` are (separator-before, word) pairs. -/
theorem split_unquoted_words (sq : Bool) (items : List (Str × Str)) (trail : Str)
    (hitems : ∀ p ∈ items, p.1.all isWs = true ∧ p.2 ≠ [] ∧ p.2.all (wordChar sq) = true)
    (hsep : ∀ p ∈ items.tail, p.1 ≠ [])
    (htrail : trail.all isWs = true) :
    tokens sq (wsJoin items ++ trail) = items.map (fun p => (false, p.2)) :=
  tokens_wsJoin sq trail htrail items hitems hsep

/-- non-vacuity of the hypotheses: `\tfoo\\  \u3000\\\\host\\x\n` -/
example :
    let items : List (Str × Str) := [(['\t'], "foo\\".toList), ("  \u3000".toList, "\\\\host\\x".toList)]
    (∀ p ∈ items, p.1.all isWs = true ∧ p.2 ≠ [] ∧ p.2.all (wordChar true) = true)
      ∧ (∀ p ∈ items.tail, p.1 ≠ []) ∧ ['\n'].all isWs = true
      ∧ wsJoin items ++ ['\n'] = "\tfoo\\  \u3000\\\\host\\x\n".toList := by decide

/-- **Nothing invented.**  The concatenation of the tokens is a subsequence of
the command line. -/
theorem split_sublist (sq : Bool) (s : Str) : (split sq s).flatten.Sublist s := by
  have h := run_sublist sq s (.at (.plain .ws)) {}
  simpa [split, tokens, flat, pend] using h

/-- **Nothing lost outside the quoting syntax.**  The characters that are not
whitespace, allowed quote characters or backslashes survive, in order. -/
theorem split_keeps_plain (sq : Bool) (s : Str) :
    (split sq s).flatten.filter (plain sq) = s.filter (plain sq) := by
  have h := run_plain sq s (.at (.plain .ws)) {} (inv_start sq)
  simpa [split, tokens, flat] using h

/-- an unquoted token is never empty (`result` / StopIteration rule) -/
theorem tokens_unquoted_nonempty (sq : Bool) (s : Str) :
    ∀ t ∈ tokens sq s, t.1 = true ∨ t.2 ≠ [] := by
  have emit_ok : ∀ (x : Ctx) (rest : List (Bool × Str)),
      (∀ t ∈ rest, t.1 = true ∨ t.2 ≠ []) → ∀ t ∈ emit x rest, t.1 = true ∨ t.2 ≠ [] := by
    intro x rest hr t ht
    unfold emit at ht
    cases hres : result x with
    | none => simp [hres] at ht
    | some u =>
      simp only [hres, List.mem_cons] at ht
      rcases ht with rfl | ht
      · unfold result at hres
        split at hres
        · simp at hres
        · rename_i hc
          simp only [Option.some.injEq] at hres; subst hres
          cases hq : x.quoted
          · right
            simp only [hq, Bool.not_false, Bool.true_and, List.isEmpty_iff] at hc
            exact hc
          · left; rfl
      · exact hr t ht
  have gen : ∀ (s : Str) (st : State) (x : Ctx), ∀ t ∈ run sq st x s, t.1 = true ∨ t.2 ≠ [] := by
    intro s
    induction s with
    | nil => intro st x; rw [run_nil]; exact emit_ok _ _ (by simp)
    | cons c cs ih =>
      intro st x
      rw [run_cons]
      generalize step1 sq st x c = r
      obtain ⟨o, x'⟩ := r
      cases o with
      | some st' => exact ih st' x'
      | none => exact emit_ok _ _ (ih _ _)
  exact gen s _ _

/-- **Totality of the literal machine.**  The transcription of the Python
classes with the explicit push-back stack, the token as a list of appended
pieces and the `for next_char in self.seq` loop (fuel `2·len + 2`) never runs
out of fuel and computes exactly `tokens`; hence all theorems above hold for
it. -/
theorem split_total (sq : Bool) (s : Str) : splitM sq s = some (split sq s) := by
  simp [splitM, split, mTokens_eq sq s]

end BreezyVerif.C50

namespace BreezyVerif.C50

/-- the round trip, stated for the literal machine -/
theorem splitM_join_quote (sq : Bool) (args : List Str) :
    splitM sq (joinSp (args.map (quote sq))) = some args := by
  rw [split_total, split_join_quote]

/-- examples from `test_cmdline.py` evaluated in the model (both machines) -/
example : tokens false "\"\\\\\\\\\" *.py".toList = [(true, "\\\\".toList), (false, "*.py".toList)]
    ∧ mTokens false "\\\\\\\\\\\" *.py".toList = some [(false, "\\\\\"".toList), (false, "*.py".toList)]
    ∧ tokens true "a '' c".toList = [(false, ['a']), (true, []), (false, ['c'])]
    ∧ tokens false "''".toList = [(false, "''".toList)] := by decide

end BreezyVerif.C50
