import BreezyVerif.Lemmas.C11
/-! C11 — lemmas: running the pass a second time changes nothing. -/
namespace BreezyVerif.C11
open BreezyVerif.C46 Forest

/-! pure Boolean form of `step`: `bz` bzr (the listing looks at the flag; tree references), `w` the
parent is scanned, `l0` not in the control directory, `ig` ignored, `sc` scheduled, `hd` holds a
`.bzr` directory, `po` the visit leaves the flag alone, `nt` the visit does not add, `v` versioned,
`o` on a named path -/
def visB (bz w l0 ig sc hd v o : Bool) : Bool :=
  (w && (l0 && (if bz then (v || o) || !ig else !ig))) || (sc && !(bz && v && hd))

def flagB (bz w l0 ig sc hd po nt v o : Bool) : Bool :=
  if visB bz w l0 ig sc hd v o then (if po then v || o else (v || o) || !nt) else v || o

theorem idem_core : ∀ (bz w1 w2 l0 ig sc hd1 hd2 po nt v o : Bool), (w2 = true → w1 = true) → (hd1 = true → hd2 = true) →
    flagB bz w2 l0 ig sc hd2 po nt (flagB bz w1 l0 ig sc hd1 po nt v o) o = flagB bz w1 l0 ig sc hd1 po nt v o ∧
    (visB bz w2 l0 ig sc hd2 (flagB bz w1 l0 ig sc hd1 po nt v o) o = true → visB bz w1 l0 ig sc hd1 v o = true) := by
  decide

variable {c : Cfg} {pre pre' : Pre} {p : Path} {i : Info} {k k' : Forest} {x : Bool}

theorem step_bzr (hf : c.fmt = .bzr) (m : Mode) :
    step c pre p m i k =
      (flagB true (m == .walk) (!(p.head? == some ".bzr")) i.ignored (sched c pre.ud p i) (k.hasDir ".bzr" && !pre.conv.contains p)
          (passedOver c p i) (isNestedTree i k) i.versioned (onPath c p i),
        if visB true (m == .walk) (!(p.head? == some ".bzr")) i.ignored (sched c pre.ud p i) (k.hasDir ".bzr" && !pre.conv.contains p)
            i.versioned (onPath c p i) && opens c p i k then .walk else .idle) := by
  have hv : visited c pre p m i k (i.versioned || onPath c p i) =
      visB true (m == .walk) (!(p.head? == some ".bzr")) i.ignored (sched c pre.ud p i) (k.hasDir ".bzr" && !pre.conv.contains p)
        i.versioned (onPath c p i) := by
    simp [visited, listed, namedTreeRef, hf, visB, Bool.or_assoc]
  simp only [step, hv, flagB, visitFlag, hf]
  cases visB true (m == .walk) (!(p.head? == some ".bzr")) i.ignored (sched c pre.ud p i) (k.hasDir ".bzr" && !pre.conv.contains p)
        i.versioned (onPath c p i) <;> simp

theorem step_git (hf : c.fmt = .git) (m : Mode) :
    step c pre p m i k =
      (flagB false (m == .walk) (!(p.head? == some ".git")) i.ignored (sched c pre.ud p i) false
          (i.kind == .dir || passedOver c p i) i.helper i.versioned (onPath c p i),
        if visB false (m == .walk) (!(p.head? == some ".git")) i.ignored (sched c pre.ud p i) false
            i.versioned (onPath c p i) && opens c p i k then .walk else .idle) := by
  have hv : visited c pre p m i k (i.versioned || onPath c p i) =
      visB false (m == .walk) (!(p.head? == some ".git")) i.ignored (sched c pre.ud p i) false
        i.versioned (onPath c p i) := by
    have : (Fmt.git == Fmt.bzr) = false := by decide
    simp [visited, listed, namedTreeRef, hf, visB, this]
  simp only [step, hv, flagB, visitFlag, hf]
  cases visB false (m == .walk) (!(p.head? == some ".git")) i.ignored (sched c pre.ud p i) false
        i.versioned (onPath c p i) <;> simp

@[simp] theorem onPath_setV : onPath c p { i with versioned := x } = onPath c p i := rfl
@[simp] theorem sched_setV : sched c pre.ud p { i with versioned := x } = sched c pre.ud p i := rfl
@[simp] theorem passedOver_setV : passedOver c p { i with versioned := x } = passedOver c p i := rfl
@[simp] theorem opens_setV : opens c p { i with versioned := x } k = opens c p i k := rfl
@[simp] theorem isNestedTree_setV : isNestedTree { i with versioned := x } k = isNestedTree i k := rfl

theorem opens_congr (hc : hasCtl k' = hasCtl k) : opens c p i k' = opens c p i k := by
  simp [opens, hc]

theorem isNestedTree_congr (hc : hasCtl k' = hasCtl k) : isNestedTree i k' = isNestedTree i k := by
  simp [isNestedTree, hc]

/-- a second `step` on the result of a first one, in a mode that scans at most what the first
scanned (and with at most the conversions of the first), gives the same flag and scans at most
what the first scanned -/
theorem step_idem {m1 m2 : Mode} (hm : m2 = .walk → m1 = .walk) (hc : hasCtl k' = hasCtl k)
    (hd : k'.hasDir ".bzr" = k.hasDir ".bzr") (hu : pre'.ud = pre.ud)
    (hv : pre'.conv.contains p = true → pre.conv.contains p = true) :
    (step c pre' p m2 { i with versioned := (step c pre p m1 i k).1 } k').1 = (step c pre p m1 i k).1 ∧
      ((step c pre' p m2 { i with versioned := (step c pre p m1 i k).1 } k').2 = .walk →
        (step c pre p m1 i k).2 = .walk) := by
  have hw : ((m2 == Mode.walk) = true → (m1 == Mode.walk) = true) := by
    cases m1 <;> cases m2 <;> simp_all
  cases hf : c.fmt with
  | bzr =>
    have := idem_core true (m1 == .walk) (m2 == .walk) (!(p.head? == some ".bzr")) i.ignored (sched c pre.ud p i)
      (k.hasDir ".bzr" && !pre.conv.contains p) (k.hasDir ".bzr" && !pre'.conv.contains p)
      (passedOver c p i) (isNestedTree i k) i.versioned (onPath c p i) hw
      (by cases h1 : pre'.conv.contains p <;> cases h2 : pre.conv.contains p <;> simp_all)
    rw [step_bzr hf m2, step_bzr hf m1]
    simp only [onPath_setV, sched_setV, passedOver_setV, opens_setV, isNestedTree_setV, hd, hu,
      opens_congr hc, isNestedTree_congr hc]
    refine ⟨this.1, ?_⟩
    intro h
    split at h
    · rename_i h2
      simp only [Bool.and_eq_true] at h2
      rw [this.2 h2.1, h2.2]; rfl
    · cases h
  | git =>
    have := idem_core false (m1 == .walk) (m2 == .walk) (!(p.head? == some ".git")) i.ignored (sched c pre.ud p i)
      false false (i.kind == .dir || passedOver c p i) i.helper i.versioned (onPath c p i) hw (fun h => h)
    rw [step_git hf m2, step_git hf m1]
    simp only [onPath_setV, sched_setV, opens_setV, passedOver_setV, opens_congr hc, hu]
    refine ⟨this.1, ?_⟩
    intro h
    split at h
    · rename_i h2
      simp only [Bool.and_eq_true] at h2
      rw [this.2 h2.1, h2.2]; rfl
    · cases h

/-- a second pass in a mode that scans at most what the first scanned changes nothing -/
theorem pass_idem (c : Cfg) (pre pre' : Pre) (f : Forest) (here : Path) (m1 m2 : Mode)
    (hm : m2 = .walk → m1 = .walk) (hu : pre'.ud = pre.ud)
    (hv : ∀ p, pre'.conv.contains p = true → pre.conv.contains p = true) :
    pass c pre' here m2 (pass c pre here m1 f) = pass c pre here m1 f := by
  induction f generalizing here m1 m2 with
  | nil => rfl
  | cons i kids rest ih1 ih2 =>
    have hs := step_idem (c := c) (pre := pre) (pre' := pre') (p := here ++ [i.name]) (i := i) (k := kids)
      (k' := pass c pre (here ++ [i.name]) (step c pre (here ++ [i.name]) m1 i kids).2 kids) hm
      (pass_hasCtl _ _ _ _ _) (pass_hasDir _ _ _ _ _ _) hu (hv _)
    simp only [pass]
    rw [hs.1, ih1 _ _ _ hs.2, ih2 _ _ _ hm]

/-- an entry that is unversioned after the pass was unversioned before -/
theorem unversioned_of_pass {here : Path} {m : Mode} {f : Forest} (e : Path)
    (h : (match (pass c pre here m f).get e with | some (i, _) => !i.versioned | none => false) = true) :
    (match f.get e with | some (i, _) => !i.versioned | none => false) = true := by
  cases hg : f.get e with
  | none => rw [pass_get_none hg] at h; exact h
  | some x =>
    obtain ⟨i, k⟩ := x
    obtain ⟨m', _, h2⟩ := pass_get (c := c) (pre := pre) (here := here) (m := m) hg
    rw [h2] at h
    simp only [Bool.not_eq_true'] at h ⊢
    cases hv : i.versioned with
    | false => rfl
    | true => rw [step_of_v1 c pre _ m' i k (by simp [hv])] at h; cases h

theorem unversionedBelow_pass {here : Path} {m : Mode} {f : Forest} (p n : Path)
    (h : unversionedBelow (pass c pre here m f) p n = true) : unversionedBelow f p n = true := by
  simp only [unversionedBelow, List.all_eq_true, Bool.or_eq_true] at h ⊢
  intro j hj
  rcases h j hj with h1 | h1
  · exact Or.inl h1
  · exact Or.inr (unversioned_of_pass _ h1)

theorem convBefore_pass {here : Path} {m : Mode} {f : Forest} (names : List Path) (p : Path)
    (h : convBefore names (pass c pre here m f) p = true) : convBefore names f p = true := by
  simp only [convBefore, List.any_eq_true, Bool.and_eq_true] at h ⊢
  obtain ⟨n, hn, ⟨h1, h2⟩, h3⟩ := h
  exact ⟨n, hn, ⟨h1, h2⟩, unversionedBelow_pass p n h3⟩

theorem preOf_pass_ud (c' : Cfg) {here : Path} {m : Mode} (f : Forest) :
    (preOf c' (pass c pre here m f)).ud = (preOf c' f).ud := by
  simp only [preOf]
  unfold userDirs
  apply List.filter_congr
  intro n _
  have := pass_get_kind (c := c) (pre := pre) (here := here) (m := m) (f := f) n
  cases h1 : (pass c pre here m f).get n <;> cases h2 : f.get n <;> simp_all

theorem preOf_pass_conv (c' : Cfg) {here : Path} {m : Mode} (f : Forest) (p : Path)
    (h : (preOf c' (pass c pre here m f)).conv.contains p = true) : (preOf c' f).conv.contains p = true := by
  simp only [preOf, List.contains_eq_mem, List.mem_filter, decide_eq_true_eq] at h ⊢
  exact ⟨h.1, convBefore_pass _ _ h.2⟩

end BreezyVerif.C11
