/-
C23 — checkouts and their master branches stay in step.

State: one revision graph, a master branch `M` (with its own working tree and a
lightweight checkout `L` whose branch *is* the master) and a heavyweight
checkout `H` (own branch, possibly bound to the master).  Model of

* `breezy/commit.py`: `Commit._check_bound_branch` (local requires bound;
  bound: local tip must equal master tip, else `BoundBranchOutOfDate`),
  `_check_out_of_date_tree` (first tree parent must be the reference branch's
  tip unless that is null), `_update_branches` (master first, then local);
* `breezy/bzr/branch.py`: `BzrBranch.update` (pull from the master with
  overwrite, returns the old tip when it was pivoted out), `bind`, `unbind`;
* `breezy/branch.py`: `GenericInterBranch._update_revisions` (nothing to do for
  an empty source; descendant / diverged check unless overwriting);
* `breezy/bzr/workingtree.py`: `InventoryWorkingTree.update` / `_update_tree` /
  `pull` on the level of tree parents (merges are assumed conflict-free);
* `breezy/bzr/workingtree_4.py`: `WorkingTree4.set_parent_trees` (the basis is
  always kept; a pending merge is dropped when it was listed already or is not
  a head of the parent list).

Every tip write (`set_last_revision_info` that changes the tip) is pushed onto
`log` (newest first) with the branch and the operation kind that caused it.

A SECOND heavyweight checkout `H2` of the same master (own branch `loc2`, own
tree `tH2`, own binding) is obtained by symmetry: `Op.onH2 op` runs `op` with
the roles of the two checkouts exchanged (`swapH`).  The master itself can be
bound to the third branch (`bindM`): a commit through a checkout is then
refused with `CommitToDoubleBoundBranch`; the operations that would involve the
master's own master answer `unmodelled` and are never generated.

The revision graph is a list NEWEST ENTRY FIRST; the parents of an entry are
looked up among the older entries only, so that ancestry and revno are
structurally recursive (no fuel) - the representation of C21.
-/
namespace BreezyVerif.C23

abbrev Rev := String

def null : Rev := "null:"

abbrev Graph := List (Rev × List Rev)

structure Tree where
  basis : Rev
  merges : List Rev
  deriving DecidableEq, Repr

inductive Br where
  | master | loc | loc2
  deriving DecidableEq, Repr

inductive Cause where
  | boundCommit | commit | update | pull
  deriving DecidableEq, Repr

structure Entry where
  br : Br
  rev : Rev
  cause : Cause
  deriving DecidableEq, Repr

structure St where
  graph : Graph
  master : Rev
  loc : Rev
  bound : Bool
  tM : Tree
  tH : Tree
  tL : Tree
  log : List Entry
  other : Rev := null       -- tip of an independent branch `O` (own repository and tree)
  tO : Tree := ⟨null, []⟩
  third : Rev := null       -- tip of a third branch `P`, the target of `push`
  loc2 : Rev := null        -- the second heavyweight checkout `H2`: branch tip,
  bound2 : Bool := true     --   binding to the master,
  tH2 : Tree := ⟨null, []⟩  --   working tree
  masterBound : Bool := false   -- the master itself is bound (to `P`)
  deriving DecidableEq, Repr

def init : St :=
  { graph := [], master := null, loc := null, bound := true,
    tM := ⟨null, []⟩, tH := ⟨null, []⟩, tL := ⟨null, []⟩, log := [] }

/-! ### graph -/

/-- all ancestors of `r`, `r` included (structural: parents live in the tail) -/
def anc : Graph → Rev → List Rev
  | [], r => [r]
  | (n, ps) :: g, r => if n = r then r :: ps.flatMap (fun p => anc g p) else anc g r

/-- `graph.is_ancestor(a, b)`: null is an ancestor of everything -/
def isAncestor (g : Graph) (a b : Rev) : Bool :=
  a == null || (anc g b).contains a

/-- length of the left-hand history of a revision -/
def revnoS : Graph → Rev → Nat
  | [], _ => 0
  | (n, ps) :: g, r =>
    if n = r then
      match ps with
      | [] => 1
      | p :: _ => 1 + revnoS g p
    else revnoS g r

/-- the revno of a tip: `null:` has revno 0 -/
def revno (g : Graph) (r : Rev) : Nat := if r = null then 0 else revnoS g r

/-! ### operations -/

inductive Who where
  | M | H | L
  deriving DecidableEq, Repr

inductive Op where
  | commit (w : Who) (r : Rev) (localOnly : Bool)
  | update (w : Who)
  | pull          -- in H: `wt.pull(master)`
  | bind
  | unbind
  | commitO (r : Rev)                 -- commit in the other branch's own tree
  | syncO                             -- in O: `wt.pull(master, overwrite=True)`
  | pullOther (w : Who) (stop : Option Rev) (overwrite localOnly : Bool)
                                      -- in w's tree: `wt.pull(O, stop_revision=stop, overwrite=…, local=…)`
  | push (w : Who)                    -- `branch_of(w).push(P)`
  | bindM                             -- bind the master to the third branch `P`
  | unbindM
  | onH2 (op : Op)                    -- `op` in the second heavyweight checkout (roles of H and H2 exchanged)
  deriving DecidableEq, Repr

inductive Out where
  | ok
  | boundOutOfDate
  | outOfDateTree
  | localRequiresBound
  | diverged
  | doubleBound         -- CommitToDoubleBoundBranch
  | unmodelled          -- an operation that involves the master's own master
  deriving DecidableEq, Repr

/-- `work_tree.get_parent_ids()` -/
def Tree.parents (t : Tree) : List Rev :=
  if t.basis == null then [] else t.basis :: t.merges

/-- `_check_out_of_date_tree`: the reference tip must be the first tree parent,
unless the reference branch is empty -/
def treeUpToDate (t : Tree) (ref : Rev) : Bool := ref == t.basis || ref == null

def addRev (g : Graph) (r : Rev) (ps : List Rev) : Graph := (r, ps) :: g

/-- commit in the heavyweight checkout -/
def commitH (s : St) (r : Rev) (localOnly : Bool) : St × Out :=
  if localOnly && !s.bound then (s, .localRequiresBound)
  else if !localOnly && s.bound then
    -- _check_bound_branch: the master is the reference branch; it must not be bound itself
    if s.masterBound then (s, .doubleBound)
    else if s.loc != s.master then (s, .boundOutOfDate)
    else if !treeUpToDate s.tH s.master then (s, .outOfDateTree)
    else
      ({ s with graph := addRev s.graph r s.tH.parents, master := r, loc := r, tH := ⟨r, []⟩,
                log := ⟨.loc, r, .boundCommit⟩ :: ⟨.master, r, .boundCommit⟩ :: s.log }, .ok)
  else
    -- unbound, or --local: the local branch is the reference branch
    if !treeUpToDate s.tH s.loc then (s, .outOfDateTree)
    else
      ({ s with graph := addRev s.graph r s.tH.parents, loc := r, tH := ⟨r, []⟩,
                log := ⟨.loc, r, .commit⟩ :: s.log }, .ok)

/-- commit in the master's own tree or in the lightweight checkout -/
def commitMaster (s : St) (w : Who) (r : Rev) (localOnly : Bool) : St × Out :=
  if s.masterBound then (s, .unmodelled)
  else if localOnly then (s, .localRequiresBound)
  else
    let t := if w == .M then s.tM else s.tL
    if !treeUpToDate t s.master then (s, .outOfDateTree)
    else
      let s' := { s with graph := addRev s.graph r t.parents, master := r,
                         log := ⟨.master, r, .commit⟩ :: s.log }
      (if w == .M then { s' with tM := ⟨r, []⟩ } else { s' with tL := ⟨r, []⟩ }, .ok)

/-- `graph.heads(keys)` membership: `k` is not a proper ancestor of another key -/
def isHead (g : Graph) (keys : List Rev) (k : Rev) : Bool :=
  !(keys.any fun k' => k' != k && isAncestor g k k')

/-- the loop of `WorkingTree4.set_parent_trees` over the parents after the
first: one is kept when it is a head of the whole parent list and has not been
kept already (`acc` = the parents kept so far, the basis included) -/
def acceptParents (g : Graph) (all : List Rev) : List Rev → List Rev → List Rev
  | _, [] => []
  | acc, m :: rest =>
    if acc.contains m || !isHead g all m then acceptParents g all acc rest
    else m :: acceptParents g all (m :: acc) rest

/-- `set_parent_trees([basis] + merges)`: the basis is always kept, the pending
merges are filtered (no duplicates, nothing that is an ancestor of another parent) -/
def mkTree (g : Graph) (basis : Rev) (merges : List Rev) : Tree :=
  ⟨basis, acceptParents g (basis :: merges) [basis] merges⟩

/-- `_update_tree(old_tip)` with target revision `target` (conflict-free) -/
def updateTree (g : Graph) (t : Tree) (target : Rev) (oldTip : Option Rev) : Tree :=
  if t.basis != target then
    mkTree g target (t.merges ++ (match oldTip with | some o => [o] | none => []))
  else t

/-- `WorkingTree.update()` in the heavyweight checkout -/
def updateH (s : St) : St × Out :=
  if s.bound then
    -- BzrBranch.update: pull(master, overwrite=True); nothing happens for an empty master
    let newLoc := if s.master == null then s.loc else s.master
    let oldTip : Option Rev := if isAncestor s.graph s.loc newLoc then none else some s.loc
    let log := if newLoc != s.loc then ⟨.loc, newLoc, .update⟩ :: s.log else s.log
    ({ s with loc := newLoc, log := log, tH := updateTree s.graph s.tH newLoc oldTip }, .ok)
  else
    ({ s with tH := updateTree s.graph s.tH s.loc none }, .ok)

/-- `wt.pull(master)` in the heavyweight checkout -/
def pullH (s : St) : St × Out :=
  if s.master == null then (s, .ok)
  else if isAncestor s.graph s.master s.loc then (s, .ok)         -- local already has the master's tip
  else if !isAncestor s.graph s.loc s.master then (s, .diverged)
  else
    ({ s with loc := s.master, log := ⟨.loc, s.master, .pull⟩ :: s.log,
              tH := mkTree s.graph s.master s.tH.merges }, .ok)

/-- `GenericInterBranch._update_revisions(stop_revision, overwrite)`: the new
tip of the target, `none` = `DivergedBranches` -/
def updateRevisions (g : Graph) (target source : Rev) (stop : Option Rev) (ow : Bool) :
    Option Rev :=
  let st := stop.getD source
  if stop.isNone && source == null then some target          -- nothing to pull from an empty branch
  else if ow then some st
  else if isAncestor g st target then some target            -- the target already has it
  else if !isAncestor g target st then none
  else some st

/-- tree part of `WorkingTree.pull`: rebased on the new tip when the tip moved -/
def pulledTree (g : Graph) (t : Tree) (old new : Rev) : Tree := if new != old then mkTree g new t.merges else t

def logIf (c : Bool) (e : Entry) (l : List Entry) : List Entry := if c then e :: l else l

/-- `GenericInterBranch.pull` with a source that is not the master, in the
heavyweight checkout: when bound and not `local`, the **master is pulled first,
with the same stop revision**, then the local branch; if the local pull then
finds the branches diverged the master has already moved -/
def pullOtherH (s : St) (stop : Option Rev) (ow localOnly : Bool) : St × Out :=
  if localOnly && !s.bound then (s, .localRequiresBound)
  else if s.masterBound && s.bound && !localOnly then (s, .unmodelled)
  else
    let viaMaster := s.bound && !localOnly
    match (if viaMaster then updateRevisions s.graph s.master s.other stop ow else some s.master) with
    | none => (s, .diverged)
    | some m' =>
      let s1 := { s with master := m', log := logIf (m' != s.master) ⟨.master, m', .pull⟩ s.log }
      match updateRevisions s.graph s.loc s.other stop ow with
      | none => (s1, .diverged)
      | some l' =>
        ({ s1 with loc := l', log := logIf (l' != s.loc) ⟨.loc, l', .pull⟩ s1.log,
                   tH := pulledTree s.graph s.tH s.loc l' }, .ok)

/-- the same in the master's tree or the lightweight checkout (the branch is the
master, which is not bound) -/
def pullOtherMaster (s : St) (w : Who) (stop : Option Rev) (ow localOnly : Bool) : St × Out :=
  if s.masterBound then (s, .unmodelled)
  else if localOnly then (s, .localRequiresBound)
  else
    match updateRevisions s.graph s.master s.other stop ow with
    | none => (s, .diverged)
    | some m' =>
      let s1 := { s with master := m', log := logIf (m' != s.master) ⟨.master, m', .pull⟩ s.log }
      (if w == .M then { s1 with tM := pulledTree s.graph s.tM s.master m' }
       else { s1 with tL := pulledTree s.graph s.tL s.master m' }, .ok)

/-- `source.push(P)` into an unbound third branch -/
def pushTo (s : St) (src : Rev) : St × Out :=
  match updateRevisions s.graph s.third src none false with
  | none => (s, .diverged)
  | some p' => ({ s with third := p' }, .ok)

def Entry.swap (e : Entry) : Entry :=
  { e with br := match e.br with | .loc => .loc2 | .loc2 => .loc | .master => .master }

/-- exchange the roles of the two heavyweight checkouts -/
def swapH (s : St) : St :=
  { s with loc := s.loc2, loc2 := s.loc, bound := s.bound2, bound2 := s.bound, tH := s.tH2, tH2 := s.tH,
           log := s.log.map Entry.swap }

/-- `WorkingTree.update()` in the master's tree / the lightweight checkout -/
def updateMasterTree (s : St) (w : Who) : St × Out :=
  if s.masterBound then (s, .unmodelled)     -- would pull the master from ITS master first
  else if w == .M then ({ s with tM := updateTree s.graph s.tM s.master none }, .ok)
  else ({ s with tL := updateTree s.graph s.tL s.master none }, .ok)

def step (s : St) : Op → St × Out
  | .commit .H r l => commitH s r l
  | .commit w r l => commitMaster s w r l
  | .update .H => updateH s
  | .update w => updateMasterTree s w
  | .pull => pullH s
  | .bind => ({ s with bound := true }, .ok)
  | .unbind => ({ s with bound := false }, .ok)
  | .commitO r => ({ s with graph := addRev s.graph r s.tO.parents, other := r, tO := ⟨r, []⟩ }, .ok)
  | .syncO =>
    let o' := if s.master == null then s.other else s.master
    ({ s with other := o', tO := pulledTree s.graph s.tO s.other o' }, .ok)
  | .pullOther .H stop ow l => pullOtherH s stop ow l
  | .pullOther w stop ow l => pullOtherMaster s w stop ow l
  | .push .H => pushTo s s.loc
  | .push _ => pushTo s s.master
  | .bindM => ({ s with masterBound := true }, .ok)
  | .unbindM => ({ s with masterBound := false }, .ok)
  | .onH2 op => ((swapH (step (swapH s) op).1), (step (swapH s) op).2)

def run (s : St) : List Op → St
  | [] => s
  | op :: rest => run (step s op).1 rest

/-- the log discipline of a bound commit (log is newest first): a write to a checkout's
own branch caused by a bound commit comes directly after the master write of
the same revision -/
def masterFirst : List Entry → Bool
  | [] => true
  | [e] => !(e.br != .master && e.cause == .boundCommit)
  | e :: m :: rest =>
    if e.br != .master && e.cause == .boundCommit then
      m.br == .master && m.cause == .boundCommit && m.rev == e.rev && masterFirst rest
    else masterFirst (m :: rest)

end BreezyVerif.C23
