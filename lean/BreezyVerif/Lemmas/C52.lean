import BreezyVerif.Model.C52
/-!
C52 — helper definitions and the single-step lemma about `applyFlags`.
-/
namespace BreezyVerif.C52

/-- what a transition may do to the observation: history, tags and format tag
stay; a tree that is kept is untouched; a tree that goes away had no pending
changes; a tree that appears is the clean tree of the tip -/
def Keeps (l l' : Loc) : Prop :=
  l'.tip = l.tip ∧ l'.hist = l.hist ∧ l'.tags = l.tags ∧ l'.format = l.format ∧
  (l.tree = true → l'.tree = true → l'.treeCode = l.treeCode ∧ l'.dirty = l.dirty) ∧
  (l.tree = true → l'.tree = false → l.dirty = false) ∧
  (l.tree = false → l'.tree = true → l'.dirty = false ∧ l'.treeCode = cleanCode l.tip)

/-- a clean working tree is the tree of the tip -/
def TreeInv (l : Loc) : Prop := l.tree = true → l.dirty = false → l.treeCode = cleanCode l.tip

def core (l : Loc) : Nat × Nat × Nat × Nat := (l.tip, l.hist, l.tags, l.format)
def treePart (l : Loc) : Bool × Bool × Nat := (l.tree, l.dirty, l.treeCode)

@[simp] theorem core_stRepo (f l) : core (stRepo f l) = core l := by unfold stRepo; split <;> rfl
@[simp] theorem core_stBranch (f l) : core (stBranch f l) = core l := by unfold stBranch; (repeat' split) <;> rfl
@[simp] theorem core_stTree (f l) : core (stTree f l) = core l := by unfold stTree; (repeat' split) <;> rfl
@[simp] theorem core_stUnbind (f l) : core (stUnbind f l) = core l := by unfold stUnbind; split <;> rfl
@[simp] theorem core_stBind (f l) : core (stBind f l) = core l := by unfold stBind; split <;> rfl
@[simp] theorem core_stDropRepo (f a l) : core (stDropRepo f a l) = core l := by unfold stDropRepo; split <;> rfl
@[simp] theorem tp_stRepo (f l) : treePart (stRepo f l) = treePart l := by unfold stRepo; split <;> rfl
@[simp] theorem tp_stBranch (f l) : treePart (stBranch f l) = treePart l := by unfold stBranch; (repeat' split) <;> rfl
@[simp] theorem tp_stUnbind (f l) : treePart (stUnbind f l) = treePart l := by unfold stUnbind; split <;> rfl
@[simp] theorem tp_stBind (f l) : treePart (stBind f l) = treePart l := by unfold stBind; split <;> rfl
@[simp] theorem tp_stDropRepo (f a l) : treePart (stDropRepo f a l) = treePart l := by unfold stDropRepo; split <;> rfl

theorem tp_stTree_congr (f : Flags) (x y : Loc) (h1 : treePart x = treePart y) (h2 : core x = core y) :
    treePart (stTree f x) = treePart (stTree f y) := by
  simp only [treePart, core, Prod.mk.injEq] at h1 h2
  unfold stTree treePart
  repeat' split
  all_goals simp_all

/-- every exit of `apply` leaves history, tags and format alone, and the tree either as it was or as `stTree` makes it -/
theorem applyFlags_parts (l : Loc) (f : Flags) (force : Bool) :
    core (applyFlags l f force).1 = core l ∧
    (treePart (applyFlags l f force).1 = treePart l ∨
     ((force = true ∨ f.destroyTree = false ∨ l.dirty = false) ∧ treePart (applyFlags l f force).1 = treePart (stTree f l))) := by
  have hc : treePart (stTree f (stBranch f (stRepo f l))) = treePart (stTree f l) :=
    tp_stTree_congr f _ _ (by simp) (by simp)
  unfold applyFlags
  split
  · simp
  · rename_i h0
    have hh : force = true ∨ f.destroyTree = false ∨ l.dirty = false := by
      cases force <;> cases hdt : f.destroyTree <;> cases hdd : l.dirty <;> simp_all
    repeat' split
    all_goals simp [hc, hh]

theorem keeps_of_parts (l l' : Loc) (f : Flags) (hcore : core l' = core l)
    (hd : f.destroyTree = true → l.tree = true) (hcr : f.createTree = true → l.tree = false)
    (ht : treePart l' = treePart l ∨ ((f.destroyTree = false ∨ l.dirty = false) ∧ treePart l' = treePart (stTree f l))) :
    Keeps l l' := by
  simp only [core, treePart, Prod.mk.injEq] at hcore ht
  unfold Keeps
  obtain ⟨h1, h2, h3, h4⟩ := hcore
  refine ⟨h1, h2, h3, h4, ?_⟩
  rcases ht with ht | ⟨hsafe, ht⟩
  · obtain ⟨a, b, c⟩ := ht
    simp_all
  · unfold stTree at ht
    cases hdt : f.destroyTree <;> cases hct : f.createTree <;> cases hlt : l.tree <;> simp_all

theorem keeps_refl (l : Loc) : Keeps l l := by
  unfold Keeps
  refine ⟨rfl, rfl, rfl, rfl, ?_, ?_, ?_⟩ <;> intro a b <;> simp_all

end BreezyVerif.C52
